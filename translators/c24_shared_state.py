#!/usr/bin/env python3
"""Regenerate lean/C2paModel/Gen/C24SharedState.lean from /repo/sdk/src (C24 / C38).

Scope: every source file reachable from lib.rs through `mod x;` declarations that are not
`#[cfg(test)]` / verification-hook items.  Test items are removed by *brace-matched* blanking
(c24_rustscan.strip_test_items), so code that follows an inline test module is still seen.  `#[cfg]`
conditions other than `test` are NOT evaluated: items of every feature / target are inventoried.

Tables
  sharedState    every `static` (plain, `static mut`, `lazy_static!`, `thread_local!`, also inside fn
                 bodies) with a syntactic kind, plus the interior-mutable cells of `Context`
  tlsTouchers    every fn that (transitively, name-resolved call graph) reaches a `thread_local!`
                 static of the SDK: (file, Type::fn, writes)
  tlsDynTouchers trait-impl methods with a `self` receiver (dynamic dispatch) that reach it; not
                 propagated further
  ctxOrTls       one row per fn that takes a context or is in tlsTouchers:
                 (file, Type::fn, takesContext, reachesTls); takesContext = has a parameter whose
                 type mentions `Context` / `Settings`, or a `self` receiver of a type that has a
                 `Context` / `Settings` field ("context carrier")
  contextCarriers the carrier types
  settingsApi    every `pub fn` of `impl Settings`, `impl Context`, `impl IntoSettings for _`:
                 (file, Type::fn, deprecated, reachesTls, writesTls)
  interiorFields every struct field / enum payload whose type mentions an interior-mutability or
                 lazy-cell wrapper: (file, Type::field, wrapper)
  lazyInits      per lazily initialised static: does the initialiser mention settings / context /
                 thread-local state, environment, clock or randomness
  cacheFields / cacheFieldWriters  struct fields named like a cache (`cache`, `memo`) and every fn
                 that writes one (insert / remove / clear / assignment / `&mut` borrow)
  nondetSites    fns that read the clock, the environment or a random source, and fns that iterate
                 a `HashMap` / `HashSet` (field declared in the same file, parameter or local of that type)
Fails closed (exit 1) on anything it cannot bracket-match, on unresolved `mod` declarations, and on a
use of a thread-local static it cannot classify.
"""
import hashlib, json, os, re, sys

sys.path.insert(0, os.path.dirname(os.path.abspath(__file__)))
import c24_rustscan as R  # noqa: E402

ROOT = os.path.dirname(os.path.dirname(os.path.abspath(__file__)))
SRC = os.environ.get("C24_SRC") or "/repo/sdk/src"
OUT = os.environ.get("C24_OUT") or os.path.join(ROOT, "lean/C2paModel/Gen/C24SharedState.lean")
MUT = re.compile(r"\b(Mutex|RwLock|Atomic\w+|RefCell|Cell|UnsafeCell)\b")
LAZY = re.compile(r"\b(LazyLock|LazyCell|Lazy|OnceLock|OnceCell|Once)\b")
CTX_TY = re.compile(r"\b(Context|Settings)\b")
SETTINGS_WORDS = re.compile(r"\b(settings|Settings|SETTINGS|Context|context|get_thread_local_settings|get_thread_local_value)\b")
ENV_WORDS = re.compile(r"\benv\s*::\s*(var|vars|var_os|args)\b|\bSystemTime\b|\bInstant\s*::\s*now\b|\bUtc\s*::\s*now\b|\bLocal\s*::\s*now\b|\bthread_rng\b|\bOsRng\b|\bgetrandom\b|\bUuid\s*::\s*new_v4\b|\bcurrent_dir\b")
NONDET = [
    ("clock", re.compile(r"\bSystemTime\s*::\s*now\b|\bInstant\s*::\s*now\b|\bUtc\s*::\s*now\b|\bLocal\s*::\s*now\b|\bOffsetDateTime\s*::\s*now_utc\b|\bDate\s*::\s*now\b|\bDate\s*::\s*new_0\b")),
    ("env", re.compile(r"\benv\s*::\s*(?:var|vars|var_os|args|current_dir|temp_dir)\b")),
    ("random", re.compile(r"\bthread_rng\b|\bOsRng\b|\bgetrandom\b|\bUuid\s*::\s*new_v4\b|\brand\s*::\s*random\b|\bSystemRandom\b|\bRandomState\b|\bfill_bytes\b")),
]
HASH_TY = re.compile(r"\b(HashMap|HashSet)\s*<")
ITER_METHODS = r"(?:iter|iter_mut|values|values_mut|keys|into_iter|into_values|into_keys|drain)"


def fail(m):
    print("translator c24_shared_state: " + m)
    sys.exit(1)


# --------------------------------------------------------------------------------------------
# sources


def live_files():
    """rel path -> (raw, blanked+test-stripped) for the module tree below lib.rs."""
    files, todo = {}, ["lib.rs"]
    while todo:
        rel = todo.pop()
        if rel in files:
            continue
        raw = open(os.path.join(SRC, rel), errors="replace").read()
        try:
            b = R.strip_test_items(R.blank(raw))
            R.build_pairs(b)
        except R.ScanError as e:
            fail(f"{rel}: {e}")
        files[rel] = (raw, b)
        base = os.path.dirname(rel)
        stem = os.path.basename(rel)[:-3]
        d = base if stem in ("lib", "mod") else os.path.join(base, stem)
        for m in re.finditer(r"\bmod\s+(\w+)\s*;", b):
            n = m.group(1)
            pre = raw[max(0, m.start() - 200):m.start()]
            pm = re.search(r'#\[path\s*=\s*"([^"]+)"\]\s*(?:pub(?:\([a-z]+\))?\s+)?$', pre)
            cands = [os.path.join(d, n + ".rs"), os.path.join(d, n, "mod.rs")]
            if pm:
                cands.insert(0, os.path.normpath(os.path.join(base, pm.group(1))))
            for c in cands:
                if os.path.exists(os.path.join(SRC, c)):
                    todo.append(c)
                    break
            else:
                fail(f"{rel}: cannot resolve `mod {n};`")
    return files


def attrs_before(t, back, pos):
    """Text of the attribute groups (`#[…]`) and qualifiers directly before offset `pos`
    (`pos` = start of `fn` / `static` / `struct` keyword)."""
    i = pos
    parts = []
    while True:
        j = i - 1
        while j >= 0 and t[j].isspace():
            j -= 1
        if j < 0:
            break
        if t[j] == "]" and j in back:
            o = back[j]
            if o >= 1 and t[o - 1] == "#":
                parts.append(t[o - 1:j + 1])
                i = o - 1
                continue
            if o >= 2 and t[o - 2:o] == "#!":
                break
            break
        if t[j] == ")" and j in back:  # pub(crate)
            o = back[j]
            k = o - 1
            while k >= 0 and t[k].isspace():
                k -= 1
            if t[max(0, k - 2):k + 1] == "pub":
                parts.append(t[k - 2:j + 1])
                i = k - 2
                continue
            break
        m = re.search(r"\b(pub|async|const|unsafe|extern|default)$", t[max(0, j - 8):j + 1])
        if m:
            parts.append(m.group(1))
            i = j + 1 - len(m.group(1))
            continue
        if t[j] == '"':  # extern "C"
            k = t.rfind('"', 0, j)
            if k >= 0:
                i = k
                continue
        break
    return " ".join(reversed(parts))


# --------------------------------------------------------------------------------------------
# statics


def static_rows(rel, t, fwd):
    rows, lazy_inits = [], []
    tl_spans, lz_spans = [], []
    for m in re.finditer(r"\bthread_local!\s*([\(\{\[])", t):
        tl_spans.append((m.start(), fwd[m.end() - 1]))
    for m in re.finditer(r"\blazy_static!\s*([\(\{\[])", t):
        lz_spans.append((m.start(), fwd[m.end() - 1]))
    n_static_kw = 0
    for m in re.finditer(r"\bstatic\b", t):
        # `&'static`, `+ 'static`, `'static` lifetimes are not items
        if m.start() > 0 and t[m.start() - 1] == "'":
            continue
        n_static_kw += 1
        mm = re.compile(r"static\s+(mut\s+)?(ref\s+)?([A-Za-z_][A-Za-z0-9_]*)\s*:").match(t, m.start())
        if not mm:
            # `static move ||` closures / `static async` do not occur in this crate: fail closed
            fail(f"{rel}: cannot parse `static` item at line {t.count(chr(10), 0, m.start()) + 1}")
        name = mm.group(3)
        # type: up to `=` or `;` at bracket depth 0 (angle brackets tracked)
        k, depth = mm.end(), 0
        while k < len(t):
            c = t[k]
            if c in "([{":
                k = fwd[k] + 1
                continue
            if c == "<":
                depth += 1
            elif c == ">" and t[k - 1] not in "-=":
                depth -= 1
            elif c in "=;" and depth <= 0:
                break
            k += 1
        ty = t[mm.end():k].strip()
        # initialiser: up to `;` at depth 0
        e = k
        while e < len(t) and t[e] != ";":
            e = fwd[e] + 1 if t[e] in "([{" else e + 1
        init = t[k + 1:e] if k < len(t) and t[k] == "=" else ""
        pos = m.start()
        if any(a <= pos <= b for a, b in tl_spans):
            kind = "threadLocal"
        elif mm.group(1):
            kind = "mutableGlobal"
        elif MUT.search(ty):
            kind = "mutableGlobal"
        elif any(a <= pos <= b for a, b in lz_spans) or LAZY.search(ty):
            kind = "lazyConst"
        else:
            kind = "const"
        rows.append((rel, name, kind))
        if kind == "lazyConst":
            lazy_inits.append((rel, name, init))
    return rows, lazy_inits


def lazy_init_flags(files, lazy_inits):
    """(file, name, mentionsSettings, mentionsEnv). For `OnceLock`-style statics the initialiser is
    the argument of every `NAME.get_or_init(…)` / `get_or_try_init` / `set(…)` in the same file."""
    out = []
    for rel, name, init in lazy_inits:
        t = files[rel][1]
        fwd, _ = R.build_pairs(t)
        texts = [init]
        for m in re.finditer(r"\b" + re.escape(name) + r"\s*\.\s*(?:get_or_init|get_or_try_init|set|get_or_insert_with|call_once)\s*\(", t):
            texts.append(t[m.end() - 1:fwd[m.end() - 1] + 1])
        body = "\n".join(texts)
        # the raw text is needed for string literals? no: only identifiers matter
        out.append((rel, name, bool(SETTINGS_WORDS.search(body)), bool(ENV_WORDS.search(body))))
    return out


# --------------------------------------------------------------------------------------------
# structs / enums


def type_items(rel, t, fwd):
    """[(type name, [(field or variant name, type text)])] for structs and enums."""
    res = []
    for m in re.finditer(r"\b(struct|enum|union)\s+([A-Za-z_]\w*)", t):
        kind, name = m.group(1), m.group(2)
        k = m.end()
        try:
            k = R.skip_ws(t, k)
            if k < len(t) and t[k] == "<":
                k = R.skip_angle(t, k)
        except R.ScanError:
            continue
        # optional where clause
        while k < len(t) and t[k] not in "{(;":
            k += 1
        if k >= len(t) or t[k] == ";":
            continue
        body = t[k + 1:fwd[k]]
        fields = []
        if t[k] == "(":
            for i, p in enumerate(R.split_top(body)):
                fields.append((str(i), re.sub(r"^\s*(pub(\([a-z ]+\))?\s+)?", "", p.strip())))
        elif kind in ("struct", "union"):
            for p in R.split_top(body):
                p = re.sub(r"#\s*\[[^\]]*\]", " ", p).strip()
                mm = re.match(r"(?:pub(?:\([a-z ]+\))?\s+)?([A-Za-z_]\w*)\s*:\s*(.*)$", p, re.S)
                if mm:
                    fields.append((mm.group(1), mm.group(2).strip()))
        else:
            for p in R.split_top(body):
                p = re.sub(r"#\s*\[[^\]]*\]", " ", p).strip()
                mm = re.match(r"([A-Za-z_]\w*)\s*([\(\{].*)?$", p, re.S)
                if mm and mm.group(2):
                    fields.append((mm.group(1), mm.group(2).strip()))
        res.append((name, fields))
    return res


def wrapper_of(ty):
    ws = []
    for rx in (MUT, LAZY):
        for m in rx.finditer(ty):
            if m.group(1) not in ws:
                ws.append(m.group(1))
    return "+".join(ws)


# --------------------------------------------------------------------------------------------
# call graph


class FnInfo:
    pass


def collect_fns(files):
    fns = []
    for rel, (raw, t) in sorted(files.items()):
        fwd, back = R.build_pairs(t)
        try:
            parsed = R.parse_fns(rel, t, fwd)
        except R.ScanError as e:
            fail(f"{rel}: {e}")
        for f in parsed:
            a = attrs_before(t, back, f.sig_start)
            g = FnInfo()
            g.file, g.name, g.impl, g.trait, g.has_self = rel, f.name, f.impl, f.trait, f.has_self
            g.params = f.params
            g.attrs = a
            g.is_pub = bool(re.search(r"\bpub\b(?!\s*\()", a))
            g.deprecated = "deprecated" in a
            g.async_generic = "async_generic" in a
            g.body = t[f.body_start:f.body_end + 1]
            g.span = (f.sig_start, f.body_end)
            g.line = f.line
            g.qual = (f.impl + "::" if f.impl else "") + f.name
            fns.append(g)
    return fns


CRATE_MODS = set()
USES = {}


def foreign_import(file, name):
    """Is `name` imported into `file` from outside the crate (`use tempfile::Builder;`)?"""
    if file not in USES:
        t = files_blank[file]
        USES[file] = [m.group(1) for m in re.finditer(r"\buse\s+([^;]+);", t)]
    for u in USES[file]:
        if not re.search(r"\b" + name + r"\b(?!\s*::)", u):
            continue
        root = re.match(r"\s*(?:::)?\s*(\w+)", u)
        if root and root.group(1) not in ("crate", "super", "self") and root.group(1) not in CRATE_MODS:
            return True
    return False


def path_root(b, pos):
    """`pos` = start of an identifier; if it is preceded by `a::b::`, the first segment `a`."""
    j = pos
    root = None
    while True:
        k = j - 1
        while k >= 0 and b[k].isspace():
            k -= 1
        if k >= 1 and b[k - 1:k + 1] == "::":
            k -= 2
            while k >= 0 and b[k].isspace():
                k -= 1
            e = k + 1
            while k >= 0 and (b[k].isalnum() or b[k] == "_"):
                k -= 1
            if e == k + 1:
                return root  # `<T as X>::` or `::name`
            root = b[k + 1:e]
            j = k + 1
        else:
            return root


def is_foreign_root(root):
    return root is not None and root not in ("crate", "super", "self", "Self") and root not in CRATE_MODS and not root[:1].isupper()


def references(caller, target):
    """Does the body of `caller` mention `target` in a way that can be a call or a function value?
    Over-approximate, syntactic:
      * associated fn / method `T::name`: `T::name` or (inside `impl T`) `Self::name`, unless `T` is
        imported into the caller's file from another crate or written with a foreign path root
        (`std::thread::Builder::new`);
      * inherent method (self receiver): additionally `.name(` on any receiver;
      * free fn: `name(` / `name::<…>(` or `name` passed as a value (`(name)`, `, name,`), not a
        method call, not `UpperCase::name`, not with a foreign path root."""
    b = caller.body
    names = [target.name] + ([target.name + "_async"] if target.async_generic else [])
    for n in names:
        if target.impl:
            quals = [target.impl] + (["Self"] if caller.impl == target.impl else [])
            for q in quals:
                for m in re.finditer(r"\b" + q + r"\s*(?:::\s*<[^;{}]*?>\s*)?::\s*" + n + r"\b", b):
                    if q != "Self":
                        root = path_root(b, m.start())
                        if is_foreign_root(root) or (root is None and caller.file != target.file and foreign_import(caller.file, q)):
                            continue
                    return True
            if target.has_self and not target.trait and re.search(r"\.\s*" + n + r"\s*(?:::\s*<[^;{}()]*?>\s*)?\(", b):
                return True
        else:
            for m in re.finditer(r"\b" + n + r"\b", b):
                j = m.start() - 1
                while j >= 0 and b[j].isspace():
                    j -= 1
                if j >= 0 and b[j] == ".":
                    continue
                if b[max(0, j - 1):j + 1] == "fn":
                    continue
                root = path_root(b, m.start())
                if root is not None and (root[:1].isupper() or is_foreign_root(root)):
                    continue
                e = m.end()
                while e < len(b) and b[e].isspace():
                    e += 1
                nxt = b[e:e + 1]
                call = nxt == "(" or b[e:e + 2] == "::"
                value = nxt in (")", ",") and j >= 0 and b[j] in "(,"
                if call or value:
                    return True
    return False


def tls_closure(fns, tl_statics):
    """(static touchers, dynamic touchers): every fn that reaches a thread-local static through the
    name-resolved call graph, with its `writes` flag. Trait-impl methods with a `self` receiver
    (dynamic dispatch) that reach it are reported separately and are NOT propagated further."""
    reach = {}
    for rel, name in tl_statics:
        rx = re.compile(r"\b" + re.escape(name) + r"\b")
        used_in_fn = 0
        for f in fns:
            if f.file != rel:
                continue
            hits = list(rx.finditer(f.body))
            if not hits:
                continue
            writes = False
            for h in hits:
                tail = f.body[h.end():h.end() + 40]
                mm = re.match(r"\s*\.\s*(\w+)", tail)
                if not mm:
                    fail(f"{rel}: {f.qual}: use of thread-local `{name}` that is not a method call")
                meth = mm.group(1)
                if meth in ("with_borrow", "get"):
                    pass
                elif meth in ("set", "with_borrow_mut", "replace", "take", "with", "try_with"):
                    writes = True  # `with` hands out the cell: assume it may write
                else:
                    fail(f"{rel}: {f.qual}: unknown accessor `{name}.{meth}`")
            reach[id(f)] = reach.get(id(f), False) or writes
            used_in_fn += len(hits)
        total = len(rx.findall(files_blank[rel]))
        if total > used_in_fn + 1:
            fail(f"{rel}: thread-local `{name}` is used outside a fn body ({total} occurrences, {used_in_fn} in fns)")
    by_id = {id(f): f for f in fns}
    is_dyn = lambda f: bool(f.trait) and f.has_self  # noqa: E731
    todo = [by_id[i] for i in reach]
    while todo:
        tgt = todo.pop()
        if is_dyn(tgt):
            continue
        w = reach[id(tgt)]
        for f in fns:
            if f is tgt or tgt.name not in f.body:
                continue
            if id(f) in reach and (reach[id(f)] or not w):
                continue
            if references(f, tgt):
                reach[id(f)] = reach.get(id(f), False) or w
                todo.append(f)
    stat = [(by_id[i], w) for i, w in reach.items() if not is_dyn(by_id[i])]
    dyn = [(by_id[i], w) for i, w in reach.items() if is_dyn(by_id[i])]
    return stat, dyn


files_blank = {}


# --------------------------------------------------------------------------------------------
# non-state nondeterminism


def nondet_rows(fns, hash_fields):
    rows = []
    for f in fns:
        for kind, rx in NONDET:
            if rx.search(f.body):
                rows.append((f.file, f.qual, kind))
        # names of HashMap/HashSet typed things visible in this fn: declared struct fields of the
        # crate (any type), parameters and annotated / constructed locals
        names = set()
        for pn, pt in f.params:
            if HASH_TY.search(pt):
                names.add(pn)
        for m in re.finditer(r"\blet\s+(?:mut\s+)?([a-z_]\w*)\s*(?::\s*([^=;]+))?=\s*([^;]{0,80})", f.body):
            if (m.group(2) and HASH_TY.search(m.group(2))) or re.match(r"\s*(?:std::collections::)?Hash(?:Map|Set)\s*(?:::\s*<[^;]*?>\s*)?::", m.group(3)):
                names.add(m.group(1))
        hit = False
        for n in names:
            if re.search(r"\b" + n + r"\s*\.\s*" + ITER_METHODS + r"\s*\(", f.body) or re.search(r"\bin\s+&?(?:mut\s+)?" + n + r"\b\s*\{", f.body):
                hit = True
        for n in hash_fields.get(f.file, ()):
            if re.search(r"\.\s*" + n + r"\s*\.\s*" + ITER_METHODS + r"\s*\(", f.body) or re.search(r"\bin\s+&?(?:mut\s+)?[\w\.]*\.\s*" + n + r"\s*\{", f.body):
                hit = True
        if hit:
            rows.append((f.file, f.qual, "hashIter"))
    return sorted(set(rows))


# --------------------------------------------------------------------------------------------


CACHE_NAME = re.compile(r"cache|memo(?!ry)", re.I)
WRITE_METHODS = r"(?:insert|remove|clear|retain|entry|extend|push|drain|take|append|truncate|get_or_insert\w*|replace|swap_remove|pop)"


def cache_rows(fns, cache_fields):
    rows = []
    for tname, fname in sorted(cache_fields):
        rx = re.compile(r"\.\s*" + fname + r"\s*(?:\.\s*" + WRITE_METHODS + r"\s*\(|=(?!=)|\.\s*\w+_mut\s*\()|&\s*mut\s+[\w\.]*\." + fname + r"\b")
        for f in fns:
            if rx.search(f.body):
                rows.append((f.file, f"{tname}::{fname}", f.qual))
    return sorted(set(rows))


def q(s):
    if '"' in s or "\\" in s or "\n" in s:
        fail(f"cannot quote {s!r}")
    return '"' + s + '"'


def lean_list(name, ty, rows, fmt):
    body = ",\n".join("  " + fmt(r) for r in rows)
    return f"def {name} : List ({ty}) := [\n{body}\n]\n" if rows else f"def {name} : List ({ty}) := []\n"


def main():
    files = live_files()
    for rel, (raw, t) in files.items():
        files_blank[rel] = t
    rows, lazy_inits, interior, carriers, hash_fields, cache_fields = [], [], [], set(), {}, set()
    for rel in sorted(files):
        t = files[rel][1]
        fwd, _ = R.build_pairs(t)
        r, li = static_rows(rel, t, fwd)
        rows += r
        lazy_inits += li
        for tname, fields in type_items(rel, t, fwd):
            for fname, fty in fields:
                w = wrapper_of(fty)
                if w:
                    interior.append((rel, f"{tname}::{fname}", w))
                    if rel == "context.rs":
                        rows.append((rel, fname if re.match(r"(Atomic|Mutex|RwLock)", w) else f"{tname}::{fname}", "perContextCell"))
                if CTX_TY.search(fty) and tname not in ("Context", "Settings"):
                    carriers.add(tname)
                if HASH_TY.search(fty):
                    hash_fields.setdefault(rel, set()).add(fname)
                if CACHE_NAME.search(fname):
                    cache_fields.add((tname, fname))
    if not rows:
        fail("no items found")
    carriers |= {"Context", "Settings"}
    fns = collect_fns(files)
    for rel in files:
        for seg in rel[:-3].split("/"):
            CRATE_MODS.add(seg)
    tl_statics = [(r[0], r[1]) for r in rows if r[2] == "threadLocal"]
    stat, dyn = tls_closure(fns, tl_statics)
    touch = sorted({(f.file, f.qual, w) for f, w in stat})
    dyn_touch = sorted({(f.file, f.qual, f.trait) for f, w in dyn})
    touch_w = {(a, b): w for a, b, w in touch}
    takes = {(f.file, f.qual) for f in fns
             if any(CTX_TY.search(pt) for _, pt in f.params) or (f.has_self and f.impl in carriers)}
    # one row per fn that takes a context or reaches the thread-local settings: (file, fn, takesContext, reachesTls)
    ctx_or_tls = sorted((a, b, (a, b) in takes, (a, b) in touch_w) for a, b in takes | set(touch_w))
    api = sorted({(f.file, f.qual, f.deprecated, (f.file, f.qual) in touch_w, touch_w.get((f.file, f.qual), False))
                  for f in fns if (f.is_pub and f.impl in ("Settings", "Context")) or f.trait == "IntoSettings"})
    linits = lazy_init_flags(files, lazy_inits)
    nondet = nondet_rows(fns, hash_fields)
    caches = cache_rows(fns, cache_fields)
    cache_decl = sorted(f"{a}::{b}" for a, b in cache_fields)

    b = lambda x: "true" if x else "false"  # noqa: E731
    parts = [
        lean_list("sharedState", "String × String × Kind", rows, lambda r: f"({q(r[0])}, {q(r[1])}, Kind.{r[2]})"),
        lean_list("tlsTouchers", "String × String × Bool", touch, lambda r: f"({q(r[0])}, {q(r[1])}, {b(r[2])})"),
        lean_list("tlsDynTouchers", "String × String × String", dyn_touch, lambda r: f"({q(r[0])}, {q(r[1])}, {q(r[2])})"),
        lean_list("contextCarriers", "String", sorted(carriers), q),
        lean_list("ctxOrTls", "String × String × Bool × Bool", ctx_or_tls, lambda r: f"({q(r[0])}, {q(r[1])}, {b(r[2])}, {b(r[3])})"),
        lean_list("settingsApi", "String × String × Bool × Bool × Bool", api, lambda r: f"({q(r[0])}, {q(r[1])}, {b(r[2])}, {b(r[3])}, {b(r[4])})"),
        lean_list("interiorFields", "String × String × String", sorted(interior), lambda r: f"({q(r[0])}, {q(r[1])}, {q(r[2])})"),
        lean_list("lazyInits", "String × String × Bool × Bool", linits, lambda r: f"({q(r[0])}, {q(r[1])}, {b(r[2])}, {b(r[3])})"),
        lean_list("cacheFields", "String", cache_decl, q),
        lean_list("cacheFieldWriters", "String × String × String", caches, lambda r: f"({q(r[0])}, {q(r[1])}, {q(r[2])})"),
        lean_list("nondetSites", "String × String × String", nondet, lambda r: f"({q(r[0])}, {q(r[1])}, {q(r[2])})"),
    ]
    body = "\n".join(parts)
    text = f"""import C2paModel.Model.C24
/-
GENERATED on every check run by translators/c24_shared_state.py — do not edit.
Source: the module tree of /repo/sdk/src below lib.rs, test / verification-hook items removed by
brace matching. See the translator's doc comment for what each table means.
-/
namespace C2pa.C24.Gen
open C2pa.C24

{body}
end C2pa.C24.Gen
"""
    old = open(OUT).read() if os.path.exists(OUT) else None
    if old != text:
        os.makedirs(os.path.dirname(OUT), exist_ok=True)
        open(OUT, "w").write(text)
    info = {"table": "C24SharedState", "files": len(files), "fns": len(fns), "statics": len(rows),
            "non_const": [r for r in rows if r[2] != "const"], "tlsTouchers": len(touch), "tlsDynTouchers": [r[1] for r in dyn_touch], "takesContext": len(takes), "ctxOrTls": len(ctx_or_tls),
            "interiorFields": len(interior), "lazyInits": len(linits), "nondetSites": len(nondet),
            "sha256": hashlib.sha256(body.encode()).hexdigest()[:16], "changed": old != text}
    print("TABLE " + json.dumps(info))


if __name__ == "__main__":
    main()
