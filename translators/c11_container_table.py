#!/usr/bin/env python3
"""Regenerate lean/C2paModel/Gen/C11Table.lean from /repo's current tree.

* the container map is dumped from the *running* code (harness bin `c11 dump`, which calls the
  hook around CONTAINER_MAP), so handler registration order and overwrites are what the code does;
* the list of literals `container_from_stream` can return is scanned from sdk/src/jumbf_io.rs and
  compared with the model's `detectLiterals` (fail closed on anything unexpected).
"""
import hashlib
import json
import os
import re
import subprocess
import sys

ROOT = os.path.dirname(os.path.dirname(os.path.abspath(__file__)))
SRC = "/repo/sdk/src/jumbf_io.rs"
OUT = os.path.join(ROOT, "lean/C2paModel/Gen/C11Table.lean")
ENV = dict(os.environ, CARGO_NET_OFFLINE="true")


def fail(msg):
    print("translator c11_container_table: " + msg)
    sys.exit(1)


def main():
    p = subprocess.run(["cargo", "build", "--offline", "--bin", "c11"], cwd=os.path.join(ROOT, "harness"),
                       env=ENV, stdout=subprocess.PIPE, stderr=subprocess.STDOUT, text=True)
    if p.returncode != 0:
        fail("harness bin c11 does not build:\n" + p.stdout[-2000:])
    p = subprocess.run([os.path.join(ROOT, ".build/cargo/debug/c11"), "dump"], stdout=subprocess.PIPE, text=True)
    if p.returncode != 0:
        fail("dump failed")
    dump = json.loads(p.stdout)
    src = open(SRC).read()
    m = re.search(r"fn container_from_stream<.*?\n}\n", src, re.S)
    if not m:
        fail("container_from_stream not found")
    body = m.group(0)
    # comments are not code
    body = re.sub(r"//[^\n]*", "", body)
    lits = re.findall(r'Some\("([^"]+)"\)', body)
    # every `return` in the function must be `None` or a Some("literal") form we understand
    returns = re.findall(r"\breturn\s+([^;,\n]+)[;,]", body)
    for r in returns:
        r = r.strip()
        if r == "None" or re.fullmatch(r'Some\("[^"]+"\)', r) or r.startswith("if is_flac"):
            continue
        fail(f"unrecognised return form in container_from_stream: {r!r}")
    order = []
    for l in lits:
        if l not in order:
            order.append(l)
    for k, v in dump["map"]:
        for s in (k, v):
            if not all(32 <= ord(c) < 127 and c not in '"\\\'' for c in s):
                fail(f"non-ASCII or quote in format string {s!r}")
    if "readers" not in dump:
        fail("dump has no reader map")
    for k, types in dump["readers"]:
        for t in [k] + types:
            if not all(32 <= ord(c) < 127 and c not in '"\\\'' for c in t):
                fail(f"non-ASCII or quote in reader-map string {t!r}")
        if not types:
            fail(f"handler stored under {k!r} supports no type")
    # identity of a handler instance = the supported-type list it reports (one static list per
    # handler type)
    # explicit character lists: the kernel re-proves the table obligations on every run, and
    # evaluating `"…".toList` on string literals inside `decide +kernel` is orders of magnitude slower
    def chars(x):
        return "[" + ", ".join("'" + c + "'" for c in x) + "]"
    reader_rows = ",\n".join(f'  ({chars(k)}, {chars(",".join(types))})' for k, types in dump["readers"])
    rows = ",\n".join(f'  ({chars(k)}, {chars(v)})' for k, v in dump["map"])
    lits_lean = ", ".join(chars(l) for l in order)
    text = f"""import C2paModel.Model.C11
/-
GENERATED on every check run by translators/c11_container_table.py — do not edit.
`table` is CONTAINER_MAP dumped from the running code; `scannedLiterals` are the literals
`container_from_stream` returns in sdk/src/jumbf_io.rs; `pdf` is the crate feature flag;
`readers` is CAI_READERS dumped from the running code: format string ↦ identity of the handler
instance stored under it (the supported-type list that instance reports).
-/
namespace C2pa.C11.Gen

def pdf : Bool := {"true" if dump["pdf"] else "false"}

def table : C2pa.C11.Table := [
{rows}
]

def readers : C2pa.C11.Table := [
{reader_rows}
]

def scannedLiterals : List C2pa.C11.Fmt := [{lits_lean}]

end C2pa.C11.Gen
"""
    old = open(OUT).read() if os.path.exists(OUT) else None
    if old != text:
        os.makedirs(os.path.dirname(OUT), exist_ok=True)
        open(OUT, "w").write(text)
    info = {"table": "C11Table", "rows": len(dump["map"]), "reader_rows": len(dump["readers"]), "literals": order, "pdf": dump["pdf"],
            "sha256_body": hashlib.sha256(body.encode()).hexdigest()[:16], "changed": old != text}
    print("TABLE " + json.dumps(info))


if __name__ == "__main__":
    main()
