"""Cancellation call-graph analysis for C23 (imported by translators/c23_sites.py).

analyse(src_root) -> Analyser with
  fns        every parsed fn (tests and verification hooks removed)
  uncond     ids of the functions that can return Error::OperationCancelled: transitive closure from
             Context::check_progress over calls (name + arity + impl-type resolution), closures
             forwarded as progress callbacks and invocations of `FnMut(..) -> Result` parameters
  cond       ids of functions that do so only through a progress-callback parameter
  rows()     one row per call of such a function / invocation of such a closure or parameter:
             (file, caller_qual, callee, line, disp, detail, kind), disp in {"propagate","swallow"}

Disposition of a call = what the source does with its `Result`, followed syntactically through
`?`, `.await`, pass-through adapters, tail positions of blocks / if-else / match arms, `let`
bindings (first consuming use), tuples, `match` arms (the first arm that can match
Err(OperationCancelled) must return / carry it), closures (bound and passed to a progress-taking
callee, or argument of and_then/map…), and `Result`-typed parameters of callees. Everything that
is not recognised is `swallow` (fail closed).
"""
import os, re
from c23_rustscan import (ScanError, blank, strip_test_items, build_pairs, parse_fns, find_calls, find_closures,
                      skip_ws, split_top)

PASS_METHODS = {"map", "and_then", "inspect_err", "inspect"}
# adapters whose value still carries a closure's error (checked by the `?` that must follow)
CARRY_AFTER_MAP = {"transpose", "collect", "try_for_each"}
SWALLOW_METHODS = {"ok", "err", "is_ok", "is_err", "unwrap_or", "unwrap_or_else", "unwrap_or_default", "unwrap",
                   "expect", "or", "or_else", "map_or", "map_or_else", "is_ok_and", "is_err_and", "iter",
                   "into_iter", "unwrap_unchecked", "expect_err", "unwrap_err", "map_err", "ok_or", "ok_or_else",
                   "filter_map", "flatten", "flat_map"}
BORROW_METHODS = {"is_ok", "is_err", "as_ref", "as_mut", "as_deref"}
WRAPPERS = ("Box::pin", "std::pin::pin", "pin")


class FileInfo:
    pass


def load(src_root):
    files = []
    for d, _, fs in os.walk(src_root):
        if "verif_hooks" in d:
            continue
        for f in fs:
            if f.endswith(".rs"):
                files.append(os.path.join(d, f))
    files.sort()
    # modules declared `#[cfg(test)] mod name;` are test code
    test_roots = []
    for p in files:
        raw = open(p, errors="replace").read()
        for m in re.finditer(r"#\[cfg\(test\)\]\s*(?:#\[[^\]]*\]\s*)*(?:pub(?:\([^)]*\))?\s+)?mod\s+(\w+)\s*;", raw):
            d = os.path.dirname(p)
            if os.path.basename(p) not in ("mod.rs", "lib.rs"):
                d = os.path.join(d, os.path.splitext(os.path.basename(p))[0])
            test_roots.append(os.path.join(d, m.group(1)))
    infos = []
    for p in files:
        if any(p == r + ".rs" or p.startswith(r + os.sep) for r in test_roots):
            continue
        rel = os.path.relpath(p, src_root)
        raw = open(p, errors="replace").read()
        try:
            t = strip_test_items(blank(raw))
            fwd, back = build_pairs(t)
            fi = FileInfo()
            fi.rel, fi.t, fi.fwd, fi.back, fi.raw = rel, t, fwd, back, raw
            fi.fns = parse_fns(rel, t, fwd)
        except ScanError as e:
            raise ScanError(f"{rel}: {e}")
        infos.append(fi)
    return infos


def innermost(spans, pos):
    best = None
    for s in spans:
        if s[0] <= pos < s[1] and (best is None or s[0] >= best[0]):
            best = s
    return best


def stmt_start(t, back, pos, lo):
    """start offset of the statement / arm / argument that contains `pos`: scan back to the previous
    `;` `{` `}` `,` `(` `[` at the same nesting depth (closed ( ) [ ] groups are skipped)."""
    k = pos - 1
    while k >= lo:
        c = t[k]
        if c == "}":
            return k + 1
        if c in ")]":
            k = back[k] - 1
            continue
        if c in ";{([,":
            return k + 1
        k -= 1
    return lo


def lstrip_off(t, a, b):
    return a + (len(t[a:b]) - len(t[a:b].lstrip()))


def enclosing_open(t, back, pos, lo):
    """offset of the innermost unmatched opener before pos."""
    k = pos - 1
    while k >= lo:
        c = t[k]
        if c in ")]}":
            k = back[k] - 1
            continue
        if c in "([{":
            return k
        k -= 1
    return -1


def strip_attrs(s):
    return re.sub(r"#\[[^\]]*\]\s*", "", s)


def arms_of(t, fwd, o):
    """arms of the match body opened at o: list of (pattern_text, body_start, body_end)."""
    arms = []
    i = o + 1
    end = fwd[o]
    while i < end:
        k = i
        found = -1
        while k < end:
            c = t[k]
            if c in "([{":
                k = fwd[k] + 1
                continue
            if t.startswith("=>", k):
                found = k
                break
            k += 1
        if found < 0:
            break
        pat = t[i:found].strip()
        b = skip_ws(t, found + 2)
        k = b
        while k < end:
            c = t[k]
            if c in "([{":
                k = fwd[k] + 1
                if t[b] == "{" and k == fwd[b] + 1:
                    # braced arm: ends here unless a method chain / `?` follows
                    n = skip_ws(t, k)
                    if n >= end or t[n] not in ".?":
                        break
                continue
            if c == ",":
                break
            k += 1
        be = k
        n = skip_ws(t, be)
        nxt = n + 1 if n < end and t[n] == "," else be
        arms.append((pat, b, be))
        i = nxt
    return arms


class Analyser:
    def __init__(self, infos):
        self.infos = infos
        self.byfile = {fi.rel: fi for fi in infos}
        self.fns = [f for fi in infos for f in fi.fns]
        for i, f in enumerate(self.fns):
            f.id = i
        self.by_name = {}
        for f in self.fns:
            self.by_name.setdefault(f.name, []).append(f)
            if f.async_generic:
                self.by_name.setdefault(f.name + "_async", []).append(f)
        # functions that classify OperationCancelled as fatal (`Error::OperationCancelled => true`)
        self.fatal_guards = set()
        for f in self.fns:
            body = self.byfile[f.file].t[f.body_start:f.body_end]
            if re.search(r"OperationCancelled\s*=>\s*true", body):
                self.fatal_guards.add(f.name)
        self.uncond = set()
        self.cond = set()
        self.fn_closures = {}
        self.fn_calls = {}
        self.nested = {}
        for fi in infos:
            for f in fi.fns:
                self.nested[f.id] = [g for g in fi.fns if g is not f and f.body_start < g.sig_start < f.body_end]
        for f in self.fns:
            fi = self.byfile[f.file]
            nest = self.nested[f.id]
            self.fn_calls[f.id] = [c for c in find_calls(fi.t, fi.fwd, f.body_start + 1, f.body_end)
                                   if not any(g.body_start < c.start < g.body_end for g in nest)]
            self.fn_closures[f.id] = find_closures(fi.t, fi.fwd, f.body_start + 1, f.body_end)
        self._cc = {}

    # ---------- resolution ----------
    def resolve(self, f, c):
        cands = self.by_name.get(c.name, [])
        if not cands:
            return []
        nargs = len(c.args)
        if c.kind == "method":
            cs = [g for g in cands if g.has_self and len(g.params) == nargs]
            if c.recv == "self" and f.impl:
                own = [g for g in cs if g.impl == f.impl]
                if own:
                    return own
            return cs
        if c.kind == "path":
            q = c.qual
            if q == "Self":
                q = f.impl
            if q and q[0].isupper():
                typed = [g for g in cands if g.impl == q]
                if typed:
                    return [g for g in typed if len(g.params) + (1 if g.has_self else 0) == nargs]
                return [g for g in cands if g.impl and len(g.params) + (1 if g.has_self else 0) == nargs]
            free = [g for g in cands if not g.impl and len(g.params) == nargs]
            mod = [g for g in free if os.path.splitext(os.path.basename(g.file))[0] == q or os.path.basename(os.path.dirname(g.file)) == q]
            return mod or free
        return [g for g in cands if not g.impl and len(g.params) == nargs]

    # ---------- capability ----------
    def owner_calls(self, f):
        return self.fn_calls[f.id]

    def cancel_closures(self, f):
        """closures of f that contain an unconditional cancel-capable call: [((start,end), var|None)]."""
        fi = self.byfile[f.file]
        res = []
        for (s, b, e, br) in self.fn_closures[f.id]:
            has = False
            for c in self.owner_calls(f):
                if b <= c.start < e and self.call_capable(f, c, closures_known=False) == "uncond":
                    has = True
                    break
            if not has:
                continue
            lo = f.body_start + 1
            st = stmt_start(fi.t, fi.back, s, lo)
            head = fi.t[st:s]
            m = re.match(r"\s*let\s+(?:mut\s+)?([A-Za-z_]\w*)\s*(?::[^=]*)?=\s*(?:move\s+)?$", head, re.S)
            var = m.group(1) if m else None
            if var is None:
                o = enclosing_open(fi.t, fi.back, s, lo)
                if o >= 8 and fi.t[o - 8:o] == "Box::new":
                    st2 = stmt_start(fi.t, fi.back, o - 8, lo)
                    m2 = re.match(r"\s*let\s+(?:mut\s+)?([A-Za-z_]\w*)\s*(?::[^=]*)?=\s*$", fi.t[st2:o - 8], re.S)
                    var = m2.group(1) if m2 else None
            # the variable is visible from the end of the closure to the end of the block that holds
            # the `let` (several closures of one function may share a name)
            scope_end = e
            if var is not None:
                bo = enclosing_open(fi.t, fi.back, st if m else st2, lo)
                scope_end = fi.fwd[bo] if bo >= 0 and fi.t[bo] == "{" else f.body_end
            res.append(((s, e), var, scope_end))
        return res

    def call_capable(self, f, c, closures_known=True):
        """'uncond' | 'cond' | 'param' | 'closure' | None for call c inside f."""
        if c.kind == "plain" and c.name in f.progress_params:
            return "param"
        if c.name == "check_progress" and c.kind == "method":
            return "uncond"
        tgt = self.resolve(f, c)
        if any(g.id in self.uncond for g in tgt):
            return "uncond"
        if any(g.id in self.cond for g in tgt):
            names = set(f.progress_params)
            lits = []
            if closures_known:
                for (span, var, send) in self._cc.get(f.id, []):
                    if var and span[1] <= c.start < send:
                        names.add(var)
                    lits.append(span)
            fi = self.byfile[f.file]
            argtxt = fi.t[c.open:c.end]
            for n in names:
                if re.search(r"\b" + re.escape(n) + r"\b", argtxt):
                    return "cond"
            for (s, e) in lits:
                if c.open < s < c.end:
                    return "cond"
        if closures_known and c.kind == "plain":
            for (span, var, send) in self._cc.get(f.id, []):
                if var == c.name and span[1] <= c.start < send:
                    return "closure"
        return None

    def passes_own_closure(self, f, c):
        fi = self.byfile[f.file]
        argtxt = fi.t[c.open:c.end]
        for (span, var, send) in self._cc.get(f.id, []):
            if (var and span[1] <= c.start < send and re.search(r"\b" + re.escape(var) + r"\b", argtxt)) or c.open < span[0] < c.end:
                return True
        return False

    def fixpoint(self):
        changed, rounds = True, 0
        while changed:
            changed = False
            rounds += 1
            if rounds > 80:
                raise ScanError("fixpoint does not converge")
            for f in self.fns:
                if f.name == "check_progress" and f.impl == "Context":
                    continue
                self._cc[f.id] = self.cancel_closures(f)
                if f.id not in self.cond and f.progress_params:
                    for c in self.owner_calls(f):
                        if self.call_capable(f, c) in ("param", "cond"):
                            self.cond.add(f.id)
                            changed = True
                            break
                if f.id not in self.uncond and "Result" in f.ret:
                    for c in self.owner_calls(f):
                        k = self.call_capable(f, c)
                        if k in ("uncond", "closure") or (k == "cond" and self.passes_own_closure(f, c)):
                            self.uncond.add(f.id)
                            changed = True
                            break
        for f in self.fns:
            self._cc[f.id] = self.cancel_closures(f)

    # ---------- disposition ----------
    def classify(self, f, c):
        fi = self.byfile[f.file]
        t, fwd, back = fi.t, fi.fwd, fi.back
        lo = f.body_start + 1
        es, ee = c.expr_start, c.end
        closures = [(s, e, b, br) for (s, b, e, br) in self.fn_closures[f.id]]
        via, proj = [], []
        steps = 0

        def done(d, why):
            return d, why + ("/" + ">".join(via) if via else "")

        while True:
            steps += 1
            if steps > 60:
                return done("swallow", "other:too-deep")
            j = skip_ws(t, ee)
            ch = t[j] if j < len(t) else ""
            clo = innermost(closures, es)
            if clo and not clo[3] and j >= clo[1]:
                r = self.closure_value(f, clo, via)
                if r[0] == "continue":
                    es, ee = r[1], r[2]
                    continue
                return done(*r)
            if t.startswith(".await", j):
                ee = j + 6
                continue
            if ch == "?":
                if proj:
                    return done("swallow", "other:?-on-tuple")
                if clo:
                    r = self.closure_value(f, clo, via)
                    if r[0] == "continue":
                        es, ee = r[1], r[2]
                        continue
                    return done(*r)
                return done("propagate", "q")
            if ch == ".":
                m = re.match(r"\.\s*([A-Za-z_]\w*|\d+)\s*(?:::\s*<[^(){};]*?>\s*)?(\()?", t[j:j + 200])
                if not m:
                    return done("swallow", "other:dot")
                name = m.group(1)
                if not m.group(2):
                    if proj and name.isdigit() and int(name) == proj[-1]:
                        proj.pop()
                        ee = j + m.end()
                        continue
                    return done("swallow", f"other:field.{name}")
                po = j + m.end() - 1
                pe = fwd[po] + 1
                if proj:
                    return done("swallow", f"other:.{name}()-on-tuple")
                if name in PASS_METHODS or (name in CARRY_AFTER_MAP and "closure-map" in via):
                    via.append(name)
                    ee = pe
                    continue
                if name in SWALLOW_METHODS:
                    return done("swallow", f".{name}()")
                return done("swallow", f"other:.{name}()")
            if ch == ";":
                st = stmt_start(t, back, es, lo)
                head = strip_attrs(t[st:es]).strip()
                if head == "return":
                    if clo:
                        r = self.closure_value(f, clo, via)
                        if r[0] == "continue":
                            es, ee = r[1], r[2]
                            continue
                        return done(*r)
                    if proj:
                        return done("swallow", "other:return-tuple")
                    return done("propagate", "return")
                if head == "":
                    return done("swallow", "discarded;")
                if re.match(r"let\s+_\s*(:[^=]*)?=$", head):
                    return done("swallow", "let _ =")
                var = None
                m = re.match(r"(?:let\s+(?:mut\s+)?)?([A-Za-z_]\w*)\s*(?::[^=]*)?=$", head, re.S)
                if m and not proj:
                    var = m.group(1)
                mt = re.match(r"let\s*\((.*)\)\s*(?::[^=]*)?=$", head, re.S)
                if mt and proj:
                    pats = split_top(mt.group(1))
                    idx = proj[-1]
                    if idx < len(pats):
                        pv = re.sub(r"^\s*(ref\s+)?(mut\s+)?", "", pats[idx]).strip()
                        if re.match(r"[A-Za-z_]\w*$", pv) and pv != "_":
                            var = pv
                            proj.pop()
                if var is None:
                    return done("swallow", f"other:stmt[{head[:30]}]")
                use = self.first_consuming_use(f, var, j + 1)
                if use is None:
                    return done("swallow", f"let {var}: no consuming use")
                via.append(f"let {var}")
                es, ee = use
                continue
            if ch == "}":
                o = back[j]
                if o == f.body_start:
                    if proj:
                        return done("swallow", "other:tail-tuple")
                    return done("propagate", "tail")
                if clo and clo[2] == o:
                    r = self.closure_value(f, clo, via)
                    if r[0] == "continue":
                        es, ee = r[1], r[2]
                        continue
                    return done(*r)
                r = self.block_parent(f, o, j)
                if r is None:
                    return done("swallow", "other:block-tail")
                es, ee = r
                via.append("block")
                continue
            if ch in ",)":
                o = enclosing_open(t, back, es, lo)
                if o < 0:
                    return done("swallow", "other:no-opener")
                if t[o] == "{":
                    st = stmt_start(t, back, es, lo)
                    if "=>" in t[st:es] and self.is_match_body(f, o):
                        es, ee = self.match_start(f, o), fwd[o] + 1
                        via.append("arm")
                        continue
                    return done("swallow", "other:struct-field")
                if t[o] == "[":
                    return done("swallow", "other:array-element")
                b = o - 1
                while b >= 0 and t[b].isspace():
                    b -= 1
                is_call = b >= 0 and (t[b].isalnum() or t[b] in "_>")
                inner = t[o + 1:fwd[o]]
                idx = len(split_top(t[o + 1:es]))
                if t[o + 1:es].strip() == "":
                    idx = 0
                else:
                    idx = len(split_top(t[o + 1:es] + "x")) - 1
                if not is_call:
                    if len(split_top(inner)) > 1:
                        proj.append(idx)
                        via.append(f"tuple.{idx}")
                    else:
                        via.append("paren")
                    es, ee = o, fwd[o] + 1
                    continue
                # argument of a call
                call = next((x for x in self.owner_calls(f) if x.open == o), None)
                k = b
                while k >= 0 and (t[k].isalnum() or t[k] in "_:"):
                    k -= 1
                callee_txt = t[k + 1:b + 1]
                if callee_txt in WRAPPERS and not proj:
                    es, ee = k + 1, fwd[o] + 1
                    via.append(callee_txt)
                    continue
                if call is not None and not proj:
                    r = self.result_param(f, call, idx)
                    if r:
                        via.append(f"arg{idx}->{call.name}:{r}")
                        es, ee = call.expr_start, call.end
                        continue
                return done("swallow", f"other:argument-of-{callee_txt or '?'}")
            if ch == "{":
                st = stmt_start(t, back, es, lo)
                head = t[st:es].strip()
                if re.search(r"\bmatch$", head):
                    ms = st + t[st:es].rfind("match")
                    kind, idx = self.match_arms(f, j, proj[-1] if proj else None)
                    if kind == "return":
                        return done("propagate", "match-return")
                    if kind == "carry":
                        if proj:
                            proj.pop()
                        if idx is not None:
                            proj.append(idx)
                        es, ee = ms, fwd[j] + 1
                        via.append("match-carry")
                        continue
                    return done("swallow", f"match:{kind}")
                if re.search(r"\bif\s+let\b", head):
                    return done("swallow", "if-let")
                if re.search(r"\bwhile\s+let\b", head):
                    return done("swallow", "while-let")
                return done("swallow", f"other:block-after[{head[-20:]}]")
            if t.startswith("else", j):
                return done("swallow", "let-else")
            if t.startswith("#[cfg", j):
                # `#[cfg(a)] { … } #[cfg(not(a))] expr }`: alternative tail expressions of one block
                k = fwd[j + 1] + 1
                while k < f.body_end and t[k] not in ";}":
                    k = fwd[k] + 1 if t[k] in "([{" else k + 1
                if t[k] == "}":
                    ee = k
                    via.append("cfg-alt")
                    continue
                return done("swallow", "other:cfg-statement")
            return done("swallow", f"other:next[{t[j:j + 8].strip()}]")

    def first_consuming_use(self, f, var, frm):
        """(start,end) of the first use of `var` after `frm` that is not a re-binding and not a mere
        borrow / inspection."""
        fi = self.byfile[f.file]
        t = fi.t
        for u in re.finditer(r"\b" + re.escape(var) + r"\b", t[:f.body_end]):
            if u.start() < frm:
                continue
            a, b = u.start(), u.end()
            p = a - 1
            while p >= 0 and t[p].isspace():
                p -= 1
            n = skip_ws(t, b)
            if t[p] == "." or t[p - 1:p + 1] == "::":
                continue  # field / path segment of the same name
            if t[n] == "=" and t[n + 1] != "=":
                continue  # `let var = …` / `var = …`: a new binding, not a use
            if t[n] == ":" and t[n + 1] != ":":
                continue
            if t[p] == "&" or t[max(0, p - 3):p + 1] == " mut" and t[max(0, p - 5):p - 3].strip() == "&":
                continue  # borrowed
            mm = re.match(r"\.\s*(\w+)\s*\(", t[n:n + 40])
            if mm and mm.group(1) in BORROW_METHODS:
                continue
            # `if let Ok(ref x) = var {`  /  `if let Err(ref e) = var` : inspection by reference
            st = stmt_start(t, fi.back, a, f.body_start + 1)
            head = t[st:a]
            if re.search(r"\bif\s+let\b[^=]*\bref\b[^=]*=\s*$", head):
                continue
            return a, b
        return None

    def result_param(self, f, call, idx):
        """call passes the cancellation-carrying Result as argument idx: accepted when every resolved
        callee has a `Result<…>`-typed parameter there and returns / carries Err(OperationCancelled)
        from its `match` on that parameter. Returns a short reason or None."""
        tgts = self.resolve(f, call)
        if not tgts:
            return None
        why = None
        for g in tgts:
            pi = idx
            if call.kind == "path" and g.has_self:
                pi = idx - 1
            if pi < 0 or pi >= len(g.params):
                return None
            pn, pt = g.params[pi]
            if not re.match(r"(?:[\w:]+::)?Result\s*<", pt.strip()):
                return None
            gi = self.byfile[g.file]
            m = re.compile(r"\bmatch\s+" + re.escape(pn) + r"\s*\{").search(gi.t, g.body_start, g.body_end)
            if not m:
                return None
            kind, ti = self.match_arms(g, m.end() - 1, None)
            if kind not in ("return", "carry") or ti is not None:
                return None
            if kind == "carry":
                # the match must be the value returned by g: tail expression or `return`
                me = gi.fwd[m.end() - 1] + 1
                n = skip_ws(gi.t, me)
                st = stmt_start(gi.t, gi.back, m.start(), g.body_start + 1)
                head = gi.t[st:m.start()].strip()
                tail_ok = gi.t[n] == "}" and gi.back[n] == g.body_start and head == ""
                ret_ok = head == "return"
                q_ok = gi.t[n] == "?" and head == ""
                if not (tail_ok or ret_ok or q_ok):
                    return None
            why = kind
        return why

    def is_match_body(self, f, o):
        fi = self.byfile[f.file]
        st = stmt_start(fi.t, fi.back, o, f.body_start + 1)
        return bool(re.search(r"\bmatch\b", fi.t[st:o]))

    def match_start(self, f, o):
        fi = self.byfile[f.file]
        st = stmt_start(fi.t, fi.back, o, f.body_start + 1)
        seg = fi.t[st:o]
        return st + [m.start() for m in re.finditer(r"\bmatch\b", seg)][-1]

    def block_parent(self, f, o, j):
        """block {o..j} whose tail value we hold; (expr_start, expr_end) of the expression whose
        value that is, or None."""
        fi = self.byfile[f.file]
        t, fwd, back = fi.t, fi.fwd, fi.back
        lo = f.body_start + 1
        b = o - 1
        while b >= 0 and t[b].isspace():
            b -= 1
        if t[max(0, b - 1):b + 1] == "=>":
            mo = enclosing_open(t, back, o, lo)
            if mo >= 0 and t[mo] == "{" and self.is_match_body(f, mo):
                return self.match_start(f, mo), fwd[mo] + 1
            return None
        st = stmt_start(t, back, o, lo)
        raw_head = t[st:o]
        head = strip_attrs(raw_head).strip()
        if head == "":
            return lstrip_off(t, st, o) if raw_head.strip() == "" else o, j + 1
        m = re.search(r"\b(async(?:\s+move)?|unsafe)$", head)
        if m:
            return st + raw_head.rfind(m.group(1).split()[0]), j + 1
        if head.endswith("=") or head.endswith("(") or head.endswith("return"):
            return o, j + 1
        is_else = head == "else"
        mi = re.search(r"(?:^|[^\w])((?:else\s+)?if\b[^{};]*)$", head, re.S)
        if not (is_else or mi):
            return None
        # locate the start of the whole if / else-if / else chain and its end
        if is_else:
            start = st + raw_head.rfind("else")
        else:
            start = st + raw_head.rfind(mi.group(1))
        while t[start:start + 4] == "else":
            hb = start - 1
            while hb >= 0 and t[hb].isspace():
                hb -= 1
            if hb < 0 or t[hb] != "}":
                return None
            po = back[hb]
            pst = stmt_start(t, back, po, lo)
            ph = t[pst:po]
            if strip_attrs(ph).strip() == "else":
                start = pst + ph.rfind("else")
            else:
                pm = re.search(r"(?:^|[^\w])((?:else\s+)?if\b[^{};]*)$", ph, re.S)
                if not pm:
                    return None
                start = pst + ph.rfind(pm.group(1))
        end = j + 1
        has_else = is_else
        while True:
            k = skip_ws(t, end)
            if t.startswith("else", k) and not (t[k + 4].isalnum() or t[k + 4] == "_"):
                k2 = k + 4
                while t[k2] != "{":
                    if t[k2] in "([":
                        k2 = fwd[k2]
                    k2 += 1
                if t[k + 4:k2].strip() == "":
                    has_else = True
                end = fwd[k2] + 1
            else:
                break
        if not has_else:
            return None  # `if c { call }` without else is unit typed
        return start, end

    def match_arms(self, f, o, want_idx):
        """o: opening brace of a match whose scrutinee carries the cancellation (component want_idx of
        a tuple when not None). ('return', None) when the first arm that can match
        Err(OperationCancelled) returns it; ('carry', idx|None) when the arm's value is that error
        (component idx of a tuple value); else (reason, None)."""
        fi = self.byfile[f.file]
        t = fi.t
        if want_idx is not None:
            return "match-on-tuple", None
        for pat, bs, be in arms_of(t, fi.fwd, o):
            pat = strip_attrs(pat).strip()
            body = t[bs:be].strip()
            guard = None
            mg = re.match(r"(.*?)\s+if\s+(.*)$", pat, re.S)
            if mg:
                pat, guard = mg.group(1).strip(), mg.group(2).strip()
            if re.match(r"(Ok|Some|None)\b", pat) and "|" not in pat:
                continue

            def value_kind(var):
                """does `body` return / evaluate to the error bound to var (or OperationCancelled)?"""
                err = (r"Err\(\s*" + re.escape(var) + r"(\.into\(\))?\s*\)") if var else r"Err\(\s*(?:[\w:]+::)?OperationCancelled\s*\)"
                if re.match(r"\{?\s*return\s+" + err, body):
                    return "return", None
                if re.match(r"\{?\s*" + err + r"\s*,?\s*\}?$", body):
                    return "carry", None
                mt_ = re.match(r"\((.*)\)$", body, re.S)
                if mt_:
                    for i_, el in enumerate(split_top(mt_.group(1))):
                        if re.match(err + r"$", el.strip()):
                            return "carry", i_
                return None, None

            if re.match(r"Err\(\s*(?:[\w:]+::)?OperationCancelled\s*\)$", pat):
                if guard:
                    continue
                k, i_ = value_kind(None)
                if k:
                    return k, i_
                return "cancel-arm-does-not-return-it", None
            m = re.match(r"Err\(\s*(?:ref\s+|mut\s+)?([a-z_]\w*)\s*\)$", pat)
            catch_all = pat == "_" or re.match(r"[a-z_]\w*$", pat) or pat == "Err(_)"
            if m or catch_all:
                var = m.group(1) if m else None
                if guard:
                    gm = re.match(r"(?:Self::|[\w:]+::)?(\w+)\(\s*&?\s*" + re.escape(var or "#") + r"\s*\)$", guard)
                    if gm and gm.group(1) in self.fatal_guards and var:
                        k, i_ = value_kind(var)
                        if k:
                            return k, i_
                        return "guarded-arm-does-not-return", None
                    if var and re.search(r"matches!\s*\(\s*&?" + re.escape(var) + r"\s*,\s*(?:[\w:]+::)?OperationCancelled", guard):
                        k, i_ = value_kind(var)
                        if k:
                            return k, i_
                    continue  # an unrecognised guard may not hold for OperationCancelled
                if var and var != "_":
                    k, i_ = value_kind(var)
                    if k:
                        return k, i_
                return f"err-arm[{pat}]-consumes-it", None
            if re.match(r"Err\(", pat) and "OperationCancelled" not in pat:
                continue  # specific error patterns do not match OperationCancelled
            return f"arm[{pat[:30]}]", None
        return "no-arm", None

    def closure_value(self, f, clo, via):
        """the call's error is the value returned by closure `clo` of f."""
        fi = self.byfile[f.file]
        t, fwd, back = fi.t, fi.fwd, fi.back
        s, e = clo[0], clo[1]
        for (span, var, send) in self._cc.get(f.id, []):
            if span[0] == s and var:
                uses = [c for c in self.owner_calls(f) if e <= c.start < send and re.search(r"\b" + re.escape(var) + r"\b", t[c.open:c.end])]
                good = [c for c in uses if any(g.id in self.cond for g in self.resolve(f, c))]
                inv = [c for c in self.owner_calls(f) if c.kind == "plain" and c.name == var and e <= c.start < send]
                if good or inv:
                    return "propagate", f"closure:{var}->" + ",".join(sorted({c.name for c in good + inv}))
                return "swallow", f"closure:{var}:not-consumed-by-a-progress-taking-callee"
        o = enclosing_open(t, back, s, f.body_start + 1)
        if o >= 0 and t[o] == "(":
            for c in self.owner_calls(f):
                if c.open == o:
                    if any(g.id in self.cond for g in self.resolve(f, c)):
                        return "propagate", f"closure-arg->{c.name}"
                    if c.kind == "method" and c.name in ("and_then", "or_else", "try_for_each", "try_fold"):
                        via.append("closure-" + c.name)
                        return ("continue", c.expr_start, c.end)
                    if c.kind == "method" and c.name in ("map", "then"):
                        via.append("closure-map")
                        return ("continue", c.expr_start, c.end)
                    return "swallow", f"closure-arg:{c.name}"
        return "swallow", "closure:unknown-destination"

    def rows(self):
        out = []
        for f in self.fns:
            if f.name == "check_progress" and f.impl == "Context":
                continue
            for c in self.owner_calls(f):
                k = self.call_capable(f, c)
                if not k:
                    continue
                disp, detail = self.classify(f, c)
                out.append((f.file, f.qual(), c.name if k not in ("param", "closure") else f"<{k} {c.name}>", c.line, disp, detail, k))
        return out


def analyse(src_root):
    a = Analyser(load(src_root))
    a.fixpoint()
    return a
