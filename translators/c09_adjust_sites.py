#!/usr/bin/env python3
"""Regenerate lean/C2paModel/Gen/C09AdjSites.lean from /repo/sdk/src/asset_handlers/bmff_io.rs.

The BMFF absolute-offset fix-up `adjust_known_offsets_from` consists of one section per box
path: `if let Some(..) = bmff_path_map.get("<path>") { … }`. This translator emits

  * `sites`    one row per section, in source order: the box path, the number of
               `adjust_offset(` call sites and the number of `adjust_offset_u32(` call sites in it
               (a section that writes an offset field without going through `adjust_offset*`
               shows up as a count that differs from the model's table),
  * `callers`  every call of `adjust_known_offsets_from(` outside its own definition: the
               enclosing function and the text of the last argument (the pivot).

Lean (Props/C09Bmff.lean) proves that these tables equal the ones the model was written
against. Fails closed (exit 1): function not found, unbalanced braces, no section found, a
`bmff_path_map.get(` whose argument is not a string literal, a call whose arguments cannot be
split.
"""
import json, os, re, sys

ROOT = os.path.dirname(os.path.dirname(os.path.abspath(__file__)))
SRC = "/repo/sdk/src/asset_handlers/bmff_io.rs"
OUT = os.path.join(ROOT, "lean/C2paModel/Gen/C09AdjSites.lean")


def fail(m):
    print("translator c09_adjust_sites: " + m)
    sys.exit(1)


def strip_comments(text):
    """Blank out // and /* */ comments and the contents of string literals are KEPT (paths are
    string literals); char-level scanner, enough for this file (no raw strings in the function)."""
    out = []
    i, n = 0, len(text)
    while i < n:
        if text.startswith("//", i):
            j = text.find("\n", i)
            j = n if j < 0 else j
            out.append(" " * (j - i))
            i = j
        elif text.startswith("/*", i):
            j = text.find("*/", i + 2)
            if j < 0:
                fail("unterminated block comment")
            seg = text[i:j + 2]
            out.append("".join("\n" if c == "\n" else " " for c in seg))
            i = j + 2
        elif text[i] == '"':
            j = i + 1
            while j < n and text[j] != '"':
                j += 2 if text[j] == "\\" else 1
            out.append(text[i:j + 1])
            i = j + 1
        elif text[i] == "'" and re.match(r"'(\\.|[^\\'])'", text[i:i + 4]):
            m = re.match(r"'(\\.|[^\\'])'", text[i:i + 4])
            out.append(m.group(0))
            i += m.end()
        else:
            out.append(text[i])
            i += 1
    return "".join(out)


def match_brace(text, open_pos):
    depth, i, n = 0, open_pos, len(text)
    in_str = False
    while i < n:
        c = text[i]
        if in_str:
            if c == "\\":
                i += 1
            elif c == '"':
                in_str = False
        elif c == '"':
            in_str = True
        elif c == "{":
            depth += 1
        elif c == "}":
            depth -= 1
            if depth == 0:
                return i
        i += 1
    fail("unbalanced braces")


def match_paren(text, open_pos):
    depth, i, n = 0, open_pos, len(text)
    while i < n:
        c = text[i]
        if c == "(":
            depth += 1
        elif c == ")":
            depth -= 1
            if depth == 0:
                return i
        i += 1
    fail("unbalanced parentheses")


def split_args(s):
    args, depth, cur = [], 0, []
    for c in s:
        if c in "([{<" and not (c == "<"):
            depth += 1
        elif c in ")]}":
            depth -= 1
        if c == "," and depth == 0:
            args.append("".join(cur))
            cur = []
        else:
            cur.append(c)
    if "".join(cur).strip():
        args.append("".join(cur))
    return [" ".join(a.split()) for a in args]


def lean_str(s):
    return '"' + s.replace("\\", "\\\\").replace('"', '\\"') + '"'


def main():
    if not os.path.exists(SRC):
        fail("source file missing")
    text = strip_comments(open(SRC).read())
    m = re.search(r"\bfn\s+adjust_known_offsets_from\b", text)
    if not m:
        fail("fn adjust_known_offsets_from not found")
    ob = text.find("{", text.find(")", m.end()))
    # the opening brace of the body is the first '{' after the `-> Result<()>`
    arrow = text.find("->", m.end())
    ob = text.find("{", arrow)
    cb = match_brace(text, ob)
    body = text[ob:cb + 1]
    gets = list(re.finditer(r"bmff_path_map\s*\.\s*get\s*\(", body))
    if not gets:
        fail("no bmff_path_map.get( section in adjust_known_offsets_from")
    sites = []
    for k, g in enumerate(gets):
        lit = re.match(r'\s*"([^"]*)"\s*\)', body[g.end():])
        if not lit:
            fail("bmff_path_map.get( argument is not a string literal")
        # the section is the block of the enclosing `if let … {`
        sob = body.find("{", g.end())
        scb = match_brace(body, sob)
        if k + 1 < len(gets) and gets[k + 1].start() < scb:
            fail("nested bmff_path_map.get sections")
        sec = body[sob:scb + 1]
        n64 = len(re.findall(r"\badjust_offset\s*\(", sec))
        n32 = len(re.findall(r"\badjust_offset_u32\s*\(", sec))
        sites.append((lit.group(1), n64, n32))
    # callers
    callers = []
    fn_heads = [(f.start(), f.group(1)) for f in re.finditer(r"\bfn\s+([A-Za-z_][A-Za-z0-9_]*)", text)]
    for c in re.finditer(r"\badjust_known_offsets_from\s*\(", text):
        if text[:c.start()].rstrip().endswith("fn"):
            continue
        op = c.end() - 1
        cp = match_paren(text, op)
        args = split_args(text[op + 1:cp])
        if len(args) != 5:
            fail(f"call of adjust_known_offsets_from with {len(args)} arguments")
        encl = [name for (pos, name) in fn_heads if pos < c.start()]
        if not encl:
            fail("call outside any function")
        callers.append((encl[-1], args[4]))
    lines = [
        "/-",
        "GENERATED on every check run by translators/c09_adjust_sites.py — do not edit.",
        "`sites`: the sections of `adjust_known_offsets_from` (bmff_io.rs) in source order: box path,",
        "number of `adjust_offset(` call sites, number of `adjust_offset_u32(` call sites.",
        "`callers`: every call of `adjust_known_offsets_from`: enclosing function, pivot argument.",
        "-/",
        "namespace C2pa.C09Bmff.Gen",
        "",
        "def sites : List (String × Nat × Nat) := [",
        ",\n".join(f"  ({lean_str(p)}, {a}, {b})" for (p, a, b) in sites),
        "]",
        "",
        "def callers : List (String × String) := [",
        ",\n".join(f"  ({lean_str(f)}, {lean_str(p)})" for (f, p) in callers),
        "]",
        "",
        "end C2pa.C09Bmff.Gen",
        "",
    ]
    new = "\n".join(lines)
    old = open(OUT).read() if os.path.exists(OUT) else None
    if old != new:
        with open(OUT, "w") as f:
            f.write(new)
    print("TABLE " + json.dumps({"sites": sites, "callers": callers, "changed": old != new}))


if __name__ == "__main__":
    main()
