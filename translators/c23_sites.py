#!/usr/bin/env python3
"""Regenerate lean/C2paModel/Gen/C23Sites.lean from /repo/sdk/src.

The table is about FUNCTIONS and CALLERS (c23_analyse.py / c23_rustscan.py do the work):

  cancelFns    transitive closure of the functions that can return Error::OperationCancelled:
               they contain a `check_progress` call, call such a function, or forward a closure
               that does so as a progress callback
  condFns      functions that can do so only through a `FnMut(..) -> Result` parameter they invoke
  callers      one row per call of such a function (or invocation of such a parameter / closure):
               (caller, callee, line, disposition). `propagate` only when the error syntactically
               reaches the caller's own return value (`?`, `return`, tail position through blocks /
               if-else / match arms / let bindings / tuples, a `match` whose first arm able to
               match Err(OperationCancelled) returns or carries it, a closure handed to a
               progress-taking callee, a `Result` parameter whose callee does the same);
               everything else (`.ok()`, `unwrap_or…`, `map_err`, `let _ =`, `if let`, `match … Err(e)
               => log`, argument of an unknown function, discarded statement …) is `swallow`
  sites        the rows whose callee is `check_progress` as (file, line, disposition): the
               checkpoints themselves (the harness reports the (file, line) of every checkpoint an
               operation reaches, obtained with #[track_caller])
  invocations  the rows that invoke a progress parameter / closure
Also counts the `match hash_result` sites of Claim::verify_hash_binding with their guards (kept
from the first version of the table). Fails closed (exit 1) on anything it cannot parse.
"""
import hashlib, json, os, re, sys

sys.dont_write_bytecode = True
sys.path.insert(0, os.path.dirname(os.path.abspath(__file__)))
from c23_rustscan import ScanError  # noqa: E402
from c23_analyse import analyse  # noqa: E402

ROOT = os.path.dirname(os.path.dirname(os.path.abspath(__file__)))
SRC = os.environ.get("C23_SRC", "/repo/sdk/src")
OUT = os.environ.get("C23_OUT", os.path.join(ROOT, "lean/C2paModel/Gen/C23Sites.lean"))


def fail(m):
    print("translator c23_sites: " + m)
    sys.exit(1)


def lean_str(s):
    return '"' + s.replace("\\", "\\\\").replace('"', '\\"') + '"'


def lean_list(items, indent="  "):
    return ",\n".join(indent + x for x in items)


def main():
    try:
        a = analyse(SRC)
        rows = a.rows()
    except ScanError as e:
        fail(str(e))
    except Exception as e:  # fail closed on any scanner bug
        fail(f"internal error: {type(e).__name__}: {e}")
    if not rows:
        fail("no call of a cancellable function found")
    if not any(f.name == "check_progress" and f.impl == "Context" for f in a.fns):
        fail("Context::check_progress not found")
    rows.sort(key=lambda r: (r[0], r[3], r[2]))
    sites = [(r[0], r[3], r[4], r[5]) for r in rows if r[2] == "check_progress"]
    invocations = [(r[0], r[3], r[4], r[5]) for r in rows if r[6] in ("param", "closure")]
    if not sites:
        fail("no check_progress call sites found")
    cancel_fns = sorted(a.fns[i].qual() for i in a.uncond)
    cond_fns = sorted(a.fns[i].qual() for i in a.cond)
    # every row's caller that returns a Result must itself be in the closure (sanity of the fixpoint)
    capable = set(cancel_fns) | set(cond_fns)
    for r in rows:
        f = next(x for x in a.fns if x.qual() == r[1] and x.file == r[0])
        if r[4] == "propagate" and r[1] not in capable:
            fail(f"row {r[1]}:{r[3]} propagates but its caller is not in the closure")

    claim_path = os.path.join(SRC, "claim.rs")
    claim = open(claim_path).read()
    m = re.search(r"fn verify_hash_binding\(.*?\n    }\n", claim, re.S)
    if not m:
        fail("verify_hash_binding not found")
    body = m.group(0)
    matches = len(re.findall(r"match hash_result \{", body))
    guards = len(re.findall(r"Err\(e\) if Self::is_fatal_hash_binding_error\(&e\) => return Err\(e\)", body))
    fatal = re.search(r"fn is_fatal_hash_binding_error\(e: &Error\) -> bool \{(.*?)\n    }\n", claim, re.S)
    cancels_fatal = bool(fatal and re.search(r"Error::OperationCancelled\s*=>\s*true", fatal.group(1)))

    SILENT = (".ok()", ".err()", ".is_ok()", ".is_err()", ".unwrap_or", ".or(", ".or_else(", "let _ =", "discarded;",
              ".map_or", ".iter()", ".into_iter()", ".filter_map", ".flatten", ".flat_map")

    def d3(x, detail):
        if x == "propagate":
            return "Disp.propagate"
        # dropped without a trace vs. turned into something else (log entry, other error, panic)
        return "Disp.discard" if any(detail.startswith(s) for s in SILENT) else "Disp.swallow"

    h = hashlib.sha256()
    for r in rows:
        h.update(repr(r[:6]).encode())
    text = f"""import C2paModel.Model.C23
/-
GENERATED on every check run by translators/c23_sites.py — do not edit.
`cancelFns`: the functions of sdk/src that can return Error::OperationCancelled (transitive closure
from Context::check_progress over calls and forwarded progress closures); `condFns`: those that can
only through a progress-callback parameter. `callers`: every call of such a function /
invocation of such a parameter or closure as (caller, callee, line, disposition of the Result).
`sites`: the rows whose callee is `check_progress` as (file, line, disposition).
`invocations`: the rows that invoke a progress parameter / closure.
-/
namespace C2pa.C23.Gen
open C2pa.C23

def cancelFns : List String := [
{lean_list([lean_str(x) for x in cancel_fns])}
]

def condFns : List String := [
{lean_list([lean_str(x) for x in cond_fns])}
]

def callers : List (String × String × Nat × Disp) := [
{lean_list([f"({lean_str(r[1])}, {lean_str(r[2])}, {r[3]}, {d3(r[4], r[5])})" for r in rows])}
]

def sites : List (String × Nat × Disp) := [
{lean_list([f"({lean_str(s[0])}, {s[1]}, {d3(s[2], s[3])})" for s in sites])}
]

def invocations : List (String × Nat × Disp) := [
{lean_list([f"({lean_str(s[0])}, {s[1]}, {d3(s[2], s[3])})" for s in invocations])}
]

/-- number of `match hash_result` sites in `Claim::verify_hash_binding` -/
def hashResultMatches : Nat := {matches}
/-- number of those with the guard that returns cancellation / I/O failures to the caller -/
def hashResultGuards : Nat := {guards}
/-- `is_fatal_hash_binding_error` classifies `OperationCancelled` as fatal -/
def cancelIsFatal : Bool := {"true" if cancels_fatal else "false"}

end C2pa.C23.Gen
"""
    old = open(OUT).read() if os.path.exists(OUT) else None
    if old != text:
        os.makedirs(os.path.dirname(OUT), exist_ok=True)
        open(OUT, "w").write(text)
    swallow = [r for r in rows if r[4] == "swallow"]
    failures = []
    for r in swallow:
        if r[2] == "check_progress":
            failures.append({"class": f"swallow-site:{r[0]}", "case": 0, "request": f"{r[0]}:{r[3]}",
                             "detail": f"check_progress result at sdk/src/{r[0]}:{r[3]} ({r[1]}) is not propagated ({r[5]}): a `false` answer of the progress callback at this checkpoint does not end the operation with OperationCancelled"})
        else:
            failures.append({"class": f"swallow-caller:{r[1]}", "case": 0, "request": f"{r[0]}:{r[3]}",
                             "detail": f"{r[1]} (sdk/src/{r[0]}:{r[3]}) calls {r[2]}, which can return OperationCancelled, and does not return that error to its own caller ({r[5]})"})
    info = {"table": "C23Sites", "functions_scanned": len(a.fns), "cancel_fns": len(cancel_fns), "cond_fns": len(cond_fns),
            "callers": len(rows), "sites": len(sites), "invocations": len(invocations),
            "swallow": [[r[1], r[2], r[3], r[5]] for r in swallow],
            "hash_result_matches": matches, "guards": guards, "cancel_is_fatal": cancels_fatal,
            "sha256": h.hexdigest()[:16], "changed": old != text,
            "oracle_failures": failures}
    print("TABLE " + json.dumps(info))
    if os.environ.get("C23_DUMP"):
        for r in rows:
            print("ROW", r)


if __name__ == "__main__":
    main()
