#!/usr/bin/env python3
"""Regenerate lean/C2paModel/Gen/C23Sites.lean from /repo/sdk/src.

For every `check_progress(` call site (outside tests and the definition itself) classify what
the source does with the `Result`:
  q     the call expression is immediately followed by `?`
  tail  the call is the tail expression of a closure / block (its value is returned to a
        caller that itself is a listed consumer: `progress(step, total)?` inside the hashing
        functions)
  other anything else (assigned, matched, ignored …)  -> the table theorem fails
Also lists every invocation of a progress closure parameter (`progress(`/`cb(` … inside the
hashing code) and whether it is followed by `?`, and counts the `match hash_result` sites of
Claim::verify_hash_binding together with the guards that propagate cancellation.
Fails closed (exit 1) on anything it cannot parse.
"""
import hashlib, json, os, re, sys

ROOT = os.path.dirname(os.path.dirname(os.path.abspath(__file__)))
SRC = "/repo/sdk/src"
OUT = os.path.join(ROOT, "lean/C2paModel/Gen/C23Sites.lean")


def fail(m):
    print("translator c23_sites: " + m)
    sys.exit(1)


def strip_tests(text):
    i = text.find("#[cfg(test)]\nmod tests")
    j = text.find("#[cfg(test)]\npub mod tests")
    k = text.find("#[cfg(test)]\npub(crate) mod tests")
    cut = min([x for x in (i, j, k) if x >= 0], default=-1)
    return text if cut < 0 else text[:cut]


def match_paren(text, i):
    """i points at '('; return index after the matching ')'."""
    depth = 0
    while i < len(text):
        c = text[i]
        if c == "(":
            depth += 1
        elif c == ")":
            depth -= 1
            if depth == 0:
                return i + 1
        i += 1
    return -1


def classify(text, start, end):
    after = text[end:end + 200]
    a = after.lstrip()
    if a.startswith("?"):
        return "q"
    if a.startswith(".await") and a[6:].lstrip().startswith("?"):
        return "q"
    # tail expression: next non-space token closes a block/closure or an argument list
    if a.startswith("}") or a.startswith(")") or a.startswith(","):
        return "tail"
    if a.startswith(";"):
        # `let mut cb = |step, total| ctx.check_progress(..);`  -> closure whose body is the call
        line_start = text.rfind("\n", 0, start) + 1
        prefix = text[line_start:start]
        prev = text[max(0, line_start - 200):line_start]
        if re.search(r"\|[^|]*\|\s*(\w+\.)*\s*$", prefix) or re.search(r"\|[^|]*\|\s*$", prev.rstrip() + " ") and prefix.strip().endswith("."):
            return "tail"
        if re.search(r"\|[^|]*\|\s*[\w.]*$", prefix):
            return "tail"
        return "other"
    return "other"


def main():
    sites = []
    invocations = []
    files = []
    for d, _, fs in os.walk(SRC):
        if "verif_hooks" in d:
            continue
        for f in fs:
            if f.endswith(".rs"):
                files.append(os.path.join(d, f))
    files.sort()
    h = hashlib.sha256()
    for path in files:
        text = strip_tests(open(path, errors="replace").read())
        rel = os.path.relpath(path, SRC)
        for m in re.finditer(r"check_progress\(", text):
            ls = text.rfind("\n", 0, m.start()) + 1
            line = text[ls:text.find("\n", m.start())]
            if "fn check_progress" in line or line.strip().startswith("//"):
                continue
            end = match_paren(text, m.end() - 1)
            if end < 0:
                fail(f"unbalanced parens at {rel}")
            ln = text.count("\n", 0, m.start()) + 1
            disp = classify(text, m.start(), end)
            sites.append((rel, ln, disp))
            h.update(f"{rel}:{disp}:{text[m.start():end]}".encode())
        # invocations of progress closures inside the hashing code
        if rel in ("utils/hash_utils.rs", "assertions/bmff_hash.rs", "assertions/box_hash.rs",
                   "assertions/data_hash.rs", "utils/merkle.rs", "asset_handlers/bmff_io.rs"):
            for m in re.finditer(r"\b(progress|progress_cb|cb|progress_tick|Self::progress_tick)\(", text):
                ls = text.rfind("\n", 0, m.start()) + 1
                line = text[ls:text.find("\n", m.start())]
                if line.strip().startswith("//") or "fn " in line:
                    continue
                end = match_paren(text, m.end() - 1)
                ln = text.count("\n", 0, m.start()) + 1
                after = text[end:end + 20].lstrip()
                ok = after.startswith("?") or after.startswith("}")  # `?` or tail value of the fn
                invocations.append((rel, ln, "q" if ok else "other"))
                h.update(f"{rel}:inv:{text[m.start():end]}".encode())
    claim = strip_tests(open(os.path.join(SRC, "claim.rs")).read())
    m = re.search(r"fn verify_hash_binding\(.*?\n    }\n", claim, re.S)
    if not m:
        fail("verify_hash_binding not found")
    body = m.group(0)
    matches = len(re.findall(r"match hash_result \{", body))
    guards = len(re.findall(r"Err\(e\) if Self::is_fatal_hash_binding_error\(&e\) => return Err\(e\)", body))
    fatal = re.search(r"fn is_fatal_hash_binding_error\(e: &Error\) -> bool \{(.*?)\n    }\n", claim, re.S)
    cancels_fatal = bool(fatal and re.search(r"Error::OperationCancelled\s*=>\s*true", fatal.group(1)))
    if not sites:
        fail("no check_progress call sites found")

    def row(t):
        return f'  ("{t[0]}", {t[1]}, Disp.{"propagate" if t[2] in ("q", "tail") else "swallow"})'

    text = f"""import C2paModel.Model.C23
/-
GENERATED on every check run by translators/c23_sites.py — do not edit.
`sites`: every `check_progress(` call site in sdk/src (file, line, disposition of the Result:
`propagate` = followed by `?` or returned as the tail value of a closure/block; `swallow` =
anything else). `invocations`: every call of a progress closure inside the hashing code.
-/
namespace C2pa.C23.Gen
open C2pa.C23

def sites : List (String × Nat × Disp) := [
{chr(10).join(row(t) + ("," if i + 1 < len(sites) else "") for i, t in enumerate(sites))}
]

def invocations : List (String × Nat × Disp) := [
{chr(10).join(row(t) + ("," if i + 1 < len(invocations) else "") for i, t in enumerate(invocations))}
]

/-- number of `match hash_result` sites in `Claim::verify_hash_binding` -/
def hashResultMatches : Nat := {matches}
/-- number of those with the guard that returns cancellation / I/O failures to the caller -/
def hashResultGuards : Nat := {guards}
/-- `is_fatal_hash_binding_error` classifies `OperationCancelled` as fatal -/
def cancelIsFatal : Bool := {"true" if cancels_fatal else "false"}

end C2pa.C23.Gen
"""
    old = open(OUT).read() if os.path.exists(OUT) else None
    if old != text:
        os.makedirs(os.path.dirname(OUT), exist_ok=True)
        open(OUT, "w").write(text)
    info = {"table": "C23Sites", "sites": len(sites), "swallow": [s for s in sites if s[2] == "other"],
            "invocations": len(invocations), "inv_other": [s for s in invocations if s[2] == "other"],
            "hash_result_matches": matches, "guards": guards, "cancel_is_fatal": cancels_fatal,
            "sha256": h.hexdigest()[:16], "changed": old != text,
            # sites that swallow the cancellation are property failures of the implementation
            "oracle_failures": [
                {"class": f"swallow-site:{s[0]}", "case": 0, "request": f"{s[0]}:{s[1]}",
                 "detail": f"check_progress result at sdk/src/{s[0]}:{s[1]} is neither propagated with `?` nor returned: a `false` answer of the progress callback at this checkpoint does not end the operation with OperationCancelled"}
                for s in sites if s[2] == "other"]}
    print("TABLE " + json.dumps(info))


if __name__ == "__main__":
    main()
