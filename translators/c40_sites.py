#!/usr/bin/env python3
"""Regenerate lean/C2paModel/Gen/C40Sites.lean from /repo/sdk/src.

The `#[async_generic]` attribute (crate async-generic 1.1) expands ONE function body into a
synchronous function `f` and an asynchronous function `f_async`; inside the body every
`if _sync { A } else { B }` keeps `A` in `f` and `B` in `f_async`. This translator scans
every `*.rs` under sdk/src (verif_hooks excluded), finds every function carrying the
attribute, and emits

  * `sites`       one row per `if _sync {A} else {B}`: file, line, function, is-test flag and the
                  *token lists* of both arms (the twin test is done in Lean, by the kernel, with
                  the normaliser of Model/C40.lean; the python classification printed in the
                  TABLE line is informational),
  * `signatures`  one row per `#[async_generic(async_signature(..))]`: the tokens of the
                  synchronous parameter list and of the asynchronous one,
  * `functions`   every attributed function as (file, name) + the count; `attrScanCount` is the
                  number of `#[async_generic` attribute lines found by an independent raw-text
                  scan (no lexer); every `async_generic` identifier of the token stream must be
                  either that attribute or the `use async_generic::async_generic` import,
  * `handPairs`   every hand-written `fn X_async` with a sibling `fn X` in the same scope (these
                  are NOT macro expansions: the macro never leaves an `_async` name in the
                  source), with the token lists of both bodies,
  * `crossScope`  every `fn X_async` whose `fn X` lives in another scope of the same file (the
                  two members of a sync/async trait pair),
  * `asyncOrphans` every `fn X_async` without any `fn X` in its file.

Fails closed (exit 1): unbalanced delimiters, a `_sync`/`_async` token that is not of the form
`if _sync {` … `} else {` … `}`, an `else if` after a `_sync` arm, a site without else-arm, a
`_sync` token outside an attributed function, an attribute whose function cannot be located.
"""
import hashlib, json, os, re, sys

ROOT = os.path.dirname(os.path.dirname(os.path.abspath(__file__)))
SRC = "/repo/sdk/src"
OUT = os.path.join(ROOT, "lean/C2paModel/Gen/C40Sites.lean")


def fail(m):
    print("translator c40_sites: " + m)
    sys.exit(1)


IDENT_START = re.compile(r"[A-Za-z_]")
IDENT = re.compile(r"[A-Za-z_][A-Za-z0-9_]*")
NUMBER = re.compile(r"[0-9][A-Za-z0-9_]*(\.[0-9][A-Za-z0-9_]*)?")


def tokenize(text, rel):
    """Rust lexer sufficient for token comparison: returns [(tok, line)]. Comments dropped,
    string/char literals kept as one token, punctuation one character per token."""
    toks = []
    i, n, line = 0, len(text), 1
    while i < n:
        c = text[i]
        if c == "\n":
            line += 1
            i += 1
        elif c in " \t\r":
            i += 1
        elif text.startswith("//", i):
            j = text.find("\n", i)
            i = n if j < 0 else j
        elif text.startswith("/*", i):
            depth, j = 1, i + 2
            while j < n and depth:
                if text.startswith("/*", j):
                    depth += 1
                    j += 2
                elif text.startswith("*/", j):
                    depth -= 1
                    j += 2
                else:
                    if text[j] == "\n":
                        line += 1
                    j += 1
            if depth:
                fail(f"{rel}: unterminated block comment")
            i = j
        elif c == '"' or (c in "br" and re.match(r'(b?r#*"|b")', text[i:i + 12])):
            m = re.match(r'(b?)(r(#*))?"', text[i:])
            start = i
            if m.group(2) is not None:  # raw string
                closer = '"' + m.group(3)
                j = text.find(closer, i + m.end())
                if j < 0:
                    fail(f"{rel}:{line}: unterminated raw string")
                i = j + len(closer)
            else:
                j = i + m.end()
                while j < n and text[j] != '"':
                    j += 2 if text[j] == "\\" else 1
                if j >= n:
                    fail(f"{rel}:{line}: unterminated string")
                i = j + 1
            toks.append((text[start:i], line))
            line += text.count("\n", start, i)
        elif c == "'" or (c == "b" and text.startswith("b'", i)):
            start = i
            j = i + (2 if c == "b" else 1)
            # char literal or lifetime
            if j < n and text[j] == "\\":
                k = text.find("'", j + 2)
                if k < 0:
                    fail(f"{rel}:{line}: bad char literal")
                i = k + 1
            elif j + 1 < n and text[j + 1] == "'":
                i = j + 2
            else:
                m = IDENT.match(text, j)
                if not m:
                    fail(f"{rel}:{line}: bad lifetime/char")
                i = m.end()
            toks.append((text[start:i], line))
        elif IDENT_START.match(c):
            m = IDENT.match(text, i)
            # raw identifiers r#name
            toks.append((m.group(0), line))
            i = m.end()
        elif c.isdigit():
            m = NUMBER.match(text, i)
            toks.append((m.group(0), line))
            i = m.end()
        else:
            toks.append((c, line))
            i += 1
    return toks


OPEN = {"(": ")", "[": "]", "{": "}"}
CLOSE = {")", "]", "}"}


def match_group(toks, i, rel):
    """toks[i] is an opening delimiter; return index of its closing partner."""
    stack = []
    j = i
    while j < len(toks):
        t = toks[j][0]
        if t in OPEN:
            stack.append(OPEN[t])
        elif t in CLOSE:
            if not stack or stack.pop() != t:
                fail(f"{rel}:{toks[j][1]}: unbalanced delimiter {t}")
            if not stack:
                return j
        j += 1
    fail(f"{rel}:{toks[i][1]}: unterminated group")


def test_regions(toks, rel):
    """index ranges of `#[cfg(test)] (pub|pub(crate))? mod x { … }`."""
    out = []
    pat = ["#", "[", "cfg", "(", "test", ")", "]"]
    i = 0
    while i + len(pat) < len(toks):
        if [t[0] for t in toks[i:i + len(pat)]] == pat:
            j = i + len(pat)
            # further attributes
            while toks[j][0] == "#":
                j = match_group(toks, j + 1, rel) + 1
            if toks[j][0] == "pub":
                j += 1
                if toks[j][0] == "(":
                    j = match_group(toks, j, rel) + 1
            if toks[j][0] == "mod" and toks[j + 2][0] == "{":
                e = match_group(toks, j + 2, rel)
                out.append((i, e))
                i = e
                continue
        i += 1
    return out


def find_sites(toks, lo, hi, rel, fn, is_test, sites, depth=0):
    """Collect every `if _sync {A} else {B}` in toks[lo:hi] (nested ones included)."""
    i = lo
    while i < hi:
        t = toks[i][0]
        if t in ("_sync", "_async"):
            if t == "_async":
                fail(f"{rel}:{toks[i][1]}: `_async` condition is not supported by this translator")
            if not (i >= 1 and toks[i - 1][0] == "if" and toks[i + 1][0] == "{"):
                fail(f"{rel}:{toks[i][1]}: `_sync` not in the form `if _sync {{`")
            a0 = i + 1
            a1 = match_group(toks, a0, rel)
            if not (toks[a1 + 1][0] == "else"):
                fail(f"{rel}:{toks[i][1]}: `if _sync` without else arm")
            if toks[a1 + 2][0] != "{":
                fail(f"{rel}:{toks[i][1]}: `else` of `if _sync` not followed by a block")
            b0 = a1 + 2
            b1 = match_group(toks, b0, rel)
            sites.append({
                "file": rel, "line": toks[i][1], "fn": fn, "test": is_test, "depth": depth,
                "a": (a0 + 1, a1), "b": (b0 + 1, b1),
            })
            # nested sites inside either arm
            find_sites(toks, a0 + 1, a1, rel, fn, is_test, sites, depth + 1)
            find_sites(toks, b0 + 1, b1, rel, fn, is_test, sites, depth + 1)
            i = b1 + 1
        else:
            i += 1


def desugar(toks, lo, hi, flavour_async, rel):
    """token strings of toks[lo:hi] with nested `if _sync` sites replaced by the arm the macro keeps"""
    out = []
    i = lo
    while i < hi:
        t = toks[i][0]
        if t == "if" and i + 1 < hi and toks[i + 1][0] == "_sync":
            a0 = i + 2
            a1 = match_group(toks, a0, rel)
            b0 = a1 + 2
            b1 = match_group(toks, b0, rel)
            if flavour_async:
                out += ["{"] + desugar(toks, b0 + 1, b1, True, rel) + ["}"]
            else:
                out += ["{"] + desugar(toks, a0 + 1, a1, False, rel) + ["}"]
            i = b1 + 1
        else:
            out.append(t)
            i += 1
    return out


# ---- the same normaliser as Model/C40.lean `normAsync` (informational classification only) ----
def strip_async(t):
    return t[:-6] if t.endswith("_async") and len(t) > 6 else t


def norm_async(ts):
    out = []
    i = 0
    while i < len(ts):
        if ts[i] == "." and i + 1 < len(ts) and ts[i + 1] == "await":
            i += 2
        elif ts[i] == "async":
            i += 1
        elif ts[i:i + 5] == ["Box", ":", ":", "pin", "("]:
            # find the matching ')'
            depth, j = 0, i + 4
            while j < len(ts):
                if ts[j] == "(":
                    depth += 1
                elif ts[j] == ")":
                    depth -= 1
                    if depth == 0:
                        break
                j += 1
            if j >= len(ts):
                out.append(ts[i])
                i += 1
                continue
            out += norm_async(ts[i + 5:j])
            i = j + 1
        else:
            out.append(strip_async(ts[i]))
            i += 1
    return out


def fn_body(toks, name, rel):
    """token index range (exclusive of braces) of the body of the first `fn name`"""
    for j in range(len(toks) - 1):
        if toks[j][0] == "fn" and toks[j + 1][0] == name:
            k = j + 2
            while toks[k][0] != "(":
                k += 1
            b = match_group(toks, k, rel) + 1
            while toks[b][0] != "{":
                if toks[b][0] in ("(", "["):
                    b = match_group(toks, b, rel) + 1
                else:
                    b += 1
            return b + 1, match_group(toks, b, rel)
    fail(f"{rel}: fn {name} not found")


def field_path(toks, i):
    """`x . a . b` starting at the token after x: returns 'a.b' (possibly empty)"""
    out = []
    while toks[i][0] == "." and IDENT.fullmatch(toks[i + 1][0]) and toks[i + 2][0] != "(":
        out.append(toks[i + 1][0])
        i += 2
    return ".".join(out), i


def settings_side_condition():
    """Store::sign_claim passes `&adjusted_settings` to cose_sign but `settings` to cose_sign_async.
    Emit (a) the settings fields `cose_sign` can read, (b) the fields in which `adjusted_settings`
    differs from `settings`. Anything not understood is reported as the field `*`."""
    rel = "cose_sign.rs"
    toks = tokenize(open(os.path.join(SRC, rel), errors="replace").read(), rel)
    reads = set()
    lo, hi = fn_body(toks, "cose_sign", rel)
    for i in range(lo, hi):
        if toks[i][0] == "settings":
            ctx = [t[0] for t in toks[i - 4:i + 2]]
            if ctx != ["signing_cert_valid", "(", "signing_cert", ",", "settings", ")"]:
                reads.add("*")
    lo, hi = fn_body(toks, "signing_cert_valid", rel)
    for i in range(lo, hi):
        if toks[i][0] == "settings":
            path, _ = field_path(toks, i + 1)
            reads.add(path if path else "*")
    rel = "store.rs"
    toks = tokenize(open(os.path.join(SRC, rel), errors="replace").read(), rel)
    lo, hi = fn_body(toks, "sign_claim", rel)
    writes = set()
    for i in range(lo, hi):
        if toks[i][0] == "adjusted_settings":
            prev = [t[0] for t in toks[i - 2:i]]
            nxt = [t[0] for t in toks[i + 1:i + 6]]
            if prev == ["let", "mut"] and nxt == ["=", "settings", ".", "clone", "("]:
                continue
            if prev[-1] == "&" and prev[0] != "mut" and toks[i + 1][0] in (",", ")"):
                continue
            path, j = field_path(toks, i + 1)
            if path and toks[j][0] == "=" and toks[j + 1][0] != "=":
                writes.add(path)
            else:
                writes.add("*")
    return sorted(reads), sorted(writes)


def scope_ids(toks):
    """for every token the index of the innermost enclosing `{` (-1 at file level)"""
    stack, out = [-1], []
    for k, (t, _) in enumerate(toks):
        if t == "}" and len(stack) > 1:
            stack.pop()
        out.append(stack[-1])
        if t == "{":
            stack.append(k)
    return out


def fn_item(toks, k, rel):
    """toks[k] == 'fn'. Returns (has_async_keyword, body_range_or_None)."""
    has_async, j = False, k - 1
    while j >= 0 and (toks[j][0] in ("async", "unsafe", "const", "extern") or toks[j][0].startswith('"')):
        has_async = has_async or toks[j][0] == "async"
        j -= 1
    j = k + 2
    if toks[j][0] == "<":
        depth = 0
        while True:
            if toks[j][0] == "<":
                depth += 1
            elif toks[j][0] == ">" and toks[j - 1][0] != "-":
                depth -= 1
                if depth == 0:
                    j += 1
                    break
            j += 1
    if toks[j][0] != "(":
        fail(f"{rel}:{toks[k][1]}: parameter list of {toks[k + 1][0]} not found")
    b = match_group(toks, j, rel) + 1
    while toks[b][0] not in ("{", ";"):
        if toks[b][0] in ("(", "["):
            b = match_group(toks, b, rel) + 1
        else:
            b += 1
    if toks[b][0] == ";":
        return has_async, None
    return has_async, (b + 1, match_group(toks, b, rel))


def hand_written(toks, rel, in_test, hand, cross, orphans):
    """Every `fn X_async` of the file (all of them are hand-written: the macro generates its
    `_async` functions at compile time and leaves no such name in the source)."""
    scope = scope_ids(toks)
    fns = {}
    for k in range(len(toks) - 1):
        if toks[k][0] == "fn" and IDENT.fullmatch(toks[k + 1][0]):
            fns.setdefault(toks[k + 1][0], []).append(k)
    path_test = "tests/" in rel or rel.startswith("tests")
    ordn = {}
    for name in sorted(fns):
        if not (name.endswith("_async") and len(name) > 6):
            continue
        stem = name[:-6]
        for k in fns[name]:
            is_test = path_test or in_test(k)
            sib = [j for j in fns.get(stem, []) if scope[j] == scope[k]]
            if len(sib) > 1:
                fail(f"{rel}:{toks[k][1]}: {name} has {len(sib)} siblings named {stem} in one scope")
            if sib:
                a_kw, a_body = fn_item(toks, k, rel)
                s_kw, s_body = fn_item(toks, sib[0], rel)
                if s_kw and not is_test:
                    fail(f"{rel}:{toks[sib[0]][1]}: the sibling {stem} of {name} is itself an async fn")
                idx = ordn.get(stem, 0)
                ordn[stem] = idx + 1
                body = lambda r: [] if (r is None or is_test) else [t[0] for t in toks[r[0]:r[1]]]
                hand.append({"file": rel, "fn": stem, "idx": idx, "line": toks[k][1], "test": is_test,
                             "asyncKw": a_kw, "hasBody": a_body is not None and s_body is not None,
                             "declOnly": a_body is None and s_body is None,
                             "sync": body(s_body), "async": body(a_body)})
            elif fns.get(stem):
                cross.append({"file": rel, "fn": stem, "line": toks[k][1], "test": is_test})
            else:
                orphans.append({"file": rel, "fn": stem, "line": toks[k][1], "test": is_test})


def strip_flavour(t):
    if IDENT.fullmatch(t):
        if t.startswith("Async") and len(t) > 5:
            return t[5:]
        if t.startswith("Sync") and len(t) > 4:
            return t[4:]
    return t


def trait_impls(toks, rel, in_test, out):
    """Every `impl TRAIT for TYPE { … }` of the file with the methods it defines (name, body)."""
    k, n = 0, len(toks)
    # utils/test.rs, utils/test_signer.rs: test utilities
    path_test = "tests/" in rel or rel.startswith("tests") or rel.startswith("utils/test")
    while k < n:
        if toks[k][0] != "impl":
            k += 1
            continue
        j = k + 1
        if j < n and toks[j][0] == "<":
            d = 0
            while True:
                if toks[j][0] == "<":
                    d += 1
                elif toks[j][0] == ">" and toks[j - 1][0] != "-":
                    d -= 1
                    if d == 0:
                        j += 1
                        break
                j += 1
        h0 = j
        while j < n and toks[j][0] not in ("{", ";"):
            j = match_group(toks, j, rel) + 1 if toks[j][0] in ("(", "[") else j + 1
        if j >= n or toks[j][0] == ";":
            k = j + 1
            continue
        header = [x[0] for x in toks[h0:j]]
        be = match_group(toks, j, rel)
        if "for" in header:
            fi = header.index("for")
            trait, ty = header[:fi], header[fi + 1:]
            if "where" in ty:
                ty = ty[:ty.index("where")]
            methods, m = [], j + 1
            while m < be:
                if toks[m][0] == "{":
                    m = match_group(toks, m, rel) + 1
                    continue
                if toks[m][0] == "fn" and IDENT.fullmatch(toks[m + 1][0]):
                    _, body = fn_item(toks, m, rel)
                    if body:
                        methods.append((toks[m + 1][0], [x[0] for x in toks[body[0]:body[1]]]))
                        m = body[1] + 1
                        continue
                m += 1
            out.append({"file": rel, "line": toks[k][1], "trait": trait, "type": ty, "methods": methods,
                        "test": path_test or in_test(k)})
        k = j + 1


def pair_impls(impls):
    """Pair `impl AsyncT for AsyncX` with `impl T for X` (flavour prefixes `Async`/`Sync` of the
    identifiers of trait and type erased; `_async` suffix of method names erased)."""
    key = lambda i: (" ".join(strip_flavour(x) for x in i["trait"]), " ".join(strip_flavour(x) for x in i["type"]))
    is_async = lambda i: any(x.startswith("Async") and strip_flavour(x) != x for x in i["trait"] + i["type"])
    groups = {}
    for i in impls:
        groups.setdefault((key(i), i["test"]), []).append(i)
    pairs, async_only = [], []
    unsfx = lambda nm: nm[:-6] if nm.endswith("_async") and len(nm) > 6 else nm
    for (k, test), v in sorted(groups.items()):
        a = [i for i in v if is_async(i)]
        sy = [i for i in v if not is_async(i)]
        if not a:
            continue
        if not sy:
            async_only += [(i["file"], k[0], k[1], test) for i in a]
            continue
        if len(a) > 1 or len(sy) > 1:
            if test:
                continue
            fail(f"{a[0]['file']}:{a[0]['line']}: ambiguous sync/async impl pair {k}")
        am = {unsfx(nm): b for nm, b in a[0]["methods"]}
        sm = {nm: b for nm, b in sy[0]["methods"]}
        pairs.append({"file": a[0]["file"], "trait": k[0], "type": k[1], "test": test,
                      "syncMethods": sorted(sm), "asyncMethods": sorted(am),
                      "methods": [] if test else [(nm, sm[nm], am[nm]) for nm in sorted(set(sm) & set(am))]})
    return pairs, sorted(set(async_only))


RAW_ATTR = re.compile(r"^[ \t]*#[ \t]*\[[ \t]*async_generic\b", re.M)


def lean_str(s):
    return '"' + s.replace("\\", "\\\\").replace('"', '\\"').replace("\n", "\\n").replace("\r", "\\r").replace("\t", "\\t") + '"'


def lean_list(ts):
    return "[" + ", ".join(lean_str(t) for t in ts) + "]"


def lean_tok(t):
    """decomposed token, mirrors `classify` of Model/C40.lean"""
    if IDENT.fullmatch(t):
        if t.endswith("_async") and len(t) > 6:
            return "sfx " + lean_str(t[:-6])
        if t.startswith("Async") and len(t) > 5:
            return "pfA " + lean_str(t[5:])
        if t.startswith("async_") and len(t) > 6:
            return "pfa " + lean_str(t[6:])
        if t.startswith("Sync") and len(t) > 4:
            return "pfS " + lean_str(t[4:])
    return "t " + lean_str(t)


def lean_toks(ts):
    return "[" + ", ".join("." + lean_tok(t) for t in ts) + "]"


def main():
    files = []
    for d, _, fs in os.walk(SRC):
        if "verif_hooks" in d:
            continue
        for f in fs:
            if f.endswith(".rs"):
                files.append(os.path.join(d, f))
    files.sort()
    h = hashlib.sha256()
    sites_out, sigs_out, fn_count = [], [], {}
    fn_rows, hand, cross, orphans = [], [], [], []
    impls = []
    total_sync_tokens = 0
    raw_attr_count = 0
    for path in files:
        text = open(path, errors="replace").read()
        if "_sync" not in text and "async_generic" not in text and "_async" not in text and "Async" not in text:
            continue
        rel = os.path.relpath(path, SRC)
        toks = tokenize(text, rel)
        tests = test_regions(toks, rel)
        in_test = lambda k: any(a <= k <= b for a, b in tests)
        # independent inventory: attribute lines of the raw text (no lexer involved)
        raw_attr_count += len(RAW_ATTR.findall(text))
        # every `async_generic` identifier is the attribute or the import of the macro
        for k, (t, ln) in enumerate(toks):
            if t == "async_generic":
                prev = [x[0] for x in toks[max(0, k - 4):k]]
                nxt = [x[0] for x in toks[k + 1:k + 4]]
                is_attr = prev[-2:] == ["#", "["]
                is_use = (prev[-1:] == ["use"] and nxt == [":", ":", "async_generic"]) or \
                         (prev[-4:] == ["use", "async_generic", ":", ":"] and nxt[:1] == [";"])
                if not (is_attr or is_use):
                    fail(f"{rel}:{ln}: `async_generic` used in a form this translator does not know")
        hand_written(toks, rel, in_test, hand, cross, orphans)
        trait_impls(toks, rel, in_test, impls)
        covered = []  # token ranges of attributed function bodies
        i = 0
        while i < len(toks):
            if toks[i][0] == "#" and toks[i + 1][0] == "[" and toks[i + 2][0] == "async_generic":
                close = match_group(toks, i + 1, rel)
                async_sig = None
                if toks[i + 3][0] == "(":
                    ge = match_group(toks, i + 3, rel)
                    inner = toks[i + 4:ge]
                    if inner:
                        if inner[0][0] != "async_signature" or inner[1][0] != "(":
                            fail(f"{rel}:{toks[i][1]}: unknown async_generic argument")
                        se = match_group(toks, i + 5, rel)
                        async_sig = [t[0] for t in toks[i + 6:se]]
                # locate `fn name`
                j = close + 1
                while j < len(toks) and toks[j][0] != "fn":
                    if toks[j][0] == "#":  # another attribute
                        j = match_group(toks, j + 1, rel) + 1
                        continue
                    if toks[j][0] in ("pub", "(", ")", "crate", "super", "in", "const", "unsafe", "extern") or toks[j][0].startswith('"'):
                        j += 1
                        continue
                    fail(f"{rel}:{toks[i][1]}: cannot locate the function of #[async_generic] (token {toks[j][0]!r})")
                fn = toks[j + 1][0]
                # parameter list: first '(' at angle depth 0 after the name
                k = j + 2
                if toks[k][0] == "<":
                    depth = 0
                    while True:
                        if toks[k][0] == "<":
                            depth += 1
                        elif toks[k][0] == ">" and toks[k - 1][0] != "-":
                            depth -= 1
                            if depth == 0:
                                k += 1
                                break
                        k += 1
                if toks[k][0] != "(":
                    fail(f"{rel}:{toks[j][1]}: parameter list of {fn} not found")
                pe = match_group(toks, k, rel)
                sync_sig = [t[0] for t in toks[k + 1:pe]]
                # body: first '{' at delimiter depth 0 after the parameter list
                b = pe + 1
                while toks[b][0] != "{":
                    if toks[b][0] in ("(", "["):
                        b = match_group(toks, b, rel) + 1
                    elif toks[b][0] == ";":
                        fail(f"{rel}:{toks[j][1]}: {fn} has no body")
                    else:
                        b += 1
                be = match_group(toks, b, rel)
                covered.append((b, be))
                is_test = in_test(i)
                fn_count[rel] = fn_count.get(rel, 0) + 1
                fn_rows.append({"file": rel, "fn": fn, "test": is_test, "line": toks[i][1]})
                h.update(("fn:" + rel + ":" + fn).encode())
                if async_sig is not None:
                    # drop trailing commas for comparison
                    while sync_sig and sync_sig[-1] == ",":
                        sync_sig.pop()
                    while async_sig and async_sig[-1] == ",":
                        async_sig.pop()
                    sigs_out.append({"file": rel, "line": toks[i][1], "fn": fn, "test": is_test,
                                     "sync": sync_sig, "async": async_sig})
                    h.update(("sig:" + rel + fn + " ".join(sync_sig) + "|" + " ".join(async_sig)).encode())
                found = []
                find_sites(toks, b + 1, be, rel, fn, is_test, found)
                for s in found:
                    a = desugar(toks, s["a"][0], s["a"][1], False, rel)
                    bb = desugar(toks, s["b"][0], s["b"][1], True, rel)
                    s["sync"], s["async"] = a, bb
                    s["twin"] = norm_async(bb) == a
                    sites_out.append(s)
                    h.update(("site:" + rel + fn + " ".join(a) + "|" + " ".join(bb)).encode())
                i = be + 1
                continue
            i += 1
        # every `_sync` token must lie inside an attributed body
        for k, (t, ln) in enumerate(toks):
            if t in ("_sync", "_async"):
                total_sync_tokens += 1
                if not any(a < k < b for a, b in covered):
                    fail(f"{rel}:{ln}: `{t}` outside an #[async_generic] function body")
    if len(sites_out) != total_sync_tokens:
        fail(f"{len(sites_out)} sites parsed but {total_sync_tokens} `_sync` tokens present")
    if not sites_out:
        fail("no `if _sync` site found")

    if raw_attr_count != sum(fn_count.values()):
        fail(f"{sum(fn_count.values())} attributed functions parsed but the raw-text scan sees {raw_attr_count} `#[async_generic` lines")
    for r in hand:
        h.update(("hand:" + r["file"] + ":" + r["fn"] + " ".join(r["sync"]) + "|" + " ".join(r["async"])).encode())
    cross_rows = sorted({(c["file"], c["fn"], c["test"]) for c in cross})
    orphan_rows = sorted({(o["file"], o["fn"], o["test"]) for o in orphans})
    h.update(("cross:" + repr(cross_rows) + repr(orphan_rows)).encode())
    hand.sort(key=lambda r: (r["file"], r["fn"], r["idx"]))
    fn_rows.sort(key=lambda r: (r["file"], r["line"]))

    impl_pairs, async_only_impls = pair_impls(impls)
    for r in impl_pairs:
        h.update(("impl:" + r["trait"] + "|" + r["type"] + "|" + ",".join(r["syncMethods"]) + "|" + ",".join(r["asyncMethods"]) +
                  "|".join(nm + " ".join(a) + "/" + " ".join(b) for nm, a, b in r["methods"])).encode())
    h.update(repr(async_only_impls).encode())

    reads, writes = settings_side_condition()
    h.update(("settings:" + ",".join(reads) + "|" + ",".join(writes)).encode())

    # per-function ordinal so that the reviewed list does not depend on line numbers
    ordn = {}
    for s in sorted(sites_out, key=lambda s: (s["file"], s["line"])):
        key = (s["file"], s["fn"])
        s["idx"] = ordn.get(key, 0)
        ordn[key] = s["idx"] + 1
    sites_out.sort(key=lambda s: (s["file"], s["line"]))

    def site_row(s):
        return ("  { file := " + lean_str(s["file"]) + f", line := {s['line']}, fn := " + lean_str(s["fn"]) +
                f", idx := {s['idx']}, depth := {s['depth']}, test := {'true' if s['test'] else 'false'},\n    syncArm := " + lean_toks(s["sync"]) +
                ",\n    asyncArm := " + lean_toks(s["async"]) + " }")

    def sig_row(s):
        return ("  { file := " + lean_str(s["file"]) + f", line := {s['line']}, fn := " + lean_str(s["fn"]) +
                f", test := {'true' if s['test'] else 'false'},\n    syncSig := " + lean_toks(s["sync"]) +
                ",\n    asyncSig := " + lean_toks(s["async"]) + " }")

    def lean_bool(b):
        return "true" if b else "false"

    def hand_row(r):
        return ("  { file := " + lean_str(r["file"]) + ", fn := " + lean_str(r["fn"]) + f", idx := {r['idx']}, test := {lean_bool(r['test'])}, " +
                f"asyncKw := {lean_bool(r['asyncKw'])}, declOnly := {lean_bool(r['declOnly'])}, hasBody := {lean_bool(r['hasBody'])},\n    syncBody := " +
                lean_toks(r["sync"]) + ",\n    asyncBody := " + lean_toks(r["async"]) + " }")

    def triple_rows(rows):
        return "[" + (",\n  ".join("(" + lean_str(a) + ", " + lean_str(b) + ", " + lean_bool(c) + ")" for a, b, c in rows)) + "]"

    def impl_row(r):
        ms = ",\n      ".join("{ name := " + lean_str(nm) + ", syncBody := " + lean_toks(a) + ", asyncBody := " + lean_toks(b) + " }"
                             for nm, a, b in r["methods"])
        return ("  { file := " + lean_str(r["file"]) + ", traitName := " + lean_str(r["trait"]) + ", ty := " + lean_str(r["type"]) +
                f", test := {lean_bool(r['test'])},\n    syncMethods := " + lean_list(r["syncMethods"]) + ", asyncMethods := " +
                lean_list(r["asyncMethods"]) + ",\n    methods := [" + ms + "] }")

    # split the table into chunks so that no single definition is huge
    CH = 12
    chunks = [sites_out[i:i + CH] for i in range(0, len(sites_out), CH)]
    parts = []
    for ci, ch in enumerate(chunks):
        parts.append(f"def sites{ci} : List Site := [\n" + ",\n".join(site_row(s) for s in ch) + "\n]\n")
    text = f"""import C2paModel.Model.C40
/-
GENERATED on every check run by translators/c40_sites.py — do not edit.
`sites*`: every `if _sync {{A}} else {{B}}` inside an `#[async_generic]` function of sdk/src
(token lists of both arms, nested sites already reduced to the arm the macro keeps).
`signatures`: every `async_signature(..)` with the tokens of the sync and async parameter lists.
`functions` / `attrScanCount`: the inventory of attributed functions, twice (lexer / raw text).
`handPairs`, `crossScope`, `asyncOrphans`: every hand-written `fn X_async` of sdk/src.
-/
namespace C2pa.C40.Gen
open C2pa.C40

{chr(10).join(parts)}
def siteChunks : List (List Site) := [{", ".join(f"sites{ci}" for ci in range(len(chunks)))}]

def sites : List Site := siteChunks.flatten

def signatures : List Sig := [
{(","+chr(10)).join(sig_row(s) for s in sigs_out)}
]

/-- settings fields `cose_sign` (and `signing_cert_valid`, its only consumer of `settings`) can read;
`*` = a use the translator does not understand -/
def coseSignSettingsReads : List String := {lean_list(reads)}
/-- fields in which `adjusted_settings` of `Store::sign_claim` differs from `settings` -/
def adjustedSettingsWrites : List String := {lean_list(writes)}

/-- number of `#[async_generic]` functions found -/
def functionCount : Nat := {sum(fn_count.values())}
/-- every `#[async_generic]` function: (file, name, inside test code) -/
def functions : List (String × String × Bool) := {triple_rows([(r["file"], r["fn"], r["test"]) for r in fn_rows])}
/-- number of `#[async_generic` attribute lines seen by the raw-text scan (no lexer) -/
def attrScanCount : Nat := {raw_attr_count}

/-- every hand-written `fn X_async` with a sibling `fn X` in the same scope (bodies of test code omitted) -/
def handPairs : List HandPair := [
{(","+chr(10)).join(hand_row(r) for r in hand)}
]
/-- `fn X_async` whose `fn X` is in another scope of the same file (sync/async trait pairs): (file, X, test) -/
def crossScope : List (String × String × Bool) := {triple_rows(cross_rows)}
/-- `fn X_async` without any `fn X` in its file: (file, X, test) -/
def asyncOrphans : List (String × String × Bool) := {triple_rows(orphan_rows)}

/-- every pair `impl T for X` / `impl AsyncT for AsyncX` (flavour prefixes erased): the method
names each impl block defines (`_async` suffix erased) and both bodies of the common ones -/
def implPairs : List ImplPair := [
{(","+chr(10)).join(impl_row(r) for r in impl_pairs)}
]
/-- `impl AsyncT for X` without a synchronous counterpart: (file, T, X, test) -/
def asyncOnlyImpls : List (String × String × String × Bool) := [{", ".join("(" + lean_str(a) + ", " + lean_str(b) + ", " + lean_str(c) + ", " + lean_bool(d) + ")" for a, b, c, d in async_only_impls)}]
/-- number of `_sync` tokens in sdk/src (every one is accounted for by a site) -/
def syncTokenCount : Nat := {total_sync_tokens}

end C2pa.C40.Gen
"""
    old = open(OUT).read() if os.path.exists(OUT) else None
    if old != text:
        os.makedirs(os.path.dirname(OUT), exist_ok=True)
        open(OUT, "w").write(text)
    other = [s for s in sites_out if not s["twin"]]
    info = {"table": "C40Sites", "sites": len(sites_out), "twins": len(sites_out) - len(other),
            "other": [f"{s['file']}:{s['line']}:{s['fn']}#{s['idx']}" for s in other],
            "signatures": len(sigs_out), "functions": sum(fn_count.values()), "attr_scan": raw_attr_count,
            "hand_pairs": [f"{r['file']}:{r['fn']}" for r in hand if not r["test"]],
            "hand_pairs_test": sum(1 for r in hand if r["test"]),
            "impl_pairs": len(impl_pairs), "async_only_impls": len(async_only_impls),
            "cross_scope": len(cross_rows), "async_orphans": [f"{a}:{b}" for a, b, c in orphan_rows if not c],
            "test_sites": sum(1 for s in sites_out if s["test"]),
            "cose_sign_settings_reads": reads, "adjusted_settings_writes": writes,
            "sha256": h.hexdigest()[:16], "changed": old != text}
    print("TABLE " + json.dumps(info))
    if "--show" in sys.argv:
        for s in other:
            print(f"\n== {s['file']}:{s['line']} {s['fn']}#{s['idx']}")
            print("  sync : " + " ".join(s["sync"]))
            print("  async: " + " ".join(s["async"]))
            print("  norm : " + " ".join(norm_async(s["async"])))
        for s in sigs_out:
            print(f"\n-- sig {s['file']}:{s['line']} {s['fn']}")
            print("  sync : " + " ".join(s["sync"]))
            print("  async: " + " ".join(s["async"]))


if __name__ == "__main__":
    main()
