#!/usr/bin/env python3
"""C31 translator: regenerate the `FfiGuards` table from the C FFI sources.

Input  : /repo/c2pa_c_ffi/src/c_api.rs, c2pa_stream.rs, cimpl/utils.rs (non-test part)
Output : /verif/lean/C2paModel/Gen/C31FfiGuards.lean   (Lean table, consumed by Model/Props C31)
         /verif/.build/c31/ffi_guards.json              (same table for the Rust harness)
         stdout `TABLE {json}` (row count + sha256 of the matched text)

For every `#[no_mangle]` function it records, per parameter, the declared kind and the
ordered list of *uses* of that parameter in the body (token scan, shadowing by `let`
respected).  A use is one of a closed list of recognised shapes (guard macros of
cimpl/macros.rs — for `cimpl_free!(p, T)` with the type argument T —, `is_null` early returns,
conditional uses, opaque casts, raw uses).
Anything else makes the translator exit non-zero (fail closed): the check then reports a
broken obligation instead of silently proving a theorem about a stale table.

The translator is syntactic and part of the trusted base.  It decides nothing about the
property: whether a row is "guarded" is computed in Lean (`C2pa.C31.paramGuarded`).
"""
import hashlib
import json
import os
import re
import sys

REPO = os.environ.get("VERIF_REPO", "/repo")
ROOT = os.path.dirname(os.path.dirname(os.path.abspath(__file__)))
SRC = [
    "c2pa_c_ffi/src/c_api.rs",
    "c2pa_c_ffi/src/c2pa_stream.rs",
    "c2pa_c_ffi/src/cimpl/utils.rs",
]
OUT_LEAN = os.path.join(ROOT, "lean/C2paModel/Gen/C31FfiGuards.lean")
OUT_JSON = os.path.join(ROOT, ".build/c31/ffi_guards.json")


class Unsupported(Exception):
    pass


def die(msg):
    print("c31_ffi_guards: FAIL-CLOSED: " + msg)
    sys.exit(3)


# --------------------------------------------------------------------------- lexer

TOKEN = re.compile(
    r"""
    (?P<ws>\s+)
  | (?P<lcomment>//[^\n]*)
  | (?P<str>b?"(?:\\[\s\S]|[^"\\])*")
  | (?P<char>'(?:\\.|[^'\\])')
  | (?P<life>'[A-Za-z_][A-Za-z0-9_]*)
  | (?P<num>\d[\d_]*(?:\.\d+)?(?:[a-z]\w*)?)
  | (?P<id>[A-Za-z_][A-Za-z0-9_]*!?)
  | (?P<op>::|->|=>|==|!=|<=|>=|&&|\|\||\.\.=|\.\.|[-+*/%^!&|<>=@.,;:#$?~(){}\[\]])
    """,
    re.X,
)


def strip_block_comments(src):
    out, i, depth = [], 0, 0
    while i < len(src):
        if src.startswith("/*", i):
            depth += 1
            i += 2
        elif depth and src.startswith("*/", i):
            depth -= 1
            i += 2
        elif depth:
            out.append("\n" if src[i] == "\n" else " ")
            i += 1
        else:
            out.append(src[i])
            i += 1
    return "".join(out)


def lex(src):
    toks, i = [], 0
    while i < len(src):
        m = TOKEN.match(src, i)
        if not m:
            raise Unsupported(f"cannot tokenise at {src[i:i+30]!r}")
        i = m.end()
        k = m.lastgroup
        if k in ("ws", "lcomment"):
            continue
        toks.append((k, m.group(k)))
    return toks


def cut_tests(src, path):
    """Keep only the non-test part: everything before the first `#[cfg(test)]` that is
    followed by `mod tests`.  Test-only items in the middle of a file are dropped by the
    item scanner (they are never `#[no_mangle]`)."""
    m = re.search(r"#\[cfg\(test\)\]\s*mod\s+tests\b", src)
    return src[: m.start()] if m else src


# --------------------------------------------------------------------------- parameter kinds

HANDLE_TYPES = {
    "C2paSettings": "settings",
    "C2paContextBuilder": "contextBuilder",
    "C2paContext": "context",
    "C2paReader": "reader",
    "C2paBuilder": "builder",
    "C2paSigner": "signer",
    "C2paStream": "stream",
    "C2paHttpResolver": "resolver",
}
# types a pointer can be tracked with, as written in the second argument of `cimpl_free!(p, T)`
# (type-checked release, cimpl/utils.rs cimpl_free_typed); spaces removed
FREE_TYPES = dict(HANDLE_TYPES)
FREE_TYPES.update({
    "std::ffi::CString": "cstring", "CString": "cstring",
    "Box<[u8]>": "bytes",
})
CALLBACK_TYPES = {
    "SignerCallback", "ProgressCCallback", "C2paHttpResolverCallback",
    "ReadCallback", "SeekCallback", "WriteCallback", "FlushCallback",
}
SCALAR_TYPES = {
    "usize", "bool", "c_int", "i64", "i32", "u32", "u64", "isize",
    "C2paBuilderIntent", "C2paDigitalSourceType", "C2paSigningAlg", "C2paSeekMode",
}


def param_kind(ty):
    """(kind, handleType) of a declared parameter type, or Unsupported."""
    t = ty.replace(" ", "")
    m = re.fullmatch(r"\*(mut|const)(\w+)", t)
    if m and m.group(2) in HANDLE_TYPES:
        return "handle", HANDLE_TYPES[m.group(2)]
    if t == "*constc_char":
        return "cstr", ""
    if t == "*mutc_char":
        return "anyptr", ""          # only the free functions take it
    if t in ("*constc_uchar", "*constu8"):
        return "bytes", ""
    if t in ("*constc_void", "*mutc_void", "*mutstd::ffi::c_void", "*mutStreamContext"):
        return "opaque", ""
    if t in ("*mut*constc_uchar", "*mutusize", "*mutC2paHashType"):
        return "out", ""
    if t == "*const*constc_char":
        return "strarray", ""
    if t == "*constu64":
        return "array", ""
    if t in ("&C2paSignerInfo", "*constC2paSignerInfo"):
        return "structref", ""
    if t in CALLBACK_TYPES:
        return "callback", ""
    if t in SCALAR_TYPES:
        return "scalar", ""
    raise Unsupported(f"parameter type {ty!r}")


def ret_kind(ty):
    t = ty.replace(" ", "")
    if t == "":
        return "unit", ""
    m = re.fullmatch(r"\*(mut|const)(\w+)", t)
    if m and m.group(2) in HANDLE_TYPES:
        return "handle", HANDLE_TYPES[m.group(2)]
    if t == "*mutc_char":
        return "cstring", ""
    if t == "*constc_char":
        return "cstringOpt", ""
    if t == "*constc_uchar":
        return "bytes", ""
    if t == "*const*constc_char":
        return "strarray", ""
    if t in ("c_int", "i32"):
        return "int", ""
    if t == "i64":
        return "int64", ""
    if t == "bool":
        return "bool", ""
    raise Unsupported(f"return type {ty!r}")


# --------------------------------------------------------------------------- guard macros

def macro_table():
    t = {}
    for suf in ("", "_null", "_int", "_zero", "_false"):
        t["deref_or_return" + suf + "!"] = "validate"
        t["deref_mut_or_return" + suf + "!"] = "validate"
        t["untrack_or_return" + suf + "!"] = "untrack"
        t["ptr_or_return" + suf + "!"] = "nullck"
        t["cstr_or_return" + suf + "!"] = "cstr"
        t["bytes_or_return" + suf + "!"] = "bytes"
        t["cstr_array_or_return" + suf + "!"] = "cstrarr"
    t["cstr_or_return_with_limit!"] = "cstr"
    t["cstr_option!"] = "cstropt"
    t["cimpl_free!"] = "free"
    return t


MACROS = macro_table()
# value-level macros that may *contain* a guarded expression; they do not touch pointers
TRANSPARENT = {"ok_or_return!", "ok_or_return_null!", "ok_or_return_int!", "ok_or_return_zero!",
               "ok_or_return_false!", "box_tracked!", "option_to_c_string!", "format!", "env!",
               "vec!", "some_or_return!", "some_or_return_null!", "some_or_return_int!",
               "debug_assert_eq!", "matches!", "eprintln!"}


def match_close(toks, i):
    """index of the bracket closing the one opened at toks[i]."""
    open_, close = toks[i][1], {"(": ")", "{": "}", "[": "]"}[toks[i][1]]
    d = 0
    for j in range(i, len(toks)):
        v = toks[j][1]
        if toks[j][0] == "op":
            if v == open_:
                d += 1
            elif v == close:
                d -= 1
                if d == 0:
                    return j
    raise Unsupported("unbalanced brackets")


def split_top(toks):
    """split a token list on top-level commas"""
    parts, cur, d = [], [], 0
    for t in toks:
        if t[0] == "op" and t[1] in "([{<" and t[1] != "<":
            d += 1
        elif t[0] == "op" and t[1] in ")]}":
            d -= 1
        if t == ("op", ",") and d == 0:
            parts.append(cur)
            cur = []
        else:
            cur.append(t)
    if cur:
        parts.append(cur)
    return parts


def text(toks):
    return " ".join(t[1] for t in toks)


# --------------------------------------------------------------------------- body scan

def scan_body(fname, params, body):
    """Return (uses per param, flat ordered event list, allocs).

    events: [{"p": paramIndex, "use": kind, "ty": handleTypeOrEmpty}] in source order."""
    names = {p["name"]: i for i, p in enumerate(params)}
    live = dict(names)          # identifier -> param index while it still denotes the raw parameter
    events = []
    allocs = []                 # allocation macros/functions seen (box_tracked!, to_c_string, to_c_bytes)
    # conditional-use regions: list of (paramIndex, endTokenIndex) where p is known non-null
    nonnull = []
    i, n = 0, len(body)

    def ev(p, use, ty=""):
        events.append({"p": p, "use": use, "ty": ty})

    def first_arg_param(args):
        """If the first macro/function argument is exactly a parameter (optionally with
        `as *mut _`-style casts), return its index."""
        if not args:
            return None
        a = args[0]
        if a and a[0][0] == "id" and a[0][1] in live:
            rest = text(a[1:])
            if rest == "" or re.fullmatch(r"as \* (mut|const) [\w:]+( as \* (mut|const) [\w:]+)*", rest):
                return live[a[0][1]]
        return None

    pending_shadow = None       # (identifier, token index after which it is shadowed)
    stmt_shadow = []            # identifiers shadowed at the end of the current statement
    depth_stack = []

    while i < n:
        k, v = body[i]
        # ---- let bindings shadow parameters from the end of the statement on
        if k == "id" and v == "let":
            j = i + 1
            if body[j] == ("id", "mut"):
                j += 1
            if body[j][0] == "id" and body[j + 1][1] in ("=", ":"):
                if body[j][1] in live:
                    stmt_shadow.append(body[j][1])
                i = j + 1
                continue
            # patterns like `let (a, b) = …` : fail closed if they mention a parameter
            jj = j
            while body[jj][1] != "=":
                if body[jj][0] == "id" and body[jj][1] in live:
                    raise Unsupported(f"{fname}: destructuring let shadows parameter {body[jj][1]}")
                jj += 1
            i = j
            continue
        if k == "op" and v == ";":
            for s in stmt_shadow:
                live.pop(s, None)
            stmt_shadow = []
            i += 1
            continue
        # ---- closures: parameters named like ours would shadow; fail closed
        if k == "op" and v == "|" and i + 1 < n and body[i + 1][0] == "id":
            # closure parameter list `|a: T, b|`
            j = i + 1
            while body[j][1] != "|":
                if body[j][0] == "id" and body[j][1] in live and body[j - 1][1] in ("|", ","):
                    # `move |context: *const (), …|` shadows `context` inside the closure body only;
                    # record as opaque capture – the closure body is not scanned for that name.
                    pass
                j += 1
            i = j + 1
            continue
        # ---- macros
        if k == "id" and v.endswith("!"):
            if body[i + 1][1] not in ("(", "[", "{"):
                raise Unsupported(f"{fname}: macro {v} without bracket")
            close = match_close(body, i + 1)
            inner = body[i + 2: close]
            if v in MACROS:
                args = split_top(inner)
                p = first_arg_param(args)
                kind = MACROS[v]
                if p is None:
                    # e.g. cstr_or_return_null!(signer_info.alg): field of a struct reference
                    a0 = args[0] if args else []
                    if len(a0) == 3 and a0[0][0] == "id" and a0[0][1] in live and a0[1][1] == ".":
                        ev(live[a0[0][1]], "fieldread")
                        i = close + 1
                        continue
                    if not any(t[0] == "id" and t[1] in live for t in a0):
                        # guard over a local (e.g. a field of an already checked struct reference)
                        i = close + 1
                        continue
                    raise Unsupported(f"{fname}: {v} applied to non-parameter expression `{text(args[0]) if args else ''}`")
                ty = ""
                if kind in ("validate", "untrack"):
                    if len(args) < 2:
                        raise Unsupported(f"{fname}: {v} without type argument")
                    tyname = text(args[1])
                    if tyname not in HANDLE_TYPES:
                        raise Unsupported(f"{fname}: {v} with unknown type {tyname}")
                    ty = HANDLE_TYPES[tyname]
                if kind == "free" and len(args) >= 2:
                    # `cimpl_free!(p, T)`: released only when tracked with type T
                    if len(args) != 2:
                        raise Unsupported(f"{fname}: {v} with {len(args)} arguments")
                    tyname = text(args[1]).replace(" ", "")
                    if tyname not in FREE_TYPES:
                        raise Unsupported(f"{fname}: {v} with unknown type {tyname}")
                    ty = FREE_TYPES[tyname]
                # remaining arguments must not mention other raw parameters except `bytes` length scalars
                for a in args[1:]:
                    for t in a:
                        if t[0] == "id" and t[1] in live and params[live[t[1]]]["kind"] != "scalar":
                            raise Unsupported(f"{fname}: {v} mentions parameter {t[1]} in a later argument")
                if any(pp == p and b < i < e_ for (pp, b, e_) in nonnull):
                    # guard macro inside `if !p.is_null() { … }`: it runs only for non-NULL p
                    if kind != "validate":
                        raise Unsupported(f"{fname}: {v} inside a non-NULL branch")
                    kind = "validate_nonnull"
                ev(p, kind, ty)
                i = close + 1
                continue
            if v in TRANSPARENT:
                if v == "box_tracked!":
                    allocs.append("box")
                i += 2            # descend into the macro arguments
                continue
            raise Unsupported(f"{fname}: unknown macro {v}")
        # ---- identifiers
        if k == "id" and v in ("to_c_string", "to_c_bytes") and body[i + 1][1] == "(":
            allocs.append("cstring" if v == "to_c_string" else "bytes")
            i += 1
            continue
        if k == "id" and v in live and not (i > 0 and body[i - 1][1] in (".", "::")):
            p = live[v]
            nxt = body[i + 1][1] if i + 1 < n else ""
            nxt2 = body[i + 2][1] if i + 2 < n else ""
            prev = body[i - 1][1] if i > 0 else ""
            prev2 = body[i - 2][1] if i > 1 else ""
            # p.is_null()
            if nxt == "." and nxt2 == "is_null":
                neg = prev == "!"
                # find the enclosing `if … {`
                j = i
                while j >= 0 and body[j] != ("id", "if"):
                    if body[j][1] in (";", "{", "}"):
                        raise Unsupported(f"{fname}: is_null of {v} outside an if condition")
                    j -= 1
                b = i
                while body[b][1] != "{":
                    b += 1
                bclose = match_close(body, b)
                cond = text(body[j + 1: b])
                if neg:
                    if "||" in cond or "&&" in cond:
                        raise Unsupported(f"{fname}: compound negated is_null condition")
                    nonnull.append((p, b, bclose))
                    ev(p, "ifnonnull")
                else:
                    if "&&" in cond:
                        raise Unsupported(f"{fname}: is_null && …")
                    blk = body[b + 1: bclose]
                    # the block must end by returning
                    rets = [x for x in range(len(blk)) if blk[x] == ("id", "return")]
                    if not rets:
                        raise Unsupported(f"{fname}: is_null block of {v} does not return")
                    sets_last = any(t[1] == "set_last" for t in blk) or any(
                        t[1] in ("ok_or_return_int!", "ok_or_return_null!") for t in blk)
                    first_is_return = blk[0] == ("id", "return")
                    if first_is_return:
                        # early return without touching the error state: `return;` / `return 0;`
                        # is a benign no-op, any other value is an error indicator without message
                        rv = text(blk[1:blk.index(("op", ";"))]) if ("op", ";") in blk else "?"
                        ev(p, "nullretOk" if rv in ("", "0") else "nullretSilent")
                    else:
                        ev(p, "nullbranch")       # NULL selects an alternative, well-defined path
                i += 5  # p . is_null ( )
                continue
            # get_registry().free(p as usize): the registry primitive itself (cimpl_free)
            if prev == "(" and prev2 == "free" and i > 2 and body[i - 3][1] == "." and nxt == "as":
                ev(p, "free")
                i += 1
                continue
            # p as usize  /  p as *const ()  (opaque capture of a caller context value)
            if nxt == "as" and params[p]["kind"] == "opaque":
                ev(p, "opaque")
                i += 1
                continue
            # struct literal shorthand / function argument position for opaque + callback params
            if params[p]["kind"] in ("opaque", "callback", "scalar"):
                ev(p, "opaque" if params[p]["kind"] != "scalar" else "scalar")
                i += 1
                continue
            # cimpl_free(p as *mut …)
            if prev == "(" and prev2 == "cimpl_free":
                ev(p, "free")
                i += 1
                continue
            # use inside an `if !p.is_null() { … }` region
            in_nonnull = any(pp == p and b < i < e for (pp, b, e) in nonnull)
            if prev == "*" and prev2 != "&" and nxt == "=":
                ev(p, "write_nonnull" if in_nonnull else "rawwrite")
                i += 1
                continue
            ev(p, "rawuse_nonnull" if in_nonnull else "raw")
            i += 1
            continue
        i += 1
    return events, allocs


# --------------------------------------------------------------------------- item scan

def scan_file(path, rel):
    src = cut_tests(strip_block_comments(open(path).read()), rel)
    toks = lex(src)
    rows = []
    helpers = {}
    i, n = 0, len(toks)
    # first collect private helper fns that exported fns delegate a raw parameter to
    while i < n:
        if toks[i] == ("op", "#") and toks[i + 1][1] == "[" and toks[i + 2][1] == "no_mangle":
            # collect attributes around (cfg / deprecated may precede or follow)
            j = i
            # look back over preceding attributes
            attrs = []
            b = i
            while b >= 2:
                # previous attribute ends right before b with `]`
                if toks[b - 1][1] == "]":
                    d, s = 0, b - 1
                    while s >= 0:
                        if toks[s][1] == "]":
                            d += 1
                        elif toks[s][1] == "[":
                            d -= 1
                            if d == 0:
                                break
                        s -= 1
                    if s >= 1 and toks[s - 1][1] == "#":
                        attrs.append(text(toks[s + 1: b - 1]))
                        b = s - 1
                        continue
                break
            # forward over attributes
            while toks[j] == ("op", "#"):
                c = match_close(toks, j + 1)
                attrs.append(text(toks[j + 2: c]))
                j = c + 1
            # signature
            sig_start = j
            while toks[j] != ("id", "fn"):
                if toks[j][1] in ("{", ";"):
                    raise Unsupported(f"{rel}: #[no_mangle] not followed by fn")
                j += 1
            quals = text(toks[sig_start:j])
            name = toks[j + 1][1]
            if toks[j + 2][1] != "(":
                raise Unsupported(f"{rel}:{name}: generic exported fn")
            pclose = match_close(toks, j + 2)
            ptoks = toks[j + 3: pclose]
            k = pclose + 1
            rtoks = []
            if toks[k][1] == "->":
                k += 1
                while toks[k][1] != "{":
                    rtoks.append(toks[k])
                    k += 1
            if toks[k][1] != "{":
                raise Unsupported(f"{rel}:{name}: no body")
            bclose = match_close(toks, k)
            body = toks[k + 1: bclose]
            params = []
            for part in split_top(ptoks):
                if not part:
                    continue
                if part[0][0] != "id" or part[1][1] != ":":
                    raise Unsupported(f"{rel}:{name}: parameter pattern `{text(part)}`")
                ty = "".join(t[1] + (" " if t[0] == "id" else "") for t in part[2:]).strip()
                kind, hty = param_kind(ty)
                params.append({"name": part[0][1], "type": ty, "kind": kind, "hty": hty})
            rty = "".join(t[1] + (" " if t[0] == "id" else "") for t in rtoks).strip()
            rk, rh = ret_kind(rty)
            for p in params:
                # a string-array parameter of a function that returns nothing is a release call:
                # the pointer was produced by the library (c2pa_free_string_array)
                if p["kind"] == "strarray" and rk == "unit":
                    p["kind"] = "ownedArray"
            cfgs = [a for a in attrs if a.startswith("cfg")]
            rows.append({
                "name": name, "file": rel, "extern_c": 'extern "C"' in quals, "cfg": cfgs,
                "params": params, "ret": rk, "ret_hty": rh, "body": body,
                "sigtext": text(toks[sig_start:k]) + " { " + text(body) + " }",
            })
            i = bclose + 1
            continue
        i += 1
    return rows, toks


def find_helper(toks, name):
    """tokens of `unsafe fn name(params) … { body }` (private helper)."""
    for i in range(len(toks) - 2):
        if toks[i] == ("id", "fn") and toks[i + 1] == ("id", name):
            pclose = match_close(toks, i + 2)
            ptoks = toks[i + 3: pclose]
            k = pclose + 1
            while toks[k][1] != "{":
                k += 1
            bclose = match_close(toks, k)
            pnames = [part[0][1] for part in split_top(ptoks) if part]
            return pnames, toks[k + 1: bclose]
    return None


def main():
    all_rows = []
    matched = hashlib.sha256()
    try:
        for rel in SRC:
            path = os.path.join(REPO, rel)
            rows, toks = scan_file(path, rel)
            for r in rows:
                body = r.pop("body")
                # one level of delegation to a private helper: `helper(expr, p)` as the whole body
                # (c2pa_reader_supported_mime_types → c2pa_mime_types_to_c_array)
                if body and body[0][0] == "id" and len(body) > 2 and body[1][1] == "(" \
                        and match_close(body, 1) == len(body) - 1 and not body[0][1].endswith("!") \
                        and body[0][1] not in ("to_c_string", "cimpl_free"):
                    h = find_helper(toks, body[0][1])
                    if h is None:
                        raise Unsupported(f"{r['name']}: delegates to unknown helper {body[0][1]}")
                    hparams, hbody = h
                    args = split_top(body[2:-1])
                    ren = {}
                    for a, hp in zip(args, hparams):
                        if len(a) == 1 and a[0][0] == "id" and a[0][1] in [p["name"] for p in r["params"]]:
                            ren[hp] = a[0][1]
                    hb = [(k, ren.get(v, v)) if k == "id" else (k, v) for (k, v) in hbody]
                    # helper-local names that collide with our parameters would be wrong: fail closed
                    body = hb
                    r["delegates"] = find_name = None
                    r["sigtext"] += " /*helper*/ { " + text(hbody) + " }"
                events, allocs = scan_body(r["name"], r["params"], body)
                r["events"] = events
                r["allocs"] = allocs
                # a top-level `… .set_last();` statement: storing an error is the success effect
                # of the function (c2pa_error_set_last), not an error path
                d, sets = 0, False
                for (k, v) in body:
                    if v in ("{", "(", "["):
                        d += 1
                    elif v in ("}", ")", "]"):
                        d -= 1
                    elif v == "set_last" and d == 0:
                        sets = True
                r["sets_last"] = sets
                owned = [p for p in r["params"] if p["kind"] == "ownedArray"]
                btxt = text(body)
                r["frees_array"] = bool(owned) and "c2pa_string_free" in btxt and "Vec :: from_raw_parts" in btxt
                r["elem_ty"] = ""
                if owned and not r["frees_array"]:
                    raise Unsupported(f"{r['name']}: releases a string array in a shape the model does not know")
                matched.update(r["sigtext"].encode())
                del r["sigtext"]
                all_rows.append(r)
    except Unsupported as e:
        die(str(e))
    except (IndexError, KeyError) as e:
        die(f"scanner ran off the token stream: {e!r}")

    # the element release of `c2pa_free_string_array` is a call of `c2pa_string_free`: it has the
    # type check (or not) of that row's release event
    sf = [r for r in all_rows if r["name"] == "c2pa_string_free"]
    for r in all_rows:
        if r["frees_array"]:
            fe = [e for e in sf[0]["events"] if e["use"] == "free"] if len(sf) == 1 else []
            if len(fe) != 1 or len(sf[0]["events"]) != 1:
                die(f"{r['name']}: releases elements through c2pa_string_free, whose body is not a single release")
            r["elem_ty"] = fe[0]["ty"]

    # reviewed exception list
    exc = json.load(open(os.path.join(ROOT, "translators/c31_exceptions.json")))["exceptions"]
    for r in all_rows:
        for p in r["params"]:
            p["exc"] = False
    for x in exc:
        hit = [p for r in all_rows if r["name"] == x["fn"] for p in r["params"] if p["name"] == x["param"]]
        if len(hit) != 1:
            die(f"exception entry {x['fn']}.{x['param']} matches {len(hit)} parameters")
        hit[0]["exc"] = True

    if len(all_rows) < 40:
        die(f"only {len(all_rows)} exported functions found")
    names = [r["name"] for r in all_rows]
    if len(set(names)) != len(names):
        die("duplicate exported function names")

    emit_lean(all_rows)
    os.makedirs(os.path.dirname(OUT_JSON), exist_ok=True)
    json.dump({"rows": all_rows}, open(OUT_JSON, "w"), indent=1)
    info = {
        "table": "FfiGuards", "rows": len(all_rows),
        "pointer_params": sum(1 for r in all_rows for p in r["params"] if p["kind"] not in ("scalar", "callback")),
        "handle_params": sum(1 for r in all_rows for p in r["params"] if p["kind"] == "handle"),
        "exceptions": [f"{x['fn']}.{x['param']}" for x in exc],
        "sha256": matched.hexdigest(),
    }
    print("TABLE " + json.dumps(info))
    return 0


# --------------------------------------------------------------------------- Lean output

USE_CTOR = {
    "validate": "validate", "validate_nonnull": "validateNonnull", "untrack": "untrack", "free": "free", "nullck": "nullck",
    "nullretOk": "nullretOk", "nullretSilent": "nullretSilent", "nullbranch": "nullbranch", "ifnonnull": "ifnonnull",
    "cstr": "cstr", "cstropt": "cstropt", "bytes": "bytes", "cstrarr": "cstrarr",
    "opaque": "opaque", "scalar": "scalar", "raw": "raw", "rawwrite": "rawwrite",
    "rawuse_nonnull": "rawNonnull", "write_nonnull": "writeNonnull", "fieldread": "fieldread",
}
KIND_CTOR = {
    "handle": "handle", "cstr": "cstr", "anyptr": "anyptr", "bytes": "bytes", "opaque": "opaque",
    "out": "out", "strarray": "strarray", "array": "array", "structref": "structref",
    "callback": "callback", "scalar": "scalar", "ownedArray": "ownedArray",
}
RET_CTOR = {
    "unit": "unit", "handle": "handle", "cstring": "cstring", "cstringOpt": "cstringOpt",
    "bytes": "bytes", "strarray": "strarray", "int": "int", "int64": "int64", "bool": "bool",
}


def lean_ty(h):
    return "Ty." + h if h else "Ty.none"


def emit_lean(rows):
    L = []
    L.append("import C2paModel.Model.C31Core")
    L.append("/- GENERATED by translators/c31_ffi_guards.py from /repo/c2pa_c_ffi/src — do not edit. -/")
    L.append("namespace C2pa.C31.Gen")
    L.append("open C2pa.C31")
    L.append("")
    for r in rows:
        L.append(f"def fn_{r['name']} : FnRow :=")
        L.append(f"  {{ name := \"{r['name']}\"")
        L.append(f"    cfgGated := {'true' if r['cfg'] else 'false'}")
        ps = ", ".join(
            f"{{ name := \"{p['name']}\", kind := PKind.{KIND_CTOR[p['kind']]}, ty := {lean_ty(p['hty'])}"
            f"{', exc := true' if p['exc'] else ''} }}"
            for p in r["params"])
        L.append(f"    params := [{ps}]")
        es = ", ".join(f"{{ p := {e['p']}, use := Use.{USE_CTOR[e['use']]}, ty := {lean_ty(e['ty'])} }}"
                       for e in r["events"] if e["use"] != "scalar")
        L.append(f"    events := [{es}]")
        L.append(f"    ret := RKind.{RET_CTOR[r['ret']]}")
        L.append(f"    retTy := {lean_ty(r['ret_hty'])}")
        L.append(f"    freesArray := {'true' if r['frees_array'] else 'false'}")
        if r["frees_array"]:
            L.append(f"    elemTy := {lean_ty(r['elem_ty'])}")
        L.append(f"    setsLast := {'true' if r['sets_last'] else 'false'} }}")
        L.append("")
    L.append("def ffiGuards : List FnRow := [")
    L.append(",\n".join(f"  fn_{r['name']}" for r in rows))
    L.append("]")
    L.append("")
    L.append("end C2pa.C31.Gen")
    os.makedirs(os.path.dirname(OUT_LEAN), exist_ok=True)
    new = "\n".join(L) + "\n"
    old = open(OUT_LEAN).read() if os.path.exists(OUT_LEAN) else None
    if old != new:
        open(OUT_LEAN, "w").write(new)


if __name__ == "__main__":
    sys.exit(main())
