#!/usr/bin/env python3
"""Regenerate lean/C2paModel/Gen/C33Remap.lean from /repo/sdk/src.

  remapTable   the arms of the `match old_code { … }` in
               identity/x509/x509_status_remap.rs::remap_x509_cose_status_codes, constants resolved
               to their string values (validation_results.rs `validation_codes`). The default arm
               must be `_ => continue` (unlisted codes pass through unchanged) — anything else makes
               this script fail closed.
  coseEmitted  every status code the shared COSE verification that runs inside the remap guard of
               `IdentityAssertion::validate_partial_claim` / `X509SignatureVerifier::
               check_x509_cose_signature` can log: every `.validation_status(X)` call site, outside
               the tests, in crypto/cose/{sign1,verifier,certificate_profile,certificate_trust_policy}.rs
               with the way it is logged (failure / success / informational), file and number of sites.
               (Whole files: an over-approximation of what is reachable with `tst_info = None`.)
  closure      every call in those four files that hands the status tracker on must go to a function
               defined in those four files (else a status could be logged elsewhere) — fail closed.
  guardSites   the two places that run the COSE verification for an identity signature must
               construct an `X509StatusRemapGuard` and pass `None` as time-stamp info.

`C2pa.C33.remap_total` re-decides, on every run, that every failure code of `coseEmitted` is
remapped to a `cawg.x509.` code.
"""
import json
import os
import re
import sys

ROOT = os.path.dirname(os.path.dirname(os.path.abspath(__file__)))
SRC = "/repo/sdk/src"
OUT = os.path.join(ROOT, "lean/C2paModel/Gen/C33Remap.lean")
COSE_FILES = [
    "crypto/cose/sign1.rs",
    "crypto/cose/verifier.rs",
    "crypto/cose/certificate_profile.rs",
    "crypto/cose/certificate_trust_policy.rs",
]


def fail(m):
    print("translator c33_remap: " + m)
    sys.exit(1)


def read(rel):
    p = os.path.join(SRC, rel)
    if not os.path.exists(p):
        fail("missing " + p)
    return open(p, encoding="utf-8").read()


COMMENT = re.compile(r"//[^\n]*|/\*.*?\*/", re.S)


def no_comments(text):
    return COMMENT.sub(lambda m: re.sub(r"[^\n]", " ", m.group(0)), text)


def match_brace(code, i):
    depth = 0
    for m in re.finditer(r"[{}]", code[i:]):
        depth += 1 if m.group(0) == "{" else -1
        if depth == 0:
            return i + m.end()
    fail("unbalanced braces")


def strip_tests(code):
    while True:
        m = re.search(r"#\[cfg\(test\)\]\s*(?:#\[[^\]]*\]\s*)*(?:pub(?:\([^)]*\))?\s+)?mod\s+\w+\s*\{", code)
        if not m:
            return code
        end = match_brace(code, m.end() - 1)
        code = code[:m.start()] + re.sub(r"[^\n]", " ", code[m.start():end]) + code[end:]


# ---------------------------------------------------------------- constants
consts = {}
for rel in ["validation_results.rs", "validation_status.rs"]:
    for m in re.finditer(r"pub const (\w+): &str =\s*\"([^\"]*)\";", no_comments(read(rel))):
        if m.group(1) in consts and consts[m.group(1)] != m.group(2):
            fail("constant defined twice with different values: " + m.group(1))
        consts[m.group(1)] = m.group(2)


def resolve(expr, where):
    expr = expr.strip()
    m = re.fullmatch(r"\"([^\"]*)\"", expr)
    if m:
        return m.group(1)
    m = re.fullmatch(r"(?:\w+::)*(\w+)", expr)
    if m and m.group(1) in consts:
        return consts[m.group(1)]
    fail(f"cannot resolve status code expression `{expr}` at {where}")


# ---------------------------------------------------------------- remap table
remap_src = strip_tests(no_comments(read("identity/x509/x509_status_remap.rs")))
m = re.search(r"fn remap_x509_cose_status_codes\b", remap_src)
if not m:
    fail("remap_x509_cose_status_codes not found")
mm = re.search(r"let new_code = match old_code \{", remap_src[m.end():])
if not mm:
    fail("`let new_code = match old_code {` not found")
start = m.end() + mm.end() - 1
body = remap_src[start + 1:match_brace(remap_src, start) - 1]
arms = re.findall(r"([\w:\"\.]+)\s*=>\s*\{?\s*([\w:\"\.]+)\s*\}?\s*,?", body)
n_arrows = body.count("=>")
table = []
default_seen = False
for lhs, rhs in arms:
    if lhs == "_":
        if rhs != "continue":
            fail(f"default arm is `_ => {rhs}`, expected `_ => continue`")
        default_seen = True
        continue
    if "|" in lhs:
        fail("or-pattern in remap arm")
    table.append((resolve(lhs, "remap arm"), resolve(rhs, "remap arm")))
if not default_seen or len(arms) != n_arrows:
    fail(f"remap match not understood ({len(arms)} arms parsed, {n_arrows} `=>`, default={default_seen})")
if len({a for a, _ in table}) != len(table):
    fail("duplicate key in remap table")
if not re.search(r"item\.validation_status = Some\(new_code\.into\(\)\);", remap_src):
    fail("remap does not store new_code")

# ---------------------------------------------------------------- emitted codes + closure
KIND = {"failure": "failure", "failure_no_throw": "failure", "failure_as_err": "failure",
        "success": "success", "informational": "informational"}
emitted = []
tracker_calls = []
defined = set()
codes = {}
for rel in COSE_FILES:
    code = strip_tests(no_comments(read(rel)))
    codes[rel] = code
    for m in re.finditer(r"\bfn\s+(\w+)", code):
        defined.add(m.group(1))
        defined.add(m.group(1) + "_async")
for rel, code in codes.items():
    for m in re.finditer(r"\.validation_status\(([^()]*)\)\s*\.(\w+)\(", code):
        if m.group(2) not in KIND:
            fail(f"{rel}: unknown log method .{m.group(2)}( after validation_status")
        line = code.count("\n", 0, m.start()) + 1
        emitted.append((resolve(m.group(1), f"{rel}:{line}"), KIND[m.group(2)], rel, line))
    if len(re.findall(r"\.validation_status\(", code)) != len([e for e in emitted if e[2] == rel]):
        fail(f"{rel}: a .validation_status( call site was not understood")
    # closure: calls that pass the tracker on
    for m in re.finditer(r"(?<![\w!])(\w+)\s*\(", code):
        name = m.group(1)
        if name in ("fn", "if", "while", "match", "for", "Some", "Ok", "Err", "Box", "Cow"):
            continue
        depth, j = 0, m.end() - 1
        while j < len(code):
            if code[j] == "(":
                depth += 1
            elif code[j] == ")":
                depth -= 1
                if depth == 0:
                    break
            j += 1
        args = code[m.end():j]
        # top-level arguments only
        top, d, cur = [], 0, ""
        for ch in args:
            if ch in "([{":
                d += 1
            elif ch in ")]}":
                d -= 1
            if ch == "," and d == 0:
                top.append(cur.strip())
                cur = ""
            else:
                cur += ch
        top.append(cur.strip())
        if not any(a in ("validation_log", "&mut validation_log", "status_tracker") for a in top):
            continue
        pre = code[max(0, m.start() - 1):m.start()]
        before = code[max(0, m.start() - 40):m.start()]
        if re.search(r"\bfn\s+$", before):
            continue
        if pre == "." and name in KIND:
            continue
        tracker_calls.append(name)
        if name not in defined:
            line = code.count("\n", 0, m.start()) + 1
            fail(f"{rel}:{line}: status tracker handed to `{name}`, which is not defined in {COSE_FILES}")

# ---------------------------------------------------------------- guard sites
guard_sites = []
for rel, fn in [("identity/identity_assertion/assertion.rs", "validate_partial_claim"),
                ("identity/x509/x509_signature_verifier.rs", "check_x509_cose_signature")]:
    code = strip_tests(no_comments(read(rel)))
    m = re.search(r"\bfn\s+" + fn + r"\b", code)
    if not m:
        fail(f"{rel}: fn {fn} not found")
    b = code.index("{", m.end())
    fbody = code[b:match_brace(code, b)]
    g = fbody.find("X509StatusRemapGuard::new(")
    p = fbody.find("parse_cose_sign1(")
    if g < 0 or p < 0 or g > p:
        fail(f"{rel}::{fn}: COSE verification is not inside an X509StatusRemapGuard scope")
    calls = re.findall(r"\.verify_signature(?:_async)?\(\s*([^;]*?)\)\s*(?:\.await)?", fbody, re.S)
    if not calls:
        fail(f"{rel}::{fn}: no verify_signature call")
    for c in calls:
        args = [a.strip() for a in c.split(",") if a.strip()]
        if len(args) != 5 or args[3] != "None":
            fail(f"{rel}::{fn}: verify_signature is not called with tst_info = None: {args}")
    guard_sites.append((rel, fn, len(calls)))


def lit(s):
    if any(ord(ch) < 32 or ord(ch) > 126 or ch in '"\\' for ch in s):
        fail("non-plain character in code " + repr(s))
    return '"' + s + '"'


emitted.sort(key=lambda e: (e[2], e[3]))
# (code, kind, file, number of sites): line numbers would make the table churn on unrelated edits
agg = {}
for c, k, f, _ in emitted:
    agg[(f, c, k)] = agg.get((f, c, k), 0) + 1
emitted_rows = [(c, k, f, n) for (f, c, k), n in sorted(agg.items())]
out = []
out.append("/-")
out.append("GENERATED on every check run by translators/c33_remap.py — do not edit.")
out.append("`remapTable`: the arms of remap_x509_cose_status_codes (identity/x509/x509_status_remap.rs);")
out.append("unlisted codes pass through (`_ => continue`). `coseEmitted`: (code, kind, file, number of sites) of every")
out.append("status the shared COSE verification run inside the remap guard can log.")
out.append("-/")
out.append("namespace C2pa.C33.Gen")
out.append("")
out.append("def remapTable : List (String × String) := [")
out.append(",\n".join(f"  ({lit(a)}, {lit(b)})" for a, b in table))
out.append("]")
out.append("")
out.append("def coseEmitted : List (String × String × String × Nat) := [")
out.append(",\n".join(f"  ({lit(c)}, {lit(k)}, {lit(f)}, {n})" for c, k, f, n in emitted_rows))
out.append("]")
out.append("")
out.append("def guardSites : List (String × String × Nat) := [")
out.append(",\n".join(f"  ({lit(f)}, {lit(fn)}, {n})" for f, fn, n in guard_sites))
out.append("]")
out.append("")
out.append("end C2pa.C33.Gen")
text = "\n".join(out) + "\n"
old = open(OUT).read() if os.path.exists(OUT) else None
if old != text:
    with open(OUT, "w") as f:
        f.write(text)

fail_codes = sorted({c for c, k, _, _ in emitted if k == "failure"})
unmapped = [c for c in fail_codes if c not in dict(table)]
info = {"remap_arms": len(table), "emitted_sites": len(emitted), "failure_codes": fail_codes,
        "unmapped_failure_codes": unmapped, "guard_sites": len(guard_sites),
        "tracker_handed_to": sorted(set(tracker_calls))}
if unmapped:
    info["oracle_failures"] = [{"class": "cawg-cose-code-unmapped", "detail":
        f"the COSE verification can log failure code(s) {unmapped} that remap_x509_cose_status_codes passes through unchanged: such a failure of an identity signature would make the manifest Invalid"}]
print("TABLE " + json.dumps(info))
