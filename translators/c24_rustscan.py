# NOTE: private copy of c23_rustscan.py taken for the C24/C38 translator (c24_shared_state.py), so that
# edits of the C23 scanner cannot silently change the C24/C38 tables. Only `impl_blocks` was extended
# (trait-impl flag).
"""Small syntactic scanner for Rust sources (no type information): blanks comments / literals,
removes `#[cfg(test)]` items, extracts `fn` items (name, impl type, parameters, return type, body
span), closure spans, and call expressions with their syntactic disposition.

Used by translators/c23_analyse.py (C23 call-graph table). Everything here is syntactic and part of the trusted base of C23;
it fails closed (raises ScanError) on text it cannot bracket-match.
"""
import re


class ScanError(Exception):
    pass


def blank(text):
    """Replace comments, string/char literals by spaces (newlines kept) so that brackets and
    identifiers inside them are invisible; offsets and line numbers are preserved."""
    out = list(text)
    n = len(text)
    i = 0

    def wipe(a, b):
        for k in range(a, b):
            if out[k] != "\n":
                out[k] = " "

    while i < n:
        c = text[i]
        if c == "/" and text.startswith("//", i):
            j = text.find("\n", i)
            j = n if j < 0 else j
            wipe(i, j)
            i = j
        elif c == "/" and text.startswith("/*", i):
            depth, j = 1, i + 2
            while j < n and depth:
                if text.startswith("/*", j):
                    depth += 1
                    j += 2
                elif text.startswith("*/", j):
                    depth -= 1
                    j += 2
                else:
                    j += 1
            wipe(i, j)
            i = j
        elif c == '"' or (c in "rb" and re.match(r'(?:br|rb|r|b)#*"', text[i:i + 8]) and (i == 0 or not (text[i - 1].isalnum() or text[i - 1] == "_"))):
            m = re.match(r'(br|rb|r|b)?(#*)"', text[i:i + 40])
            pre, hashes = m.group(1) or "", m.group(2)
            j = i + m.end()
            if "r" in pre:
                close = '"' + hashes
                e = text.find(close, j)
                if e < 0:
                    raise ScanError("unterminated raw string")
                j = e + len(close)
            else:
                while j < n and text[j] != '"':
                    j += 2 if text[j] == "\\" else 1
                j += 1
            wipe(i, j)
            # keep the delimiting quotes so that a literal is still an operand for the scanners
            out[i + m.end() - 1] = '"'
            if j - 1 > i + m.end() - 1 and j - 1 < n:
                out[j - 1] = '"'
            i = j
        elif c == "'":
            # char literal or lifetime
            m = re.match(r"'(\\(?:u\{[0-9a-fA-F_]+\}|x[0-9a-fA-F]{2}|.)|[^\\'\n])'", text[i:i + 14])
            if m:
                wipe(i, i + m.end())
                i += m.end()
            else:
                i += 1
        else:
            i += 1
    return "".join(out)


OPEN = {"(": ")", "[": "]", "{": "}"}
CLOSE = {v: k for k, v in OPEN.items()}


def match_close(t, i):
    """t[i] is an opening bracket; index of its matching closer."""
    stack = []
    n = len(t)
    while i < n:
        c = t[i]
        if c in OPEN:
            stack.append(c)
        elif c in CLOSE:
            if not stack or stack[-1] != CLOSE[c]:
                raise ScanError(f"bracket mismatch at offset {i}")
            stack.pop()
            if not stack:
                return i
        i += 1
    raise ScanError("unbalanced brackets")


def build_pairs(t):
    """dict opener offset -> closer offset and closer -> opener for ( [ {."""
    fwd, back, stack = {}, {}, []
    for i, c in enumerate(t):
        if c in OPEN:
            stack.append(i)
        elif c in CLOSE:
            if not stack or t[stack[-1]] != CLOSE[c]:
                raise ScanError(f"bracket mismatch at offset {i}")
            o = stack.pop()
            fwd[o] = i
            back[i] = o
    if stack:
        raise ScanError("unbalanced brackets")
    return fwd, back


def strip_test_items(t):
    """Blank every item annotated `#[cfg(test)]` / `#[cfg(all(test…` / `#[test]` (block or `;`)."""
    out = list(t)
    for m in re.finditer(r"#\[\s*(?:cfg\s*\(\s*(?:test\b|all\s*\(\s*test\b|contentauth_c2pa_rs_verif\b|all\s*\(\s*contentauth_c2pa_rs_verif\b)|test\s*\]|tokio::test|c2pa_test_async|c2pa_macros::c2pa_test_async|wasm_bindgen_test)", t):
        i = m.start()
        if out[i] == " ":
            continue
        # skip this and following attributes
        j = i
        while True:
            while j < len(t) and t[j].isspace():
                j += 1
            if t.startswith("#[", j):
                j = match_close(t, j + 1) + 1
            else:
                break
        # find first `{` or `;` at depth 0
        k, depth = j, 0
        while k < len(t):
            c = t[k]
            if c in "([":
                k = match_close(t, k) + 1
                continue
            elif c in ")]}":
                k -= 1
                break
            elif c == "{" and depth == 0:
                k = match_close(t, k)
                break
            elif c in ";," and depth == 0:
                break
            k += 1
        for q in range(i, min(k + 1, len(t))):
            if out[q] != "\n":
                out[q] = " "
    return "".join(out)


def skip_ws(t, i):
    while i < len(t) and t[i].isspace():
        i += 1
    return i


def skip_angle(t, i):
    """t[i] == '<': index after the matching '>' (ignores `->`, brackets inside)."""
    depth = 0
    n = len(t)
    while i < n:
        c = t[i]
        if c == "<":
            depth += 1
        elif c == ">" and t[i - 1] != "-" and t[i - 1] != "=":
            depth -= 1
            if depth == 0:
                return i + 1
        elif c in "([":
            i = match_close(t, i)
        elif c in "{;":
            raise ScanError("generic list not closed")
        i += 1
    raise ScanError("generic list not closed")


def split_top(s):
    """split at commas that are outside () [] {} <>."""
    parts, depth, cur = [], 0, []
    prev = ""
    for c in s:
        if c in "([{":
            depth += 1
        elif c in ")]}":
            depth -= 1
        elif c == "<":
            depth += 1
        elif c == ">" and prev not in "-=":
            depth -= 1
        if c == "," and depth == 0:
            parts.append("".join(cur))
            cur = []
        else:
            cur.append(c)
        prev = c
    if "".join(cur).strip():
        parts.append("".join(cur))
    return parts


FN_TYPE_RE = re.compile(r"\bFn(?:Mut|Once)?\s*\(")
RESULT_FN_RE = re.compile(r"\bFn(?:Mut|Once)?\s*\([^()]*\)\s*->\s*(?:[\w:]+::)?Result\b")


class Fn:
    __slots__ = ("file", "name", "impl", "line", "sig_start", "body_start", "body_end", "params", "has_self",
                 "ret", "progress_params", "async_generic", "is_async", "id", "generics", "trait", "attrs", "is_pub")

    def qual(self):
        return f"{self.file}::{self.impl + '::' if self.impl else ''}{self.name}"


def impl_blocks(t, fwd):
    """(start_brace, end_brace, type_name) of every `impl … {` / `trait … {` item."""
    res = []
    for m in re.finditer(r"\b(impl|trait)\b", t):
        i = m.end()
        j = skip_ws(t, i)
        try:
            if m.group(1) == "impl" and j < len(t) and t[j] == "<":
                j = skip_angle(t, j)
            k, ok = j, False
            while k < len(t):
                c = t[k]
                if c == "<":
                    k = skip_angle(t, k)
                    continue
                if c == "(":
                    k = fwd[k] + 1
                    continue
                if c == "{":
                    ok = True
                    break
                if c in ";),=|":
                    break
                k += 1
        except ScanError:
            continue
        if not ok:
            continue
        header = t[j:k]
        header = header.split(" where ")[0].split("\nwhere")[0]
        trait_name = ""
        if m.group(1) == "impl" and re.search(r"\bfor\b", header):
            tr = re.sub(r"<.*", "", re.split(r"\bfor\b", header)[0].strip(), flags=re.S)
            tids = re.findall(r"[A-Za-z_]\w*", tr)
            trait_name = tids[-1] if tids else "?"
            header = re.split(r"\bfor\b", header)[-1]
        header = re.sub(r"<.*", "", header.strip(), flags=re.S)
        header = header.split(":")[-1] if m.group(1) == "impl" else header.split(":")[0]
        ids = re.findall(r"[A-Za-z_]\w*", header)
        ids = [x for x in ids if x not in ("dyn", "mut", "const", "unsafe")]
        if not ids:
            continue
        if m.group(1) == "trait":
            trait_name = ids[0]
        res.append((k, fwd[k], ids[-1] if m.group(1) == "impl" else ids[0], trait_name))
    return res


def parse_fns(file, t, fwd):
    impls = impl_blocks(t, fwd)
    fns = []
    for m in re.finditer(r"\bfn\s+([A-Za-z_]\w*)", t):
        name = m.group(1)
        i = skip_ws(t, m.end())
        generics = ""
        if i < len(t) and t[i] == "<":
            e = skip_angle(t, i)
            generics = t[i + 1:e - 1]
            i = skip_ws(t, e)
        if i >= len(t) or t[i] != "(":
            raise ScanError(f"{file}: fn {name}: parameter list not found")
        pe = fwd[i]
        params_txt = t[i + 1:pe]
        k = pe + 1
        body = None
        while k < len(t):
            c = t[k]
            if c in "([":
                k = fwd[k] + 1
                continue
            if c == "<":
                try:
                    k = skip_angle(t, k)
                    continue
                except ScanError:
                    pass
            if c == "{":
                body = k
                break
            if c == ";":
                break
            k += 1
        if body is None:
            continue  # declaration without body
        tail = t[pe + 1:body]
        ret, where = "", ""
        mm = re.match(r"\s*->\s*(.*?)(?:\bwhere\b(.*))?$", tail, re.S)
        if mm:
            ret, where = mm.group(1).strip(), mm.group(2) or ""
        else:
            mw = re.search(r"\bwhere\b(.*)$", tail, re.S)
            where = mw.group(1) if mw else ""
        f = Fn()
        f.file, f.name, f.line = file, name, t.count("\n", 0, m.start()) + 1
        f.sig_start, f.body_start, f.body_end = m.start(), body, fwd[body]
        f.ret = ret
        f.generics = generics
        # attributes / qualifiers before `fn`
        ls = t.rfind("\n", 0, m.start()) + 1
        head = t[max(0, ls - 400):m.start()]
        # only the attribute lines directly above
        lines = head.split("\n")
        attr = [lines[-1]]
        for l in reversed(lines[:-1]):
            s = l.strip()
            if s.startswith("#[") or s.endswith("]") and "#[" in s or s.startswith("pub") or s == "":
                attr.append(l)
                if s == "":
                    break
            else:
                break
        attr_txt = "\n".join(attr)
        f.async_generic = "async_generic" in attr_txt
        f.attrs = attr_txt
        f.is_pub = bool(re.search(r"\bpub\b(?!\s*\()", lines[-1]))
        f.is_async = bool(re.search(r"\basync\s+$", t[ls:m.start()] + " ")) or bool(re.search(r"\basync\b", lines[-1]))
        inner = [b for b in impls if b[0] < m.start() < b[1]]
        f.impl = max(inner, key=lambda b: b[0])[2] if inner else ""
        f.trait = max(inner, key=lambda b: b[0])[3] if inner else ""
        # parameters
        f.params, f.has_self = [], False
        bounds = {}
        for g in split_top(generics) + split_top(where):
            if ":" in g:
                a, b = g.split(":", 1)
                bounds[a.strip()] = bounds.get(a.strip(), "") + " " + b
        f.progress_params = []
        for p in split_top(params_txt):
            p = p.strip()
            p = re.sub(r"^#\[[^\]]*\]\s*", "", p)
            if not p:
                continue
            if re.match(r"^(&\s*('\w+\s+)?)?(mut\s+)?self\b", p):
                f.has_self = True
                continue
            if ":" not in p:
                continue
            pn, pt = p.split(":", 1)
            pn = re.sub(r"^\s*(mut\s+)?", "", pn).strip()
            f.params.append((pn, pt.strip()))
            full = pt
            for g, b in bounds.items():
                if re.search(r"\b" + re.escape(g) + r"\b", pt):
                    full += " " + b
            if RESULT_FN_RE.search(full):
                f.progress_params.append(pn)
        fns.append(f)
    return fns


KEYWORDS = {"if", "while", "match", "return", "for", "loop", "fn", "let", "in", "as", "move", "else", "where", "impl",
            "dyn", "pub", "crate", "super", "mut", "ref", "unsafe", "async", "await", "break", "continue", "struct",
            "enum", "type", "use", "mod", "const", "static", "trait", "Some", "Ok", "Err", "None", "Box", "Self", "self"}

CALL_RE = re.compile(r"\b([A-Za-z_]\w*)\s*(?:::\s*<[^(){};]*?>\s*)?\(")


class Call:
    __slots__ = ("name", "start", "open", "end", "kind", "qual", "recv", "args", "line", "expr_start")


def find_calls(t, fwd, lo, hi):
    """call expressions `name(`, `.name(`, `Q::name(` inside t[lo:hi]."""
    res = []
    for m in CALL_RE.finditer(t, lo, hi):
        name = m.group(1)
        if name in KEYWORDS:
            continue
        s = m.start()
        b = s - 1
        while b >= 0 and t[b].isspace():
            b -= 1
        if b >= 1 and t[b - 1:b + 1] == "fn" or re.search(r"\bfn\s+$", t[max(0, s - 12):s]):
            continue
        c = Call()
        c.name, c.start, c.open = name, s, m.end() - 1
        c.end = fwd[c.open] + 1
        c.line = t.count("\n", 0, s) + 1
        c.qual, c.recv = "", ""
        if b >= 0 and t[b] == ".":
            c.kind = "method"
            # receiver: walk back over a simple chain  ident(.ident|::ident)* possibly with calls/indexing
            e = b
            r = e - 1
            while r >= 0 and t[r].isspace():
                r -= 1
            r += 1
            k = r
            while k > 0:
                ch = t[k - 1]
                if ch.isalnum() or ch in "_.:":
                    k -= 1
                elif ch in ")]":
                    try:
                        o = None
                        # find opener
                        depth = 0
                        q = k - 1
                        while q >= 0:
                            if t[q] in ")]}":
                                depth += 1
                            elif t[q] in "([{":
                                depth -= 1
                                if depth == 0:
                                    o = q
                                    break
                            q -= 1
                        if o is None:
                            break
                        k = o
                    except Exception:
                        break
                elif ch == "?":
                    k -= 1
                elif ch.isspace():
                    # allow line breaks inside a method chain:  foo\n   .bar()
                    q = k - 1
                    while q >= 0 and t[q].isspace():
                        q -= 1
                    if q >= 0 and (t[k] == "." or t[q] == "."):
                        k = q + 1
                    else:
                        break
                else:
                    break
            c.recv = t[k:r].strip()
            c.expr_start = k
        elif b >= 1 and t[b - 1:b + 1] == "::":
            c.kind = "path"
            k = b - 1
            while k > 0 and (t[k - 1].isalnum() or t[k - 1] in "_:<>"):
                k -= 1
            path = t[k:b - 1]
            segs = [x for x in re.split(r"::", re.sub(r"<[^<>]*>", "", path)) if x]
            c.qual = segs[-1] if segs else ""
            c.expr_start = k
        else:
            c.kind = "plain"
            c.expr_start = s
        c.args = [a.strip() for a in split_top(t[c.open + 1:c.end - 1])]
        res.append(c)
    return res


CLOSURE_RE = re.compile(r"(?<![|&\w)\]])\|(?!\|)([^|{};]*?)\|(?!\|)|(?<![|&\w)\]])\|\|(?=\s*[\w{(&!*])")


def find_closures(t, fwd, lo, hi):
    """(start_of_bar, body_start, body_end_exclusive, braced) for closures in t[lo:hi]; heuristic:
    a `|params|` that follows `(`, `,`, `=`, `move`, `{`, `;`, `=>` or `return`."""
    res = []
    i = lo
    while i < hi:
        m = CLOSURE_RE.search(t, i, hi)
        if not m:
            break
        s = m.start()
        b = s - 1
        while b >= 0 and t[b].isspace():
            b -= 1
        before = t[max(0, b - 6):b + 1]
        if not (b < 0 or t[b] in "(,={;[" or before.endswith("move") or before.endswith("=>") or before.endswith("return") or before.endswith("else")):
            i = m.end()
            continue
        # a `|` used as binary-or / pattern alternative is preceded by an operand, excluded above
        j = skip_ws(t, m.end())
        # optional return type `-> T {`
        if t.startswith("->", j):
            k = j
            while k < hi and t[k] != "{":
                k += 1
            j = k
        if j < len(t) and t[j] == "{":
            res.append((s, j, fwd[j] + 1, True))
            i = j + 1  # nested closures inside are found too
            continue
        # expression body: up to the first `,` `;` `)` `}` `]` at depth 0
        k = j
        while k < hi:
            c = t[k]
            if c in "([{":
                k = fwd[k] + 1
                continue
            if c in ",;)}]":
                break
            k += 1
        res.append((s, j, k, False))
        i = j if j > m.end() - 1 else m.end()
        if i <= s:
            i = m.end()
    return res
