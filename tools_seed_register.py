#!/usr/bin/env python3
"""usage: tools_seed_register.py <ID-n> "<what it needs to manifest>" "<outcome: detected-by …|missed …>" [<check output file>]
Copies /tmp/mut/<ID-n>/{patch.diff,demo.diff,README.md} to /verif/seeded/<ID-n>/ and writes meta.json."""
import json, os, shutil, sys, time
name, needs, outcome = sys.argv[1], sys.argv[2], sys.argv[3]
src = f"/tmp/mut/{name}"
dst = f"/verif/seeded/{name}"
os.makedirs(dst, exist_ok=True)
for f in ("patch.diff", "demo.diff", "README.md", "demo.rs"):
    if os.path.exists(os.path.join(src, f)):
        shutil.copy(os.path.join(src, f), os.path.join(dst, f))
meta_path = os.path.join(dst, "meta.json")
meta = json.load(open(meta_path)) if os.path.exists(meta_path) else {}
meta.update({
    "property": name.split("-")[0],
    "needs_to_manifest": needs,
    "source": "independent sub-agent given only the property text and a scratch worktree",
    "confirmed": "patch applies to HEAD of /repo at the time of the run, builds, existing tests of the touched modules unchanged, demo fails with / passes without the patch (agent run logs in README.md)",
    "how_run": f"/verif/tools_seeded.sh run {name.split('-')[0]} seeded/{name}/patch.diff  (isolated copy of /repo HEAD + /verif HEAD in a private mount namespace; ./check <ID> --tier quick)",
})
meta.setdefault("runs", []).append({"when": time.strftime("%Y-%m-%d %H:%M"), "outcome": outcome})
meta["outcome"] = outcome
json.dump(meta, open(meta_path, "w"), indent=1)
print("registered", name)
