#!/bin/bash
# Runs the pinned baseline test suite (guard OFF) on a scratch worktree of /repo HEAD and
# compares with BASELINE.json stable_pass.  Scratch is removed afterwards.
set -u
WT=/tmp/bl-wt
git -C /repo worktree remove --force $WT 2>/dev/null; rm -rf $WT
git -C /repo worktree add --detach $WT HEAD >/dev/null 2>&1 || exit 2
mkdir -p $WT/target
cd $WT
CARGO_NET_OFFLINE=true cargo nextest run --workspace --no-fail-fast --tool-config-file pb:/w/lib/nextest.toml --profile pb --test-threads 8 --offline --status-level all > /tmp/baseline-run.log 2>&1
echo "rc=$?" >> /tmp/baseline-run.log
python3 - <<'P'
import json,re
b=json.load(open('/root/.vp/BASELINE.json'))
st={}
for l in open('/tmp/baseline-run.log',errors='replace'):
    m=re.match(r'\s+(PASS|FAIL|SIGABRT|SIGSEGV|TIMEOUT|LEAK)\s+\[[^\]]*\]\s+\(\s*\d+/\d+\)\s+(\S+)\s+(\S+)',l)
    if m: st[m.group(2)+'::'+m.group(3)]=m.group(1)
bad=[t for t in b['stable_pass'] if st.get(t)!='PASS']
print('stable_pass',len(b['stable_pass']),'passing now',len(b['stable_pass'])-len(bad))
for t in bad: print('NOT-PASS',t,st.get(t))
P
cd /; git -C /repo worktree remove --force $WT; rm -rf $WT
