#!/bin/bash
# Isolated runs of the committed checks against a private copy of /repo (HEAD) with a seeded
# change applied, inside a private mount namespace (so /repo and /verif of the live session,
# where other work is going on, are untouched).
#   tools_seeded.sh setup                 export HEAD of /repo and /verif to /tmp/seed, copy build caches
#   tools_seeded.sh run <ID> <patch> [tier]   apply patch, run ./check ID, reverse patch; prints the verdict
#   tools_seeded.sh base <ID>             run ./check ID on the unchanged copy
#   tools_seeded.sh clean
set -e
S=/tmp/seed
case "$1" in
setup)
  rm -rf $S; mkdir -p $S/repo $S/verif
  git -C /repo archive HEAD | tar -x -C $S/repo
  git -C /verif archive HEAD | tar -x -C $S/verif
  mkdir -p $S/verif/.build
  cp -a /verif/.build/cargo $S/verif/.build/cargo
  [ -d /verif/.build/cli-target ] && cp -a /verif/.build/cli-target $S/verif/.build/cli-target || true
  cp -a /verif/lean/.lake $S/verif/lean/.lake
  # exported files carry commit-time mtimes: make every source newer than the copied artifacts
  find $S/repo -name '*.rs' -o -name 'Cargo.toml' | xargs touch
  find $S/verif/harness $S/verif/lean -name '*.rs' -o -name '*.lean' -o -name '*.toml' | xargs touch
  echo "seed copy ready: $(du -sh $S | cut -f1)"
  ;;
run|base)
  ID=$2; PATCH=$3; TIER=${4:-quick}
  unshare -m bash -c "
    mount --bind $S/repo /repo && mount --bind $S/verif /verif && cd /verif &&
    if [ '$1' = run ]; then (cd /repo && patch -p1 -s < '$PATCH') || exit 9; fi
    ./check $ID --tier $TIER > /tmp/seed/out-$ID.txt 2>&1; rc=\$?
    if [ '$1' = run ]; then (cd /repo && patch -p1 -R -s < '$PATCH'); fi
    tail -25 /tmp/seed/out-$ID.txt; echo \"EXIT=\$rc\"
  "
  ;;
sync)
  # refresh the copies from the current HEADs. No -t: a file whose content changes gets the current
  # time, and an unchanged file keeps its mtime (rsync -t would set an OLD commit time on a file that a
  # reverted patch had just touched, and cargo would then keep the binary built from the patched file)
  rm -rf $S/repo.new && mkdir -p $S/repo.new && git -C /repo archive HEAD | tar -x -C $S/repo.new
  rsync -rlpc --delete --exclude target $S/repo.new/ $S/repo/ && rm -rf $S/repo.new
  rm -rf $S/verif.new && mkdir -p $S/verif.new && git -C /verif archive HEAD | tar -x -C $S/verif.new
  rsync -rlpc --exclude .build --exclude .lake $S/verif.new/ $S/verif/ && rm -rf $S/verif.new
  find $S/repo $S/verif/harness $S/verif/lean -newer $S/.stamp -type f 2>/dev/null | head -0
  touch $S/.stamp
  echo synced
  ;;
clean) rm -rf $S ;;
esac
