import C2paModel.Base
