import C2paModel.Model.C04
/-
Line-protocol driver: one request per line on stdin (`<property> <op> fields…`),
one reply per line on stdout. Imports models only (no Mathlib) so it links.
-/
open C2pa

def dispatch (line : String) : String :=
  match tokens line with
  | "C04" :: rest => C04.handle rest
  | _ => "bad-property"

partial def loop (h : IO.FS.Stream) (out : IO.FS.Stream) : IO Unit := do
  let line ← h.getLine
  if line.isEmpty then return ()
  out.putStrLn (dispatch line)
  loop h out

def main : IO Unit := do
  let out ← IO.getStdout
  loop (← IO.getStdin) out
