/-
GENERATED on every check run by translators/c09_adjust_sites.py — do not edit.
`sites`: the sections of `adjust_known_offsets_from` (bmff_io.rs) in source order: box path,
number of `adjust_offset(` call sites, number of `adjust_offset_u32(` call sites.
`callers`: every call of `adjust_known_offsets_from`: enclosing function, pivot argument.
-/
namespace C2pa.C09Bmff.Gen

def sites : List (String × Nat × Nat) := [
  ("/moov/trak/mdia/minf/stbl/stco", 0, 1),
  ("/moov/trak/mdia/minf/stbl/co64", 1, 0),
  ("/meta/iloc", 3, 1),
  ("/moof/traf/tfhd", 1, 0),
  ("/mfra/tfra", 1, 1),
  ("/moov/trak/mdia/minf/stbl/saio", 1, 1)
]

def callers : List (String × String) := [
  ("adjust_known_offsets", "0"),
  ("write_cai", "end as u64"),
  ("remove_cai_store_from_stream", "end as u64"),
  ("embed_reference_to_stream", "end as u64"),
  ("inject_placeholder", "start"),
  ("verif_adjust_known_offsets_from", "pivot")
]

end C2pa.C09Bmff.Gen
