/-
GENERATED on every check run by translators/c33_remap.py — do not edit.
`remapTable`: the arms of remap_x509_cose_status_codes (identity/x509/x509_status_remap.rs);
unlisted codes pass through (`_ => continue`). `coseEmitted`: (code, kind, file, number of sites) of every
status the shared COSE verification run inside the remap guard can log.
-/
namespace C2pa.C33.Gen

def remapTable : List (String × String) := [
  ("algorithm.unsupported", "cawg.x509.algorithm.unsupported"),
  ("signingCredential.trusted", "cawg.x509.credential.trusted"),
  ("signingCredential.untrusted", "cawg.x509.credential.untrusted"),
  ("signingCredential.invalid", "cawg.x509.credential.invalid"),
  ("signingCredential.expired", "cawg.x509.signature.outside_validity"),
  ("claimSignature.mismatch", "cawg.x509.signature.mismatch")
]

def coseEmitted : List (String × String × String × Nat) := [
  ("signingCredential.expired", "failure", "crypto/cose/certificate_profile.rs", 2),
  ("signingCredential.invalid", "failure", "crypto/cose/certificate_profile.rs", 19),
  ("claimSignature.mismatch", "failure", "crypto/cose/sign1.rs", 1),
  ("algorithm.unsupported", "failure", "crypto/cose/verifier.rs", 1),
  ("signingCredential.invalid", "failure", "crypto/cose/verifier.rs", 1),
  ("signingCredential.trusted", "success", "crypto/cose/verifier.rs", 1),
  ("signingCredential.untrusted", "failure", "crypto/cose/verifier.rs", 1)
]

def guardSites : List (String × String × Nat) := [
  ("identity/identity_assertion/assertion.rs", "validate_partial_claim", 2),
  ("identity/x509/x509_signature_verifier.rs", "check_x509_cose_signature", 2)
]

end C2pa.C33.Gen
