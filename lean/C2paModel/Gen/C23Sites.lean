import C2paModel.Model.C23
/-
GENERATED on every check run by translators/c23_sites.py — do not edit.
`sites`: every `check_progress(` call site in sdk/src (file, line, disposition of the Result:
`propagate` = followed by `?` or returned as the tail value of a closure/block; `swallow` =
anything else). `invocations`: every call of a progress closure inside the hashing code.
-/
namespace C2pa.C23.Gen
open C2pa.C23

def sites : List (String × Nat × Disp) := [
  ("builder.rs", 1299, Disp.propagate),
  ("builder.rs", 2214, Disp.propagate),
  ("builder.rs", 2967, Disp.propagate),
  ("builder.rs", 2992, Disp.propagate),
  ("builder.rs", 3021, Disp.propagate),
  ("builder.rs", 3626, Disp.propagate),
  ("claim.rs", 1995, Disp.propagate),
  ("claim.rs", 2802, Disp.propagate),
  ("claim.rs", 2884, Disp.propagate),
  ("claim.rs", 2967, Disp.propagate),
  ("crypto/ocsp/fetch.rs", 154, Disp.swallow),
  ("reader.rs", 234, Disp.propagate),
  ("store.rs", 1635, Disp.propagate),
  ("store.rs", 2033, Disp.propagate),
  ("store.rs", 2383, Disp.propagate),
  ("store.rs", 2427, Disp.propagate),
  ("store.rs", 2484, Disp.propagate),
  ("store.rs", 2537, Disp.propagate),
  ("store.rs", 2988, Disp.propagate),
  ("store.rs", 3012, Disp.propagate),
  ("store.rs", 3069, Disp.propagate),
  ("store.rs", 3161, Disp.propagate),
  ("store.rs", 3263, Disp.propagate),
  ("store.rs", 3276, Disp.propagate),
  ("store.rs", 3352, Disp.propagate),
  ("store.rs", 3385, Disp.propagate),
  ("store.rs", 3440, Disp.propagate)
]

def invocations : List (String × Nat × Disp) := [
  ("assertions/bmff_hash.rs", 1180, Disp.propagate),
  ("assertions/bmff_hash.rs", 1331, Disp.propagate),
  ("assertions/bmff_hash.rs", 1388, Disp.propagate),
  ("assertions/bmff_hash.rs", 1406, Disp.propagate),
  ("assertions/bmff_hash.rs", 1444, Disp.propagate),
  ("assertions/bmff_hash.rs", 1572, Disp.propagate),
  ("assertions/bmff_hash.rs", 1666, Disp.propagate),
  ("assertions/bmff_hash.rs", 1690, Disp.propagate),
  ("assertions/bmff_hash.rs", 1794, Disp.propagate),
  ("assertions/bmff_hash.rs", 1811, Disp.propagate),
  ("utils/hash_utils.rs", 437, Disp.propagate),
  ("utils/hash_utils.rs", 466, Disp.propagate),
  ("utils/hash_utils.rs", 474, Disp.propagate),
  ("utils/hash_utils.rs", 521, Disp.propagate)
]

/-- number of `match hash_result` sites in `Claim::verify_hash_binding` -/
def hashResultMatches : Nat := 3
/-- number of those with the guard that returns cancellation / I/O failures to the caller -/
def hashResultGuards : Nat := 3
/-- `is_fatal_hash_binding_error` classifies `OperationCancelled` as fatal -/
def cancelIsFatal : Bool := true

end C2pa.C23.Gen
