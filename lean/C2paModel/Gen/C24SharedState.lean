import C2paModel.Model.C24
/-
GENERATED on every check run by translators/c24_shared_state.py — do not edit.
Every process-wide item (`static`, `lazy_static!`, `thread_local!`) of sdk/src outside test
modules, plus the OnceLock / atomic cells of `Context`, with a syntactic classification.
-/
namespace C2pa.C24.Gen
open C2pa.C24

def sharedState : List (String × String × Kind) := [
  ("assertions/actions.rs", "V2_DEPRECATED_ACTIONS", Kind.const),
  ("assertions/labels.rs", "METADATA_LABEL_REGEX", Kind.lazyConst),
  ("assertions/labels.rs", "VERSION_RE", Kind.lazyConst),
  ("assertions/metadata.rs", "ALLOWED_SCHEMAS", Kind.lazyConst),
  ("assertions/metadata.rs", "BACKCOMPAT_LIST", Kind.lazyConst),
  ("assertions/metadata.rs", "ALLOWED_FIELDS", Kind.const),
  ("asset_handlers/bmff_io.rs", "SUPPORTED_TYPES", Kind.const),
  ("asset_handlers/c2pa_io.rs", "SUPPORTED_TYPES", Kind.const),
  ("asset_handlers/flac_io.rs", "SUPPORTED_TYPES", Kind.const),
  ("asset_handlers/jpeg_io.rs", "SUPPORTED_TYPES", Kind.const),
  ("asset_handlers/jpegxl_io.rs", "SUPPORTED_TYPES", Kind.const),
  ("asset_handlers/mp3_io.rs", "SUPPORTED_TYPES", Kind.const),
  ("asset_handlers/pdf.rs", "AF_RELATIONSHIP_KEY", Kind.const),
  ("asset_handlers/pdf.rs", "ANNOTATIONS_KEY", Kind.const),
  ("asset_handlers/pdf.rs", "ASSOCIATED_FILE_KEY", Kind.const),
  ("asset_handlers/pdf.rs", "C2PA_RELATIONSHIP", Kind.const),
  ("asset_handlers/pdf.rs", "CONTENT_CREDS", Kind.const),
  ("asset_handlers/pdf.rs", "EMBEDDED_FILES_KEY", Kind.const),
  ("asset_handlers/pdf.rs", "SUBTYPE_KEY", Kind.const),
  ("asset_handlers/pdf.rs", "TYPE_KEY", Kind.const),
  ("asset_handlers/pdf.rs", "NAMES_KEY", Kind.const),
  ("asset_handlers/pdf_io.rs", "SUPPORTED_TYPES", Kind.const),
  ("asset_handlers/pdf_io.rs", "WRITE_NOT_IMPLEMENTED", Kind.const),
  ("asset_handlers/png_io.rs", "SUPPORTED_TYPES", Kind.const),
  ("asset_handlers/riff_io.rs", "SUPPORTED_TYPES", Kind.const),
  ("asset_handlers/svg_io.rs", "SUPPORTED_TYPES", Kind.const),
  ("asset_handlers/tiff_io.rs", "SUPPORTED_TYPES", Kind.const),
  ("asset_handlers/tiff_io.rs", "SUPPORTED_WRITER_TYPES", Kind.const),
  ("claim.rs", "V1_FIELDS", Kind.const),
  ("claim.rs", "V2_FIELDS", Kind.const),
  ("context.rs", "SyncResolverState::Default", Kind.perContextCell),
  ("context.rs", "AsyncResolverState::Default", Kind.perContextCell),
  ("context.rs", "SignerState::FromSettings", Kind.perContextCell),
  ("context.rs", "AsyncSignerState::FromSettings", Kind.perContextCell),
  ("context.rs", "cancel_flag", Kind.perContextCell),
  ("crypto/cose/certificate_trust_policy.rs", "EMAIL_PROTECTION_OID", Kind.const),
  ("crypto/cose/certificate_trust_policy.rs", "TIMESTAMPING_OID", Kind.const),
  ("crypto/cose/certificate_trust_policy.rs", "OCSP_SIGNING_OID", Kind.const),
  ("http/reqwest.rs", "SYNC_CLIENT", Kind.lazyConst),
  ("http/reqwest.rs", "SYNC_CLIENT_REDIRECTS", Kind.lazyConst),
  ("identity/claim_aggregation/w3c_vc/did.rs", "VALID_DID", Kind.lazyConst),
  ("identity/claim_aggregation/w3c_vc/did_web.rs", "PROXIES", Kind.threadLocal),
  ("identity/identity_assertion/signer_payload.rs", "ABSOLUTE_URL_PREFIX", Kind.lazyConst),
  ("jumbf_io.rs", "HANDLER_PROTOTYPES", Kind.lazyConst),
  ("jumbf_io.rs", "CAI_READERS", Kind.lazyConst),
  ("jumbf_io.rs", "CAI_WRITERS", Kind.lazyConst),
  ("jumbf_io.rs", "CONTAINER_MAP", Kind.lazyConst),
  ("settings/mod.rs", "SETTINGS", Kind.threadLocal)
]

end C2pa.C24.Gen
