import C2paModel.Base
/-
GENERATED on every check run by translators/c20_labels.py — do not edit.
Label constants, `HASH_LABELS`, `ALLOWED_UPDATE_MANIFEST_ACTIONS`, the literal hash prefix the
signer's `redact_assertion` refuses and the thumbnail limit of the update-manifest rule, read
from sdk/src/assertions/labels.rs and sdk/src/claim.rs.
-/
namespace C2pa.C20.Gen

def actions : List Char := "c2pa.actions".toList
def claimThumbnail : List Char := "c2pa.thumbnail.claim".toList
def ingredient : List Char := "c2pa.ingredient".toList
def hashLabels : List (List Char) := ["c2pa.hash.data".toList, "c2pa.hash.boxes".toList, "c2pa.hash.bmff".toList, "c2pa.hash.collection.data".toList]
def allowedUpdateActions : List (List Char) := ["c2pa.edited.metadata".toList, "c2pa.opened".toList, "c2pa.published".toList, "c2pa.redacted".toList]
def signerHashPrefix : List Char := "c2pa.hash.".toList
def updateThumbnailLimit : Nat := 1

end C2pa.C20.Gen
