import C2paModel.Model.C28
/-
GENERATED on every check run by translators/c28_http_sites.py — do not edit.
`sinkSites`: (file, enclosing fn, what) for every use of an HTTP transport in sdk/src outside
sdk/src/http, the tests and verif_hooks. `callers`: (callee, file, enclosing fn) for every call
of a function on the reviewed paths from a sink to its guard. `guards`: guard expressions looked
up in the source.
-/
namespace C2pa.C28.Gen

def sinkSites : List (String × String × String) := [
  ("context.rs", "build_default_async_resolver", "own_transport"),
  ("context.rs", "build_default_sync_resolver", "own_transport"),
  ("crypto/ocsp/fetch.rs", "fetch_ocsp_response", "http_resolve"),
  ("crypto/ocsp/fetch.rs", "fetch_ocsp_response", "resolver"),
  ("crypto/time_stamp/http_request.rs", "time_stamp_request_http", "http_resolve"),
  ("crypto/time_stamp/http_request.rs", "time_stamp_request_http", "resolver"),
  ("identity/claim_aggregation/w3c_vc/did_web.rs", "get_did_doc", "http_resolve"),
  ("identity/claim_aggregation/w3c_vc/did_web.rs", "get_did_doc", "resolver"),
  ("settings/signer.rs", "sign", "http_resolve"),
  ("settings/signer.rs", "sign", "own_transport"),
  ("store.rs", "fetch_remote_manifest", "http_resolve"),
  ("store.rs", "fetch_remote_manifest", "resolver")
]

def callers : List (String × String × String) := [
  ("IcaSignatureVerifier::new", "identity/identity_assertion/assertion.rs", "validate_partial_claim"),
  ("check_issuer_signature", "identity/claim_aggregation/ica_signature_verifier.rs", "check_signature"),
  ("default_rfc3161_request", "assertions/timestamp.rs", "send_timestamp_token_request"),
  ("default_rfc3161_request", "crypto/time_stamp/provider.rs", "send_time_stamp_request"),
  ("default_rfc3161_request", "signer.rs", "send_timestamp_request"),
  ("did_web::resolve", "identity/claim_aggregation/ica_signature_verifier.rs", "check_issuer_signature"),
  ("fetch_and_check_ocsp_response", "crypto/cose/ocsp.rs", "check_ocsp_status"),
  ("fetch_and_check_ocsp_response", "store.rs", "get_ocsp_response_ders"),
  ("fetch_ocsp_response", "crypto/cose/ocsp.rs", "fetch_and_check_ocsp_response"),
  ("fetch_remote_manifest", "store.rs", "handle_remote_manifest"),
  ("get_did_doc", "identity/claim_aggregation/w3c_vc/did_web.rs", "resolve"),
  ("get_ocsp_response_ders", "ingredient.rs", "add_stream_internal"),
  ("handle_remote_manifest", "store.rs", "load_jumbf_from_stream"),
  ("maybe_add_timestamp", "builder.rs", "sign"),
  ("refresh_timestamp", "builder.rs", "maybe_add_timestamp"),
  ("send_timestamp_token_request", "assertions/timestamp.rs", "refresh_timestamp"),
  ("time_stamp_request_http", "crypto/time_stamp/http_request.rs", "default_rfc3161_request"),
  ("validate_partial_claim", "identity/validator.rs", "validate"),
  ("validate_partial_claim", "manifest.rs", "from_store")
]

def guards : List (String × Bool) := [
  ("handle_remote_manifest:fetch-inside-remote_manifest_fetch", true),
  ("handle_remote_manifest:disabled-branch-returns-RemoteManifestUrl", true),
  ("load_jumbf_from_stream:remote-only-after-JumbfNotFound", true),
  ("claim::check_ocsp_status:policy-from-ocsp_fetch", true),
  ("store.rs:check_ocsp_status-is-the-claim-level-wrapper", true),
  ("cose::check_ocsp_status:fetch-inside-FetchAllowed", true),
  ("cose::check_ocsp_status:usable-stapled-returns-before-fetch", true),
  ("get_manifest_labels_for_ocsp:none-gives-no-labels", true),
  ("add_stream_internal:ders-for-labels-of-get_manifest_labels_for_ocsp", true),
  ("signer.rs::send_timestamp_request:request-inside-if-let-Some-url", true),
  ("crypto/time_stamp/provider.rs::send_time_stamp_request:request-inside-if-let-Some-url", true),
  ("Builder::sign:maybe_add_timestamp-inside-if-let-Some-tsa_url", true),
  ("maybe_add_timestamp:early-return-when-disabled-and-no-labels", true),
  ("Manifest::from_store:identity-validation-inside-decode_identity_assertions", true)
]

/-- (file, enclosing fn) of every non-test `Context::new()` / `Context::default()` that is not
configured with `.with_settings(…)` on the spot -/
def freshContexts : List (String × String) := [
  ("crypto/time_stamp/provider.rs", "send_time_stamp_request"),
  ("reader.rs", "default"),
  ("signer.rs", "send_timestamp_request"),
  ("store.rs", "default"),
  ("utils/test.rs", "create_test_store"),
  ("utils/test.rs", "create_test_store_v1")
]

/-- (file, enclosing fn) of every construction, outside sdk/src/http, of an HTTP client that follows
redirects by itself (`SyncGenericResolver::with_redirects()` / `AsyncGenericResolver::with_redirects()`) -/
def nativeRedirectClients : List (String × String) := [
  ("settings/signer.rs", "sign")
]

/-- (what, file, enclosing fn): calls of `check_ocsp_status`, uses of `OcspFetchPolicy::FetchAllowed`,
calls of `send_timestamp_request` / `send_time_stamp_request` -/
def policySites : List (String × String × String) := [
  ("OcspFetchPolicy::FetchAllowed", "claim.rs", "check_ocsp_status"),
  ("OcspFetchPolicy::FetchAllowed", "crypto/cose/ocsp.rs", "check_ocsp_status"),
  ("check_ocsp_status", "claim.rs", "check_ocsp_status"),
  ("check_ocsp_status", "claim.rs", "verify_claim"),
  ("check_ocsp_status", "store.rs", "get_ocsp_status"),
  ("send_time_stamp_request", "crypto/cose/sigtst.rs", "add_sigtst_header"),
  ("send_timestamp_request", "cose_sign.rs", "send_time_stamp_request"),
  ("send_timestamp_request", "settings/signer.rs", "send_timestamp_request"),
  ("send_timestamp_request", "signer.rs", "send_timestamp_request")
]

/-- (file, implementing type, overridden methods) of every
`impl TimeStampProvider for …` / `impl AsyncTimeStampProvider for …` -/
def tsProviders : List (String × String × List String) := [
  ("cose_sign.rs", "AsyncSignerWrapper", ["send_time_stamp_request", "time_stamp_request_body", "time_stamp_request_headers", "time_stamp_service_url"]),
  ("cose_sign.rs", "SignerWrapper", ["send_time_stamp_request", "time_stamp_request_body", "time_stamp_request_headers", "time_stamp_service_url"]),
  ("crypto/cose/cose_signer.rs", "RawSignerCoseSigner", [])
]

end C2pa.C28.Gen
