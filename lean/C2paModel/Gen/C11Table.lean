import C2paModel.Model.C11
/-
GENERATED on every check run by translators/c11_container_table.py — do not edit.
`table` is CONTAINER_MAP dumped from the running code; `scannedLiterals` are the literals
`container_from_stream` returns in sdk/src/jumbf_io.rs; `pdf` is the crate feature flag.
-/
namespace C2pa.C11.Gen

def pdf : Bool := true

def table : C2pa.C11.Table := [
  ("application/c2pa".toList, "c2pa".toList),
  ("application/mp4".toList, "avif".toList),
  ("application/pdf".toList, "pdf".toList),
  ("application/svg+xml".toList, "svg".toList),
  ("application/x-c2pa-manifest-store".toList, "c2pa".toList),
  ("application/x-troff-msvideo".toList, "avi".toList),
  ("arw".toList, "tif".toList),
  ("audio/flac".toList, "flac".toList),
  ("audio/mp3".toList, "mp3".toList),
  ("audio/mp4".toList, "avif".toList),
  ("audio/mpeg".toList, "mp3".toList),
  ("audio/mpeg3".toList, "mp3".toList),
  ("audio/vnd.wave".toList, "avi".toList),
  ("audio/wav".toList, "avi".toList),
  ("audio/wave".toList, "avi".toList),
  ("audio/x-mp3".toList, "mp3".toList),
  ("audio/x-wav".toList, "avi".toList),
  ("avi".toList, "avi".toList),
  ("avif".toList, "avif".toList),
  ("c2pa".toList, "c2pa".toList),
  ("dng".toList, "tif".toList),
  ("flac".toList, "flac".toList),
  ("gif".toList, "gif".toList),
  ("heic".toList, "avif".toList),
  ("heif".toList, "avif".toList),
  ("image/avif".toList, "avif".toList),
  ("image/dng".toList, "tif".toList),
  ("image/gif".toList, "gif".toList),
  ("image/heic".toList, "avif".toList),
  ("image/heif".toList, "avif".toList),
  ("image/jpeg".toList, "jpg".toList),
  ("image/jxl".toList, "jxl".toList),
  ("image/png".toList, "png".toList),
  ("image/svg+xml".toList, "svg".toList),
  ("image/tiff".toList, "tif".toList),
  ("image/webp".toList, "avi".toList),
  ("image/x-adobe-dng".toList, "tif".toList),
  ("image/x-nikon-nef".toList, "tif".toList),
  ("image/x-sony-arw".toList, "tif".toList),
  ("jpeg".toList, "jpg".toList),
  ("jpg".toList, "jpg".toList),
  ("jxl".toList, "jxl".toList),
  ("m4a".toList, "avif".toList),
  ("m4v".toList, "avif".toList),
  ("mov".toList, "avif".toList),
  ("mp3".toList, "mp3".toList),
  ("mp4".toList, "avif".toList),
  ("nef".toList, "tif".toList),
  ("pdf".toList, "pdf".toList),
  ("png".toList, "png".toList),
  ("svg".toList, "svg".toList),
  ("tif".toList, "tif".toList),
  ("tiff".toList, "tif".toList),
  ("video/avi".toList, "avi".toList),
  ("video/mp4".toList, "avif".toList),
  ("video/msvideo".toList, "avi".toList),
  ("video/quicktime".toList, "avif".toList),
  ("video/x-m4v".toList, "avif".toList),
  ("video/x-msvideo".toList, "avi".toList),
  ("wav".toList, "avi".toList),
  ("webp".toList, "avi".toList)
]

def scannedLiterals : List C2pa.C11.Fmt := ["jpg".toList, "png".toList, "gif".toList, "tif".toList, "jxl".toList, "avi".toList, "avif".toList, "flac".toList, "mp3".toList, "pdf".toList]

end C2pa.C11.Gen
