import C2paModel.Model.C03
/-
C03 — the claim store `Builder::to_claim` builds: which assertions, in which order, with which
instance numbers (`Claim::add_assertion` → `make_assertion_instance_label` → `next_instance`,
which filters the store by *substring*).
-/
namespace C2pa.C03
open C2pa

/-! ### specification of the instance numbers -/

/-- for every position of a label list: how many earlier positions hold the same label -/
def occGo : List String → List String → List Nat
  | _, [] => []
  | seen, l :: t => seen.count l :: occGo (seen ++ [l]) t

def occBefore (ls : List String) : List Nat := occGo [] ls

/-- no label is a *proper* substring of another (substring-related labels are equal) -/
def NoProperInfix (L : List String) : Prop :=
  ∀ l ∈ L, ∀ l' ∈ L, infixOf l.toList l'.toList = true → l = l'

theorem infixOf_refl (p : List Char) : infixOf p p = true := by
  cases p with
  | nil => rfl
  | cons c cs => simp [infixOf]

/-! ### `next_instance` under `NoProperInfix` -/

theorem foldl_max_succ_range (k : Nat) : ((List.range k).map Nat.succ).foldl max 0 = k := by
  induction k with
  | zero => rfl
  | succ k ih =>
    rw [List.range_succ, List.map_append, List.foldl_append, ih]
    simp

/-- the instance numbers stored for each label are 0, 1, …, (occurrences − 1), in order -/
def Inv (store : List CAsn) : Prop :=
  ∀ l : String, (store.filter (fun x => x.asn.label == l)).map (·.inst) =
    List.range ((store.map (·.asn.label)).count l)

theorem nextInstance_eq (store : List CAsn) (l : String) (hinv : Inv store)
    (h : ∀ x ∈ store, infixOf l.toList x.asn.label.toList = true → x.asn.label = l) :
    nextInstance store l = (store.map (·.asn.label)).count l := by
  unfold nextInstance
  have hf : store.filter (fun x => infixOf l.toList x.asn.label.toList) =
      store.filter (fun x => x.asn.label == l) := by
    apply List.filter_congr
    intro x hx
    cases hi : infixOf l.toList x.asn.label.toList with
    | true => simp [h x hx hi]
    | false =>
      cases hb : (x.asn.label == l) with
      | false => rfl
      | true =>
        have : x.asn.label = l := by simpa using hb
        rw [this, infixOf_refl] at hi
        cases hi
  rw [hf, hinv l]
  cases hc : (store.map (·.asn.label)).count l with
  | zero => rfl
  | succ k =>
    rw [List.range_succ_eq_map]
    show (List.map Nat.succ (List.range k)).foldl max 0 + 1 = k + 1
    rw [foldl_max_succ_range]

theorem inv_nil : Inv [] := by intro l; rfl

theorem inv_snoc (store : List CAsn) (a : Asn) (hinv : Inv store) :
    Inv (store ++ [⟨a, (store.map (·.asn.label)).count a.label⟩]) := by
  intro l
  rw [List.filter_append, List.map_append, List.map_append, List.count_append, hinv l]
  by_cases hl : a.label = l
  · subst hl
    simp [List.range_succ]
  · have hb : (a.label == l) = false := by simpa using hl
    simp [hb, hl]

/-- **The store built by repeated `add_assertion`**: the assertions in order, numbered by
earlier occurrences of the same label — provided no label is a proper substring of another. -/
theorem foldl_addAssertion_spec (as : List Asn) : ∀ (store : List CAsn), Inv store →
    NoProperInfix (store.map (·.asn.label) ++ as.map (·.label)) →
    (as.foldl addAssertion store).map (·.asn) = store.map (·.asn) ++ as ∧
    (as.foldl addAssertion store).map (·.inst) =
      store.map (·.inst) ++ occGo (store.map (·.asn.label)) (as.map (·.label)) ∧
    Inv (as.foldl addAssertion store) := by
  induction as with
  | nil => intro store hinv _; simp [occGo, hinv]
  | cons a t ih =>
    intro store hinv hnp
    have hnext : nextInstance store a.label = (store.map (·.asn.label)).count a.label := by
      apply nextInstance_eq store a.label hinv
      intro x hx hi
      have h1 : a.label ∈ store.map (·.asn.label) ++ (a :: t).map (·.label) := by simp
      have h2 : x.asn.label ∈ store.map (·.asn.label) ++ (a :: t).map (·.label) := by
        apply List.mem_append_left
        exact List.mem_map_of_mem (f := fun y : CAsn => y.asn.label) hx
      exact (hnp _ h1 _ h2 hi).symm
    have hstep : addAssertion store a = store ++ [⟨a, (store.map (·.asn.label)).count a.label⟩] := by
      unfold addAssertion; rw [hnext]
    have hnp' : NoProperInfix ((store ++ [(⟨a, (store.map (·.asn.label)).count a.label⟩ : CAsn)]).map (·.asn.label)
        ++ t.map (·.label)) := by
      have : (store ++ [(⟨a, (store.map (·.asn.label)).count a.label⟩ : CAsn)]).map (·.asn.label) ++ t.map (·.label)
          = store.map (·.asn.label) ++ (a :: t).map (·.label) := by simp
      rw [this]; exact hnp
    obtain ⟨h1, h2, h3⟩ := ih _ (inv_snoc store a hinv) hnp'
    rw [List.foldl_cons, hstep]
    refine ⟨?_, ?_, h3⟩
    · rw [h1]; simp
    · rw [h2]; simp [occGo]

/-! ### the claim store of a definition -/

/-- everything the claim stores, in order -/
def allAsns (d : Definition) : List Asn :=
  (preLabels d).map (fun l => ⟨l, "", false⟩) ++
    d.assertions.map (fun a => { a with label := normLabel a.label }) ++ [⟨"c2pa.hash.data", "", false⟩]

theorem allAsns_labels (d : Definition) : (allAsns d).map (·.label) = allLabels d := by
  simp [allAsns, allLabels, List.map_map, Function.comp_def]

theorem toClaim_store (d : Definition) : (toClaim d).store = (allAsns d).foldl addAssertion [] := by
  unfold toClaim allAsns addAssertion
  simp only [List.foldl_append, List.foldl_map, List.foldl_cons, List.foldl_nil]

/-- **claim_store_spec.** The claim stores exactly the thumbnail, the ingredients, the supplied
assertions (re-labelled by `normLabel`) and the hard binding, in this order, and the instance
number of each is the number of earlier stored assertions with the same label — for every
definition in which no stored label is a proper substring of another stored label. -/
theorem claim_store_spec (d : Definition) (hnp : NoProperInfix (allLabels d)) :
    (toClaim d).store.map (·.asn) = allAsns d ∧
    (toClaim d).store.map (·.inst) = occBefore (allLabels d) := by
  obtain ⟨h1, h2, _⟩ := foldl_addAssertion_spec (allAsns d) [] inv_nil (by
    simpa [allAsns_labels] using hnp)
  rw [toClaim_store]
  refine ⟨by simpa using h1, ?_⟩
  rw [h2, allAsns_labels]
  rfl

theorem occGo_nodup (seen ls : List String) (h : (seen ++ ls).Nodup) :
    occGo seen ls = List.replicate ls.length 0 := by
  induction ls generalizing seen with
  | nil => rfl
  | cons l t ih =>
    have hl : l ∉ seen := by
      intro hm
      rw [List.nodup_append] at h
      exact h.2.2 l hm l (List.mem_cons_self ..) rfl
    have : (seen ++ [l] ++ t).Nodup := by simpa using h
    simp only [occGo, List.length_cons, List.replicate_succ, ih _ this, List.count_eq_zero.2 hl]

/-- all instance numbers are 0 when the stored labels are pairwise distinct (and none is a
substring of another) -/
theorem claim_instances_zero (d : Definition) (hnp : NoProperInfix (allLabels d))
    (hnd : (allLabels d).Nodup) : ∀ x ∈ (toClaim d).store, x.inst = 0 := by
  intro x hx
  have h := (claim_store_spec d hnp).2
  have hz : occBefore (allLabels d) = List.replicate (allLabels d).length 0 :=
    occGo_nodup [] _ (by simpa using hnd)
  have : x.inst ∈ (toClaim d).store.map (·.inst) := List.mem_map_of_mem hx
  rw [h, hz] at this
  exact (List.mem_replicate.1 this).2

end C2pa.C03
