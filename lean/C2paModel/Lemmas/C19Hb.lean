import C2paModel.Lemmas.C19Basic
/-
C19 — `get_hash_binding_manifest_impl`: unfolding, termination measure, soundness.
-/
namespace C2pa.C19

theorem hb_zero (lim : Nat) (s : Store) (u : Nat) (vis : List Nat) :
    hb lim s 0 u vis = (.outOfFuel, vis) := rfl

theorem hb_succ (lim : Nat) (s : Store) (n u : Nat) (vis : List Nat) :
    hb lim s (n + 1) u vis =
      if lim ≤ vis.length then (.none, vis)
      else if u ∈ vis then (.none, vis)
      else match s[u]? with
        | none => (.none, u :: vis)
        | some c =>
          if c.update = false ∧ c.hasHash = true then (.found u, u :: vis)
          else match hbScan s c.ings with
            | .recurse v => hb lim s n v (u :: vis)
            | .found v => (.found v, u :: vis)
            | .none => (.none, u :: vis) := by
  cases hs : s[u]? with
  | none => simp [hb, hs]
  | some c =>
    cases hsc : hbScan s c.ings <;> simp [hb, hs, hsc]

theorem hbScan_recurse (s : Store) : ∀ (ings : List Ing) (v : Nat), hbScan s ings = .recurse v →
    ∃ p, s[v]? = some p ∧ p.update = true ∧ ∃ i ∈ ings, i.parent = true ∧ i.target = some v
  | [], v, h => by simp [hbScan] at h
  | i :: is, v, h => by
    unfold hbScan at h
    have lift : (∃ p, s[v]? = some p ∧ p.update = true ∧ ∃ j ∈ is, j.parent = true ∧ j.target = some v) →
        ∃ p, s[v]? = some p ∧ p.update = true ∧ ∃ j ∈ i :: is, j.parent = true ∧ j.target = some v := by
      rintro ⟨p, h1, h2, j, hj, h3⟩
      exact ⟨p, h1, h2, j, List.mem_cons_of_mem _ hj, h3⟩
    by_cases hp : i.parent = true
    · simp only [hp, if_true] at h
      cases ht : i.target with
      | none => rw [ht] at h; exact lift (hbScan_recurse s is v h)
      | some w =>
        rw [ht] at h
        simp only at h
        cases hs : s[w]? with
        | none => rw [hs] at h; exact lift (hbScan_recurse s is v h)
        | some p =>
          rw [hs] at h
          simp only at h
          by_cases hu : p.update = true
          · simp only [hu, if_true] at h
            cases h
            exact ⟨p, hs, hu, i, List.mem_cons_self .., hp, ht⟩
          · simp only [hu] at h
            by_cases hh : p.hasHash = true
            · simp [hh] at h
            · simp only [hh] at h
              exact lift (hbScan_recurse s is v h)
    · simp only [hp] at h
      exact lift (hbScan_recurse s is v h)

theorem hbScan_found (s : Store) : ∀ (ings : List Ing) (v : Nat), hbScan s ings = .found v →
    ∃ p, s[v]? = some p ∧ p.update = false ∧ p.hasHash = true
  | [], v, h => by simp [hbScan] at h
  | i :: is, v, h => by
    unfold hbScan at h
    by_cases hp : i.parent = true
    · simp only [hp, if_true] at h
      cases ht : i.target with
      | none => rw [ht] at h; exact hbScan_found s is v h
      | some w =>
        rw [ht] at h
        simp only at h
        cases hs : s[w]? with
        | none => rw [hs] at h; exact hbScan_found s is v h
        | some p =>
          rw [hs] at h
          simp only at h
          by_cases hu : p.update = true
          · simp [hu] at h
          · simp only [hu] at h
            by_cases hh : p.hasHash = true
            · simp only [hh, if_true] at h
              cases h
              exact ⟨p, hs, by simpa using hu, hh⟩
            · simp only [hh] at h
              exact hbScan_found s is v h
    · simp only [hp] at h
      exact hbScan_found s is v h

/-- A found binding manifest is a non-update claim of the store that has a hash assertion. -/
theorem hb_found_sound (lim : Nat) (s : Store) :
    ∀ (n u : Nat) (vis : List Nat) (l : Nat), (hb lim s n u vis).1 = .found l →
      ∃ c, s[l]? = some c ∧ c.update = false ∧ c.hasHash = true := by
  intro n
  induction n with
  | zero => intro u vis l h; simp [hb_zero] at h
  | succ n ih =>
    intro u vis l
    rw [hb_succ]
    by_cases hd : lim ≤ vis.length
    · simp [hd]
    · simp only [hd, if_false]
      by_cases hv : u ∈ vis
      · simp [hv]
      · simp only [hv, if_false]
        cases hs : s[u]? with
        | none => simp
        | some c =>
          simp only
          by_cases hc : c.update = false ∧ c.hasHash = true
          · simp only [hc, and_self, if_true]
            intro h; cases h
            exact ⟨c, hs, hc.1, hc.2⟩
          · simp only [hc, if_false]
            cases hsc : hbScan s c.ings with
            | recurse v => simp only; exact ih v _ l
            | found v =>
              simp only
              intro h; cases h
              exact hbScan_found s c.ings l hsc
            | none => simp

/-- Fuel `|V| - |visited| + 1` suffices; the visited list stays duplicate-free. -/
theorem hb_fuel (lim : Nat) (s : Store) :
    ∀ (n u : Nat) (vis : List Nat), vis.Nodup → (∀ x ∈ vis, x < s.length) → u < s.length →
      s.length + 1 ≤ vis.length + n →
      (hb lim s n u vis).1 ≠ .outOfFuel ∧ (hb lim s n u vis).2.Nodup ∧
        (∀ x ∈ (hb lim s n u vis).2, x < s.length) := by
  intro n
  induction n with
  | zero =>
    intro u vis hnd hlt _ hn
    have := nodup_length_le s.length vis hnd hlt
    omega
  | succ n ih =>
    intro u vis hnd hlt hu hn
    rw [hb_succ]
    by_cases hd : lim ≤ vis.length
    · simp only [hd, if_true]
      exact ⟨by simp, hnd, hlt⟩
    · simp only [hd, if_false]
      by_cases hv : u ∈ vis
      · simp only [hv, if_true]
        exact ⟨by simp, hnd, hlt⟩
      · simp only [hv, if_false]
        have hnd' : (u :: vis).Nodup := List.nodup_cons.2 ⟨hv, hnd⟩
        have hlt' : ∀ x ∈ u :: vis, x < s.length := by
          intro x hx
          rcases List.mem_cons.1 hx with rfl | hx
          · exact hu
          · exact hlt x hx
        cases hs : s[u]? with
        | none => exact ⟨by simp, hnd', hlt'⟩
        | some c =>
          simp only
          by_cases hc : c.update = false ∧ c.hasHash = true
          · simp only [hc, and_self, if_true]
            exact ⟨by simp, hnd', hlt'⟩
          · simp only [hc, if_false]
            cases hsc : hbScan s c.ings with
            | recurse v =>
              simp only
              obtain ⟨p, hp, _⟩ := hbScan_recurse s c.ings v hsc
              have hvlt : v < s.length := by
                rcases Nat.lt_or_ge v s.length with h' | h'
                · exact h'
                · rw [List.getElem?_eq_none h'] at hp; cases hp
              exact ih v (u :: vis) hnd' hlt' hvlt (by simp only [List.length_cons]; omega)
            | found v => exact ⟨by simp, hnd', hlt'⟩
            | none => exact ⟨by simp, hnd', hlt'⟩

/-- Fuel `lim + 1 - |visited|` suffices: the recursion is never deeper than the limit. -/
theorem hb_fuel_depth (lim : Nat) (s : Store) :
    ∀ (n u : Nat) (vis : List Nat), vis.length ≤ lim → lim + 1 ≤ vis.length + n →
      (hb lim s n u vis).1 ≠ .outOfFuel := by
  intro n
  induction n with
  | zero => intro u vis h1 h2; omega
  | succ n ih =>
    intro u vis h1 h2
    rw [hb_succ]
    by_cases hd : lim ≤ vis.length
    · simp [hd]
    · simp only [hd, if_false]
      by_cases hv : u ∈ vis
      · simp [hv]
      · simp only [hv, if_false]
        cases hs : s[u]? with
        | none => simp
        | some c =>
          simp only
          by_cases hc : c.update = false ∧ c.hasHash = true
          · simp [hc]
          · simp only [hc, if_false]
            cases hsc : hbScan s c.ings with
            | recurse v =>
              simp only
              exact ih v (u :: vis) (by simp only [List.length_cons]; omega)
                (by simp only [List.length_cons]; omega)
            | found v => simp
            | none => simp

theorem hb_fuel_succ (lim : Nat) (s : Store) :
    ∀ (n u : Nat) (vis : List Nat), (hb lim s n u vis).1 ≠ .outOfFuel →
      hb lim s (n + 1) u vis = hb lim s n u vis := by
  intro n
  induction n with
  | zero => intro u vis h; simp [hb_zero] at h
  | succ n ih =>
    intro u vis
    rw [hb_succ lim s (n + 1), hb_succ lim s n]
    by_cases hd : lim ≤ vis.length
    · simp [hd]
    · simp only [hd, if_false]
      by_cases hv : u ∈ vis
      · simp [hv]
      · simp only [hv, if_false]
        cases hs : s[u]? with
        | none => simp
        | some c =>
          simp only
          by_cases hc : c.update = false ∧ c.hasHash = true
          · simp [hc]
          · simp only [hc, if_false]
            cases hsc : hbScan s c.ings with
            | recurse v => simp only; exact ih v _
            | found v => simp
            | none => simp

theorem hb_fuel_le (lim : Nat) (s : Store) (n u : Nat) (vis : List Nat)
    (h : (hb lim s n u vis).1 ≠ .outOfFuel) :
    ∀ k, hb lim s (n + k) u vis = hb lim s n u vis := by
  intro k
  induction k with
  | zero => rfl
  | succ k ih =>
    have : (hb lim s (n + k) u vis).1 ≠ .outOfFuel := by rw [ih]; exact h
    rw [← Nat.add_assoc, hb_fuel_succ lim s (n + k) u vis this, ih]

end C2pa.C19
