import C2paModel.Lemmas.C29b
/-! C29 — the path walk: composition, monotonicity, what a result says about the tree. -/
namespace C2pa.C29

theorem look_set (fs : FS) (p q : PPath) (k : Kind) :
    (fs.set p k).look q = if q = p then some k else fs.look q := by
  unfold FS.set FS.look
  simp only [List.lookup_cons]
  by_cases h : q = p
  · simp [h]
  · have : (q == p) = false := by simpa using h
    simp [this, h]

/-- how the walk of `X ++ Y` continues after the walk of `X` -/
def Res.andThen (fs : FS) (fl : Bool) (r : Res) (Y : List Str) : Res :=
  match r with
  | .found p .dir g => walk fs fl g p Y
  | .found _ (.file _) _ => .err .enotdir
  | .found _ (.link _) _ => .err .enoent
  | .absent d n _ g => if Y.all (fun r => r = []) then .absent d n true g else .err .enoent
  | .err e => .err e

theorem walk_nil (fs : FS) (fl : Bool) (f : Nat) (cur : PPath) :
    walk fs fl f cur [] = .found cur .dir f := by
  cases f <;> simp [walk]

theorem walk_zero_cons (fs : FS) (fl : Bool) (cur : PPath) (s : Str) (rest : List Str) :
    walk fs fl 0 cur (s :: rest) = .err .eloop := by
  simp [walk]

theorem walk_append (fs : FS) (fl : Bool) : ∀ (f : Nat) (cur : PPath) (X Y : List Str), Y ≠ [] →
    walk fs fl f cur (X ++ Y) = (walk fs true f cur X).andThen fs fl Y := by
  intro f
  induction f with
  | zero =>
    intro cur X Y hY
    cases X with
    | nil => simp [walk_nil, Res.andThen]
    | cons s rest => simp [walk_zero_cons, Res.andThen]
  | succ f ih =>
    intro cur X Y hY
    cases X with
    | nil => simp [walk_nil, Res.andThen]
    | cons s rest =>
      simp only [List.cons_append]
      rw [walk, walk]
      by_cases h1 : s = [] ∨ s = [46]
      · simp only [h1, if_true]; exact ih cur rest Y hY
      · simp only [h1, if_false]
        by_cases h2 : s = [46, 46]
        · simp only [h2, if_true]; exact ih _ rest Y hY
        · simp only [h2, if_false]
          cases hl : fs.look (cur ++ [s]) with
          | none =>
            simp only [List.all_append]
            have hemp : (rest ++ Y).isEmpty = false := by simp [hY]
            by_cases hr : rest.all (fun r => decide (r = [])) = true
            · simp [hr, Res.andThen, hemp]
            · simp [hr, Res.andThen]
          | some k =>
            cases k with
            | dir => exact ih _ rest Y hY
            | file c =>
              by_cases hr : rest = []
              · simp [hr, Res.andThen, hY]
              · simp [hr, Res.andThen]
            | link t =>
              have hne : rest ++ Y ≠ [] := by simp [hY]
              simp only [hne, false_and, if_false]
              have : ¬ (rest = [] ∧ true = false) := by simp
              simp only [this, if_false]
              by_cases ht : t = []
              · simp [ht, Res.andThen]
              · simp only [ht, if_false]
                rw [← List.append_assoc]
                exact ih _ _ Y hY

/-- a walk that does not follow the last link differs from one that does only by ending on
that link -/
theorem walk_nofollow (fs : FS) : ∀ (f : Nat) (cur : PPath) (X : List Str),
    walk fs false f cur X = walk fs true f cur X ∨
      ∃ q t g, walk fs false f cur X = .found q (.link t) g := by
  intro f
  induction f with
  | zero => intro cur X; cases X <;> simp [walk]
  | succ f ih =>
    intro cur X
    cases X with
    | nil => simp [walk]
    | cons s rest =>
      rw [walk, walk]
      by_cases h1 : s = [] ∨ s = [46]
      · simp only [h1, if_true]; exact ih cur rest
      · simp only [h1, if_false]
        by_cases h2 : s = [46, 46]
        · simp only [h2, if_true]; exact ih _ rest
        · simp only [h2, if_false]
          cases hl : fs.look (cur ++ [s]) with
          | none => simp
          | some k =>
            cases k with
            | dir => exact ih _ rest
            | file c => simp
            | link t =>
              by_cases hr : rest = []
              · right; exact ⟨cur ++ [s], t, f, by simp [hr]⟩
              · simp only [hr, false_and, if_false]
                by_cases ht : t = []
                · simp [ht]
                · simp only [ht, if_false]; exact ih _ _

/-- following walks never end on a link -/
theorem walk_true_not_link (fs : FS) : ∀ (f : Nat) (cur : PPath) (X : List Str) q t g,
    walk fs true f cur X ≠ .found q (.link t) g := by
  intro f
  induction f with
  | zero => intro cur X q t g; cases X <;> simp [walk]
  | succ f ih =>
    intro cur X q t g
    cases X with
    | nil => simp [walk]
    | cons s rest =>
      rw [walk]
      by_cases h1 : s = [] ∨ s = [46]
      · simp only [h1, if_true]; exact ih cur rest q t g
      · simp only [h1, if_false]
        by_cases h2 : s = [46, 46]
        · simp only [h2, if_true]; exact ih _ rest q t g
        · simp only [h2, if_false]
          cases hl : fs.look (cur ++ [s]) with
          | none => simp only; split <;> simp
          | some k =>
            cases k with
            | dir => exact ih _ rest q t g
            | file c => simp only; split <;> simp
            | link t' =>
              simp only [Bool.true_eq_false, and_false, if_false]
              by_cases ht : t' = []
              · simp [ht]
              · simp only [ht, if_false]; exact ih _ _ q t g

/-- a file or a link reported by a walk is what the tree holds at that location -/
theorem walk_found_look (fs : FS) (fl : Bool) : ∀ (f : Nat) (cur : PPath) (X : List Str) q k g,
    walk fs fl f cur X = .found q k g → k ≠ .dir → fs.look q = some k := by
  intro f
  induction f with
  | zero =>
    intro cur X q k g h hk
    cases X with
    | nil => simp [walk] at h; exact absurd h.2.1.symm hk
    | cons s rest => simp [walk] at h
  | succ f ih =>
    intro cur X q k g h hk
    cases X with
    | nil => simp [walk] at h; exact absurd h.2.1.symm hk
    | cons s rest =>
      rw [walk] at h
      by_cases h1 : s = [] ∨ s = [46]
      · simp only [h1, if_true] at h; exact ih cur rest q k g h hk
      · simp only [h1, if_false] at h
        by_cases h2 : s = [46, 46]
        · simp only [h2, if_true] at h; exact ih _ rest q k g h hk
        · simp only [h2, if_false] at h
          cases hl : fs.look (cur ++ [s]) with
          | none => rw [hl] at h; simp only at h; split at h <;> simp at h
          | some k' =>
            rw [hl] at h
            cases k' with
            | dir => exact ih _ rest q k g h hk
            | file c =>
              simp only at h
              split at h
              · simp at h; obtain ⟨rfl, rfl, _⟩ := h; exact hl
              · simp at h
            | link t =>
              simp only at h
              split at h
              · simp at h; obtain ⟨rfl, rfl, _⟩ := h; exact hl
              · split at h
                · simp at h
                · exact ih _ _ q k g h hk

/-- `fs'` has everything `fs` has (and maybe more) -/
def FS.le (fs fs' : FS) : Prop := ∀ p k, fs.look p = some k → fs'.look p = some k

theorem FS.le_refl (fs : FS) : fs.le fs := fun _ _ h => h

theorem FS.le_trans {a b c : FS} (h1 : a.le b) (h2 : b.le c) : a.le c :=
  fun p k h => h2 p k (h1 p k h)

/-- a walk that found something finds the same thing in a larger tree -/
theorem walk_mono (fs fs' : FS) (hle : fs.le fs') (fl : Bool) :
    ∀ (f : Nat) (cur : PPath) (X : List Str) q k g,
      walk fs fl f cur X = .found q k g → walk fs' fl f cur X = .found q k g := by
  intro f
  induction f with
  | zero =>
    intro cur X q k g h
    cases X with
    | nil => simpa [walk] using h
    | cons s rest => simp [walk] at h
  | succ f ih =>
    intro cur X q k g h
    cases X with
    | nil => simpa [walk] using h
    | cons s rest =>
      rw [walk] at h ⊢
      by_cases h1 : s = [] ∨ s = [46]
      · simp only [h1, if_true] at h ⊢; exact ih cur rest q k g h
      · simp only [h1, if_false] at h ⊢
        by_cases h2 : s = [46, 46]
        · simp only [h2, if_true] at h ⊢; exact ih _ rest q k g h
        · simp only [h2, if_false] at h ⊢
          cases hl : fs.look (cur ++ [s]) with
          | none => rw [hl] at h; simp only at h; split at h <;> simp at h
          | some k' =>
            rw [hl] at h
            rw [hle _ _ hl]
            cases k' with
            | dir => exact ih _ rest q k g h
            | file c => exact h
            | link t =>
              simp only at h ⊢
              split
              · rename_i hc; simpa [hc] using h
              · rename_i hc
                simp only [hc, if_false] at h
                split
                · rename_i ht; simp [ht] at h
                · rename_i ht; simp only [ht, if_false] at h; exact ih _ _ q k g h

/-- walking over skippable segments stays put -/
theorem walk_skips (fs : FS) (fl : Bool) : ∀ (sk : List Str) (f : Nat) (cur : PPath),
    (∀ s ∈ sk, isSkip s = true) →
    walk fs fl f cur sk = if sk.length ≤ f then .found cur .dir (f - sk.length) else .err .eloop := by
  intro sk
  induction sk with
  | nil => intro f cur _; simp [walk_nil]
  | cons s rest ih =>
    intro f cur h
    have hs : s = [] ∨ s = [46] := by
      have := h s (by simp); simpa [isSkip] using this
    cases f with
    | zero => simp [walk]
    | succ f =>
      rw [walk]
      simp only [hs, if_true]
      rw [ih f cur (fun x hx => h x (by simp [hx]))]
      simp only [List.length_cons, Nat.add_le_add_iff_right, Nat.add_sub_add_right]

end C2pa.C29
