import C2paModel.Lemmas.C13Top
/-
C13 — an input-level bound on the number of progress callbacks (`chunkCount`): the number of
pieces the builder returns is bounded by the number of entries, and the chunks of ordered,
non-overlapping pieces are bounded by `data.length / buf` plus the number of pieces.
This discharges the `chunkCount … ≤ u32Max` hypotheses from the inputs alone.
-/
namespace C2pa.C13

/-! ### arithmetic -/

theorem ceilDiv_le (a b : Nat) (hb : 0 < b) : ceilDiv a b ≤ a / b + 1 := by
  unfold ceilDiv
  have h1 : (a + (b - 1)) / b ≤ (a + b) / b := Nat.div_le_div_right (by omega)
  rw [Nat.add_div_right _ hb] at h1
  exact h1

theorem div_add_div_le (a c b : Nat) (hb : 0 < b) : a / b + c / b ≤ (a + c) / b := by
  rw [Nat.le_div_iff_mul_le hb, Nat.add_mul]
  have h1 := Nat.div_mul_le_self a b
  have h2 := Nat.div_mul_le_self c b
  omega

/-! ### ordered pieces -/

/-- chunks of an ordered, non-overlapping piece list inside `[k, N)` -/
theorem WF_chunkCount {N : Nat} (buf : Nat) (hb : 0 < buf) : ∀ (L : List Piece) (k : Nat),
    WF N k L → chunkCount buf L ≤ (N - k) / buf + L.length := by
  intro L
  induction L with
  | nil => intro k _; simp [chunkCount]
  | cons p ps ih =>
    intro k h
    obtain ⟨h1, h2, h3, h4⟩ := h
    rw [chunkCount_cons, List.length_cons]
    by_cases hm : p.marker = true
    · simp only [hm, if_true] at h4
      obtain ⟨h5, h6⟩ := h4
      have := ih p.lo h6
      have e1 : p.hi - p.lo + 1 = 1 := by omega
      rw [e1, ceilDiv_one buf hb]
      have hmono : (N - p.lo) / buf ≤ (N - k) / buf := Nat.div_le_div_right (by omega)
      omega
    · simp only [hm] at h4
      have := ih (p.hi + 1) h4
      have hc := ceilDiv_le (p.hi - p.lo + 1) buf hb
      have hs := div_add_div_le (p.hi - p.lo + 1) (N - (p.hi + 1)) buf hb
      have hmono : (p.hi - p.lo + 1 + (N - (p.hi + 1))) / buf ≤ (N - k) / buf :=
        Nat.div_le_div_right (by omega)
      omega

/-! ### number of remaining ranges -/

theorem removeOne_length (s e : Nat) (r : Nat × Nat) : (removeOne s e r).length ≤ 2 := by
  unfold removeOne
  by_cases c1 : r.2 < s ∨ e < r.1
  · simp [c1]
  · simp only [c1, if_false]
    by_cases c2 : r.1 < s <;> by_cases c3 : e < r.2 <;> simp [c2, c3]

/-- ranges that start after `e` are untouched by the removal of `s..=e` -/
theorem flatMap_removeOne_above {N : Nat} (s e : Nat) : ∀ (rs : List (Nat × Nat)) (k : Nat),
    WFR N k rs → e < k → rs.flatMap (removeOne s e) = rs := by
  intro rs
  induction rs with
  | nil => intro k _ _; rfl
  | cons r rs ih =>
    intro k h hk
    obtain ⟨h1, h2, h3, h4⟩ := h
    rw [List.flatMap_cons, ih (r.2 + 1) h4 (by omega)]
    have : r.2 < s ∨ e < r.1 := Or.inr (by omega)
    simp [removeOne, this]

/-- removing one interval from ordered disjoint ranges adds at most one range -/
theorem flatMap_removeOne_length {N : Nat} (s e : Nat) : ∀ (rs : List (Nat × Nat)) (k : Nat),
    WFR N k rs → (rs.flatMap (removeOne s e)).length ≤ rs.length + 1 := by
  intro rs
  induction rs with
  | nil => intro k _; simp
  | cons r rs ih =>
    intro k h
    obtain ⟨h1, h2, h3, h4⟩ := h
    rw [List.flatMap_cons, List.length_append, List.length_cons]
    by_cases c3 : e < r.2
    · -- everything after `r` is untouched
      rw [flatMap_removeOne_above s e rs (r.2 + 1) h4 (by omega)]
      have := removeOne_length s e r
      omega
    · have := ih (r.2 + 1) h4
      have hl : (removeOne s e r).length ≤ 1 := by
        unfold removeOne
        by_cases c1 : r.2 < s ∨ e < r.1
        · simp [c1]
        · simp only [c1, if_false, c3, List.append_nil]
          by_cases c2 : r.1 < s <;> simp [c2]
      omega

theorem removeRange_length {N : Nat} (s e : Nat) (rs : List (Nat × Nat)) (k : Nat)
    (h : WFR N k rs) : (removeRange s e rs).length ≤ rs.length + 1 := by
  unfold removeRange
  by_cases c : e < s
  · simp [c]
  · simp only [c, if_false]
    exact flatMap_removeOne_length s e rs k h

theorem markersOf_cons (a : HashRange) (hr : List HashRange) :
    markersOf (a :: hr) = (match a.off with | some o => [o] | none => []) ++ markersOf hr := by
  unfold markersOf
  cases ho : a.off with
  | none => simp [List.filterMap_cons, ho]
  | some o => simp [List.filterMap_cons, ho]

/-- every non-marker entry adds at most one remaining range -/
theorem exclLoop_length {N : Nat} : ∀ (hr : List HashRange) (rs : List (Nat × Nat)) (ms : List Nat)
    (rs' : List (Nat × Nat)) (ms' : List Nat),
    exclLoop hr rs ms = .ok (rs', ms') → WFR N 0 rs →
      rs'.length + (markersOf hr).length ≤ rs.length + hr.length := by
  intro hr
  induction hr with
  | nil =>
    intro rs ms rs' ms' h _
    simp only [exclLoop, Except.ok.injEq, Prod.mk.injEq] at h
    obtain ⟨rfl, rfl⟩ := h
    simp [markersOf]
  | cons a hr ih =>
    intro rs ms rs' ms' h hw
    unfold exclLoop at h
    rw [markersOf_cons, List.length_append, List.length_cons]
    cases ho : a.off with
    | some o =>
      simp only [ho] at h
      have := ih _ _ _ _ h hw
      simp only [List.length_cons, List.length_nil]
      omega
    | none =>
      simp only [ho] at h
      simp only [List.length_nil]
      by_cases hl : a.length = 0
      · simp only [hl, if_true] at h
        have := ih _ _ _ _ h hw
        omega
      · simp only [hl, if_false] at h
        cases hc : checkedAdd a.start a.length with
        | none => simp [hc] at h
        | some e1 =>
          simp only [hc] at h
          by_cases hz : e1 = 0
          · simp [hz] at h
          · simp only [hz, if_false] at h
            have := ih _ _ _ _ h (removeRange_WFR _ _ rs 0 hw)
            have := removeRange_length (N := N) a.start (e1 - 1) rs 0 hw
            omega

/-! ### number of pieces after marker splitting -/

theorem splitRun_length : ∀ (starts : List Nat) (c b : Nat),
    (splitRun starts (c, b)).length ≤
      1 + 2 * starts.countP (fun os => decide (c ≤ os) && decide (os ≤ b)) := by
  intro starts
  induction starts with
  | nil => intro c b; simp [splitRun]
  | cons os more ih =>
    intro c b
    by_cases hin : c ≤ os ∧ os ≤ b
    · have hcnt : (os :: more).countP (fun x => decide (c ≤ x) && decide (x ≤ b)) =
          more.countP (fun x => decide (c ≤ x) && decide (x ≤ b)) + 1 := by
        rw [List.countP_cons]; simp [hin]
      rw [hcnt]
      unfold splitRun
      simp only [hin, and_self, if_true]
      by_cases heq : c = os
      · simp only [heq, if_true, List.length_cons]
        subst heq
        have := ih c b
        omega
      · simp only [heq, if_false, List.length_cons]
        have h1 := ih os b
        -- the offsets inside the right part are inside the whole run
        have hmono : more.countP (fun x => decide (os ≤ x) && decide (x ≤ b)) ≤
            more.countP (fun x => decide (c ≤ x) && decide (x ≤ b)) := by
          apply List.countP_mono_left
          intro x _ hx
          simp only [Bool.and_eq_true, decide_eq_true_eq] at hx ⊢
          omega
        omega
    · have hcnt : (os :: more).countP (fun x => decide (c ≤ x) && decide (x ≤ b)) =
          more.countP (fun x => decide (c ≤ x) && decide (x ≤ b)) := by
        rw [List.countP_cons]
        have hd : (decide (c ≤ os) && decide (os ≤ b)) = false := by
          rw [Bool.and_eq_false_iff, decide_eq_false_iff_not, decide_eq_false_iff_not]; omega
        simp [hd]
      rw [hcnt]
      unfold splitRun
      simp only [hin, if_false]
      exact ih c b

theorem countP_disjoint_add {α : Type} (p q : α → Bool) (l : List α)
    (hd : ∀ x ∈ l, ¬ (p x = true ∧ q x = true)) :
    l.countP p + l.countP q = l.countP (fun x => p x || q x) := by
  induction l with
  | nil => rfl
  | cons a as ih =>
    have ih' := ih (fun x hx => hd x (List.mem_cons_of_mem _ hx))
    have ha := hd a (List.mem_cons_self ..)
    simp only [List.countP_cons]
    cases hp : p a <;> cases hq : q a <;> simp_all <;> omega

theorem splitAll_length {N : Nat} (starts : List Nat) : ∀ (rs : List (Nat × Nat)) (k : Nat),
    WFR N k rs →
      (splitAll starts rs).length ≤ rs.length + 2 * starts.countP (fun os => runCover rs os) := by
  intro rs
  induction rs with
  | nil => intro k _; simp [splitAll]
  | cons r rs ih =>
    intro k h
    obtain ⟨h1, h2, h3, h4⟩ := h
    show (splitRun starts r ++ splitAll starts rs).length ≤ _
    rw [List.length_append, List.length_cons]
    have a := splitRun_length starts r.1 r.2
    have b := ih (r.2 + 1) h4
    have hsum := countP_disjoint_add (fun os => decide (r.1 ≤ os) && decide (os ≤ r.2))
      (fun os => runCover rs os) starts (by
        intro x _ ⟨hx1, hx2⟩
        simp only [Bool.and_eq_true, decide_eq_true_eq] at hx1
        have := WFR_cover rs (r.2 + 1) x h4 hx2
        omega)
    have hcov : (fun os => runCover (r :: rs) os) =
        (fun os => (decide (r.1 ≤ os) && decide (os ≤ r.2)) || runCover rs os) := by
      funext os; simp [runCover]
    rw [hcov, ← hsum]
    have a' : (splitRun starts r).length ≤
        1 + 2 * starts.countP (fun os => decide (r.1 ≤ os) && decide (os ≤ r.2)) := a
    omega

theorem gapList_length (before after : Nat) : ∀ (starts : List Nat) (vec : List Piece),
    (gapList before after starts vec).length ≤ starts.countP (fun os => !anyContains vec os) := by
  intro starts
  induction starts with
  | nil => intro vec; simp [gapList]
  | cons os rest ih =>
    intro vec
    unfold gapList
    rw [List.countP_cons]
    by_cases hc : (!vec.any (·.contains os) && decide (before < os) && decide (os < after)) = true
    · rw [if_pos hc]
      have hc' := hc
      simp only [Bool.and_eq_true, Bool.not_eq_true', decide_eq_true_eq] at hc'
      have h1 := ih (vec ++ [mk os])
      have hmono : rest.countP (fun x => !anyContains (vec ++ [mk os]) x) ≤
          rest.countP (fun x => !anyContains vec x) := by
        apply List.countP_mono_left
        intro x _ hx
        rw [anyContains_append] at hx
        simp only [Bool.not_eq_true', Bool.or_eq_false_iff] at hx ⊢
        exact hx.1
      have hos : (!anyContains vec os) = true := by simp [anyContains, hc'.1.1]
      rw [List.length_cons, hos]
      simp only [if_true]
      omega
    · rw [if_neg hc]
      have := ih vec
      omega

theorem countP_not_add {α : Type} (p : α → Bool) (l : List α) :
    l.countP p + l.countP (fun x => !p x) = l.length := by
  induction l with
  | nil => rfl
  | cons a as ih =>
    simp only [List.countP_cons, List.length_cons]
    cases p a <;> simp <;> omega

/-- the exclusion branch returns at most one piece per remaining range plus two per marker -/
theorem exclPieces_length {N : Nat} (dataEnd : Nat) (rs : List (Nat × Nat)) (ms : List Nat)
    (hw : WFR N 0 rs) : (exclPieces dataEnd rs ms).length ≤ rs.length + 2 * ms.length := by
  unfold exclPieces
  by_cases hme : ms.isEmpty = true
  · rw [if_pos hme]; simp
  · rw [if_neg hme]
    show (stableSort Piece.lo (remaining _ _ (stableSort id ms) (splitAll (stableSort id ms) rs))).length ≤ _
    rw [(stableSort_perm Piece.lo _).length_eq, remaining_eq, List.length_append]
    have a := splitAll_length (N := N) (stableSort id ms) rs 0 hw
    have hc : (fun os => !anyContains (splitAll (stableSort id ms) rs) os) =
        (fun os => !runCover rs os) := by
      funext os; rw [splitAll_anyContains _ rs 0 os hw]
    have b : ∀ bf af, (gapList bf af (stableSort id ms) (splitAll (stableSort id ms) rs)).length ≤
        (stableSort id ms).countP (fun os => !runCover rs os) := by
      intro bf af
      have := gapList_length bf af (stableSort id ms) (splitAll (stableSort id ms) rs)
      rw [hc] at this; exact this
    have hs := countP_not_add (fun os => runCover rs os) (stableSort id ms)
    have hl : (stableSort id ms).length = ms.length := (stableSort_perm id ms).length_eq
    refine Nat.le_trans (Nat.add_le_add a (b _ _)) ?_
    omega

/-! ### inclusion branch -/

theorem chunkCount_append (buf : Nat) (a b : List Piece) :
    chunkCount buf (a ++ b) = chunkCount buf a + chunkCount buf b := by
  simp [chunkCount]

/-- every inclusion entry needs at most `N / buf + 2` callbacks -/
theorem inclLoop_chunkCount {N : Nat} (buf : Nat) (hb : 0 < buf) : ∀ (l : List HashRange)
    (ps : List Piece), inclLoop l = .ok ps → (∀ x ∈ l, x.start + x.length ≤ N) →
      chunkCount buf ps ≤ l.length * (N / buf + 2) := by
  intro l
  induction l with
  | nil => intro ps h _; simp [inclLoop] at h; subst h; simp [chunkCount]
  | cons x xs ih =>
    intro ps h hall
    have hall' : ∀ y ∈ xs, y.start + y.length ≤ N := fun y hy => hall y (List.mem_cons_of_mem _ hy)
    unfold inclLoop at h
    rw [List.length_cons, Nat.succ_mul]
    have hmono : x.length / buf ≤ N / buf :=
      Nat.div_le_div_right (by have := hall x (List.mem_cons_self ..); omega)
    have ih' := ih
    generalize hK : N / buf = K at *
    by_cases hl : x.length = 0
    · simp only [hl, if_true] at h
      have := ih ps h hall'
      omega
    · simp only [hl, if_false] at h
      cases hc : checkedAdd x.start x.length with
      | none => simp [hc] at h
      | some e1 =>
        simp only [hc] at h
        obtain ⟨he, _⟩ := checkedAdd_some hc
        have hz : ¬ e1 = 0 := by omega
        simp only [hz, if_false] at h
        cases hi : inclLoop xs with
        | error o => simp [hi] at h
        | ok qs =>
          simp only [hi, Except.ok.injEq] at h
          subst h
          have hq := ih qs hi hall'
          have hx := hall x (List.mem_cons_self ..)
          rw [chunkCount_append, chunkCount_cons]
          have hlen : e1 - 1 - x.start + 1 = x.length := by omega
          show chunkCount buf _ + (ceilDiv (e1 - 1 - x.start + 1) buf + chunkCount buf qs) ≤ _
          rw [hlen]
          have hcd := ceilDiv_le x.length buf hb
          have hmk : chunkCount buf (match x.off with | some o => [(⟨o, o, true⟩ : Piece)] | none => []) ≤ 1 := by
            cases x.off with
            | none => simp [chunkCount]
            | some o =>
              simp only [chunkCount, List.map_cons, List.map_nil, List.sum_cons, List.sum_nil]
              have : o - o + 1 = 1 := by omega
              rw [this, ceilDiv_one buf hb]
              omega
          refine Nat.le_trans (Nat.add_le_add hmk (Nat.add_le_add hcd hq)) ?_
          generalize xs.length * (K + 2) = P
          omega

/-! ### the bound, from the inputs alone -/

/-- an upper bound on the number of progress callbacks, computed from the inputs -/
def callbackBound (n : Nat) (hr : Option (List HashRange)) (isExcl : Bool) (buf : Nat) : Nat :=
  match hr with
  | some (h :: t) =>
    if isExcl then n / buf + 2 * (h :: t).length + 1 else (h :: t).length * (n / buf + 2)
  | _ => n / buf + 1

theorem chunkCount_excl_le {n : Nat} {hr : List HashRange} {ps : List Piece} {buf : Nat}
    (h : buildPieces n (some hr) true = .ok ps) (hn : 1 ≤ n) (hb : 0 < buf) :
    chunkCount buf ps ≤ n / buf + 2 * hr.length + 1 := by
  cases hr with
  | nil =>
    simp only [buildPieces, Except.ok.injEq] at h
    subst h
    simp only [chunkCount, List.map_cons, List.map_nil, List.sum_cons, List.sum_nil]
    have e : n - 1 - 0 + 1 = n := by omega
    rw [e]
    have := ceilDiv_le n buf hb
    simp only [List.length_nil]
    omega
  | cons a t =>
    unfold buildPieces at h
    simp only at h
    cases hm : maxEnd (stableSort HashRange.start (a :: t)) 0 with
    | none => simp [hm] at h
    | some e =>
      simp only [hm] at h
      by_cases hlt : n < e
      · simp [hlt] at h
      · simp only [hlt, if_false, if_true] at h
        cases he : exclLoop (stableSort HashRange.start (a :: t)) [(0, n - 1)] [] with
        | error e' => simp [he] at h
        | ok r =>
          obtain ⟨rs, ms⟩ := r
          simp only [he, Except.ok.injEq] at h
          subst h
          have hw0 : WFR n 0 [(0, n - 1)] := ⟨Nat.le_refl _, Nat.zero_le _, by simp; omega, trivial⟩
          obtain ⟨hw, hms, _⟩ := exclLoop_spec _ _ _ _ _ he hw0
          have hlen := exclLoop_length _ _ _ _ _ he hw0
          simp only [List.nil_append] at hms
          subst hms
          have hpl := exclPieces_length (N := n) (n - 1) rs
            (markersOf (stableSort HashRange.start (a :: t))) hw
          -- the pieces are ordered and disjoint
          have hwf : WF n 0 (exclPieces (n - 1) rs
              (markersOf (stableSort HashRange.start (a :: t)))) := by
            have := (exclPieces_spec (List.replicate n 0) (a :: t) _ (stableSort_perm _ _)
              (by simpa using hn) rs _ (by simpa using he)).2
            simpa using this
          have hcc := WF_chunkCount (N := n) buf hb _ 0 hwf
          have hsl : (stableSort HashRange.start (a :: t)).length = (a :: t).length :=
            (stableSort_perm _ _).length_eq
          have hml : (markersOf (stableSort HashRange.start (a :: t))).length ≤
              (stableSort HashRange.start (a :: t)).length := by
            unfold markersOf; exact List.length_filterMap_le _ _
          simp only [List.length_cons, List.length_nil] at hlen hsl hml ⊢
          simp only [Nat.sub_zero] at hcc
          omega

theorem chunkCount_incl_le {n : Nat} {hr : List HashRange} {ps : List Piece} {buf : Nat}
    (h : buildPieces n (some hr) false = .ok ps) (hne : hr ≠ []) (hb : 0 < buf) :
    chunkCount buf ps ≤ hr.length * (n / buf + 2) := by
  have hwithin := buildPieces_ok_within h
  cases hr with
  | nil => exact absurd rfl hne
  | cons a t =>
    unfold buildPieces at h
    simp only at h
    cases hm : maxEnd (stableSort HashRange.start (a :: t)) 0 with
    | none => simp [hm] at h
    | some e =>
      simp only [hm] at h
      by_cases hlt : n < e
      · simp [hlt] at h
      · simp only [hlt, if_false, Bool.false_eq_true] at h
        have := inclLoop_chunkCount (N := n) buf hb _ ps h
          (fun x hx => hwithin x ((mem_stableSort _ _ _).1 hx))
        rw [(stableSort_perm _ _).length_eq] at this
        exact this

theorem chunkCount_whole_le {n : Nat} {hr : Option (List HashRange)} {isExcl : Bool}
    {ps : List Piece} {buf : Nat} (hnone : hr = none ∨ hr = some [])
    (h : buildPieces n hr isExcl = .ok ps) (hn : 1 ≤ n) (hb : 0 < buf) :
    chunkCount buf ps ≤ n / buf + 1 := by
  have : ps = [⟨0, n - 1, false⟩] := by
    rcases hnone with rfl | rfl <;> simp [buildPieces] at h <;> exact h.symm
  subst this
  simp only [chunkCount, List.map_cons, List.map_nil, List.sum_cons, List.sum_nil]
  have e : n - 1 - 0 + 1 = n := by omega
  rw [e]
  have := ceilDiv_le n buf hb
  omega

/-- **The number of callbacks is bounded by a function of the inputs.** -/
theorem chunkCount_le_bound {n : Nat} {hr : Option (List HashRange)} {isExcl : Bool}
    {ps : List Piece} {buf : Nat} (h : buildPieces n hr isExcl = .ok ps) (hn : 1 ≤ n)
    (hb : 0 < buf) : chunkCount buf ps ≤ callbackBound n hr isExcl buf := by
  cases hr with
  | none => exact chunkCount_whole_le (Or.inl rfl) h hn hb
  | some l =>
    cases l with
    | nil => exact chunkCount_whole_le (Or.inr rfl) h hn hb
    | cons a t =>
      cases isExcl with
      | true => simpa [callbackBound] using chunkCount_excl_le h hn hb
      | false => simpa [callbackBound] using chunkCount_incl_le h (List.cons_ne_nil _ _) hb

end C2pa.C13
