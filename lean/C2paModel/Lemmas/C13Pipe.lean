import C2paModel.Model.C13
/-
C13 — the two-actor read-ahead pipeline: the hasher has exactly one owner at every moment and
(hasher content ++ chunks not yet absorbed) is the same byte string in every reachable state.
-/
namespace C2pa.C13

/-- hasher content followed by everything still to be absorbed, when the hasher has exactly
one owner (`none` otherwise) -/
def PState.view (s : PState) : Option (List UInt8) :=
  let pending := s.cur.getD [] ++ s.next.getD [] ++ s.unread.flatten
  match s.mainH, s.worker, s.chan with
  | some h, none, none => some (h ++ pending)
  | none, some (h, c), none => some (h ++ c ++ pending)
  | none, none, some h => some (h ++ pending)
  | _, _, _ => none

theorem PStep.view_eq {s t : PState} (h : PStep s t) : t.view = s.view := by
  cases h with
  | inlineLast c h => simp [PState.view]
  | spawn u us c h => simp [PState.view]
  | workerRun us nx h c => simp [PState.view]
  | readNext u us w ch =>
    cases w with
    | none => cases ch <;> simp [PState.view]
    | some hc => obtain ⟨h, c⟩ := hc; cases ch <;> simp [PState.view]
  | recv us nx h => simp [PState.view]

theorem PReach.view_eq {s t : PState} (h : PReach s t) : t.view = s.view := by
  induction h with
  | refl => rfl
  | step _ hs ih => rw [hs.view_eq, ih]

/-- the states a run passes through -/
inductive PShape : PState → Prop
  | holding (us c h) : PShape ⟨us, some c, none, some h, none, none, false⟩
  | spawned (u us h c) : PShape ⟨u :: us, none, none, none, some (h, c), none, false⟩
  | hashed (u us h) : PShape ⟨u :: us, none, none, none, none, some h, false⟩
  | readAhead (us nx h c) : PShape ⟨us, none, some nx, none, some (h, c), none, false⟩
  | both (us nx h) : PShape ⟨us, none, some nx, none, none, some h, false⟩
  | finished (h) : PShape ⟨[], none, none, some h, none, none, true⟩

theorem PStep.shape {s t : PState} (hs : PShape s) (h : PStep s t) : PShape t := by
  cases h with
  | inlineLast c h => exact PShape.finished _
  | spawn u us c h => exact PShape.spawned u us h c
  | workerRun us nx h c =>
    cases hs with
    | spawned u us' h' c' => exact PShape.hashed u us' _
    | readAhead us' nx' h' c' => exact PShape.both us nx' _
  | readNext u us w ch =>
    cases hs with
    | spawned u' us' h c => exact PShape.readAhead us u h c
    | hashed u' us' h => exact PShape.both us u h
  | recv us nx h => exact PShape.holding us nx h

theorem PReach.shape {s t : PState} (hs : PShape s) (h : PReach s t) : PShape t := by
  induction h with
  | refl => exact hs
  | step _ hst ih => exact hst.shape ih

/-- a state that is not finished can always take a step (no deadlock) -/
theorem PShape.progress {s : PState} (hs : PShape s) (hd : s.done = false) : ∃ t, PStep s t := by
  cases hs with
  | holding us c h =>
    cases us with
    | nil => exact ⟨_, PStep.inlineLast c h⟩
    | cons u us => exact ⟨_, PStep.spawn u us c h⟩
  | spawned u us h c => exact ⟨_, PStep.workerRun (u :: us) none h c⟩
  | hashed u us h => exact ⟨_, PStep.readNext u us none (some h)⟩
  | readAhead us nx h c => exact ⟨_, PStep.workerRun us (some nx) h c⟩
  | both us nx h => exact ⟨_, PStep.recv us nx h⟩
  | finished h => simp at hd

end C2pa.C13
