import C2paModel.Lemmas.C03Count
/-
C03 — sidecar / remote manifests: the zeroed object locations yield a DataHash without
exclusions and the hasher absorbs the whole asset.
-/
namespace C2pa.C03
open C2pa

/-- the hasher on a stream without ranges: the whole stream, for every positive chunk size and
every non-empty stream below 4 GiB -/
theorem hash_whole (alg : String) (data : List UInt8) (buf : Nat)
    (halg : C13.supported alg = true) (h1 : 1 ≤ data.length) (hlen : data.length ≤ C13.u32Max)
    (hb : 0 < buf) : ∃ prog, C13.hashModel alg data none true buf none = .ok data prog := by
  have hu : C13.u32Max ≤ C13.u64Max := by decide
  have hlen' : data.length ≤ C13.u64Max := by omega
  have hps0 : C13.buildPieces data.length none true = .ok [⟨0, data.length - 1, false⟩] := rfl
  have := C13.outcome_cases alg data none true buf none hlen' hb
  simp only at this
  have hne := C13.stage_not_early (c := none) halg h1 hlen' hb _ hps0 _ (C13.hashModel_stage ..)
  rcases this with h | h | h | ⟨ps, hbd, ⟨_, h⟩ | ⟨n, _, _, _, h⟩ | ⟨h, _⟩⟩
  · exact absurd (Or.inl h) hne
  · exact absurd (Or.inr (Or.inl h)) hne
  · exact absurd (Or.inr (Or.inr h)) hne
  · rw [hps0] at hbd
    cases hbd
    have := ceilDiv_le (data.length - 1 - 0 + 1) buf hb
    simp only [C13.chunkCount, List.map_cons, List.map_nil, List.sum_cons, List.sum_nil] at h
    omega
  · cases h
  · have hw := C13.whole_digest alg data none true buf none _ _ (Or.inl rfl) h
    exact ⟨_, by rw [h]; congr 1⟩

theorem zeroLocs_spec (locs : List Loc) (hno : ∀ l ∈ locs, l.kind ≠ .otherExcl) :
    ∀ l ∈ zeroLocs locs, l.kind ≠ .otherExcl ∧ (l.kind = .cai → l.offset = 0 ∧ l.length = 0) := by
  intro l hl
  obtain ⟨m, hm, rfl⟩ := List.mem_map.1 hl
  have := hno m hm
  cases hk : m.kind <;> simp_all

theorem scan_zero (ls : List Loc)
    (h0 : ∀ l ∈ ls, l.kind ≠ .otherExcl ∧ (l.kind = .cai → l.offset = 0 ∧ l.length = 0)) :
    ∀ s : Scan, s.start = 0 ∧ s.stop = 0 ∧ s.others = [] →
      (ls.foldl scanStep s).start = 0 ∧ (ls.foldl scanStep s).stop = 0 ∧ (ls.foldl scanStep s).others = [] := by
  induction ls with
  | nil => intro s hs; exact hs
  | cons it t ih =>
    intro s hs
    rw [List.foldl_cons]
    apply ih (fun l hl => h0 l (List.mem_cons_of_mem _ hl))
    obtain ⟨hk, hz⟩ := h0 it (List.mem_cons_self ..)
    obtain ⟨a, b, c⟩ := hs
    unfold scanStep
    cases hkind : it.kind
    · obtain ⟨ho, hl⟩ := hz hkind
      cases hf : s.found <;> simp [hf, a, b, c, ho, hl]
    · simp [a, b, c]
    · simp [a, b, c]
    · exact absurd hkind hk

/-- with the locations zeroed and no `OtherExclusion` entries the second pass finds no exclusion -/
theorem exclusionsOf_zero (len : Nat) (locs : List Loc) (hno : ∀ l ∈ locs, l.kind ≠ .otherExcl) :
    exclusionsOf len (zeroLocs locs) true = some [] := by
  have h := scan_zero (C13.stableSort Loc.offset (zeroLocs locs))
    (fun l hl => zeroLocs_spec locs hno l ((C13.mem_stableSort _ _ _).1 hl)) ⟨0, 0, false, []⟩ ⟨rfl, rfl, rfl⟩
  obtain ⟨a, b, c⟩ := h
  unfold exclusionsOf
  simp only [scan, a, b, c, if_true]
  split <;> simp

end C2pa.C03
