import C2paModel.Model.C03
import C2paModel.Props.C13
import C2paModel.Props.C14
import C2paModel.Props.C15
/-
C03 — helper lemmas and the definitions the theorem statements use (`HashOK`, `Laws`,
`finalExcl`, `placeholderDH`).
-/
namespace C2pa.C03
open C2pa

/-! ### sizes: the C14 view and the C15 view of a DataHash agree -/

theorem hdr_eq (n : Nat) : C14.hdr n = C15.hdr n := rfl

theorem size_c14 (d : DHash) : C14.dhSize d.c14 = d.size := by
  unfold DHash.c14 DHash.rest DHash.size C14.dhSize C15.dhSize DHash.c15
  have h0 : C15.hdr 0 = 1 := by decide
  cases hp : d.pad2 with
  | none =>
    simp only [C15.optField, C14.optEntry, C15.str, hdr_eq, h0]
    omega
  | some m =>
    simp only [C15.optField, C14.optEntry, C14.entry, C15.str, hdr_eq, h0]
    omega

theorem rest_pad (d : DHash) (p : Nat) (p2 : Option Nat) :
    ({ d with pad := p, pad2 := p2 } : DHash).rest = d.rest := rfl

/-! ### the hasher: preconditions, result, dependence on the data -/

/-- Everything `C13.accepted_of_within` needs: supported algorithm, non-empty stream within
`u64`, positive chunk size, ranges inside the stream, no `u32` progress-counter overflow. -/
structure HashOK (alg : String) (n : Nat) (rs : List C13.HashRange) (buf : Nat) : Prop where
  halg : C13.supported alg = true
  pos : 1 ≤ n
  len : n ≤ C13.u64Max
  hbuf : 0 < buf
  within : ∀ x ∈ rs, x.start + x.length ≤ n
  cnt : ∀ ps, C13.buildPieces n (some rs) true = .ok ps → C13.chunkCount buf ps ≤ C13.u32Max

theorem hash_excl (alg : String) (a : List UInt8) (rs : List C13.HashRange) (buf : Nat)
    (hne : rs ≠ []) (ok : HashOK alg a.length rs buf) :
    ∃ prog, C13.hashModel alg a (some rs) true buf none = .ok (C13.exclSpec a rs) prog := by
  obtain ⟨ps, _, h⟩ := C13.accepted_of_within alg a rs true buf ok.halg ok.pos ok.len ok.hbuf
    ok.within ok.cnt
  have := C13.excl_digest alg a rs buf none _ _ hne h
  exact ⟨_, by rw [h, this]⟩

/-- The digest input depends only on the length and on the bytes that are not excluded. -/
theorem exclSpec_congr (d d' : List UInt8) (hr : List C13.HashRange) (hl : d'.length = d.length)
    (h : ∀ x, C13.included d.length hr x = true → d'[x]? = d[x]?) :
    C13.exclSpec d' hr = C13.exclSpec d hr := by
  unfold C13.exclSpec
  rw [hl]
  apply C13.flatMap_congr'
  intro x _
  by_cases hi : C13.included d.length hr x = true
  · simp [hi, C13.byteAt, h x hi]
  · simp [hi]

/-! ### handler laws -/

/-- The exclusion list the second pass computes for an asset. -/
def finalExcl (a : Asset) : Option (List C15.Range) := exclusionsOf a.bytes.length a.locs true

/-- What the flow needs from a format handler, for payloads of the placeholder's length `n0`. -/
structure Laws (E : Env) (src : Asset) (n0 : Nat) : Prop where
  /-- for what it wrote, the handler reports a non-empty exclusion list inside the asset -/
  reported : ∀ j, j.length = n0 → ∃ ex, finalExcl (E.embed src j) = some ex ∧ ex ≠ [] ∧
    ∀ r ∈ ex, r.start + r.length ≤ (E.embed src j).bytes.length
  /-- the handler never writes an empty asset -/
  nonempty : ∀ j, j.length = n0 → 1 ≤ (E.embed src j).bytes.length
  /-- replacing the payload by one of equal length keeps the layout, the length, and every byte
  outside the reported exclusions -/
  stable : ∀ j j' ex, j.length = n0 → j'.length = n0 → finalExcl (E.embed src j) = some ex →
    (E.embed (E.embed src j) j').bytes.length = (E.embed src j).bytes.length ∧
    ∀ x, C13.included (E.embed src j).bytes.length (ex.map toHR) x = true →
      (E.embed (E.embed src j) j').bytes[x]? = (E.embed src j).bytes[x]?

/-- first-pass DataHash of the flow (zero digest, 10 bytes of padding) -/
def placeholderDH (alg : String) (src : Asset) (n : Nat) : DHash :=
  { excl := (exclusionsOf src.bytes.length src.locs false).getD [], algLen := alg.length
    hash := List.replicate n 0, pad := 10, pad2 := none }

/-- the output stream after the first pass: the source with the placeholder store embedded -/
abbrev firstOut (E : Env) (alg : String) (src : Asset) (n : Nat) : Asset :=
  E.embed src (E.jumbf (placeholderDH alg src n) E.sigPlaceholder)

/-- the second-pass DataHash before padding, for exclusion list `ex` and digest `h` -/
abbrev rawDH (alg : String) (ex : List C15.Range) (h : List UInt8) : DHash :=
  { excl := ex, algLen := alg.length, hash := h, pad := 0, pad2 := none }

theorem exclusionsOf_first (len : Nat) (locs : List Loc) :
    ∃ ex, exclusionsOf len locs false = some ex := by
  unfold exclusionsOf
  simp only
  split
  · simp only [Bool.false_eq_true, if_false]
    split <;> exact ⟨_, rfl⟩
  · exact ⟨_, rfl⟩

theorem genDataHash_first (H : List UInt8 → List UInt8) (alg : String) (src : Asset) (buf n : Nat)
    (hd : digestLen alg = some n) :
    genDataHash H alg src.bytes src.locs false buf = .ok { placeholderDH alg src n with pad := 0 } := by
  obtain ⟨ex, hex⟩ := exclusionsOf_first src.bytes.length src.locs
  unfold genDataHash placeholderDH
  simp [hex, hd]

theorem map_toHR_ne {ex : List C15.Range} (h : ex ≠ []) : ex.map toHR ≠ [] := by
  cases ex with
  | nil => exact absurd rfl h
  | cons a t => simp

theorem ranges_of_ne (d : DHash) (h : d.excl ≠ []) : d.ranges = some (d.excl.map toHR) := by
  unfold DHash.ranges
  cases hd : d.excl with
  | nil => exact absurd hd h
  | cons a t => simp

end C2pa.C03
