import C2paModel.Model.C07
/-
Layer-A lemmas shared by the C07 / C08 / C09 / C12 property files.
-/
namespace C2pa.C07

theorem ser_append (a b : List Seg) : ser (a ++ b) = ser a ++ ser b := by
  simp [ser, List.flatMap_append]

theorem ser_cons (x : Seg) (r : List Seg) : ser (x :: r) = x.raw ++ ser r := by
  simp [ser, List.flatMap_cons]

theorem ser_nil : ser [] = [] := rfl

theorem writeA_def (F : Fmt) (c : List Seg) (s : Bytes) :
    writeA F c s = (strip c).take (insIdx F c) ++ mseg F s :: (strip c).drop (insIdx F c) := rfl

theorem isM_mseg (F : Fmt) (s : Bytes) : isM (mseg F s) = true := rfl

theorem not_isM_of_mem_strip {c : List Seg} {x : Seg} (h : x ∈ strip c) : isM x = false := by
  have := (List.mem_filter.1 h).2
  simpa using this

theorem strip_eq_self {l : List Seg} (h : ∀ x ∈ l, isM x = false) : strip l = l := by
  unfold strip
  apply List.filter_eq_self.2
  intro x hx; simp [h x hx]

theorem manifests_eq_nil {l : List Seg} (h : ∀ x ∈ l, isM x = false) : manifests l = [] := by
  unfold manifests
  apply List.filter_eq_nil_iff.2
  intro x hx; simp [h x hx]

theorem strip_append (a b : List Seg) : strip (a ++ b) = strip a ++ strip b := by
  simp [strip, List.filter_append]

theorem manifests_append (a b : List Seg) : manifests (a ++ b) = manifests a ++ manifests b := by
  simp [manifests, List.filter_append]

theorem take_strip_clean (c : List Seg) (i : Nat) : ∀ x ∈ (strip c).take i, isM x = false :=
  fun _ hx => not_isM_of_mem_strip (List.mem_of_mem_take hx)

theorem drop_strip_clean (c : List Seg) (i : Nat) : ∀ x ∈ (strip c).drop i, isM x = false :=
  fun _ hx => not_isM_of_mem_strip (List.mem_of_mem_drop hx)

theorem strip_strip (c : List Seg) : strip (strip c) = strip c :=
  strip_eq_self fun _ hx => not_isM_of_mem_strip hx

theorem manifests_strip (c : List Seg) : manifests (strip c) = [] :=
  manifests_eq_nil fun _ hx => not_isM_of_mem_strip hx

/-- The written container is `L ++ [manifest] ++ R` with `L ++ R` the stripped input. -/
theorem writeA_split (F : Fmt) (c : List Seg) (s : Bytes) :
    ∃ L R, writeA F c s = L ++ mseg F s :: R ∧ L ++ R = strip c ∧
      (∀ x ∈ L, isM x = false) ∧ (∀ x ∈ R, isM x = false) ∧ L = (strip c).take (insIdx F c) :=
  ⟨(strip c).take (insIdx F c), (strip c).drop (insIdx F c), rfl, List.take_append_drop _ _,
    take_strip_clean c _, drop_strip_clean c _, rfl⟩

theorem strip_writeA (F : Fmt) (c : List Seg) (s : Bytes) : strip (writeA F c s) = strip c := by
  obtain ⟨L, R, h, hLR, hL, hR, _⟩ := writeA_split F c s
  rw [h, strip_append, strip_eq_self hL]
  have : strip (mseg F s :: R) = R := by
    show (mseg F s :: R).filter _ = R
    rw [List.filter_cons]
    simp only [isM_mseg, Bool.not_true, Bool.false_eq_true, if_false]
    exact strip_eq_self hR
  rw [this, hLR]

theorem manifests_writeA (F : Fmt) (c : List Seg) (s : Bytes) :
    manifests (writeA F c s) = [mseg F s] := by
  obtain ⟨L, R, h, _, hL, hR, _⟩ := writeA_split F c s
  rw [h, manifests_append, manifests_eq_nil hL]
  show (mseg F s :: R).filter isM = [mseg F s]
  rw [List.filter_cons]
  simp only [isM_mseg, if_true]
  have : R.filter isM = [] := manifests_eq_nil hR
  rw [this]

theorem ser_writeA (F : Fmt) (c : List Seg) (s : Bytes) :
    ser (writeA F c s) =
      ser ((strip c).take (insIdx F c)) ++ F.wrap s ++ ser ((strip c).drop (insIdx F c)) := by
  unfold writeA
  rw [ser_append, ser_cons]
  simp [mseg, List.append_assoc]

theorem ser_strip_split (F : Fmt) (c : List Seg) :
    ser ((strip c).take (insIdx F c)) ++ ser ((strip c).drop (insIdx F c)) = ser (strip c) := by
  rw [← ser_append, List.take_append_drop]

/-! ### generic byte-list facts -/

theorem slice_mid (pre w post : Bytes) : slice (pre ++ w ++ post) pre.length w.length = w := by
  unfold slice
  rw [List.append_assoc, List.drop_left', List.take_left']
  · rfl
  · rfl

theorem take_pre (pre w post : Bytes) : (pre ++ w ++ post).take pre.length = pre := by
  rw [List.append_assoc, List.take_left']; rfl

theorem drop_post (pre w post : Bytes) : (pre ++ w ++ post).drop (pre.length + w.length) = post := by
  have : pre.length + w.length = (pre ++ w).length := by simp
  rw [this, List.drop_left']; rfl

/-- A slice that lies entirely before the replaced region is unaffected. -/
theorem slice_before (pre old new post : Bytes) (o n : Nat) (h : o + n ≤ pre.length) :
    slice (pre ++ new ++ post) o n = slice (pre ++ old ++ post) o n := by
  unfold slice
  have e : ∀ w : Bytes, ((pre ++ w ++ post).drop o).take n = (pre.drop o).take n := by
    intro w
    rw [List.append_assoc, List.drop_append_of_le_length (by omega)]
    rw [List.take_append_of_le_length (by simp; omega)]
  rw [e new, e old]

/-- A slice that starts at or after the end of the replaced region is found again at the
offset shifted by the size difference. -/
theorem slice_after (pre old new post : Bytes) (o n : Nat) (h : pre.length + old.length ≤ o) :
    slice (pre ++ new ++ post) (o - old.length + new.length) n = slice (pre ++ old ++ post) o n := by
  unfold slice
  have e : ∀ w : Bytes, ∀ k, ((pre ++ w ++ post).drop (pre.length + w.length + k)) = post.drop k := by
    intro w k
    have : pre.length + w.length + k = (pre ++ w).length + k := by simp
    rw [this, List.drop_append]
    simp
  obtain ⟨k, rfl⟩ : ∃ k, o = pre.length + old.length + k := ⟨o - (pre.length + old.length), by omega⟩
  have h1 : pre.length + old.length + k - old.length + new.length = pre.length + new.length + k := by omega
  rw [h1, e new k, e old k]

end C2pa.C07
