import C2paModel.Lemmas.C18Ser
import C2paModel.Lemmas.C18Total
/-
C18 — reading a written tree followed by arbitrary bytes; the SDK's constructors
(`JUMBFDescriptionBox::new`, `set_salt`, `JUMBFEmbeddedFileDescriptionBox::new`); the manifest
layer (`CAIManifest::from` / `write_box_payload`).
-/
namespace C2pa.C18

/-! ### written tree followed by anything -/

/-- `superBox` through `parse` on `ser t ++ post` -/
theorem parse_ser_append_super (desc : Desc) (cs : List Box) (post : Bytes)
    (hv : (Box.super desc cs).Valid) (hq : (Box.super desc cs).QuirkFree)
    (hh : (Box.super desc cs).height ≤ MAX_JUMB_DEPTH) (hs : (Box.super desc cs).size < 4294967296)
    (hL : (Box.super desc cs).ser.length + post.length < 2 ^ 64) :
    parse ((Box.super desc cs).ser ++ post) =
      .ok ((Box.super desc cs).norm, (Box.super desc cs).ser.length) := by
  have hlen := (Box.super desc cs).ser_length hv hq
  have h := superOK (.super desc cs) hv hq (((Box.super desc cs).ser ++ post).length + 2)
    ((Box.super desc cs).ser ++ post) 0 0 post
    (by simp) (Nat.zero_le _) (by simpa using hL) hs (by simpa [MAX_JUMB_DEPTH] using hh)
    (by rw [List.length_append, hlen]; omega)
  unfold parse
  rw [h, hlen]
  simp

/-- `norm` keeps a tree quirk-free (so the result of reading a written quirk-free tree is again in
the domain of the round-trip theorem) -/
theorem normBfdb_quirkFree (t : UInt8) (m : Bytes)
    (h : ¬ (t = 1 ∧ (0 : UInt8) ∈ m ∧ utf8Valid m = true)) : (normBfdb t m).QuirkFree := by
  unfold normBfdb
  split
  · split
    · rename_i ht; subst ht; simpa [Box.QuirkFree] using h
    · simpa [Box.QuirkFree] using h
  · simp [Box.QuirkFree]

mutual
theorem Box.norm_quirkFree : (b : Box) → b.QuirkFree → b.norm.QuirkFree
  | .super _ cs, h => by
    refine ⟨?_, normList_quirkFree cs h.2⟩
    cases cs with
    | nil => exact absurd rfl h.1
    | cons c rest => simp [normList]
  | .leaf _ _, _ => trivial
  | .uuid _ _, h => h
  | .bfdb t m _, h => normBfdb_quirkFree t m h
theorem normList_quirkFree : (cs : List Box) → QuirkFreeList cs → QuirkFreeList (normList cs)
  | [], _ => trivial
  | b :: bs, h => ⟨b.norm_quirkFree h.1, normList_quirkFree bs h.2⟩
end

/-! ### constructors -/

theorem cstringNew_of_mem {s : Bytes} (h : (0 : UInt8) ∈ s) : cstringNew s = [] := by
  simp [cstringNew, h]

theorem cstringNew_of_not_mem {s : Bytes} (h : (0 : UInt8) ∉ s) : cstringNew s = s := by
  simp [cstringNew, h]

theorem strNonEmpty_nil : strNonEmpty ([] : Bytes) = false := by simp [strNonEmpty]

/-- **What `JUMBFDescriptionBox::new` must be given to produce a readable box.** -/
theorem new_valid_iff (label uuid : Bytes) :
    (Desc.new label uuid).Valid ↔
      uuid.length = 16 ∧ strNonEmpty label = true ∧ (0 : UInt8) ∉ label := by
  by_cases h0 : (0 : UInt8) ∈ label
  · simp [Desc.Valid, Desc.new, cstringNew_of_mem h0, strNonEmpty_nil, h0]
  · simp only [Desc.Valid, Desc.Valid0, Desc.new, cstringNew_of_not_mem h0]
    constructor
    · rintro ⟨⟨hu, _, _, _⟩, hl⟩
      exact ⟨hu, hl, h0⟩
    · rintro ⟨hu, hl, _⟩
      refine ⟨⟨hu, by decide, h0, by decide, by simp, by decide, by simp, by decide⟩, hl⟩

theorem setSalt_eq_some {d d' : Desc} {s : Bytes} (h : d.setSalt s = some d') :
    16 ≤ s.length ∧ d' = { d with salt := some s, toggles := 19 } := by
  unfold Desc.setSalt at h
  split at h
  · cases h
  · simp at h; exact ⟨by omega, h.symm⟩

/-- `set_salt` on a box made by `new` keeps it readable -/
theorem new_setSalt_valid {label uuid s : Bytes} {d' : Desc}
    (hv : (Desc.new label uuid).Valid) (h : (Desc.new label uuid).setSalt s = some d') : d'.Valid := by
  obtain ⟨_, rfl⟩ := setSalt_eq_some h
  obtain ⟨⟨hu, _, h0, _⟩, hl⟩ := hv
  refine ⟨⟨hu, ?_, h0, ?_, ?_, ?_, ?_, ?_⟩, hl⟩ <;> simp [Desc.new] <;> decide

theorem new_withSalt_valid {label uuid : Bytes} (p : Option Bytes)
    (hv : (Desc.new label uuid).Valid) : ((Desc.new label uuid).withSalt p).Valid := by
  cases p with
  | none => exact hv
  | some s =>
    show (((Desc.new label uuid).setSalt s).getD (Desc.new label uuid)).Valid
    cases h : (Desc.new label uuid).setSalt s with
    | none => exact hv
    | some d' => exact new_setSalt_valid hv h

/-- the label is kept by `withSalt` -/
theorem withSalt_label (d : Desc) (p : Option Bytes) : (d.withSalt p).label = d.label := by
  cases p with
  | none => rfl
  | some s =>
    show ((d.setSalt s).getD d).label = d.label
    unfold Desc.setSalt
    split <;> rfl

/-- a description box made by `new` from a label that is empty, not a `str`, or contains a NUL is
written without its label, and the box that contains it is **not readable**: the reader finds a
description box shorter than the minimum and reports `UnexpectedEof`. -/
theorem new_unreadable (label uuid : Bytes) (cs : List Box) (post : Bytes) (hu : uuid.length = 16)
    (hbad : (0 : UInt8) ∈ label ∨ strNonEmpty label = false)
    (hs : (Box.super (Desc.new label uuid) cs).size < 4294967296) :
    parse ((Box.super (Desc.new label uuid) cs).ser ++ post) = .err .unexpectedEof := by
  have hl : strNonEmpty (cstringNew label) = false := by
    by_cases h0 : (0 : UInt8) ∈ label
    · rw [cstringNew_of_mem h0]; exact strNonEmpty_nil
    · rw [cstringNew_of_not_mem h0]
      rcases hbad with h | h
      · exact absurd h h0
      · exact h
  have hpay : descPayload (Desc.new label uuid) = uuid ++ [3] := by
    simp [descPayload, Desc.new, hl, optBytes]
  have hsize : (Box.super (Desc.new label uuid) cs).size = 8 + (8 + 17) + sizeList cs := by
    simp [Box.size, hpay, hu]
  generalize hd : (Box.super (Desc.new label uuid) cs).ser ++ post = d
  have hat : d.drop 0 = be32 (Box.super (Desc.new label uuid) cs).size ++ (be32 JUMB ++
      (be32 25 ++ (be32 JUMD ++ (uuid ++ [3] ++ (serList cs ++ post))))) := by
    rw [← hd, Box.ser_eq]
    simp [Box.tag, Box.body, serDesc, hpay, hu]
  have hh1 := readHeader_at hat hs (by decide) (by omega)
  have hat8 : d.drop (0 + 8) = be32 25 ++ (be32 JUMD ++ (uuid ++ [3] ++ (serList cs ++ post))) :=
    drop_pref (be32 (Box.super (Desc.new label uuid) cs).size ++ be32 JUMB) (by simpa using hat)
      (by simp)
  have hh2 := readHeader_at hat8 (by decide) (by decide) (by decide)
  unfold parse
  unfold superBox
  rw [if_neg (by simp [MAX_JUMB_DEPTH]), hh1]
  simp only [mapErr_ok, bind_ok]
  rw [if_neg (by decide), if_neg (by simp), if_neg (by simp; omega), hh2]
  simp only [mapErr_ok, bind_ok]
  rw [if_neg (by simp)]
  unfold readDesc
  simp

/-! ### the accessor path of re-serialisation: `media_type()` then `JUMBFEmbeddedFileDescriptionBox::new` -/

theorem takeWhile_ne_zero : ∀ (m : Bytes), (0 : UInt8) ∉ m → m.takeWhile (· ≠ 0) = m
  | [], _ => rfl
  | a :: as, h => by
    have ha : a ≠ 0 := fun e => h (by simp [e])
    have hr : (0 : UInt8) ∉ as := fun e => h (by simp [e])
    have ih := takeWhile_ne_zero as hr
    simp only [ne_eq, decide_not] at ih
    simp [List.takeWhile, ha, ih]

theorem toRustStr_of_not_mem {m : Bytes} (h0 : (0 : UInt8) ∉ m) :
    toRustStr m = if utf8Valid m then m else [] := by
  unfold toRustStr
  simp only [takeWhile_ne_zero m h0]

theorem utf8Valid_nil : utf8Valid ([] : Bytes) = true := by decide

/-- what `Store::get_assertion_from_jumbf_store` + `add_assertion_to_jumbf_store` do with the media
type of an embedded-file assertion (`media_type()` = `toRustStr`, then `new(media_type, None)`) is the
identity on the written bytes, for **every** media-type byte string without NUL (whatever its case,
alphabet or UTF-8 validity) and whatever the file name was -/
theorem bfdb_accessor_ser (m : Bytes) (fn : Option Bytes) (h0 : (0 : UInt8) ∉ m) :
    (bfdbNew (toRustStr m) none).ser = (Box.bfdb 0 m fn).ser := by
  rw [toRustStr_of_not_mem h0]
  by_cases hu : utf8Valid m = true
  · simp [hu, bfdbNew, cstringNew_of_not_mem h0, Box.ser]
  · have hu' : utf8Valid m = false := by simpa using hu
    have hs : strNonEmpty m = false := by simp [strNonEmpty, hu']
    simp [hu', bfdbNew, cstringNew, Box.ser, bfdbPayload, hs, strNonEmpty_nil]

/-! ### manifest layer -/

theorem firstBrob_none_ser (d : Desc) (cs : List Box) (dec : Bytes → Option Bytes)
    (h : firstBrob (.super d cs) = none) :
    manifestFrom dec (.super d cs) =
      (parse (Box.super d cs).ser >>= fun r => .ok ⟨false, mtypeOf r.1, r.1⟩) := by
  unfold manifestFrom
  rw [h]

theorem mtypeOf_norm (d : Desc) (cs : List Box) :
    mtypeOf (Box.super d cs).norm = mtypeOf (.super d cs) := by
  rfl

theorem labelStr_of_valid {d : Desc} (hv : d.Valid) : labelStr d.label = d.label := by
  have := hv.2
  unfold strNonEmpty at this
  simp at this
  simp [labelStr, this.2]

/-! ### the manifest loop of the store reader -/

theorem size_le_sizeList {c : Box} {cs : List Box} (h : c ∈ cs) : c.size ≤ sizeList cs := by
  induction cs with
  | nil => cases h
  | cons a as ih =>
    simp only [sizeList]
    rcases List.mem_cons.1 h with rfl | h'
    · omega
    · have := ih h'; omega

theorem height_le_heightList {c : Box} {cs : List Box} (h : c ∈ cs) : c.height ≤ heightList cs := by
  induction cs with
  | nil => cases h
  | cons a as ih =>
    simp only [heightList]
    rcases List.mem_cons.1 h with rfl | h'
    · omega
    · have := ih h'; omega

theorem valid_of_mem {c : Box} {cs : List Box} (hv : ValidList cs) (h : c ∈ cs) : c.Valid := by
  induction cs with
  | nil => cases h
  | cons a as ih =>
    rcases List.mem_cons.1 h with rfl | h'
    · exact hv.1
    · exact ih hv.2 h'

theorem quirkFree_of_mem {c : Box} {cs : List Box} (hq : QuirkFreeList cs) (h : c ∈ cs) :
    c.QuirkFree := by
  induction cs with
  | nil => cases h
  | cons a as ih =>
    rcases List.mem_cons.1 h with rfl | h'
    · exact hq.1
    · exact ih hq.2 h'

/-! ### the writer's `u32` arithmetic does not overflow below 4 GiB -/

theorem uadd_ok {a b : Nat} (h : a + b < 4294967296) : uadd a b = .ok (a + b) := by
  unfold uadd; rw [if_neg (by omega)]

theorem asU32_of_lt {n : Nat} (h : n < 4294967296) : asU32 n = n := by
  unfold asU32; exact Nat.mod_eq_of_lt h

mutual
theorem Box.size32_ok : (b : Box) → b.size < 4294967296 → b.size32 = .ok b.size
  | .super d cs, h => by
    simp only [Box.size] at h
    have hd : asU32 (descPayload d).length = (descPayload d).length := asU32_of_lt (by omega)
    cases cs with
    | nil =>
      simp only [sizeList] at h
      simp only [Box.size32, hd, List.isEmpty_nil, if_true]
      rw [uadd_ok (by omega)]; simp only [bind_ok]
      rw [uadd_ok (by omega)]; simp only [bind_ok]
      rw [uadd_ok (by omega)]
      simp [Box.size, sizeList]
    | cons c rest =>
      have hl := sizeList32_ok 0 (c :: rest) (by omega)
      simp only [Box.size32, hd, List.isEmpty_cons, Bool.false_eq_true, if_false]
      rw [uadd_ok (by omega)]; simp only [bind_ok]
      rw [uadd_ok (by omega)]; simp only [bind_ok]
      rw [hl]; simp only [bind_ok]
      rw [uadd_ok (by omega)]; simp only [bind_ok]
      rw [uadd_ok (by omega)]
      simp [Box.size]; omega
  | .leaf _ data, h => by
    simp only [Box.size] at h
    simp only [Box.size32, asU32_of_lt (show data.length < 4294967296 by omega)]
    rw [uadd_ok (by omega)]; simp [Box.size]
  | .uuid _ data, h => by
    simp only [Box.size] at h
    simp only [Box.size32, asU32_of_lt (show 16 + data.length < 4294967296 by omega)]
    rw [uadd_ok (by omega)]; simp [Box.size]
  | .bfdb t m _, h => by
    simp only [Box.size] at h
    simp only [Box.size32, asU32_of_lt (show (bfdbPayload t m).length < 4294967296 by omega)]
    rw [uadd_ok (by omega)]; simp [Box.size]
theorem sizeList32_ok : (acc : Nat) → (cs : List Box) → acc + sizeList cs < 4294967296 →
    sizeList32 acc cs = .ok (acc + sizeList cs)
  | acc, [], _ => by simp [sizeList32, sizeList]
  | acc, b :: bs, h => by
    simp only [sizeList] at h
    simp only [sizeList32, b.size32_ok (by omega), bind_ok]
    rw [uadd_ok (by omega)]; simp only [bind_ok]
    rw [sizeList32_ok (acc + b.size) bs (by omega)]
    simp [sizeList]; omega
end

end C2pa.C18
