import C2paModel.Model.C19
/-
C19 — unfolding equations of the walkers and list/sum helpers.
-/
namespace C2pa.C19

theorem gLoop_nil (rec : Nat → GSt → Out × GSt) (s : Store) (stop : Bool) (u : Nat) (st : GSt) :
    gLoop rec s stop u [] st = (.ok, st) := rfl

theorem gLoop_cons (rec : Nat → GSt → Out × GSt) (s : Store) (stop : Bool) (u : Nat)
    (i : Ing) (is : List Ing) (st : GSt) :
    gLoop rec s stop u (i :: is) st =
      match i.target with
      | none => gLoop rec s stop u is (gSkip st)
      | some v =>
        if v < s.length then
          if v ∈ st.path then (.cyclic, gCyc st u)
          else if (rec v (gPre st u v)).1 = .ok then gLoop rec s stop u is (rec v (gPre st u v)).2
          else rec v (gPre st u v)
        else if stop then (.missing, gMiss st v)
        else gLoop rec s stop u is (gMiss st v) := by
  cases ht : i.target <;> simp [gLoop, ht]

theorem gcrm_zero (lim : Nat) (s : Store) (stop : Bool) (u : Nat) (st : GSt) :
    gcrm lim s stop 0 u st = (.outOfFuel, st) := rfl

theorem gcrm_succ (lim : Nat) (s : Store) (stop : Bool) (n u : Nat) (st : GSt) :
    gcrm lim s stop (n + 1) u st =
      if lim ≤ st.path.length then (.tooDeep, st)
      else if u ∈ st.map then (.ok, st)
      else match s[u]? with
        | none => (.noClaim, st)
        | some c =>
          if (gLoop (gcrm lim s stop n) s stop u c.ings (gPush st u)).1 = .ok
          then (.ok, gPop (gLoop (gcrm lim s stop n) s stop u c.ings (gPush st u)).2 u)
          else gLoop (gcrm lim s stop n) s stop u c.ings (gPush st u) := by
  cases hs : s[u]? <;> simp [gcrm, hs]

/-! ### list helpers: weighted pigeonhole -/

theorem sum_map_erase (f : Nat → Nat) (a : Nat) :
    ∀ l : List Nat, a ∈ l → (l.map f).sum = f a + ((l.erase a).map f).sum
  | [], h => by cases h
  | x :: l, h => by
    by_cases hx : x = a
    · subst hx; simp
    · have ha : a ∈ l := (List.mem_cons.1 h).resolve_left (fun e => hx e.symm)
      have hb : ¬ (x == a) = true := by simpa using hx
      rw [List.erase_cons_tail hb]
      simp only [List.map_cons, List.sum_cons]
      rw [sum_map_erase f a l ha]
      omega

/-- A duplicate-free list of numbers below `n` weighs at most as much as `0 … n-1`. -/
theorem sum_le_range (f : Nat → Nat) :
    ∀ (n : Nat) (l : List Nat), l.Nodup → (∀ x ∈ l, x < n) →
      (l.map f).sum ≤ ((List.range n).map f).sum
  | 0, l, _, hlt => by
    cases l with
    | nil => simp
    | cons x l => exact absurd (hlt x (List.mem_cons_self ..)) (Nat.not_lt_zero _)
  | n + 1, l, hnd, hlt => by
    rw [List.range_succ, List.map_append, List.sum_append]
    simp only [List.map_cons, List.map_nil, List.sum_cons, List.sum_nil, Nat.add_zero]
    by_cases hn : n ∈ l
    · rw [sum_map_erase f n l hn]
      have hnd' : (l.erase n).Nodup := hnd.erase n
      have hlt' : ∀ x ∈ l.erase n, x < n := by
        intro x hx
        have hx' := (List.Nodup.mem_erase_iff hnd).1 hx
        have := hlt x hx'.2
        have hne : x ≠ n := hx'.1
        omega
      have := sum_le_range f n (l.erase n) hnd' hlt'
      omega
    · have hlt' : ∀ x ∈ l, x < n := by
        intro x hx
        have := hlt x hx
        have hne : x ≠ n := fun e => hn (e ▸ hx)
        omega
      have := sum_le_range f n l hnd hlt'
      omega

theorem sum_map_one : ∀ l : List Nat, (l.map fun _ => 1).sum = l.length
  | [] => rfl
  | _ :: l => by simp [sum_map_one l]; omega

theorem nodup_length_le (n : Nat) (l : List Nat) (hnd : l.Nodup) (hlt : ∀ x ∈ l, x < n) :
    l.length ≤ n := by
  have := sum_le_range (fun _ => 1) n l hnd hlt
  rw [sum_map_one, sum_map_one] at this
  simpa using this

/-- out-degree (number of ingredient assertions) of the claim labelled `x` -/
def deg (s : Store) (x : Nat) : Nat :=
  match s[x]? with
  | some c => c.ings.length
  | none => 0

def degSum (s : Store) (l : List Nat) : Nat := (l.map (deg s)).sum

/-- number of ingredient assertions in the whole store, `|E|` -/
def edgeCount (s : Store) : Nat := (s.map fun c => c.ings.length).sum

theorem degSum_cons (s : Store) (x : Nat) (l : List Nat) :
    degSum s (x :: l) = deg s x + degSum s l := by simp [degSum]

theorem degSum_append (s : Store) (l₁ l₂ : List Nat) :
    degSum s (l₁ ++ l₂) = degSum s l₁ + degSum s l₂ := by simp [degSum]

theorem deg_of_get (s : Store) (x : Nat) (c : Claim) (h : s[x]? = some c) :
    deg s x = c.ings.length := by simp [deg, h]

theorem range_map_deg (s : Store) :
    (List.range s.length).map (deg s) = s.map fun c => c.ings.length := by
  apply List.ext_getElem
  · simp
  · intro i h1 h2
    simp only [List.getElem_map, List.getElem_range]
    have hi : i < s.length := by simpa using h2
    simp [deg, List.getElem?_eq_getElem hi]

theorem degSum_le_edgeCount (s : Store) (l : List Nat) (hnd : l.Nodup)
    (hlt : ∀ x ∈ l, x < s.length) : degSum s l ≤ edgeCount s := by
  have := sum_le_range (deg s) s.length l hnd hlt
  rw [range_map_deg] at this
  exact this

end C2pa.C19
