import C2paModel.Model.C26
import C2paModel.Lemmas.C27Loop
/-
Facts about the allow-list layer of Model/C26.lean that both Props/C26.lean and Props/C27.lean use.
-/
namespace C2pa.C26

open C2pa.C27

/-- The allow-list layer hands the request to the transport or leaves the trace unchanged. -/
theorem restricted_innerOK (allowed : Option (List Pattern)) (t : Transport) :
    InnerOK (restricted allowed t) := by
  intro hop req st
  unfold restricted
  by_cases h : (!resolverAllows allowed req.uri) = true
  · right; simp [h]
  · left; simp [h]

/-- The layer below the redirect follower in the default stack. -/
def stackInner (t : Transport) (allowed : Option (List Pattern)) : Inner :=
  match allowed with
  | some ps => restricted (some ps) t
  | none => bare t

theorem stackInner_innerOK (t : Transport) (allowed : Option (List Pattern)) :
    InnerOK (stackInner t allowed) := by
  cases allowed with
  | none => exact bare_innerOK t
  | some ps => exact restricted_innerOK (some ps) t

theorem stack_eq (t : Transport) (join : JoinFn) (allowed : Option (List Pattern)) (a : Bool)
    (req : Request) :
    stack t join allowed a req = redirectResolver (stackInner t allowed) join a req := by
  cases allowed <;> rfl

end C2pa.C26
