import C2paModel.Model.C11
/-
C11 — `normalize_format` (trim + ASCII lower-case) is idempotent.
-/
namespace C2pa.C11

theorem upper_facts : ∀ k, k < 26 →
    isWs (Char.ofNat (65 + k)) = false ∧ isWs (asciiLower (Char.ofNat (65 + k))) = false ∧
      asciiLower (asciiLower (Char.ofNat (65 + k))) = asciiLower (Char.ofNat (65 + k)) := by
  decide +kernel

theorem upper_repr (c : Char) (h : 'A' ≤ c ∧ c ≤ 'Z') : ∃ k, k < 26 ∧ c = Char.ofNat (65 + k) := by
  obtain ⟨h1, h2⟩ := h
  rw [Char.le_def] at h1 h2
  have a1 : 65 ≤ c.toNat := UInt32.le_iff_toNat_le.1 h1
  have a2 : c.toNat ≤ 90 := UInt32.le_iff_toNat_le.1 h2
  refine ⟨c.toNat - 65, by omega, ?_⟩
  have : 65 + (c.toNat - 65) = c.toNat := by omega
  rw [this, Char.ofNat_toNat]

theorem isWs_asciiLower (c : Char) : isWs (asciiLower c) = isWs c := by
  by_cases h : 'A' ≤ c ∧ c ≤ 'Z'
  · obtain ⟨k, hk, rfl⟩ := upper_repr c h
    have f := upper_facts k hk
    rw [f.1, f.2.1]
  · have : asciiLower c = c := by unfold asciiLower; rw [if_neg h]
    rw [this]

theorem asciiLower_idem (c : Char) : asciiLower (asciiLower c) = asciiLower c := by
  by_cases h : 'A' ≤ c ∧ c ≤ 'Z'
  · obtain ⟨k, hk, rfl⟩ := upper_repr c h
    exact (upper_facts k hk).2.2
  · have : asciiLower c = c := by unfold asciiLower; rw [if_neg h]
    rw [this, this]

theorem dropWhile_idem (p : Char → Bool) (l : Fmt) : (l.dropWhile p).dropWhile p = l.dropWhile p := by
  induction l with
  | nil => rfl
  | cons x xs ih =>
    by_cases hx : p x = true
    · simp [hx, ih]
    · simp [hx]

/-- strip trailing characters satisfying `p` -/
def rstrip (p : Char → Bool) (l : Fmt) : Fmt := (l.reverse.dropWhile p).reverse

theorem rstrip_idem (p : Char → Bool) (l : Fmt) : rstrip p (rstrip p l) = rstrip p l := by
  unfold rstrip; rw [List.reverse_reverse, dropWhile_idem]

theorem rstrip_prefix (p : Char → Bool) (l : Fmt) : ∃ t, l = rstrip p l ++ t := by
  refine ⟨(l.reverse.takeWhile p).reverse, ?_⟩
  unfold rstrip
  rw [← List.reverse_append, List.takeWhile_append_dropWhile, List.reverse_reverse]

theorem length_dropWhile_le' (p : Char → Bool) (l : Fmt) : (l.dropWhile p).length ≤ l.length := by
  induction l with
  | nil => simp
  | cons x xs ih =>
    by_cases hx : p x = true
    · simp only [List.dropWhile_cons, hx, ↓reduceIte, List.length_cons]; omega
    · simp [hx]

theorem dropWhile_rstrip (p : Char → Bool) (l : Fmt) (h : l.dropWhile p = l) :
    (rstrip p l).dropWhile p = rstrip p l := by
  obtain ⟨t, ht⟩ := rstrip_prefix p l
  cases hr : rstrip p l with
  | nil => rfl
  | cons x r' =>
    rw [hr] at ht
    have hx : ¬ p x = true := by
      intro hpx
      rw [ht] at h
      simp only [List.cons_append, List.dropWhile_cons, hpx, ↓reduceIte] at h
      have := congrArg List.length h
      have hle := length_dropWhile_le' p (r' ++ t)
      simp only [List.length_cons] at this; omega
    exact List.dropWhile_cons_of_neg hx

theorem trim_eq (s : Fmt) : trim s = rstrip isWs (s.dropWhile isWs) := rfl

theorem trim_idem (s : Fmt) : trim (trim s) = trim s := by
  rw [trim_eq, trim_eq, dropWhile_rstrip isWs _ (dropWhile_idem isWs s), rstrip_idem]

theorem trim_map_lower (s : Fmt) : trim (s.map asciiLower) = (trim s).map asciiLower := by
  have hcomp : (isWs ∘ asciiLower) = isWs := by funext c; exact isWs_asciiLower c
  unfold trim
  rw [List.dropWhile_map, hcomp, ← List.map_reverse, List.dropWhile_map, hcomp, List.map_reverse]

/-- `normalize_format` is idempotent. -/
theorem normalize_idem (s : Fmt) : normalize (normalize s) = normalize s := by
  unfold normalize
  rw [trim_map_lower, trim_idem, List.map_map]
  congr 1
  funext c; exact asciiLower_idem c

/-- the container lookup sees only the normalised string -/
theorem containerFromFormat_normalize (t : Table) (f : Fmt) :
    containerFromFormat t (normalize f) = containerFromFormat t f := by
  unfold containerFromFormat; rw [normalize_idem]

end C2pa.C11
