import C2paModel.Model.C01
import C2paModel.Props.C13
/-
C01 — what a successful `verifyBox` (model of `BoxHash::verify_stream_hash`) guarantees.

The name loops are independent of the data: `spansOf` computes, entry by entry, the span
`(start, len)` that is hashed and whether the entry is the C2PA entry. A successful verification
means: the spans exist, every source box was consumed, the boxes cover the asset, and for every
entry that is not skipped the bytes of its span are the signed preimage.
-/
namespace C2pa.C01
open C2pa.C13

/-- the spans computed by the name loops, entry by entry (pure: independent of the data) -/
def spansOf (src : List SrcBox) : List BoxEntry → Nat → Except VErr (List NameSt)
  | [], _ => .ok []
  | bm :: rest, idx =>
    match nameLoop src bm.names.length bm.names { idx := idx, start := 0, len := 0, skip := false } with
    | .error e => .error e
    | .ok st =>
      match spansOf src rest st.idx with
      | .error e => .error e
      | .ok sts => .ok (st :: sts)

/-- `source_index` after the last entry -/
def lastIdx : List NameSt → Nat → Nat
  | [], idx => idx
  | st :: sts, _ => lastIdx sts st.idx

def slice (a : List UInt8) (s l : Nat) : List UInt8 := (a.drop s).take l

/-- the entry is not hashed: it is the C2PA entry or carries `excluded: true` -/
def skipped (bm : BoxEntry) (st : NameSt) : Bool := st.skip || bm.excluded.getD false

/-- per-entry guarantee -/
def EntryOk (a : List UInt8) (bm : BoxEntry) (st : NameSt) : Prop :=
  skipped bm st = true ∨ (st.start + st.len ≤ a.length ∧ slice a st.start st.len = bm.pre)

/-- the per-entry guarantee for all entries (lists of equal length) -/
def AllOk (a : List UInt8) : List BoxEntry → List NameSt → Prop
  | [], [] => True
  | bm :: bs, st :: sts => EntryOk a bm st ∧ AllOk a bs sts
  | _, _ => False

theorem compareHash_ok {pre : List UInt8} {o : Outcome} (h : compareHash pre o = .ok) :
    ∃ prog, o = .ok pre prog := by
  unfold compareHash at h
  cases o with
  | ok abs prog =>
    by_cases he : abs = pre
    · exact ⟨prog, by rw [he]⟩
    · simp [he] at h
  | err e p => simp at h
  | panic p => simp at h

/-- hashing a single inclusion range: the range lies inside the data and its bytes are absorbed -/
theorem hash_single {alg : String} {a : List UInt8} {s l buf : Nat} {abs : List UInt8}
    {prog : List (Nat × Nat)}
    (h : hashModel alg a (some [⟨s, l, none⟩]) false buf none = .ok abs prog) :
    s + l ≤ a.length ∧ abs = slice a s l := by
  obtain ⟨ps, hb, ha⟩ := ok_absorbed h
  have hw := buildPieces_ok_within hb ⟨s, l, none⟩ (by simp)
  simp only at hw
  refine ⟨hw, ?_⟩
  simp only [buildPieces, stableSort, List.foldl, insertAfter, maxEnd, checkedAdd] at hb
  by_cases hu : s + l ≤ u64Max
  · have hlt : ¬ a.length < max 0 (s + l) := by omega
    simp only [hu, if_true, hlt, if_false, Bool.false_eq_true, inclLoop, checkedAdd] at hb
    by_cases hl : l = 0
    · simp only [hl, if_true, Except.ok.injEq] at hb
      subst hb
      simp [ha, hl, slice]
    · have h0 : ¬ s + l = 0 := by omega
      simp only [hl, if_false, h0, List.nil_append, Except.ok.injEq] at hb
      subst hb
      simp only [ha, List.flatMap_cons, List.flatMap_nil, List.append_nil, pieceBytes,
        Bool.false_eq_true, if_false, slice]
      congr 1
      omega
  · simp [hu] at hb

/-- `boxLoop` succeeds only if all spans exist and every hashed span carries the signed bytes -/
theorem boxLoop_ok (src : List SrcBox) (calg : Option String) (a : List UInt8) (buf : Nat) :
    ∀ (boxes : List BoxEntry) (idx idx' : Nat), boxLoop src calg a buf boxes idx = .ok idx' →
      ∃ sts, spansOf src boxes idx = .ok sts ∧ lastIdx sts idx = idx' ∧
        AllOk a boxes sts := by
  intro boxes
  induction boxes with
  | nil =>
    intro idx idx' h
    simp only [boxLoop, Except.ok.injEq] at h
    exact ⟨[], rfl, h, trivial⟩
  | cons bm rest ih =>
    intro idx idx' h
    rw [boxLoop] at h
    cases hn : nameLoop src bm.names.length bm.names
        { idx := idx, start := 0, len := 0, skip := false } with
    | error e => simp [hn] at h
    | ok st =>
      simp only [hn] at h
      by_cases hsk : (st.skip || bm.excluded.getD false) = true
      · rw [if_pos hsk] at h
        obtain ⟨sts, h1, h2, h3⟩ := ih st.idx idx' h
        exact ⟨st :: sts, by simp [spansOf, hn, h1], h2, Or.inl hsk, h3⟩
      · rw [if_neg hsk] at h
        split at h
        · simp at h
        · rename_i alg halg
          cases hc : compareHash bm.pre
              (hashModel alg a (some [⟨st.start, st.len, none⟩]) false buf none) with
          | err e => simp [hc] at h
          | ok =>
            simp only [hc] at h
            obtain ⟨prog, ho⟩ := compareHash_ok hc
            obtain ⟨hle, hsl⟩ := hash_single ho
            obtain ⟨sts, h1, h2, h3⟩ := ih st.idx idx' h
            exact ⟨st :: sts, by simp [spansOf, hn, h1], h2, Or.inr ⟨hle, hsl.symm⟩, h3⟩

/-- the first source index (PNGh skip rule) -/
def idx0 (boxes : List BoxEntry) (src : List SrcBox) : Nat :=
  match src.head? with
  | none => 0
  | some first =>
    if first.names.head? = some "PNGh" &&
        (match boxes.head? with
         | some b => (match b.names.head? with | some n => n != "PNGh" | none => false)
         | none => false)
    then 1 else 0

/-- **What a successful box-hash verification means.** -/
theorem verifyBox_ok (boxes : List BoxEntry) (calg : Option String) (src : List SrcBox)
    (a : List UInt8) (buf : Nat) (h : verifyBox boxes calg (some src) a buf = .ok) :
    boxes ≠ [] ∧ src ≠ [] ∧
    ∃ sts, spansOf src boxes (idx0 boxes src) = .ok sts ∧
      lastIdx sts (idx0 boxes src) = src.length ∧
      AllOk a boxes sts ∧
      (onlyC2pa src = true ∨ coverLoop src 0 = some a.length) := by
  unfold verifyBox at h
  by_cases hb : boxes.isEmpty = true
  · simp [hb] at h
  · rw [if_neg hb] at h
    have hb' : boxes ≠ [] := by
      intro he; rw [he] at hb; exact hb rfl
    simp only at h
    cases hh : src.head? with
    | none => simp [hh] at h
    | some first =>
      have hs' : src ≠ [] := by
        intro he; rw [he] at hh; cases hh
      simp only [hh] at h
      split at h
      · simp at h
      · rename_i idx heq
        have hl : boxLoop src calg a buf boxes (idx0 boxes src) = .ok idx := by
          unfold idx0
          rw [hh]
          exact heq
        obtain ⟨sts, h1, h2, h3⟩ := boxLoop_ok src calg a buf boxes _ _ hl
        by_cases hi : idx ≠ src.length
        · simp [hi] at h
        · rw [if_neg hi] at h
          have hi' : idx = src.length := by omega
          refine ⟨hb', hs', sts, h1, by rw [h2, hi'], h3, ?_⟩
          by_cases ho : onlyC2pa src = true
          · exact Or.inl ho
          · rw [if_neg ho] at h
            by_cases hc : coverLoop src 0 = some a.length
            · exact Or.inr hc
            · simp [hc] at h

/-- handler box map well-formedness (C12 `boxmap_wf`): the boxes tile `[s, e)` in order, each
with at least one name, all inside `u64` -/
def Tiles : List SrcBox → Nat → Nat → Prop
  | [], s, e => s = e
  | b :: bs, s, e => b.start = s ∧ b.names ≠ [] ∧ Tiles bs (s + b.len) e

/-- offset of box `k` from the first box: the sum of the lengths of the first `k` boxes -/
def pos : List SrcBox → Nat → Nat
  | [], _ => 0
  | _ :: _, 0 => 0
  | b :: bs, k + 1 => b.len + pos bs k

theorem pos_zero (src : List SrcBox) : pos src 0 = 0 := by cases src <;> rfl

theorem pos_succ : ∀ (src : List SrcBox) (k : Nat) (h : k < src.length),
    pos src (k + 1) = pos src k + src[k].len
  | [], k, h => by simp at h
  | b :: bs, 0, _ => by simp [pos, pos_zero]
  | b :: bs, k + 1, h => by
    have := pos_succ bs k (by simpa using h)
    simp only [pos, List.getElem_cons_succ]
    omega

theorem tiles_start : ∀ (src : List SrcBox) (s e k : Nat) (_ : Tiles src s e) (h : k < src.length),
    src[k].start = s + pos src k
  | [], _, _, _, _, h => by simp at h
  | b :: bs, s, e, 0, hw, _ => by simpa [pos] using hw.1
  | b :: bs, s, e, k + 1, hw, h => by
    have := tiles_start bs (s + b.len) e k hw.2.2 (by simpa using h)
    simp only [List.getElem_cons_succ, pos]
    omega

theorem tiles_end : ∀ (src : List SrcBox) (s e : Nat), Tiles src s e → s + pos src src.length = e
  | [], s, e, hw => by simpa [pos, Tiles] using hw
  | b :: bs, s, e, hw => by
    have := tiles_end bs _ e hw.2.2
    simp only [pos, List.length_cons]
    omega

/-- invariant of the name loop on a tiling box map: the boxes consumed since index `i` end at
`pos i + len`, and once a non-empty box has been consumed the span starts at box `i` -/
def SpanInv (src : List SrcBox) (i : Nat) (st : NameSt) : Prop :=
  pos src st.idx = pos src i + st.len ∧ (st.len = 0 ∨ st.start = pos src i)

theorem nameLoop_span (src : List SrcBox) (n : Nat) (hw : Tiles src 0 n) (nN i : Nat) :
    ∀ (names : List String) (st st' : NameSt), nameLoop src nN names st = .ok st' →
      SpanInv src i st → SpanInv src i st'
  | [], st, st', h, hi => by
    simp only [nameLoop, Except.ok.injEq] at h
    exact h ▸ hi
  | name :: rest, st, st', h, hi => by
    rw [nameLoop] at h
    cases hs : src[st.idx]? with
    | none => simp [hs] at h
    | some sb =>
      simp only [hs] at h
      obtain ⟨hk, hsb⟩ := List.getElem?_eq_some_iff.1 hs
      have h1 := tiles_start src 0 n st.idx hw hk
      have h2 := pos_succ src st.idx hk
      rw [hsb] at h1 h2
      obtain ⟨hi1, hi2⟩ := hi
      cases hn0 : sb.names.head? with
      | none => simp [hn0] at h
      | some n0 =>
        simp only [hn0] at h
        split at h
        · split at h
          · rename_i hl0
            split at h
            · split at h
              · simp at h
              · refine nameLoop_span src n hw nN i rest _ st' h ⟨?_, ?_⟩
                · simp only; omega
                · simp only; right; omega
            · refine nameLoop_span src n hw nN i rest _ st' h ⟨?_, ?_⟩
              · simp only; omega
              · simp only; right; omega
          · rename_i hl0
            split at h
            · simp at h
            · split at h
              · simp at h
              · refine nameLoop_span src n hw nN i rest _ st' h ⟨?_, ?_⟩
                · simp only; omega
                · simp only; right; omega
        · simp at h

theorem spansOf_cover (src : List SrcBox) (n : Nat) (hw : Tiles src 0 n) :
    ∀ (boxes : List BoxEntry) (idx : Nat) (sts : List NameSt), spansOf src boxes idx = .ok sts →
      ∀ x, pos src idx ≤ x → x < pos src (lastIdx sts idx) →
        ∃ st ∈ sts, st.start ≤ x ∧ x < st.start + st.len
  | [], idx, sts, h, x, h1, h2 => by
    simp only [spansOf, Except.ok.injEq] at h
    subst h
    simp only [lastIdx] at h2
    omega
  | bm :: rest, idx, sts, h, x, h1, h2 => by
    rw [spansOf] at h
    cases hn : nameLoop src bm.names.length bm.names
        { idx := idx, start := 0, len := 0, skip := false } with
    | error e => simp [hn] at h
    | ok st =>
      simp only [hn] at h
      cases hr : spansOf src rest st.idx with
      | error e => simp [hr] at h
      | ok sts' =>
        simp only [hr, Except.ok.injEq] at h
        subst h
        simp only [lastIdx] at h2
        obtain ⟨i1, i2⟩ := nameLoop_span src n hw _ idx _ _ st hn ⟨by simp, Or.inl rfl⟩
        by_cases hx : x < pos src st.idx
        · refine ⟨st, List.mem_cons_self, ?_⟩
          rcases i2 with i2 | i2 <;> omega
        · obtain ⟨st2, hm, hc⟩ := spansOf_cover src n hw rest st.idx sts' hr x (by omega) h2
          exact ⟨st2, List.mem_cons_of_mem _ hm, hc⟩

/-- position `x` lies in the span of an entry that is not hashed -/
def unprotected (boxes : List BoxEntry) (sts : List NameSt) (x : Nat) : Bool :=
  (boxes.zip sts).any fun p => skipped p.1 p.2 && decide (p.2.start ≤ x) && decide (x < p.2.start + p.2.len)

/-- position `x` lies in the PNG signature box that the assertion does not list -/
def inSkippedPngh (boxes : List BoxEntry) (src : List SrcBox) (x : Nat) : Bool :=
  idx0 boxes src == 1 && (match src.head? with | some b => decide (x < b.start + b.len) | none => false)

/-- With a tiling box map, when every source box has been consumed by the entries, every
position of the asset (outside an unlisted PNG signature) lies in the span of some entry. -/
theorem spans_cover (src : List SrcBox) (n : Nat) (hw : Tiles src 0 n) (hn : n ≤ u64Max)
    (boxes : List BoxEntry) (sts : List NameSt)
    (hs : spansOf src boxes (idx0 boxes src) = .ok sts)
    (hl : lastIdx sts (idx0 boxes src) = src.length) (x : Nat) (hx : x < n)
    (hp : inSkippedPngh boxes src x = false) :
    ∃ st ∈ sts, st.start ≤ x ∧ x < st.start + st.len := by
  have _ := hn
  have hend := tiles_end src 0 n hw
  rw [Nat.zero_add] at hend
  refine spansOf_cover src n hw boxes _ sts hs x ?_ (by rw [hl, hend]; exact hx)
  cases src with
  | nil => simp [pos]
  | cons first rest =>
    have h01 : idx0 boxes (first :: rest) = 0 ∨ idx0 boxes (first :: rest) = 1 := by
      have key : ∀ (c : Prop) [Decidable c],
          (if c then 1 else 0 : Nat) = 0 ∨ (if c then 1 else 0 : Nat) = 1 := by
        intro c _
        by_cases hc : c
        · right; rw [if_pos hc]
        · left; rw [if_neg hc]
      unfold idx0
      simp only [List.head?_cons]
      exact key _
    rcases h01 with h0 | h1
    · rw [h0, pos_zero]; exact Nat.zero_le _
    · rw [h1]
      simp only [inSkippedPngh, h1, List.head?_cons, beq_self_eq_true, Bool.true_and,
        decide_eq_false_iff_not] at hp
      have := hw.1
      simp only [pos, pos_zero]
      omega

theorem allOk_mem (a a' : List UInt8) : ∀ (boxes : List BoxEntry) (sts : List NameSt),
    AllOk a boxes sts → AllOk a' boxes sts → ∀ st ∈ sts,
      ∃ bm, (bm, st) ∈ boxes.zip sts ∧ EntryOk a bm st ∧ EntryOk a' bm st
  | [], [], _, _, st, hm => by cases hm
  | [], _ :: _, h, _, _, _ => by cases h
  | _ :: _, [], h, _, _, _ => by cases h
  | bm :: bs, s0 :: sts, h, h', st, hm => by
    rcases List.mem_cons.1 hm with rfl | hm'
    · exact ⟨bm, by simp, h.1, h'.1⟩
    · obtain ⟨bm', hz, he⟩ := allOk_mem a a' bs sts h.2 h'.2 st hm'
      exact ⟨bm', by simp [hz], he⟩

theorem slice_getElem? (a : List UInt8) (s l x : Nat) (h1 : s ≤ x) (h2 : x < s + l) :
    (slice a s l)[x - s]? = a[x]? := by
  unfold slice
  rw [List.getElem?_take, if_pos (by omega), List.getElem?_drop]
  congr 1
  omega

/-- **Box-hash binding** (same layout): two assets of the same length that both verify against
the same assertion with the same tiling box map agree at every position that is not in a
skipped (C2PA / excluded) entry and not in an unlisted PNG signature box. -/
theorem boxhash_same_layout (boxes : List BoxEntry) (calg calg' : Option String) (src : List SrcBox)
    (a a' : List UInt8) (buf buf' : Nat) (hlen : a.length = a'.length)
    (hw : Tiles src 0 a.length) (hn : a.length ≤ u64Max)
    (h : verifyBox boxes calg (some src) a buf = .ok)
    (h' : verifyBox boxes calg' (some src) a' buf' = .ok) :
    ∃ sts, spansOf src boxes (idx0 boxes src) = .ok sts ∧
      ∀ x, x < a.length → unprotected boxes sts x = false → inSkippedPngh boxes src x = false →
        a[x]? = a'[x]? := by
  have _ := hlen   -- not needed: both assets cover the same tiling of `[0, a.length)`
  obtain ⟨_, _, sts, hs, hl, hok, _⟩ := verifyBox_ok boxes calg src a buf h
  obtain ⟨_, _, sts', hs', _, hok', _⟩ := verifyBox_ok boxes calg' src a' buf' h'
  rw [hs] at hs'
  cases hs'
  refine ⟨sts, hs, ?_⟩
  intro x hx hu hp
  obtain ⟨st, hm, hc1, hc2⟩ := spans_cover src a.length hw hn boxes sts hs hl x hx hp
  obtain ⟨bm, hz, he, he'⟩ := allOk_mem a a' boxes sts hok hok' st hm
  have hns : ∀ b, (b, st) ∈ boxes.zip sts → skipped b st = false := by
    intro b hb
    unfold unprotected at hu
    rw [List.any_eq_false] at hu
    have := hu (b, st) hb
    simpa [hc1, hc2] using this
  have e1 : slice a st.start st.len = bm.pre := by
    rcases he with he | he
    · rw [hns bm hz] at he; cases he
    · exact he.2
  have e2 : slice a' st.start st.len = bm.pre := by
    rcases he' with he' | he'
    · rw [hns bm hz] at he'; cases he'
    · exact he'.2
  rw [← slice_getElem? a st.start st.len x hc1 hc2, ← slice_getElem? a' st.start st.len x hc1 hc2,
    e1, e2]

end C2pa.C01
