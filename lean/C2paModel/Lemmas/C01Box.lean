import C2paModel.Model.C01
import C2paModel.Props.C13
/-
C01 — what a successful `verifyBox` (model of `BoxHash::verify_stream_hash`) guarantees.

The name loops are independent of the data: `spansOf` computes, entry by entry, the span
`(start, len)` that is hashed and whether the entry is the C2PA entry. A successful verification
means: the spans exist, every source box was consumed, the boxes cover the asset, and for every
entry that is not skipped the bytes of its span are the signed preimage.
-/
namespace C2pa.C01
open C2pa.C13

/-- the spans computed by the name loops, entry by entry (pure: independent of the data) -/
def spansOf (src : List SrcBox) : List BoxEntry → Nat → Except VErr (List NameSt)
  | [], _ => .ok []
  | bm :: rest, idx =>
    match nameLoop src bm.names.length bm.names { idx := idx, start := 0, len := 0, skip := false } with
    | .error e => .error e
    | .ok st =>
      match spansOf src rest st.idx with
      | .error e => .error e
      | .ok sts => .ok (st :: sts)

/-- `source_index` after the last entry -/
def lastIdx : List NameSt → Nat → Nat
  | [], idx => idx
  | st :: sts, _ => lastIdx sts st.idx

def slice (a : List UInt8) (s l : Nat) : List UInt8 := (a.drop s).take l

/-- the entry is not hashed: it is the C2PA entry or carries `excluded: true` -/
def skipped (bm : BoxEntry) (st : NameSt) : Bool := st.skip || bm.excluded.getD false

/-- per-entry guarantee -/
def EntryOk (a : List UInt8) (bm : BoxEntry) (st : NameSt) : Prop :=
  skipped bm st = true ∨ (st.start + st.len ≤ a.length ∧ slice a st.start st.len = bm.pre)

/-- the per-entry guarantee for all entries (lists of equal length) -/
def AllOk (a : List UInt8) : List BoxEntry → List NameSt → Prop
  | [], [] => True
  | bm :: bs, st :: sts => EntryOk a bm st ∧ AllOk a bs sts
  | _, _ => False

theorem compareHash_ok {pre : List UInt8} {o : Outcome} (h : compareHash pre o = .ok) :
    ∃ prog, o = .ok pre prog := by
  unfold compareHash at h
  cases o with
  | ok abs prog =>
    by_cases he : abs = pre
    · exact ⟨prog, by rw [he]⟩
    · simp [he] at h
  | err e p => simp at h
  | panic p => simp at h

/-- hashing a single inclusion range: the range lies inside the data and its bytes are absorbed -/
theorem hash_single {alg : String} {a : List UInt8} {s l buf : Nat} {abs : List UInt8}
    {prog : List (Nat × Nat)}
    (h : hashModel alg a (some [⟨s, l, none⟩]) false buf none = .ok abs prog) :
    s + l ≤ a.length ∧ abs = slice a s l := by
  obtain ⟨ps, hb, ha⟩ := ok_absorbed h
  have hw := buildPieces_ok_within hb ⟨s, l, none⟩ (by simp)
  simp only at hw
  refine ⟨hw, ?_⟩
  simp only [buildPieces, stableSort, List.foldl, insertAfter, maxEnd, checkedAdd] at hb
  by_cases hu : s + l ≤ u64Max
  · have hlt : ¬ a.length < max 0 (s + l) := by omega
    simp only [hu, if_true, hlt, if_false, Bool.false_eq_true, inclLoop, checkedAdd] at hb
    by_cases hl : l = 0
    · simp only [hl, if_true, Except.ok.injEq] at hb
      subst hb
      simp [ha, hl, slice]
    · have h0 : ¬ s + l = 0 := by omega
      simp only [hl, if_false, h0, List.nil_append, Except.ok.injEq] at hb
      subst hb
      simp only [ha, List.flatMap_cons, List.flatMap_nil, List.append_nil, pieceBytes,
        Bool.false_eq_true, if_false, slice]
      congr 1
      omega
  · simp [hu] at hb

/-- `boxLoop` succeeds only if all spans exist and every hashed span carries the signed bytes -/
theorem boxLoop_ok (src : List SrcBox) (calg : Option String) (a : List UInt8) (buf : Nat) :
    ∀ (boxes : List BoxEntry) (idx idx' : Nat), boxLoop src calg a buf boxes idx = .ok idx' →
      ∃ sts, spansOf src boxes idx = .ok sts ∧ lastIdx sts idx = idx' ∧
        AllOk a boxes sts := by
  intro boxes
  induction boxes with
  | nil =>
    intro idx idx' h
    simp only [boxLoop, Except.ok.injEq] at h
    exact ⟨[], rfl, h, trivial⟩
  | cons bm rest ih =>
    intro idx idx' h
    rw [boxLoop] at h
    cases hn : nameLoop src bm.names.length bm.names
        { idx := idx, start := 0, len := 0, skip := false } with
    | error e => simp [hn] at h
    | ok st =>
      simp only [hn] at h
      by_cases hsk : (st.skip || bm.excluded.getD false) = true
      · rw [if_pos hsk] at h
        obtain ⟨sts, h1, h2, h3⟩ := ih st.idx idx' h
        exact ⟨st :: sts, by simp [spansOf, hn, h1], h2, Or.inl hsk, h3⟩
      · rw [if_neg hsk] at h
        split at h
        · simp at h
        · rename_i alg halg
          cases hc : compareHash bm.pre
              (hashModel alg a (some [⟨st.start, st.len, none⟩]) false buf none) with
          | err e => simp [hc] at h
          | ok =>
            simp only [hc] at h
            obtain ⟨prog, ho⟩ := compareHash_ok hc
            obtain ⟨hle, hsl⟩ := hash_single ho
            obtain ⟨sts, h1, h2, h3⟩ := ih st.idx idx' h
            exact ⟨st :: sts, by simp [spansOf, hn, h1], h2, Or.inr ⟨hle, hsl.symm⟩, h3⟩

/-- the first source index (PNGh skip rule) -/
def idx0 (boxes : List BoxEntry) (src : List SrcBox) : Nat :=
  match src.head? with
  | none => 0
  | some first =>
    if first.names.head? = some "PNGh" &&
        (match boxes.head? with
         | some b => (match b.names.head? with | some n => n != "PNGh" | none => false)
         | none => false)
    then 1 else 0

/-- **What a successful box-hash verification means.** -/
theorem verifyBox_ok (boxes : List BoxEntry) (calg : Option String) (src : List SrcBox)
    (a : List UInt8) (buf : Nat) (h : verifyBox boxes calg (some src) a buf = .ok) :
    boxes ≠ [] ∧ src ≠ [] ∧
    ∃ sts, spansOf src boxes (idx0 boxes src) = .ok sts ∧
      lastIdx sts (idx0 boxes src) = src.length ∧
      AllOk a boxes sts ∧
      (onlyC2pa src = true ∨ coverLoop src 0 = some a.length) := by
  unfold verifyBox at h
  by_cases hb : boxes.isEmpty = true
  · simp [hb] at h
  · rw [if_neg hb] at h
    have hb' : boxes ≠ [] := by
      intro he; rw [he] at hb; exact hb rfl
    simp only at h
    cases hh : src.head? with
    | none => simp [hh] at h
    | some first =>
      have hs' : src ≠ [] := by
        intro he; rw [he] at hh; cases hh
      simp only [hh] at h
      split at h
      · simp at h
      · rename_i idx heq
        have hl : boxLoop src calg a buf boxes (idx0 boxes src) = .ok idx := by
          unfold idx0
          rw [hh]
          exact heq
        obtain ⟨sts, h1, h2, h3⟩ := boxLoop_ok src calg a buf boxes _ _ hl
        by_cases hi : idx ≠ src.length
        · simp [hi] at h
        · rw [if_neg hi] at h
          have hi' : idx = src.length := by omega
          refine ⟨hb', hs', sts, h1, by rw [h2, hi'], h3, ?_⟩
          by_cases ho : onlyC2pa src = true
          · exact Or.inl ho
          · rw [if_neg ho] at h
            by_cases hc : coverLoop src 0 = some a.length
            · exact Or.inr hc
            · simp [hc] at h

/-- handler box map well-formedness (C12 `boxmap_wf`): the boxes tile `[s, e)` in order, each
with at least one name, all inside `u64` -/
def Tiles : List SrcBox → Nat → Nat → Prop
  | [], s, e => s = e
  | b :: bs, s, e => b.start = s ∧ b.names ≠ [] ∧ Tiles bs (s + b.len) e

/-- offset of box `k` from the first box: the sum of the lengths of the first `k` boxes -/
def pos : List SrcBox → Nat → Nat
  | [], _ => 0
  | _ :: _, 0 => 0
  | b :: bs, k + 1 => b.len + pos bs k

theorem pos_zero (src : List SrcBox) : pos src 0 = 0 := by cases src <;> rfl

theorem pos_succ : ∀ (src : List SrcBox) (k : Nat) (h : k < src.length),
    pos src (k + 1) = pos src k + src[k].len
  | [], k, h => by simp at h
  | b :: bs, 0, _ => by simp [pos, pos_zero]
  | b :: bs, k + 1, h => by
    have := pos_succ bs k (by simpa using h)
    simp only [pos, List.getElem_cons_succ]
    omega

theorem tiles_start : ∀ (src : List SrcBox) (s e k : Nat) (_ : Tiles src s e) (h : k < src.length),
    src[k].start = s + pos src k
  | [], _, _, _, _, h => by simp at h
  | b :: bs, s, e, 0, hw, _ => by simpa [pos] using hw.1
  | b :: bs, s, e, k + 1, hw, h => by
    have := tiles_start bs (s + b.len) e k hw.2.2 (by simpa using h)
    simp only [List.getElem_cons_succ, pos]
    omega

theorem tiles_end : ∀ (src : List SrcBox) (s e : Nat), Tiles src s e → s + pos src src.length = e
  | [], s, e, hw => by simpa [pos, Tiles] using hw
  | b :: bs, s, e, hw => by
    have := tiles_end bs _ e hw.2.2
    simp only [pos, List.length_cons]
    omega

/-- invariant of the name loop on a tiling box map: the boxes consumed since index `i` end at
`pos i + len`, and once a non-empty box has been consumed the span starts at box `i` -/
def SpanInv (src : List SrcBox) (i : Nat) (st : NameSt) : Prop :=
  pos src st.idx = pos src i + st.len ∧ (st.len = 0 ∨ st.start = pos src i)

theorem nameLoop_span (src : List SrcBox) (n : Nat) (hw : Tiles src 0 n) (nN i : Nat) :
    ∀ (names : List String) (st st' : NameSt), nameLoop src nN names st = .ok st' →
      SpanInv src i st → SpanInv src i st'
  | [], st, st', h, hi => by
    simp only [nameLoop, Except.ok.injEq] at h
    exact h ▸ hi
  | name :: rest, st, st', h, hi => by
    rw [nameLoop] at h
    cases hs : src[st.idx]? with
    | none => simp [hs] at h
    | some sb =>
      simp only [hs] at h
      obtain ⟨hk, hsb⟩ := List.getElem?_eq_some_iff.1 hs
      have h1 := tiles_start src 0 n st.idx hw hk
      have h2 := pos_succ src st.idx hk
      rw [hsb] at h1 h2
      obtain ⟨hi1, hi2⟩ := hi
      cases hn0 : sb.names.head? with
      | none => simp [hn0] at h
      | some n0 =>
        simp only [hn0] at h
        split at h
        · split at h
          · rename_i hl0
            split at h
            · split at h
              · simp at h
              · refine nameLoop_span src n hw nN i rest _ st' h ⟨?_, ?_⟩
                · simp only; omega
                · simp only; right; omega
            · refine nameLoop_span src n hw nN i rest _ st' h ⟨?_, ?_⟩
              · simp only; omega
              · simp only; right; omega
          · rename_i hl0
            split at h
            · simp at h
            · split at h
              · simp at h
              · refine nameLoop_span src n hw nN i rest _ st' h ⟨?_, ?_⟩
                · simp only; omega
                · simp only; right; omega
        · simp at h

theorem spansOf_cover (src : List SrcBox) (n : Nat) (hw : Tiles src 0 n) :
    ∀ (boxes : List BoxEntry) (idx : Nat) (sts : List NameSt), spansOf src boxes idx = .ok sts →
      ∀ x, pos src idx ≤ x → x < pos src (lastIdx sts idx) →
        ∃ st ∈ sts, st.start ≤ x ∧ x < st.start + st.len
  | [], idx, sts, h, x, h1, h2 => by
    simp only [spansOf, Except.ok.injEq] at h
    subst h
    simp only [lastIdx] at h2
    omega
  | bm :: rest, idx, sts, h, x, h1, h2 => by
    rw [spansOf] at h
    cases hn : nameLoop src bm.names.length bm.names
        { idx := idx, start := 0, len := 0, skip := false } with
    | error e => simp [hn] at h
    | ok st =>
      simp only [hn] at h
      cases hr : spansOf src rest st.idx with
      | error e => simp [hr] at h
      | ok sts' =>
        simp only [hr, Except.ok.injEq] at h
        subst h
        simp only [lastIdx] at h2
        obtain ⟨i1, i2⟩ := nameLoop_span src n hw _ idx _ _ st hn ⟨by simp, Or.inl rfl⟩
        by_cases hx : x < pos src st.idx
        · refine ⟨st, List.mem_cons_self, ?_⟩
          rcases i2 with i2 | i2 <;> omega
        · obtain ⟨st2, hm, hc⟩ := spansOf_cover src n hw rest st.idx sts' hr x (by omega) h2
          exact ⟨st2, List.mem_cons_of_mem _ hm, hc⟩

/-- position `x` lies in the span of an entry that is not hashed -/
def unprotected (boxes : List BoxEntry) (sts : List NameSt) (x : Nat) : Bool :=
  (boxes.zip sts).any fun p => skipped p.1 p.2 && decide (p.2.start ≤ x) && decide (x < p.2.start + p.2.len)

/-- position `x` lies in the PNG signature box that the assertion does not list -/
def inSkippedPngh (boxes : List BoxEntry) (src : List SrcBox) (x : Nat) : Bool :=
  idx0 boxes src == 1 && (match src.head? with | some b => decide (x < b.start + b.len) | none => false)

/-- With a tiling box map, when every source box has been consumed by the entries, every
position of the asset (outside an unlisted PNG signature) lies in the span of some entry. -/
theorem spans_cover (src : List SrcBox) (n : Nat) (hw : Tiles src 0 n) (hn : n ≤ u64Max)
    (boxes : List BoxEntry) (sts : List NameSt)
    (hs : spansOf src boxes (idx0 boxes src) = .ok sts)
    (hl : lastIdx sts (idx0 boxes src) = src.length) (x : Nat) (hx : x < n)
    (hp : inSkippedPngh boxes src x = false) :
    ∃ st ∈ sts, st.start ≤ x ∧ x < st.start + st.len := by
  have _ := hn
  have hend := tiles_end src 0 n hw
  rw [Nat.zero_add] at hend
  refine spansOf_cover src n hw boxes _ sts hs x ?_ (by rw [hl, hend]; exact hx)
  cases src with
  | nil => simp [pos]
  | cons first rest =>
    have h01 : idx0 boxes (first :: rest) = 0 ∨ idx0 boxes (first :: rest) = 1 := by
      have key : ∀ (c : Prop) [Decidable c],
          (if c then 1 else 0 : Nat) = 0 ∨ (if c then 1 else 0 : Nat) = 1 := by
        intro c _
        by_cases hc : c
        · right; rw [if_pos hc]
        · left; rw [if_neg hc]
      unfold idx0
      simp only [List.head?_cons]
      exact key _
    rcases h01 with h0 | h1
    · rw [h0, pos_zero]; exact Nat.zero_le _
    · rw [h1]
      simp only [inSkippedPngh, h1, List.head?_cons, beq_self_eq_true, Bool.true_and,
        decide_eq_false_iff_not] at hp
      have := hw.1
      simp only [pos, pos_zero]
      omega

theorem allOk_mem (a a' : List UInt8) : ∀ (boxes : List BoxEntry) (sts : List NameSt),
    AllOk a boxes sts → AllOk a' boxes sts → ∀ st ∈ sts,
      ∃ bm, (bm, st) ∈ boxes.zip sts ∧ EntryOk a bm st ∧ EntryOk a' bm st
  | [], [], _, _, st, hm => by cases hm
  | [], _ :: _, h, _, _, _ => by cases h
  | _ :: _, [], h, _, _, _ => by cases h
  | bm :: bs, s0 :: sts, h, h', st, hm => by
    rcases List.mem_cons.1 hm with rfl | hm'
    · exact ⟨bm, by simp, h.1, h'.1⟩
    · obtain ⟨bm', hz, he⟩ := allOk_mem a a' bs sts h.2 h'.2 st hm'
      exact ⟨bm', by simp [hz], he⟩

theorem slice_getElem? (a : List UInt8) (s l x : Nat) (h1 : s ≤ x) (h2 : x < s + l) :
    (slice a s l)[x - s]? = a[x]? := by
  unfold slice
  rw [List.getElem?_take, if_pos (by omega), List.getElem?_drop]
  congr 1
  omega

/-! ### any layout: what one iteration of the name loop does, and what follows from it -/

/-- one iteration of the inner name loop -/
theorem nameLoop_step {src : List SrcBox} {nN : Nat} {name : String} {rest : List String}
    {st st' : NameSt} (h : nameLoop src nN (name :: rest) st = .ok st') :
    ∃ sb st1, src[st.idx]? = some sb ∧ sb.names.head? = some name ∧ st1.idx = st.idx + 1 ∧
      (st.len = 0 → st1.start = sb.start ∧ st1.len = sb.len ∧
          st1.skip = (st.skip || decide (name = "C2PA")) ∧ (name = "C2PA" → nN = 1)) ∧
      (st.len ≠ 0 → st1.start = st.start ∧ st1.len = sb.start - st.start + sb.len ∧
          st.start ≤ sb.start ∧ st1.skip = st.skip) ∧
      nameLoop src nN rest st1 = .ok st' := by
  rw [nameLoop] at h
  cases hs : src[st.idx]? with
  | none => simp [hs] at h
  | some sb =>
    simp only [hs] at h
    cases hn0 : sb.names.head? with
    | none => simp [hn0] at h
    | some n0 =>
      simp only [hn0] at h
      split at h
      · rename_i hname
        subst hname
        split at h
        · rename_i hl0
          split at h
          · rename_i hc
            split at h
            · simp at h
            · rename_i hn1
              refine ⟨sb, _, rfl, hn0, rfl, ?_, ?_, h⟩
              · intro _
                refine ⟨rfl, rfl, by simp [hc], fun _ => by omega⟩
              · intro hne; exact absurd hl0 hne
          · rename_i hc
            refine ⟨sb, _, rfl, hn0, rfl, ?_, ?_, h⟩
            · intro _
              refine ⟨rfl, rfl, by simp [hc], fun hh => absurd hh hc⟩
            · intro hne; exact absurd hl0 hne
        · rename_i hl0
          split at h
          · simp at h
          · rename_i hlt
            split at h
            · simp at h
            · refine ⟨sb, _, rfl, hn0, rfl, ?_, ?_, h⟩
              · intro h0; exact absurd h0 hl0
              · intro _
                exact ⟨rfl, rfl, by omega, rfl⟩
      · simp at h

/-- the name loop consumes one source box per name -/
theorem nameLoop_idx (src : List SrcBox) (nN : Nat) :
    ∀ (names : List String) (st st' : NameSt), nameLoop src nN names st = .ok st' →
      st'.idx = st.idx + names.length
  | [], st, st', h => by
    simp only [nameLoop, Except.ok.injEq] at h
    subst h; simp
  | name :: rest, st, st', h => by
    obtain ⟨sb, st1, _, _, hi, _, _, hr⟩ := nameLoop_step h
    have := nameLoop_idx src nN rest st1 st' hr
    simp only [List.length_cons]
    omega

/-- with more than one name (or none) in the entry the C2PA flag is never set -/
theorem nameLoop_skip_keep (src : List SrcBox) (nN : Nat) (hn : nN ≠ 1) :
    ∀ (names : List String) (st st' : NameSt), nameLoop src nN names st = .ok st' →
      st'.skip = st.skip
  | [], st, st', h => by
    simp only [nameLoop, Except.ok.injEq] at h
    subst h; rfl
  | name :: rest, st, st', h => by
    obtain ⟨sb, st1, _, _, _, h0, h1, hr⟩ := nameLoop_step h
    rw [nameLoop_skip_keep src nN hn rest st1 st' hr]
    by_cases hl : st.len = 0
    · obtain ⟨_, _, hs, hc⟩ := h0 hl
      rw [hs]
      by_cases hcn : name = "C2PA"
      · exact absurd (hc hcn) hn
      · simp [hcn]
    · exact (h1 hl).2.2.2

/-- the entry is skipped as "the C2PA box" exactly when its name list is `["C2PA"]`: a property
of the signed assertion alone, not of the asset's box map -/
theorem nameLoop_skip (src : List SrcBox) (names : List String) (idx : Nat) (st' : NameSt)
    (h : nameLoop src names.length names { idx := idx, start := 0, len := 0, skip := false } = .ok st') :
    st'.skip = decide (names = ["C2PA"]) := by
  match names, h with
  | [], h =>
    simp only [nameLoop, Except.ok.injEq] at h
    subst h; simp
  | [x], h =>
    obtain ⟨sb, st1, _, _, _, h0, _, hr⟩ := nameLoop_step h
    simp only [nameLoop, Except.ok.injEq] at hr
    subst hr
    obtain ⟨_, _, hs, _⟩ := h0 rfl
    rw [hs]; simp
  | x :: y :: rest, h =>
    rw [nameLoop_skip_keep src _ (by simp) _ _ _ h]
    simp

/-- the entry is not hashed, stated on the signed assertion alone -/
def entrySkipped (bm : BoxEntry) : Bool := decide (bm.names = ["C2PA"]) || bm.excluded.getD false

theorem spansOf_zip_skipped (src : List SrcBox) :
    ∀ (boxes : List BoxEntry) (idx : Nat) (sts : List NameSt), spansOf src boxes idx = .ok sts →
      sts.length = boxes.length ∧ ∀ p ∈ boxes.zip sts, skipped p.1 p.2 = entrySkipped p.1
  | [], idx, sts, h => by
    simp only [spansOf, Except.ok.injEq] at h
    subst h; simp
  | bm :: rest, idx, sts, h => by
    rw [spansOf] at h
    cases hn : nameLoop src bm.names.length bm.names
        { idx := idx, start := 0, len := 0, skip := false } with
    | error e => simp [hn] at h
    | ok st =>
      simp only [hn] at h
      cases hr : spansOf src rest st.idx with
      | error e => simp [hr] at h
      | ok sts' =>
        simp only [hr, Except.ok.injEq] at h
        subst h
        obtain ⟨hl, hz⟩ := spansOf_zip_skipped src rest st.idx sts' hr
        refine ⟨by simp [hl], ?_⟩
        intro p hp
        simp only [List.zip_cons_cons, List.mem_cons] at hp
        rcases hp with rfl | hp
        · simp only [skipped, entrySkipped, nameLoop_skip src bm.names idx st hn]
        · exact hz p hp

/-- total number of names listed by the assertion -/
def nameCount : List BoxEntry → Nat
  | [] => 0
  | bm :: rest => bm.names.length + nameCount rest

/-- the entries consume exactly `nameCount` source boxes, whatever the box map is -/
theorem spansOf_lastIdx (src : List SrcBox) :
    ∀ (boxes : List BoxEntry) (idx : Nat) (sts : List NameSt), spansOf src boxes idx = .ok sts →
      lastIdx sts idx = idx + nameCount boxes
  | [], idx, sts, h => by
    simp only [spansOf, Except.ok.injEq] at h
    subst h; simp [lastIdx, nameCount]
  | bm :: rest, idx, sts, h => by
    rw [spansOf] at h
    cases hn : nameLoop src bm.names.length bm.names
        { idx := idx, start := 0, len := 0, skip := false } with
    | error e => simp [hn] at h
    | ok st =>
      simp only [hn] at h
      cases hr : spansOf src rest st.idx with
      | error e => simp [hr] at h
      | ok sts' =>
        simp only [hr, Except.ok.injEq] at h
        subst h
        have h1 := nameLoop_idx src _ _ _ st hn
        have h2 := spansOf_lastIdx src rest st.idx sts' hr
        simp only [lastIdx, nameCount, h2]
        simp only at h1
        omega

/-- per-entry form of `AllOk` -/
theorem allOk_zip (a : List UInt8) : ∀ (boxes : List BoxEntry) (sts : List NameSt),
    AllOk a boxes sts → ∀ p ∈ boxes.zip sts, EntryOk a p.1 p.2
  | [], [], _, p, hp => by simp at hp
  | [], _ :: _, h, _, _ => by cases h
  | _ :: _, [], h, _, _ => by cases h
  | bm :: bs, st :: sts, h, p, hp => by
    simp only [List.zip_cons_cons, List.mem_cons] at hp
    rcases hp with rfl | hp
    · exact h.1
    · exact allOk_zip a bs sts h.2 p hp

/-- the coverage loop: every position below the returned end lies in some source box -/
theorem coverLoop_mem : ∀ (src : List SrcBox) (e n : Nat), coverLoop src e = some n →
    e ≤ n ∧ ∀ x, e ≤ x → x < n →
      ∃ (k : Nat) (sb : SrcBox), src[k]? = some sb ∧ sb.start ≤ x ∧ x < sb.start + sb.len
  | [], e, n, h => by
    simp only [coverLoop, Option.some.injEq] at h
    subst h
    exact ⟨Nat.le_refl _, fun x h1 h2 => by omega⟩
  | b :: bs, e, n, h => by
    rw [coverLoop] at h
    by_cases hg : b.start > e
    · simp [hg] at h
    · rw [if_neg hg] at h
      obtain ⟨hle, ih⟩ := coverLoop_mem bs _ n h
      refine ⟨by omega, ?_⟩
      intro x h1 h2
      by_cases hx : x < max e (min (b.start + b.len) u64Max)
      · exact ⟨0, b, rfl, by omega, by omega⟩
      · obtain ⟨k, sb, hk, hc⟩ := ih x (by omega) h2
        exact ⟨k + 1, sb, by simpa using hk, hc⟩

/-- every source box consumed by an entry lies inside the span that entry hashes (or is empty) -/
def closedFrom (src : List SrcBox) : List NameSt → Nat → Prop
  | [], _ => True
  | st :: sts, idx =>
    (∀ k sb, idx ≤ k → k < st.idx → src[k]? = some sb →
      sb.len = 0 ∨ (st.start ≤ sb.start ∧ sb.start + sb.len ≤ st.start + st.len)) ∧
    closedFrom src sts st.idx

theorem closed_cover (src : List SrcBox) : ∀ (sts : List NameSt) (idx : Nat),
    closedFrom src sts idx → ∀ k sb x, idx ≤ k → k < lastIdx sts idx → src[k]? = some sb →
      sb.start ≤ x → x < sb.start + sb.len → ∃ st ∈ sts, st.start ≤ x ∧ x < st.start + st.len
  | [], idx, _, k, sb, x, h1, h2, _, _, _ => by simp only [lastIdx] at h2; omega
  | st :: sts, idx, hc, k, sb, x, h1, h2, hk, hx1, hx2 => by
    simp only [lastIdx] at h2
    by_cases hlt : k < st.idx
    · rcases hc.1 k sb h1 hlt hk with h0 | ⟨ha, hb⟩
      · omega
      · exact ⟨st, List.mem_cons_self, by omega, by omega⟩
    · obtain ⟨st2, hm, hh⟩ := closed_cover src sts st.idx hc.2 k sb x (by omega) h2 hk hx1 hx2
      exact ⟨st2, List.mem_cons_of_mem _ hm, hh⟩

/-- entries that list a single name each (what `BoxHash::generate_box_hash_from_stream` writes
with `minimal_form = false`, the only form the SDK signs with) are closed on every box map -/
theorem single_closed (src : List SrcBox) : ∀ (boxes : List BoxEntry) (idx : Nat) (sts : List NameSt),
    (∀ bm ∈ boxes, bm.names.length = 1) → spansOf src boxes idx = .ok sts → closedFrom src sts idx
  | [], idx, sts, _, h => by
    simp only [spansOf, Except.ok.injEq] at h
    subst h; trivial
  | bm :: rest, idx, sts, h1, h => by
    rw [spansOf] at h
    cases hn : nameLoop src bm.names.length bm.names
        { idx := idx, start := 0, len := 0, skip := false } with
    | error e => simp [hn] at h
    | ok st =>
      simp only [hn] at h
      cases hr : spansOf src rest st.idx with
      | error e => simp [hr] at h
      | ok sts' =>
        simp only [hr, Except.ok.injEq] at h
        subst h
        refine ⟨?_, single_closed src rest st.idx sts' (fun b hb => h1 b (List.mem_cons_of_mem _ hb)) hr⟩
        have hlen := h1 bm List.mem_cons_self
        match hnm : bm.names, hlen with
        | [x], _ =>
          rw [hnm] at hn
          obtain ⟨sb, st1, hsb, _, hi, h0, _, hrest⟩ := nameLoop_step hn
          simp only [nameLoop, Except.ok.injEq] at hrest
          subst hrest
          obtain ⟨hs, hl, _, _⟩ := h0 rfl
          intro k sb' hk1 hk2 hk
          simp only at hi hsb
          have : k = idx := by omega
          subst this
          rw [hsb] at hk
          cases hk
          right
          omega

/-- first source index is 0 or 1, and 1 only for a box map that starts with the PNG signature -/
theorem idx0_le_one (boxes : List BoxEntry) (src : List SrcBox) : idx0 boxes src = 0 ∨ idx0 boxes src = 1 := by
  have key : ∀ (c : Prop) [Decidable c],
      (if c then 1 else 0 : Nat) = 0 ∨ (if c then 1 else 0 : Nat) = 1 := by
    intro c _
    by_cases hc : c
    · right; rw [if_pos hc]
    · left; rw [if_neg hc]
  unfold idx0
  cases src.head? with
  | none => left; rfl
  | some first => exact key _

/-- **Coverage without a layout hypothesis.** When the verification succeeded on an asset that
is not just the manifest store and every source box lies inside its entry's span, every position
of the asset lies in the span of some entry, or in the PNG signature the assertion does not list. -/
theorem spans_cover_closed (boxes : List BoxEntry) (src : List SrcBox) (sts : List NameSt) (n : Nat)
    (hl : lastIdx sts (idx0 boxes src) = src.length)
    (hc : closedFrom src sts (idx0 boxes src)) (hcov : coverLoop src 0 = some n)
    (x : Nat) (hx : x < n) (hp : inSkippedPngh boxes src x = false) :
    ∃ st ∈ sts, st.start ≤ x ∧ x < st.start + st.len := by
  obtain ⟨_, hmem⟩ := coverLoop_mem src 0 n hcov
  obtain ⟨k, sb, hk, h1, h2⟩ := hmem x (Nat.zero_le _) hx
  have hklt : k < src.length := (List.getElem?_eq_some_iff.1 hk).1
  by_cases hk0 : idx0 boxes src ≤ k
  · exact closed_cover src sts _ hc k sb x hk0 (by rw [hl]; exact hklt) hk h1 h2
  · exfalso
    rcases idx0_le_one boxes src with h0 | h0
    · omega
    · have hk' : k = 0 := by omega
      subst hk'
      cases src with
      | nil => simp at hk
      | cons b bs =>
        simp only [List.getElem?_cons_zero, Option.some.injEq] at hk
        subst hk
        simp [inSkippedPngh, h0] at hp
        omega

/-- **Box-hash binding** (same layout): two assets that both verify against the same assertion
with the same tiling box map agree at every position that is not in a skipped (C2PA / excluded)
entry and not in an unlisted PNG signature box. (No premise on the second asset's length: it is
`boxhash_length_fixed` that makes the lengths equal.) -/
theorem boxhash_same_layout (boxes : List BoxEntry) (calg calg' : Option String) (src : List SrcBox)
    (a a' : List UInt8) (buf buf' : Nat)
    (hw : Tiles src 0 a.length) (hn : a.length ≤ u64Max)
    (h : verifyBox boxes calg (some src) a buf = .ok)
    (h' : verifyBox boxes calg' (some src) a' buf' = .ok) :
    ∃ sts, spansOf src boxes (idx0 boxes src) = .ok sts ∧
      ∀ x, x < a.length → unprotected boxes sts x = false → inSkippedPngh boxes src x = false →
        a[x]? = a'[x]? := by
  obtain ⟨_, _, sts, hs, hl, hok, _⟩ := verifyBox_ok boxes calg src a buf h
  obtain ⟨_, _, sts', hs', _, hok', _⟩ := verifyBox_ok boxes calg' src a' buf' h'
  rw [hs] at hs'
  cases hs'
  refine ⟨sts, hs, ?_⟩
  intro x hx hu hp
  obtain ⟨st, hm, hc1, hc2⟩ := spans_cover src a.length hw hn boxes sts hs hl x hx hp
  obtain ⟨bm, hz, he, he'⟩ := allOk_mem a a' boxes sts hok hok' st hm
  have hns : ∀ b, (b, st) ∈ boxes.zip sts → skipped b st = false := by
    intro b hb
    unfold unprotected at hu
    rw [List.any_eq_false] at hu
    have := hu (b, st) hb
    simpa [hc1, hc2] using this
  have e1 : slice a st.start st.len = bm.pre := by
    rcases he with he | he
    · rw [hns bm hz] at he; cases he
    · exact he.2
  have e2 : slice a' st.start st.len = bm.pre := by
    rcases he' with he' | he'
    · rw [hns bm hz] at he'; cases he'
    · exact he'.2
  rw [← slice_getElem? a st.start st.len x hc1 hc2, ← slice_getElem? a' st.start st.len x hc1 hc2,
    e1, e2]

/-! ### the box-hash statements without a layout hypothesis -/

/-- **What a verified box hash fixes, on any box map**: every entry of the signed assertion that
is not the C2PA entry and not marked `excluded` has a span inside the asset whose bytes are the
signed preimage of that entry. -/
theorem boxhash_protected (boxes : List BoxEntry) (calg : Option String) (src : List SrcBox)
    (a : List UInt8) (buf : Nat) (h : verifyBox boxes calg (some src) a buf = .ok) :
    ∃ sts, spansOf src boxes (idx0 boxes src) = .ok sts ∧ sts.length = boxes.length ∧
      ∀ p ∈ boxes.zip sts, entrySkipped p.1 = false →
        p.2.start + p.2.len ≤ a.length ∧ slice a p.2.start p.2.len = p.1.pre := by
  obtain ⟨_, _, sts, hs, _, hok, _⟩ := verifyBox_ok boxes calg src a buf h
  obtain ⟨hl, hz⟩ := spansOf_zip_skipped src boxes _ sts hs
  refine ⟨sts, hs, hl, ?_⟩
  intro p hp hsk
  rcases allOk_zip a boxes sts hok p hp with he | he
  · rw [hz p hp, hsk] at he; cases he
  · exact he

/-- the bytes of the asset that the assertion's hashes cover, entry by entry in order -/
def hashedContent (a : List UInt8) (boxes : List BoxEntry) (sts : List NameSt) : List UInt8 :=
  (boxes.zip sts).flatMap fun p => if entrySkipped p.1 then [] else slice a p.2.start p.2.len

/-- the signed preimages (H-free) of the hashed entries, in order -/
def signedContent (boxes : List BoxEntry) : List UInt8 :=
  boxes.flatMap fun bm => if entrySkipped bm then [] else bm.pre

theorem hashedContent_eq (a : List UInt8) : ∀ (boxes : List BoxEntry) (sts : List NameSt),
    sts.length = boxes.length →
    (∀ p ∈ boxes.zip sts, entrySkipped p.1 = false → slice a p.2.start p.2.len = p.1.pre) →
    hashedContent a boxes sts = signedContent boxes
  | [], [], _, _ => rfl
  | [], _ :: _, hl, _ => by simp at hl
  | _ :: _, [], hl, _ => by simp at hl
  | bm :: bs, st :: sts, hl, h => by
    have ih := hashedContent_eq a bs sts (by simpa using hl)
      (fun p hp => h p (by simp [hp]))
    have h0 := h (bm, st) (by simp)
    unfold hashedContent signedContent at *
    simp only [List.zip_cons_cons, List.flatMap_cons, ih]
    congr 1
    cases hsk : entrySkipped bm
    · simp only [Bool.false_eq_true, if_false]; exact h0 hsk
    · simp

/-- **`boxhash_binds_any_layout`.** Two assets that verify against the same signed box hash,
each under the box map its own handler run produced (different boundaries, different lengths
allowed), carry the same protected content: the concatenation of the hashed spans of either
asset is the concatenation of the signed preimages. -/
theorem boxhash_binds_any_layout (boxes : List BoxEntry) (calg calg' : Option String)
    (src src' : List SrcBox) (a a' : List UInt8) (buf buf' : Nat)
    (h : verifyBox boxes calg (some src) a buf = .ok)
    (h' : verifyBox boxes calg' (some src') a' buf' = .ok) :
    ∃ sts sts', spansOf src boxes (idx0 boxes src) = .ok sts ∧
      spansOf src' boxes (idx0 boxes src') = .ok sts' ∧
      hashedContent a boxes sts = signedContent boxes ∧
      hashedContent a' boxes sts' = signedContent boxes := by
  obtain ⟨sts, hs, hl, hp⟩ := boxhash_protected boxes calg src a buf h
  obtain ⟨sts', hs', hl', hp'⟩ := boxhash_protected boxes calg' src' a' buf' h'
  exact ⟨sts, sts', hs, hs', hashedContent_eq a boxes sts hl (fun p m k => (hp p m k).2),
    hashedContent_eq a' boxes sts' hl' (fun p m k => (hp' p m k).2)⟩

/-- the number of source boxes is fixed by the assertion (plus the unlisted PNG signature) -/
theorem verifyBox_box_count (boxes : List BoxEntry) (calg : Option String) (src : List SrcBox)
    (a : List UInt8) (buf : Nat) (h : verifyBox boxes calg (some src) a buf = .ok) :
    src.length = idx0 boxes src + nameCount boxes := by
  obtain ⟨_, _, sts, hs, hl, _, _⟩ := verifyBox_ok boxes calg src a buf h
  rw [← hl, spansOf_lastIdx src boxes _ sts hs]

theorem idx0_append (boxes : List BoxEntry) (src extra : List SrcBox) (hs : src ≠ []) :
    idx0 boxes (src ++ extra) = idx0 boxes src := by
  cases src with
  | nil => exact absurd rfl hs
  | cons b bs => rfl

/-- **Extra boxes are rejected (general form of F5's second half).** If an asset verifies under
the box map `src`, no asset verifies under a box map that continues `src` with further boxes:
a chunk / segment appended or inserted after the listed ones is covered by no hash. -/
theorem boxhash_extra_box_rejected_all (boxes : List BoxEntry) (calg calg' : Option String)
    (src extra : List SrcBox) (a a' : List UInt8) (buf buf' : Nat) (he : extra ≠ [])
    (h : verifyBox boxes calg (some src) a buf = .ok) :
    verifyBox boxes calg' (some (src ++ extra)) a' buf' ≠ .ok := by
  intro h'
  have hs : src ≠ [] := (verifyBox_ok boxes calg src a buf h).2.1
  have c1 := verifyBox_box_count boxes calg src a buf h
  have c2 := verifyBox_box_count boxes calg' (src ++ extra) a' buf' h'
  rw [idx0_append boxes src extra hs, List.length_append] at c2
  have : extra.length = 0 := by omega
  exact he (List.eq_nil_of_length_eq_zero this)

/-- **The length is fixed (general form of F5's first half).** Under one box map that is not
just the manifest store, all assets that verify have the same length: appended or truncated
bytes that leave the box map unchanged are rejected. -/
theorem boxhash_length_fixed (boxes : List BoxEntry) (calg calg' : Option String)
    (src : List SrcBox) (a a' : List UInt8) (buf buf' : Nat) (hno : onlyC2pa src = false)
    (h : verifyBox boxes calg (some src) a buf = .ok)
    (h' : verifyBox boxes calg' (some src) a' buf' = .ok) : a.length = a'.length := by
  obtain ⟨_, _, _, _, _, _, hc⟩ := verifyBox_ok boxes calg src a buf h
  obtain ⟨_, _, _, _, _, _, hc'⟩ := verifyBox_ok boxes calg' src a' buf' h'
  rcases hc with hc | hc
  · rw [hno] at hc; cases hc
  · rcases hc' with hc' | hc'
    · rw [hno] at hc'; cases hc'
    · rw [hc] at hc'; exact Option.some.inj hc'

theorem boxhash_append_rejected_all (boxes : List BoxEntry) (calg calg' : Option String)
    (src : List SrcBox) (a extra : List UInt8) (buf buf' : Nat) (hno : onlyC2pa src = false)
    (he : extra ≠ []) (h : verifyBox boxes calg (some src) a buf = .ok) :
    verifyBox boxes calg' (some src) (a ++ extra) buf' ≠ .ok := by
  intro h'
  have := boxhash_length_fixed boxes calg calg' src a (a ++ extra) buf buf' hno h h'
  rw [List.length_append] at this
  have : extra.length = 0 := by omega
  exact he (List.eq_nil_of_length_eq_zero this)

theorem mem_zip_right {α β : Type} : ∀ (l1 : List α) (l2 : List β), l2.length = l1.length →
    ∀ y ∈ l2, ∃ x, (x, y) ∈ l1.zip l2
  | [], [], _, y, hy => by cases hy
  | [], _ :: _, hl, _, _ => by simp at hl
  | _ :: _, [], hl, _, _ => by simp at hl
  | x :: xs, z :: zs, hl, y, hy => by
    rcases List.mem_cons.1 hy with rfl | hy
    · exact ⟨x, by simp⟩
    · obtain ⟨x', hx'⟩ := mem_zip_right xs zs (by simpa using hl) y hy
      exact ⟨x', by simp [hx']⟩

/-- **Every byte is accounted for (single-name entries, any box map).** For an assertion in the
form the SDK signs (one name per entry) and an asset that is not just the manifest store, a
successful verification means: every position of the asset lies in the PNG signature the
assertion does not list, or in the span of an entry; that entry is the C2PA entry / marked
`excluded`, or the bytes of its span are exactly the signed preimage. No hypothesis on the box
map: overlapping maps (JPEG `RSTn` inside `SOS`) are included. -/
theorem boxhash_every_byte (boxes : List BoxEntry) (calg : Option String) (src : List SrcBox)
    (a : List UInt8) (buf : Nat) (h1 : ∀ bm ∈ boxes, bm.names.length = 1)
    (hno : onlyC2pa src = false) (h : verifyBox boxes calg (some src) a buf = .ok) :
    ∃ sts, spansOf src boxes (idx0 boxes src) = .ok sts ∧
      ∀ x, x < a.length → inSkippedPngh boxes src x = true ∨
        ∃ p ∈ boxes.zip sts, p.2.start ≤ x ∧ x < p.2.start + p.2.len ∧
          (entrySkipped p.1 = true ∨
            (p.2.start + p.2.len ≤ a.length ∧ slice a p.2.start p.2.len = p.1.pre)) := by
  obtain ⟨_, _, sts0, hs0, hl0, _, hc⟩ := verifyBox_ok boxes calg src a buf h
  obtain ⟨sts, hs, hlen, hp⟩ := boxhash_protected boxes calg src a buf h
  rw [hs0] at hs; cases hs
  refine ⟨sts0, hs0, ?_⟩
  intro x hx
  have hcov : coverLoop src 0 = some a.length := by
    rcases hc with hc | hc
    · rw [hno] at hc; cases hc
    · exact hc
  cases hpn : inSkippedPngh boxes src x
  · right
    obtain ⟨st, hm, hx1, hx2⟩ := spans_cover_closed boxes src sts0 a.length hl0
      (single_closed src boxes _ sts0 h1 hs0) hcov x hx hpn
    obtain ⟨bm, hz⟩ := mem_zip_right boxes sts0 hlen st hm
    refine ⟨(bm, st), hz, hx1, hx2, ?_⟩
    cases hsk : entrySkipped bm
    · right; exact hp (bm, st) hz hsk
    · left; rfl
  · left; rfl

/-- **`boxhash_binds_single`.** Two assets that verify against the same single-name assertion
under the same box map (any shape) have the same length and agree at every position outside
the C2PA / excluded entries and the unlisted PNG signature. -/
theorem boxhash_binds_single (boxes : List BoxEntry) (calg calg' : Option String) (src : List SrcBox)
    (a a' : List UInt8) (buf buf' : Nat) (h1 : ∀ bm ∈ boxes, bm.names.length = 1)
    (hno : onlyC2pa src = false)
    (h : verifyBox boxes calg (some src) a buf = .ok)
    (h' : verifyBox boxes calg' (some src) a' buf' = .ok) :
    a.length = a'.length ∧
    ∃ sts, spansOf src boxes (idx0 boxes src) = .ok sts ∧
      ∀ x, x < a.length → unprotected boxes sts x = false → inSkippedPngh boxes src x = false →
        a[x]? = a'[x]? := by
  refine ⟨boxhash_length_fixed boxes calg calg' src a a' buf buf' hno h h', ?_⟩
  obtain ⟨sts, hs, hall⟩ := boxhash_every_byte boxes calg src a buf h1 hno h
  obtain ⟨sts', hs', _, hp'⟩ := boxhash_protected boxes calg' src a' buf' h'
  rw [hs] at hs'; cases hs'
  obtain ⟨_, hz⟩ := spansOf_zip_skipped src boxes _ sts hs
  refine ⟨sts, hs, ?_⟩
  intro x hx hu hpn
  rcases hall x hx with hh | ⟨p, hm, hx1, hx2, hh⟩
  · rw [hpn] at hh; cases hh
  · have hns : entrySkipped p.1 = false := by
      unfold unprotected at hu
      rw [List.any_eq_false] at hu
      have := hu p hm
      rw [hz p hm] at this
      simpa [hx1, hx2] using this
    rcases hh with hh | ⟨_, e1⟩
    · rw [hns] at hh; cases hh
    · have e2 := (hp' p hm hns).2
      rw [← slice_getElem? a p.2.start p.2.len x hx1 hx2,
        ← slice_getElem? a' p.2.start p.2.len x hx1 hx2, e1, e2]

end C2pa.C01
