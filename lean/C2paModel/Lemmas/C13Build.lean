import C2paModel.Lemmas.C13Spec
import C2paModel.Lemmas.C13RunOk
/-
C13 — facts about `buildPieces`: the end check, the inclusion branch, well-formedness of the
resulting pieces, absence of panics.
-/
namespace C2pa.C13

theorem checkedAdd_some {a b e : Nat} (h : checkedAdd a b = some e) : e = a + b ∧ a + b ≤ u64Max := by
  unfold checkedAdd at h
  by_cases hb : a + b ≤ u64Max
  · simp [hb] at h; exact ⟨h.symm, hb⟩
  · simp [hb] at h

theorem checkedAdd_none {a b : Nat} (h : checkedAdd a b = none) : a + b > u64Max := by
  unfold checkedAdd at h
  by_cases hb : a + b ≤ u64Max
  · simp [hb] at h
  · omega

theorem checkedAdd_ok {a b : Nat} (h : a + b ≤ u64Max) : checkedAdd a b = some (a + b) := by
  unfold checkedAdd; simp [h]

/-! ### the end check -/

theorem maxEnd_some : ∀ (hr : List HashRange) (m e : Nat), maxEnd hr m = some e →
    m ≤ e ∧ ∀ x ∈ hr, x.start + x.length ≤ e ∧ x.start + x.length ≤ u64Max := by
  intro hr
  induction hr with
  | nil => intro m e h; simp [maxEnd] at h; subst h; exact ⟨Nat.le_refl _, fun x hx => by cases hx⟩
  | cons r rs ih =>
    intro m e h
    unfold maxEnd at h
    cases hc : checkedAdd r.start r.length with
    | none => simp [hc] at h
    | some e1 =>
      simp only [hc] at h
      obtain ⟨he, hb⟩ := checkedAdd_some hc
      obtain ⟨h1, h2⟩ := ih _ _ h
      have : max m e1 ≤ e := h1
      refine ⟨by omega, ?_⟩
      intro x hx
      rcases List.mem_cons.1 hx with rfl | hx
      · exact ⟨by omega, hb⟩
      · exact h2 x hx

theorem maxEnd_none : ∀ (hr : List HashRange) (m : Nat), maxEnd hr m = none →
    ∃ x ∈ hr, x.start + x.length > u64Max := by
  intro hr
  induction hr with
  | nil => intro m h; simp [maxEnd] at h
  | cons r rs ih =>
    intro m h
    unfold maxEnd at h
    cases hc : checkedAdd r.start r.length with
    | none => exact ⟨r, List.mem_cons_self .., checkedAdd_none hc⟩
    | some e1 =>
      simp only [hc] at h
      obtain ⟨x, hx, hb⟩ := ih _ h
      exact ⟨x, List.mem_cons_of_mem _ hx, hb⟩

theorem maxEnd_bound : ∀ (hr : List HashRange) (m n : Nat), m ≤ n → n ≤ u64Max →
    (∀ x ∈ hr, x.start + x.length ≤ n) → ∃ e, maxEnd hr m = some e ∧ e ≤ n := by
  intro hr
  induction hr with
  | nil => intro m n h _ _; exact ⟨m, rfl, h⟩
  | cons r rs ih =>
    intro m n h hn hall
    have hr := hall r (List.mem_cons_self ..)
    unfold maxEnd
    rw [checkedAdd_ok (by omega)]
    exact ih _ n (by omega) hn (fun x hx => hall x (List.mem_cons_of_mem _ hx))

/-! ### inclusion branch -/

/-- bytes one inclusion entry contributes: nothing when empty, else its BMFF offset (if it
carries one) followed by its bytes -/
def entryBytes (data : List UInt8) (x : HashRange) : List UInt8 :=
  if x.length = 0 then []
  else (match x.off with | some o => be64 o | none => []) ++ (data.drop x.start).take x.length

/-- **Specification of inclusion hashing**: the entries in start order (stable). -/
def inclSpec (data : List UInt8) (hr : List HashRange) : List UInt8 :=
  (stableSort HashRange.start hr).flatMap (entryBytes data)

theorem inclLoop_spec (data : List UInt8) : ∀ (l : List HashRange) (ps : List Piece),
    inclLoop l = .ok ps → ps.flatMap (pieceBytes data) = l.flatMap (entryBytes data) := by
  intro l
  induction l with
  | nil => intro ps h; simp [inclLoop] at h; subst h; rfl
  | cons x xs ih =>
    intro ps h
    unfold inclLoop at h
    rw [List.flatMap_cons]
    by_cases hl : x.length = 0
    · simp only [hl, if_true] at h
      rw [ih ps h]; simp [entryBytes, hl]
    · simp only [hl, if_false] at h
      cases hc : checkedAdd x.start x.length with
      | none => simp [hc] at h
      | some e1 =>
        simp only [hc] at h
        obtain ⟨he, _⟩ := checkedAdd_some hc
        have hz : ¬ e1 = 0 := by omega
        simp only [hz, if_false] at h
        cases hi : inclLoop xs with
        | error o => simp [hi] at h
        | ok qs =>
          simp only [hi, Except.ok.injEq] at h
          subst h
          rw [List.flatMap_append, List.flatMap_cons, ih qs hi]
          have hd : pieceBytes data ⟨x.start, e1 - 1, false⟩ = (data.drop x.start).take x.length := by
            simp only [pieceBytes, Bool.false_eq_true, if_false]
            congr 1; omega
          rw [hd]
          cases ho : x.off with
          | none => simp [entryBytes, hl, ho]
          | some o => simp [entryBytes, hl, ho, pieceBytes]

theorem inclLoop_error : ∀ (l : List HashRange) (o : Stop), inclLoop l = .error o →
    o = .err .badparam [] := by
  intro l
  induction l with
  | nil => intro o h; simp [inclLoop] at h
  | cons x xs ih =>
    intro o h
    unfold inclLoop at h
    by_cases hl : x.length = 0
    · simp only [hl, if_true] at h; exact ih o h
    · simp only [hl, if_false] at h
      cases hc : checkedAdd x.start x.length with
      | none => simp [hc] at h; exact h.symm
      | some e1 =>
        simp only [hc] at h
        obtain ⟨he, _⟩ := checkedAdd_some hc
        have hz : ¬ e1 = 0 := by omega
        simp only [hz, if_false] at h
        cases hi : inclLoop xs with
        | error o' => simp [hi] at h; subst h; exact ih _ hi
        | ok qs => simp [hi] at h

theorem inclLoop_pieces (data : List UInt8) : ∀ (l : List HashRange) (ps : List Piece),
    inclLoop l = .ok ps → (∀ x ∈ l, x.start + x.length ≤ data.length) → data.length ≤ u64Max →
    ∀ p ∈ ps, PieceOK data p := by
  intro l
  induction l with
  | nil => intro ps h _ _ p hp; simp [inclLoop] at h; subst h; cases hp
  | cons x xs ih =>
    intro ps h hall hn p hp
    unfold inclLoop at h
    have hall' : ∀ y ∈ xs, y.start + y.length ≤ data.length :=
      fun y hy => hall y (List.mem_cons_of_mem _ hy)
    by_cases hl : x.length = 0
    · simp only [hl, if_true] at h; exact ih ps h hall' hn p hp
    · simp only [hl, if_false] at h
      cases hc : checkedAdd x.start x.length with
      | none => simp [hc] at h
      | some e1 =>
        simp only [hc] at h
        obtain ⟨he, _⟩ := checkedAdd_some hc
        have hz : ¬ e1 = 0 := by omega
        simp only [hz, if_false] at h
        cases hi : inclLoop xs with
        | error o => simp [hi] at h
        | ok qs =>
          simp only [hi, Except.ok.injEq] at h
          subst h
          have hx := hall x (List.mem_cons_self ..)
          have hdata : PieceOK data ⟨x.start, e1 - 1, false⟩ := by
            unfold PieceOK
            refine ⟨?_, ?_, ?_, ?_⟩
            · show x.start ≤ e1 - 1; omega
            · show e1 - 1 - x.start + 1 ≤ u64Max; omega
            · intro h; cases h
            · right; show e1 - 1 < data.length; omega
          rcases List.mem_append.1 hp with hp | hp
          · cases ho : x.off with
            | none => simp [ho] at hp
            | some o =>
              simp only [ho, List.mem_singleton] at hp
              subst hp
              unfold PieceOK
              refine ⟨Nat.le_refl _, ?_, fun _ => rfl, Or.inl rfl⟩
              show o - o + 1 ≤ u64Max
              simp [u64Max]
          · rcases List.mem_cons.1 hp with rfl | hp
            · exact hdata
            · exact ih qs hi hall' hn p hp

theorem inclLoop_ok : ∀ (l : List HashRange), (∀ x ∈ l, x.start + x.length ≤ u64Max) →
    ∃ ps, inclLoop l = .ok ps := by
  intro l
  induction l with
  | nil => intro _; exact ⟨[], rfl⟩
  | cons x xs ih =>
    intro hall
    obtain ⟨qs, hq⟩ := ih (fun y hy => hall y (List.mem_cons_of_mem _ hy))
    unfold inclLoop
    by_cases hl : x.length = 0
    · simp only [hl, if_true]; exact ⟨qs, hq⟩
    · simp only [hl, if_false]
      rw [checkedAdd_ok (hall x (List.mem_cons_self ..))]
      have hz : ¬ x.start + x.length = 0 := by omega
      simp only [hz, if_false, hq]
      exact ⟨_, rfl⟩

/-! ### exclusion loop never fails on checked input -/

theorem exclLoop_ok : ∀ (l : List HashRange) (rs : List (Nat × Nat)) (ms : List Nat),
    (∀ x ∈ l, x.start + x.length ≤ u64Max) → ∃ r, exclLoop l rs ms = .ok r := by
  intro l
  induction l with
  | nil => intro rs ms _; exact ⟨_, rfl⟩
  | cons x xs ih =>
    intro rs ms hall
    have hall' : ∀ y ∈ xs, y.start + y.length ≤ u64Max := fun y hy => hall y (List.mem_cons_of_mem _ hy)
    unfold exclLoop
    cases ho : x.off with
    | some o => simp only; exact ih _ _ hall'
    | none =>
      simp only
      by_cases hl : x.length = 0
      · simp only [hl, if_true]; exact ih _ _ hall'
      · simp only [hl, if_false]
        rw [checkedAdd_ok (hall x (List.mem_cons_self ..))]
        have hz : ¬ x.start + x.length = 0 := by omega
        simp only [hz, if_false]
        exact ih _ _ hall'

theorem exclLoop_error : ∀ (l : List HashRange) (rs : List (Nat × Nat)) (ms : List Nat) (e : Err),
    exclLoop l rs ms = .error e → e = .badparam := by
  intro l
  induction l with
  | nil => intro rs ms e h; simp [exclLoop] at h
  | cons x xs ih =>
    intro rs ms e h
    unfold exclLoop at h
    cases ho : x.off with
    | some o => simp only [ho] at h; exact ih _ _ _ h
    | none =>
      simp only [ho] at h
      by_cases hl : x.length = 0
      · simp only [hl, if_true] at h; exact ih _ _ _ h
      · simp only [hl, if_false] at h
        cases hc : checkedAdd x.start x.length with
        | none => simp [hc] at h; exact h.symm
        | some e1 =>
          simp only [hc] at h
          by_cases hz : e1 = 0
          · simp [hz] at h; exact h.symm
          · simp only [hz, if_false] at h; exact ih _ _ _ h

/-! ### `WF` pieces are `PieceOK` -/

theorem WF_pieceOK {N : Nat} (data : List UInt8) (hN : N = data.length) (hn : N ≤ u64Max) :
    ∀ (L : List Piece) (k : Nat), WF N k L → ∀ p ∈ L, PieceOK data p := by
  intro L
  induction L with
  | nil => intro k _ p hp; cases hp
  | cons q qs ih =>
    intro k h p hp
    obtain ⟨w1, w2, w3, w4⟩ := h
    rcases List.mem_cons.1 hp with rfl | hp
    · refine ⟨w2, by omega, ?_, Or.inr (by omega)⟩
      intro hm
      simp only [hm, if_true] at w4
      exact w4.1
    · by_cases hm : q.marker = true
      · simp only [hm, if_true] at w4
        exact ih _ w4.2 p hp
      · simp only [hm] at w4
        exact ih _ w4 p hp

end C2pa.C13
