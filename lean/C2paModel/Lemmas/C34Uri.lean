import C2paModel.Lemmas.C34
/-
C34 — absolute / relative JUMBF URIs: normal forms and what every reader returns on them.
-/
set_option linter.unusedSimpArgs false
namespace C2pa.C34


/-- segment usable inside a JUMBF URI -/
def okSeg (s : Str) : Prop := '/' ∉ s ∧ '=' ∉ s

instance (s : Str) : Decidable (okSeg s) := by unfold okSeg; infer_instance

/-- absolute URI with the given path segments after the manifest store -/
def absUri (segs : List Str) : Str := cJumbfPrefix ++ '=' :: joinWith '/' ([] :: cManifestStore :: segs)

theorem toManifestUri_eq (m : Str) : toManifestUri m = absUri [m] := by
  simp [toManifestUri, absUri, joinWith]
theorem toAssertionUri_eq (m a : Str) : toAssertionUri m a = absUri [m, cAssertions, a] := by
  simp [toAssertionUri, toManifestUri, absUri, joinWith]
theorem toSignatureUri_eq (m : Str) : toSignatureUri m = absUri [m, cSignature] := by
  simp [toSignatureUri, toManifestUri, absUri, joinWith]
theorem toDataboxUri_eq (m a : Str) : toDataboxUri m a = absUri [m, cDataboxes, a] := by
  simp [toDataboxUri, toManifestUri, absUri, joinWith]
theorem toCredentialUri_eq (m a : Str) : toCredentialUri m a = absUri [m, cCredentials, a] := by
  simp [toCredentialUri, toManifestUri, absUri, joinWith]

theorem okSeg_store : okSeg cManifestStore := by decide
theorem okSeg_assertions : okSeg cAssertions := by decide
theorem okSeg_signature : okSeg cSignature := by decide
theorem okSeg_databoxes : okSeg cDataboxes := by decide
theorem okSeg_credentials : okSeg cCredentials := by decide

theorem joinWith_nil_cons (sep : Char) (x : Str) (l : List Str) :
    joinWith sep ([] :: x :: l) = sep :: joinWith sep (x :: l) := by simp [joinWith]

/-- normal form and segments of an absolute URI -/
theorem absUri_norm {segs : List Str} (h : ∀ x ∈ segs, okSeg x) :
    toNormalizedUri (absUri segs) = some (joinWith '/' ([] :: cManifestStore :: segs))
    ∧ splitOnC '/' (joinWith '/' ([] :: cManifestStore :: segs)) = [] :: cManifestStore :: segs := by
  have hall : ∀ x ∈ ([] : Str) :: cManifestStore :: segs, okSeg x := by
    intro x hx
    rcases List.mem_cons.mp hx with rfl | hx
    · simp [okSeg]
    rcases List.mem_cons.mp hx with rfl | hx
    · exact okSeg_store
    · exact h x hx
  constructor
  · have hne : '=' ∉ joinWith '/' ([] :: cManifestStore :: segs) := by
      intro hm
      rcases mem_joinWith hm with h1 | ⟨x, hx, hc⟩
      · exact absurd h1 (by decide)
      · exact (hall x hx).2 hc
    rw [absUri, norm_prefixed hne, joinWith_nil_cons, addSlash_slash]
  · exact split_join '/' _ (by simp) (fun x hx => (hall x hx).1)


theorem okSegs_cons {m : Str} {tail : List Str} (hm : okSeg m) (ht : ∀ x ∈ tail, okSeg x) :
    ∀ x ∈ m :: tail, okSeg x := by
  intro x hx; rcases List.mem_cons.mp hx with rfl | hx
  · exact hm
  · exact ht x hx

theorem okSegs_nil : ∀ x ∈ ([] : List Str), okSeg x := by simp

theorem mlabel_abs {m : Str} {tail : List Str} (hm : okSeg m) (ht : ∀ x ∈ tail, okSeg x) :
    manifestLabelFromUri (absUri (m :: tail)) = some (some m) := by
  obtain ⟨hn, hs⟩ := absUri_norm (okSegs_cons hm ht)
  simp [manifestLabelFromUri, hn, hs, lenGtAndEq, idx]

theorem alabel_abs {m box a : Str} {tail : List Str} (hm : okSeg m) (hb : okSeg box) (ha : okSeg a)
    (ht : ∀ x ∈ tail, okSeg x) (hbox : box = cAssertions ∨ box = cDataboxes) :
    assertionLabelFromUri (absUri (m :: box :: a :: tail)) = some (some a) := by
  obtain ⟨hn, hs⟩ := absUri_norm (okSegs_cons hm (okSegs_cons hb (okSegs_cons ha ht)))
  rcases hbox with rfl | rfl <;> simp [assertionLabelFromUri, hn, hs, lenGtAndEq, idx]

theorem box_abs {segs : List Str} (h : ∀ x ∈ segs, okSeg x) :
    boxNameFromUri (absUri segs) = some ((cManifestStore :: segs).getLast?) := by
  obtain ⟨hn, hs⟩ := absUri_norm h
  simp [boxNameFromUri, hn, hs, List.getLast?_cons_cons]

theorem abs_abs {m0 m : Str} {tail : List Str} (hm : okSeg m) (ht : ∀ x ∈ tail, okSeg x) :
    toAbsoluteUri m0 (absUri (m :: tail)) = some (absUri (m :: tail)) := by
  obtain ⟨hn, hs⟩ := absUri_norm (okSegs_cons hm ht)
  simp [toAbsoluteUri, hn, hs, lenGtAndEq, idx]

/-- relative URI `self#jumbf=<box>/<a>/…` -/
def relUri (segs : List Str) : Str := cJumbfPrefix ++ '=' :: joinWith '/' segs

theorem rel_abs {m box a : Str} {tail : List Str} (hm : okSeg m) (hb : okSeg box) (ha : okSeg a)
    (ht : ∀ x ∈ tail, okSeg x) :
    toRelativeUri (absUri (m :: box :: a :: tail)) = some (relUri (box :: a :: tail)) := by
  obtain ⟨hn, hs⟩ := absUri_norm (okSegs_cons hm (okSegs_cons hb (okSegs_cons ha ht)))
  simp [toRelativeUri, hn, hs, lenGtAndEq, idx, sliceFrom, relUri]

theorem rel_short {m : Str} (hm : okSeg m) :
    toRelativeUri (absUri [m]) = some (absUri [m]) := by
  obtain ⟨hn, hs⟩ := absUri_norm (okSegs_cons hm okSegs_nil)
  simp [toRelativeUri, hn, hs, lenGtAndEq, idx]

theorem rel_short2 {m b : Str} (hm : okSeg m) (hb : okSeg b) :
    toRelativeUri (absUri [m, b]) = some (absUri [m, b]) := by
  obtain ⟨hn, hs⟩ := absUri_norm (okSegs_cons hm (okSegs_cons hb okSegs_nil))
  simp [toRelativeUri, hn, hs, lenGtAndEq, idx]


theorem prefix_sep_eq {sep : Char} (a : Str) : ∀ {p b : Str}, sep ∉ p → sep ∉ b →
    (p ++ [sep]).isPrefixOf (b ++ sep :: a) = true → p = b := by
  intro p
  induction p with
  | nil =>
    intro b _ hb h
    cases b with
    | nil => rfl
    | cons y ys =>
      simp at h
      exact absurd (List.mem_cons.mpr (Or.inl h)) hb
  | cons x xs ih =>
    intro b hp hb h
    cases b with
    | nil =>
      simp at h
      exact absurd (List.mem_cons.mpr (Or.inl h.1.symm)) hp
    | cons y ys =>
      simp at h
      have hxs : sep ∉ xs := fun e => hp (List.mem_cons_of_mem _ e)
      have hys : sep ∉ ys := fun e => hb (List.mem_cons_of_mem _ e)
      have := ih hxs hys (by simpa using h.2)
      rw [h.1, this]

theorem addSlash_rel {box a : Str} (hb : '/' ∉ box) (hne : box ≠ cManifestStore) :
    addSlash (box ++ '/' :: a) = box ++ '/' :: a := by
  unfold addSlash
  split
  · next h =>
    simp only [Bool.and_eq_true] at h
    exact absurd (prefix_sep_eq a (by decide) hb h.2).symm hne
  · rfl

theorem relUri_norm {box a : Str} (hb : okSeg box) (ha : okSeg a) (hne : box ≠ cManifestStore) :
    toNormalizedUri (relUri [box, a]) = some (box ++ '/' :: a)
    ∧ splitOnC '/' (box ++ '/' :: a) = [box, a] := by
  constructor
  · have h : '=' ∉ box ++ '/' :: a := by
      simp only [List.mem_append, List.mem_cons, not_or]
      exact ⟨hb.2, by decide, ha.2⟩
    simp only [relUri, joinWith]
    rw [norm_prefixed h, addSlash_rel hb.1 hne]
  · rw [splitOnC_append_sep _ hb.1, splitOnC_of_not_mem ha.1]

theorem abs_rel {m box a : Str} (hb : okSeg box) (ha : okSeg a) (hne : box ≠ cManifestStore) :
    toAbsoluteUri m (relUri [box, a]) = some (absUri [m, box, a]) := by
  obtain ⟨hn, hs⟩ := relUri_norm hb ha hne
  simp [toAbsoluteUri, hn, hs, lenGtAndEq, idx, absUri, toManifestUri, joinWith]

theorem rel_rel {box a : Str} (hb : okSeg box) (ha : okSeg a) (hne : box ≠ cManifestStore) :
    toRelativeUri (relUri [box, a]) = some (relUri [box, a]) := by
  obtain ⟨hn, hs⟩ := relUri_norm hb ha hne
  simp [toRelativeUri, hn, hs, lenGtAndEq, idx]

theorem mlabel_rel {box a : Str} (hb : okSeg box) (ha : okSeg a) (hne : box ≠ cManifestStore) :
    manifestLabelFromUri (relUri [box, a]) = some none := by
  obtain ⟨hn, hs⟩ := relUri_norm hb ha hne
  simp [manifestLabelFromUri, hn, hs, lenGtAndEq, idx]

theorem alabel_rel {a : Str} (ha : okSeg a) :
    assertionLabelFromUri (relUri [cAssertions, a]) = some (some a) := by
  obtain ⟨hn, hs⟩ := relUri_norm okSeg_assertions ha (by decide)
  simp [assertionLabelFromUri, hn, hs, lenGtAndEq, idx]

theorem alabel_rel_databox {a : Str} (ha : okSeg a) :
    assertionLabelFromUri (relUri [cDataboxes, a]) = some none := by
  obtain ⟨hn, hs⟩ := relUri_norm okSeg_databoxes ha (by decide)
  simp [assertionLabelFromUri, hn, hs, lenGtAndEq, idx]
  decide

end C2pa.C34
