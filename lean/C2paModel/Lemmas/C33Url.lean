import C2paModel.Model.C33
/-
C33 — the "absolute URL" workaround of `SignerPayload::check_against_partial_claim`
(`ABSOLUTE_URL_PREFIX = /c2pa/[^/]+/`, leftmost match removed): what `stripAbs` does to a URL of
the shape `<pre>/c2pa/<label>/<rest>`, and that the manifest label plays no role in the match.
-/
namespace C2pa.C33

theorem c2paSeg_eq : c2paSeg = ['/', 'c', '2', 'p', 'a', '/'] := by decide

/-- `[^/]+/` consumes a non-empty label without `/` and the `/` after it. -/
theorem afterLabel_label (lbl rest : List Char) (hs : '/' ∉ lbl) :
    ∀ seen : Bool, (lbl ≠ [] ∨ seen = true) → afterLabel (lbl ++ '/' :: rest) seen = some rest := by
  induction lbl with
  | nil =>
    intro seen h
    rcases h with h | h
    · exact absurd rfl h
    · simp [afterLabel, h]
  | cons c cs ih =>
    intro seen _
    have hc : (c == '/') = false := by
      have : c ≠ '/' := fun e => hs (e ▸ List.mem_cons_self ..)
      simpa using this
    have hcs : '/' ∉ cs := fun m => hs (List.mem_cons_of_mem _ m)
    simp only [List.cons_append, afterLabel, hc, Bool.false_eq_true, if_false]
    exact ih hcs true (Or.inr rfl)

/-- An empty label does not match (`+`), nor does a label that is not closed by `/`. -/
theorem afterLabel_empty_label (rest : List Char) : afterLabel ('/' :: rest) false = none := by
  simp [afterLabel]

theorem matchAt_label (lbl rest : List Char) (hne : lbl ≠ []) (hs : '/' ∉ lbl) :
    matchAt (c2paSeg ++ lbl ++ '/' :: rest) = some rest := by
  unfold matchAt
  have hp : c2paSeg.isPrefixOf (c2paSeg ++ lbl ++ '/' :: rest) = true := by
    rw [List.isPrefixOf_iff_prefix]
    exact ⟨lbl ++ '/' :: rest, by simp⟩
  rw [if_pos hp]
  have hd : (c2paSeg ++ lbl ++ '/' :: rest).drop c2paSeg.length = lbl ++ '/' :: rest := by
    rw [List.append_assoc]; exact List.drop_left
  rw [hd]
  exact afterLabel_label lbl rest hs false (Or.inl hne)

/-- No match can start at a character other than `/`. -/
theorem matchAt_not_slash (x : Char) (t : List Char) (hx : x ≠ '/') : matchAt (x :: t) = none := by
  unfold matchAt
  have : c2paSeg.isPrefixOf (x :: t) = false := by
    rw [c2paSeg_eq]
    have hb : ('/' == x) = false := by
      have : '/' ≠ x := fun e => hx e.symm
      simpa using this
    simp [List.isPrefixOf, hb]
  simp [this]

/-- **`stripAbs_prefix`**: in `<pre>/c2pa/<label>/<rest>` — `pre` without `/` (as in
`self#jumbf=`), `label` non-empty and without `/` — exactly `/c2pa/<label>/` is removed, whatever
the label is. -/
theorem stripAbs_prefix (pre lbl rest : List Char) (hpre : '/' ∉ pre) (hne : lbl ≠ [])
    (hs : '/' ∉ lbl) : stripAbs (pre ++ c2paSeg ++ lbl ++ '/' :: rest) = pre ++ rest := by
  induction pre with
  | nil =>
    have hm := matchAt_label lbl rest hne hs
    have hshape : ([] : List Char) ++ c2paSeg ++ lbl ++ '/' :: rest
        = '/' :: (['c', '2', 'p', 'a', '/'] ++ lbl ++ '/' :: rest) := by
      rw [c2paSeg_eq]; rfl
    have hm' : matchAt ('/' :: (['c', '2', 'p', 'a', '/'] ++ lbl ++ '/' :: rest)) = some rest := by
      rw [← hshape]; simpa using hm
    rw [hshape]
    unfold stripAbs
    rw [hm']
    rfl
  | cons x xs ih =>
    have hx : x ≠ '/' := fun e => hpre (e ▸ List.mem_cons_self ..)
    have hxs : '/' ∉ xs := fun m => hpre (List.mem_cons_of_mem _ m)
    have hshape : (x :: xs) ++ c2paSeg ++ lbl ++ '/' :: rest
        = x :: (xs ++ c2paSeg ++ lbl ++ '/' :: rest) := by simp
    rw [hshape]
    unfold stripAbs
    rw [matchAt_not_slash x _ hx]
    simp only [List.cons_append, List.cons.injEq, true_and]
    exact ih hxs

/-- **The manifest label is discarded when matching**: a reference written relative
(`<pre><rest>`) matches the claim's assertion URL in absolute form for *any* manifest label. -/
theorem urlMatches_ignores_manifest_label (pre lbl rest : List Char) (hpre : '/' ∉ pre)
    (hne : lbl ≠ []) (hs : '/' ∉ lbl) :
    urlMatches (pre ++ c2paSeg ++ lbl ++ '/' :: rest) (pre ++ rest) = true := by
  unfold urlMatches
  rw [stripAbs_prefix pre lbl rest hpre hne hs]
  simp

/-- … in particular two absolute URLs that differ only in the manifest label are matched by the
same relative reference. -/
theorem urlMatches_any_two_labels (pre l1 l2 rest : List Char) (hpre : '/' ∉ pre)
    (h1 : l1 ≠ [] ∧ '/' ∉ l1) (h2 : l2 ≠ [] ∧ '/' ∉ l2) :
    urlMatches (pre ++ c2paSeg ++ l1 ++ '/' :: rest) (pre ++ rest) = true ∧
    urlMatches (pre ++ c2paSeg ++ l2 ++ '/' :: rest) (pre ++ rest) = true :=
  ⟨urlMatches_ignores_manifest_label pre l1 rest hpre h1.1 h1.2,
   urlMatches_ignores_manifest_label pre l2 rest hpre h2.1 h2.2⟩

/-- The workaround is one-directional: only the *claim's* URL is stripped. An absolute reference
does not match a relative claim URL. -/
example : urlMatches "self#jumbf=c2pa.assertions/c2pa.hash.data".toList
    "self#jumbf=/c2pa/urn:c2pa:1/c2pa.assertions/c2pa.hash.data".toList = false := by decide

example : stripAbs "self#jumbf=/c2pa/urn:c2pa:1/c2pa.assertions/c2pa.hash.data".toList
    = "self#jumbf=c2pa.assertions/c2pa.hash.data".toList := by decide

/-- only the leftmost match is removed; an empty label is no match -/
example : stripAbs "a/c2pa//c2pa/x/y/c2pa/z/w".toList = "a/c2pa/y/c2pa/z/w".toList := by decide

end C2pa.C33
