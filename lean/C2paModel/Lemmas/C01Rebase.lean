import C2paModel.Lemmas.C01Data
/-
C01 — the update-manifest re-basing of data-hash exclusions (`rebase`, Model/C01.lean) is sound
and complete: on an asset whose manifest store grew from `M` to `M'` (update manifest appended
to the store) the re-based exclusion list selects exactly the bytes the signed list selected on
the original asset.
-/
namespace C2pa.C01
open C2pa.C13

/-- the per-entry effect of the fix-up loop -/
def shiftOne (s adj : Nat) (x : HashRange) : HashRange :=
  if x.start > s then { x with start := x.start + adj } else x

theorem shiftAfter_eq (s adj : Nat) : ∀ (l : List HashRange),
    (∀ r ∈ l, r.start > s → r.start + adj ≤ u64Max) →
    shiftAfter s adj l = some (l.map (shiftOne s adj)) := by
  intro l
  induction l with
  | nil => intro _; rfl
  | cons x xs ih =>
    intro h
    have hx := h x (List.mem_cons_self ..)
    unfold shiftAfter
    rw [ih (fun r hr => h r (List.mem_cons_of_mem _ hr))]
    by_cases c : x.start > s
    · have : ¬ x.start + adj > u64Max := by have := hx c; omega
      simp [shiftOne, c, this]
    · simp [shiftOne, c]

theorem split_at {α : Type} : ∀ (l : List α) (i : Nat) (r : α), l[i]? = some r →
    l = l.take i ++ r :: l.drop (i + 1) ∧ (l.take i).length = i := by
  intro l
  induction l with
  | nil => intro i r h; simp at h
  | cons x xs ih =>
    intro i r h
    cases i with
    | zero => simp at h; simp [h]
    | succ i =>
      simp at h
      obtain ⟨a, b⟩ := ih i r h
      refine ⟨?_, by simp [b]⟩
      simp only [List.take_succ_cons, List.drop_succ_cons, List.cons_append]
      rw [← a]

theorem setAt_split (rg x : HashRange) : ∀ (l1 l2 : List HashRange),
    setAt rg l1.length (l1 ++ x :: l2) = l1 ++ rg :: l2 := by
  intro l1
  induction l1 with
  | nil => intro l2; rfl
  | cons y ys ih => intro l2; simp [setAt, ih]

/-- one entry covers position `x` -/
def cov (h : HashRange) (x : Nat) : Bool :=
  h.off.isNone && h.length != 0 && decide (h.start ≤ x) && decide (x < h.start + h.length)

theorem excluded_eq_any (l : List HashRange) (x : Nat) : excluded l x = l.any (cov · x) := rfl

theorem excluded_split (l1 l2 : List HashRange) (r : HashRange) (x : Nat) :
    excluded (l1 ++ r :: l2) x = (excluded l1 x || cov r x || excluded l2 x) := by
  simp [excluded_eq_any, List.any_append, Bool.or_assoc]

theorem excluded_congr (l : List HashRange) (f : HashRange → HashRange) (x x' : Nat)
    (h : ∀ r ∈ l, cov (f r) x' = cov r x) : excluded (l.map f) x' = excluded l x := by
  induction l with
  | nil => rfl
  | cons a as ih =>
    simp only [excluded_eq_any, List.map_cons, List.any_cons] at *
    rw [h a (List.mem_cons_self ..), ih (fun r hr => h r (List.mem_cons_of_mem _ hr))]


theorem cov_shift_low (p adj : Nat) (r : HashRange) (x : Nat) (hx : x < p) :
    cov (shiftOne p adj r) x = cov r x := by
  unfold shiftOne
  by_cases c : r.start > p
  · rw [if_pos c]
    have h1 : decide (r.start + adj ≤ x) = false := by simp; omega
    have h2 : decide (r.start ≤ x) = false := by simp; omega
    simp only [cov, h1, h2, Bool.and_false, Bool.false_and]
  · rw [if_neg c]

theorem cov_shift_high (p m m' : Nat) (r : HashRange) (k : Nat) (hm0 : 0 < m) (hm : m ≤ m')
    (ht : r.length = 0 ∨ r.start + r.length ≤ p ∨ p + m ≤ r.start) :
    cov (shiftOne p (m' - m) r) (p + m' + k) = cov r (p + m + k) := by
  unfold shiftOne
  by_cases hl : r.length = 0
  · have : (r.length != 0) = false := by simp [hl]
    by_cases c : r.start > p
    · rw [if_pos c]; simp only [cov, this, Bool.and_false, Bool.false_and]
    · rw [if_neg c]; simp only [cov, this, Bool.and_false, Bool.false_and]
  · by_cases c : r.start > p
    · rw [if_pos c]
      have h1 : decide (r.start + (m' - m) ≤ p + m' + k) = decide (r.start ≤ p + m + k) := by
        rw [Bool.eq_iff_iff]; simp only [decide_eq_true_eq]; omega
      have h2 : decide (p + m' + k < r.start + (m' - m) + r.length) =
          decide (p + m + k < r.start + r.length) := by
        rw [Bool.eq_iff_iff]; simp only [decide_eq_true_eq]; omega
      simp only [cov, h1, h2]
    · rw [if_neg c]
      have h1 : decide (p + m' + k < r.start + r.length) = false := by simp; omega
      have h2 : decide (p + m + k < r.start + r.length) = false := by simp; omega
      simp only [cov, h1, h2, Bool.and_false]

theorem sel_three (d : List UInt8) (e : Nat → Bool) (p m q : Nat) (hd : d.length = p + m + q) :
    (List.range d.length).flatMap (fun x => if e x then [] else byteAt d x) =
      (List.range p).flatMap (fun x => if e x then [] else byteAt d x) ++
      (List.range m).flatMap (fun k => if e (p + k) then [] else byteAt d (p + k)) ++
      (List.range q).flatMap (fun k => if e (p + m + k) then [] else byteAt d (p + m + k)) := by
  rw [hd, List.range_add, List.range_add, List.flatMap_append, List.flatMap_append,
    List.flatMap_map, List.flatMap_map]


theorem byteAt_pre (pre M post : List UInt8) (x : Nat) (hx : x < pre.length) :
    byteAt (pre ++ M ++ post) x = byteAt pre x := by
  unfold byteAt
  rw [List.append_assoc, List.getElem?_append_left hx]

theorem byteAt_post (pre M post : List UInt8) (k : Nat) :
    byteAt (pre ++ M ++ post) (pre.length + M.length + k) = byteAt post k := by
  unfold byteAt
  rw [List.getElem?_append_right (by simp)]
  simp

/-- The signed exclusion list `ex` contains the store range `(|pre|, |M|)` (the first entry that
starts at `|pre|`); every other non-empty entry lies entirely before the store or entirely after
it; the store does not sit at offset 0 (the code only shifts when `start_offset > 0`) and is not
empty; no `u64` overflow when shifting. Then re-basing with the store range found in the
validated asset, `(|pre|, |M'|)` with `|M'| ≥ |M|`, succeeds and the selection on
`pre ++ M' ++ post` equals the signed selection on `pre ++ M ++ post`. -/
theorem rebase_sound_complete (pre M M' post : List UInt8) (ex : List HashRange) (hp : Plain ex)
    (hpre : 0 < pre.length) (hM0 : 0 < M.length) (hM : M.length ≤ M'.length)
    (i : Nat) (hfind : findStart pre.length ex = some i)
    (hi : ex[i]? = some ⟨pre.length, M.length, none⟩)
    (hother : ∀ j r, ex[j]? = some r → j ≠ i →
      r.length = 0 ∨ r.start + r.length ≤ pre.length ∨ pre.length + M.length ≤ r.start)
    (hfit : ∀ r ∈ ex, r.start + (M'.length - M.length) ≤ u64Max) :
    ∃ ex', rebase ex (some ⟨pre.length, M'.length, none⟩) = some ex' ∧
      exclSpec (pre ++ M' ++ post) ex' = exclSpec (pre ++ M ++ post) ex := by
  obtain ⟨hsplit, hlen1⟩ := split_at ex i _ hi
  generalize ex.take i = l1 at hsplit hlen1
  generalize ex.drop (i + 1) = l2 at hsplit
  subst hlen1
  -- the other entries
  have hoth : ∀ r, r ∈ l1 ∨ r ∈ l2 →
      r.length = 0 ∨ r.start + r.length ≤ pre.length ∨ pre.length + M.length ≤ r.start := by
    intro r hr
    rcases hr with hr | hr
    · obtain ⟨j, hj⟩ := List.mem_iff_getElem?.1 hr
      have hjl : j < l1.length := (List.getElem?_eq_some_iff.1 hj).1
      refine hother j r ?_ (by omega)
      rw [hsplit, List.getElem?_append_left hjl]; exact hj
    · obtain ⟨j, hj⟩ := List.mem_iff_getElem?.1 hr
      refine hother (l1.length + 1 + j) r ?_ (by omega)
      rw [hsplit, List.getElem?_append_right (by omega)]
      have : l1.length + 1 + j - l1.length = j + 1 := by omega
      rw [this, List.getElem?_cons_succ]; exact hj
  subst hsplit
  -- the re-based list
  have hreb : rebase (l1 ++ ⟨pre.length, M.length, none⟩ :: l2) (some ⟨pre.length, M'.length, none⟩) =
      some ((l1 ++ ⟨pre.length, M'.length, none⟩ :: l2).map (shiftOne pre.length (M'.length - M.length))) := by
    unfold rebase
    simp only [hfind, hi, Option.map_some, Option.getD_some]
    rw [if_pos hpre, setAt_split]
    apply shiftAfter_eq
    intro r hr hgt
    rcases List.mem_append.1 hr with h | h
    · exact hfit r (List.mem_append_left _ h)
    · rcases List.mem_cons.1 h with h | h
      · subst h; simp at hgt
      · exact hfit r (List.mem_append_right _ (List.mem_cons_of_mem _ h))
  refine ⟨_, hreb, ?_⟩
  have hp1 : Plain l1 := fun r hr => hp r (List.mem_append_left _ hr)
  have hp2 : Plain l2 := fun r hr => hp r (List.mem_append_right _ (List.mem_cons_of_mem _ hr))
  have hsh_off : ∀ r : HashRange, (shiftOne pre.length (M'.length - M.length) r).off = r.off := by
    intro r; unfold shiftOne; split <;> rfl
  have hp' : Plain ((l1 ++ ⟨pre.length, M'.length, none⟩ :: l2).map
      (shiftOne pre.length (M'.length - M.length))) := by
    intro r hr
    obtain ⟨r0, hr0, rfl⟩ := List.mem_map.1 hr
    rw [hsh_off]
    rcases List.mem_append.1 hr0 with h | h
    · exact hp1 _ h
    · rcases List.mem_cons.1 h with h | h
      · subst h; rfl
      · exact hp2 _ h
  have hrg : shiftOne pre.length (M'.length - M.length) ⟨pre.length, M'.length, none⟩ =
      ⟨pre.length, M'.length, none⟩ := by simp [shiftOne]
  rw [exclSpec_plain _ _ hp', exclSpec_plain _ _ hp,
    sel_three _ _ pre.length M'.length post.length (by simp; omega),
    sel_three _ _ pre.length M.length post.length (by simp; omega)]
  rw [List.map_append, List.map_cons, hrg]
  congr 1
  · congr 1
    · apply flatMap_congr'
      intro x hx
      have hx1 := List.mem_range.1 hx
      rw [byteAt_pre _ _ _ _ hx1, byteAt_pre _ _ _ _ hx1, excluded_split, excluded_split,
        excluded_congr l1 _ x x (fun r _ => cov_shift_low _ _ r x hx1),
        excluded_congr l2 _ x x (fun r _ => cov_shift_low _ _ r x hx1)]
      have h1 : cov ⟨pre.length, M'.length, none⟩ x = false := by simp [cov]; omega
      have h2 : cov ⟨pre.length, M.length, none⟩ x = false := by simp [cov]; omega
      rw [h1, h2]
    · rw [flatMap_nil', flatMap_nil']
      · intro k hk
        have hk1 := List.mem_range.1 hk
        have : cov ⟨pre.length, M.length, none⟩ (pre.length + k) = true := by simp [cov]; exact ⟨List.ne_nil_of_length_pos (by omega), hk1⟩
        rw [excluded_split, this]; simp
      · intro k hk
        have hk1 := List.mem_range.1 hk
        have : cov ⟨pre.length, M'.length, none⟩ (pre.length + k) = true := by simp [cov]; exact ⟨List.ne_nil_of_length_pos (by omega), hk1⟩
        rw [excluded_split, this]; simp
  · apply flatMap_congr'
    intro k _
    rw [byteAt_post, byteAt_post, excluded_split, excluded_split,
      excluded_congr l1 _ (pre.length + M.length + k) (pre.length + M'.length + k)
        (fun r hr => cov_shift_high _ _ _ r k hM0 hM (hoth r (Or.inl hr))),
      excluded_congr l2 _ (pre.length + M.length + k) (pre.length + M'.length + k)
        (fun r hr => cov_shift_high _ _ _ r k hM0 hM (hoth r (Or.inr hr)))]
    have h1 : cov ⟨pre.length, M'.length, none⟩ (pre.length + M'.length + k) = false := by simp [cov]
    have h2 : cov ⟨pre.length, M.length, none⟩ (pre.length + M.length + k) = false := by simp [cov]
    rw [h1, h2]

/-! ### the re-based list in closed form; it stays marker-free and inside the grown asset -/

theorem mem_setAt (rg : HashRange) : ∀ (i : Nat) (l : List HashRange) (r : HashRange),
    r ∈ setAt rg i l → r = rg ∨ r ∈ l
  | _, [], r, h => by simp [setAt] at h
  | 0, x :: xs, r, h => by
    simp only [setAt, List.mem_cons] at h
    rcases h with h | h
    · exact Or.inl h
    · exact Or.inr (List.mem_cons_of_mem _ h)
  | n + 1, x :: xs, r, h => by
    simp only [setAt, List.mem_cons] at h
    rcases h with h | h
    · exact Or.inr (by simp [h])
    · rcases mem_setAt rg n xs r h with h | h
      · exact Or.inl h
      · exact Or.inr (List.mem_cons_of_mem _ h)

/-- closed form of the re-basing when the store range is found at a non-zero offset and the
shifted starts fit `u64` -/
theorem rebase_explicit (p m m' : Nat) (ex : List HashRange) (hpre : 0 < p) (i : Nat)
    (hfind : findStart p ex = some i) (hi : ex[i]? = some ⟨p, m, none⟩)
    (hfit : ∀ r ∈ ex, r.start + (m' - m) ≤ u64Max) :
    rebase ex (some ⟨p, m', none⟩) =
      some ((setAt ⟨p, m', none⟩ i ex).map (shiftOne p (m' - m))) := by
  unfold rebase
  simp only [hfind, hi, Option.map_some, Option.getD_some]
  rw [if_pos hpre]
  apply shiftAfter_eq
  intro r hr hgt
  rcases mem_setAt _ i ex r hr with h | h
  · subst h; simp at hgt
  · exact hfit r h

theorem rebased_plain (p m' adj : Nat) (i : Nat) (ex : List HashRange) (hp : Plain ex) :
    Plain ((setAt ⟨p, m', none⟩ i ex).map (shiftOne p adj)) := by
  intro r hr
  obtain ⟨r0, hr0, rfl⟩ := List.mem_map.1 hr
  have hoff : (shiftOne p adj r0).off = r0.off := by unfold shiftOne; split <;> rfl
  rw [hoff]
  rcases mem_setAt _ i ex r0 hr0 with h | h
  · subst h; rfl
  · exact hp r0 h

theorem rebased_within (p m m' n : Nat) (i : Nat) (ex : List HashRange) (hm : m ≤ m')
    (hin : (⟨p, m, none⟩ : HashRange) ∈ ex) (hw : Within ex n) :
    Within ((setAt ⟨p, m', none⟩ i ex).map (shiftOne p (m' - m))) (n + (m' - m)) := by
  intro r hr
  obtain ⟨r0, hr0, rfl⟩ := List.mem_map.1 hr
  have hst := hw _ hin
  simp only at hst
  rcases mem_setAt _ i ex r0 hr0 with h | h
  · subst h
    simp only [shiftOne, Nat.lt_irrefl, gt_iff_lt, if_false]
    omega
  · have := hw r0 h
    unfold shiftOne
    split
    · simp only; omega
    · omega

end C2pa.C01
