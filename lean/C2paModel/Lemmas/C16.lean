import C2paModel.Model.C16
/-
C16 — helper lemmas: structure of `nextLayer`/`genTree`/`layout`, and the two playback
invariants (completeness for every `comb`, soundness for injective `comb`).
-/
namespace C2pa.C16

variable {α : Type}

/-! ### nextLayer -/

theorem nextLayer_pair (comb : α → α → α) (l : List α) (j : Nat) (a b : α)
    (ha : l[2 * j]? = some a) (hb : l[2 * j + 1]? = some b) :
    (nextLayer comb l)[j]? = some (comb a b) := by
  fun_induction nextLayer comb l generalizing j with
  | case1 x y rest ih =>
    cases j with
    | zero => simp_all
    | succ j =>
      have h1 : 2 * (j + 1) = (2 * j + 1) + 1 := by omega
      have h2 : 2 * (j + 1) + 1 = (2 * j + 1 + 1) + 1 := by omega
      rw [h1] at ha
      rw [h2] at hb
      simp only [List.getElem?_cons_succ] at ha hb
      simp only [List.getElem?_cons_succ]
      exact ih j ha hb
  | case2 x =>
    cases j with
    | zero => simp at hb
    | succ j => simp at ha
  | case3 => simp at ha

theorem nextLayer_promote (comb : α → α → α) (l : List α) (j : Nat) (a : α)
    (ha : l[2 * j]? = some a) (hb : l[2 * j + 1]? = none) :
    (nextLayer comb l)[j]? = some a := by
  fun_induction nextLayer comb l generalizing j with
  | case1 x y rest ih =>
    cases j with
    | zero => simp at hb
    | succ j =>
      have h1 : 2 * (j + 1) = (2 * j + 1) + 1 := by omega
      have h2 : 2 * (j + 1) + 1 = (2 * j + 1 + 1) + 1 := by omega
      rw [h1] at ha
      rw [h2] at hb
      simp only [List.getElem?_cons_succ] at ha hb
      simp only [List.getElem?_cons_succ]
      exact ih j ha hb
  | case2 x =>
    cases j with
    | zero => simp_all
    | succ j => simp at ha
  | case3 => simp at ha

theorem nextLayer_length' (comb : α → α → α) (l : List α) :
    (nextLayer comb l).length = (l.length + 1) / 2 := by
  rw [nextLayer_length, parentCnt_eq]

/-! ### genTree / layout / rows -/

theorem genTree_big (comb : α → α → α) (cur : List α) (h : 1 < cur.length) :
    genTree comb cur = cur :: genTree comb (nextLayer comb cur) := by
  rw [genTree]; simp [h]

theorem genTree_small (comb : α → α → α) (cur : List α) (h : ¬ 1 < cur.length) :
    genTree comb cur = [cur] := by
  rw [genTree]; simp [h]

theorem layout_big (n : Nat) (h : 1 < n) : layout n = n :: layout (parentCnt n) := by
  rw [layout]; simp [h]

theorem layout_small (n : Nat) (h : ¬ 1 < n) : layout n = [n] := by
  rw [layout]; simp [h]

/-- The row reached after at most `d` steps up from `cur` (stops at the root row). -/
def rowAt (comb : α → α → α) : List α → Nat → List α
  | cur, 0 => cur
  | cur, d + 1 => if 1 < cur.length then rowAt comb (nextLayer comb cur) d else cur

theorem rowAt_length_le (comb : α → α → α) (cur : List α) (d : Nat) :
    (rowAt comb cur d).length ≤ cur.length := by
  induction d generalizing cur with
  | zero => simp [rowAt]
  | succ d ih =>
    simp only [rowAt]
    split
    · have := ih (nextLayer comb cur)
      rw [nextLayer_length'] at this
      omega
    · omega

theorem genTree_length_pos (comb : α → α → α) (cur : List α) :
    0 < (genTree comb cur).length := by
  by_cases h : 1 < cur.length
  · rw [genTree_big comb cur h]; simp
  · rw [genTree_small comb cur h]; simp

/-- `rowAt` is the row of the generated tree with index `min d (layers - 1)`. -/
theorem genTree_row (comb : α → α → α) (cur : List α) (d : Nat) :
    (genTree comb cur)[min d ((genTree comb cur).length - 1)]? = some (rowAt comb cur d) := by
  induction d generalizing cur with
  | zero =>
    by_cases h : 1 < cur.length
    · rw [genTree_big comb cur h]; simp [rowAt]
    · rw [genTree_small comb cur h]; simp [rowAt]
  | succ d ih =>
    by_cases h : 1 < cur.length
    · have hp := genTree_length_pos comb (nextLayer comb cur)
      have := ih (nextLayer comb cur)
      rw [genTree_big comb cur h]
      simp only [rowAt, h, if_true, List.length_cons, Nat.add_sub_cancel]
      have e : min (d + 1) (genTree comb (nextLayer comb cur)).length
          = min d ((genTree comb (nextLayer comb cur)).length - 1) + 1 := by omega
      rw [e, List.getElem?_cons_succ]
      exact this
    · rw [genTree_small comb cur h]; simp [rowAt, h]

/-- every row of the tree is a `rowAt` -/
theorem genTree_getElem? (comb : α → α → α) (cur : List α) (r : Nat)
    (hr : r < (genTree comb cur).length) :
    (genTree comb cur)[r]? = some (rowAt comb cur r) := by
  have := genTree_row comb cur r
  have e : min r ((genTree comb cur).length - 1) = r := by omega
  rwa [e] at this

/-- `to_layout(n)` is the list of layer sizes of the tree generated from `n` leaves. -/
theorem layout_eq_map_length (comb : α → α → α) (cur : List α) :
    layout cur.length = (genTree comb cur).map List.length := by
  fun_induction genTree comb cur with
  | case1 cur h ih =>
    rw [layout_big _ h, ← nextLayer_length, ih]; simp
  | case2 cur h =>
    rw [layout_small _ h]; simp

/-! ### hashCheck -/

theorem hashCheck_iff [DecidableEq α] (hashes : List α) (j : Nat) (h : α) :
    hashCheck hashes j h = true ↔ hashes[j]? = some h := by
  unfold hashCheck
  split <;> simp_all

/-! ### playback invariants -/

/-- Completeness: from a node `v = cur[idx]` the honest proof (followed by anything) plays
back to a node of the target row. Holds for every combining function. -/
theorem play_complete (comb : α → α → α) (d : Nat) (cur : List α) (idx : Nat) (v : α)
    (extra : List α) (hv : cur[idx]? = some v) :
    ∃ j h, playProof comb (layout cur.length) (rowAt comb cur d).length idx v
        (proofGo (genTree comb cur) idx d ++ extra) = some (j, h)
      ∧ (rowAt comb cur d)[j]? = some h := by
  induction d generalizing cur idx v with
  | zero =>
    refine ⟨idx, v, ?_, by simpa [rowAt] using hv⟩
    by_cases h : 1 < cur.length
    · rw [layout_big _ h]; simp [rowAt, playProof]
    · rw [layout_small _ h]; simp [rowAt, playProof]
  | succ d ih =>
    by_cases h : 1 < cur.length
    · have hlt : idx < cur.length := by
        rcases List.getElem?_eq_some_iff.mp hv with ⟨hl, _⟩; exact hl
      have hrow : (rowAt comb cur (d + 1)) = rowAt comb (nextLayer comb cur) d := by
        simp [rowAt, h]
      have hne : ¬ cur.length = (rowAt comb (nextLayer comb cur) d).length := by
        have := rowAt_length_le comb (nextLayer comb cur) d
        rw [nextLayer_length'] at this
        omega
      rw [hrow, layout_big _ h, genTree_big comb cur h, ← nextLayer_length comb cur]
      by_cases hodd : idx % 2 = 1
      · -- right node: left sibling exists
        have hl : idx - 1 < cur.length := by omega
        obtain ⟨a, ha⟩ : ∃ a, cur[idx - 1]? = some a := ⟨cur[idx - 1], by simp [hl]⟩
        have hnext : (nextLayer comb cur)[idx / 2]? = some (comb a v) := by
          apply nextLayer_pair
          · have : 2 * (idx / 2) = idx - 1 := by omega
            rw [this]; exact ha
          · have : 2 * (idx / 2) + 1 = idx := by omega
            rw [this]; exact hv
        obtain ⟨j, hh, hp, hr⟩ := ih (nextLayer comb cur) (idx / 2) (comb a v) hnext
        refine ⟨j, hh, ?_, hr⟩
        simp only [playProof, hne, if_false, hodd, if_true, hl, proofGo, Nat.succ_ne_zero,
          Nat.add_sub_cancel, ha, List.cons_append]
        exact hp
      · have heven : idx % 2 = 0 := by omega
        by_cases hs : idx + 1 < cur.length
        · obtain ⟨b, hb⟩ : ∃ b, cur[idx + 1]? = some b := ⟨cur[idx + 1], by simp [hs]⟩
          have hnext : (nextLayer comb cur)[idx / 2]? = some (comb v b) := by
            apply nextLayer_pair
            · have : 2 * (idx / 2) = idx := by omega
              rw [this]; exact hv
            · have : 2 * (idx / 2) + 1 = idx + 1 := by omega
              rw [this]; exact hb
          obtain ⟨j, hh, hp, hr⟩ := ih (nextLayer comb cur) (idx / 2) (comb v b) hnext
          refine ⟨j, hh, ?_, hr⟩
          simp only [playProof, hne, if_false, hodd, hs, if_true, proofGo, Nat.succ_ne_zero,
            Nat.add_sub_cancel, hb, List.cons_append]
          exact hp
        · have hb : cur[idx + 1]? = none := by
            apply List.getElem?_eq_none; omega
          have hnext : (nextLayer comb cur)[idx / 2]? = some v := by
            apply nextLayer_promote
            · have : 2 * (idx / 2) = idx := by omega
              rw [this]; exact hv
            · have : 2 * (idx / 2) + 1 = idx + 1 := by omega
              rw [this]; exact hb
          obtain ⟨j, hh, hp, hr⟩ := ih (nextLayer comb cur) (idx / 2) v hnext
          refine ⟨j, hh, ?_, hr⟩
          simp only [playProof, hne, if_false, hodd, hs, proofGo, Nat.succ_ne_zero,
            Nat.add_sub_cancel, hb]
          exact hp
    · refine ⟨idx, v, ?_, by simpa [rowAt, h] using hv⟩
      rw [layout_small _ h]; simp [rowAt, h, playProof]

/-- `comb` never identifies two different pairs (collision freeness). -/
def Injective2 (comb : α → α → α) : Prop :=
  ∀ a b c d, comb a b = comb c d → a = c ∧ b = d

/-- Collision freeness relative to a class `D` of "well-formed digests": a pair of which at
least one component is well formed is never identified with a different pair of well-formed
digests.  This is what a collision-free hash of the *unframed* concatenation `a ‖ b`
(`concat_and_hash`) gives when `D` = "has the digest length": the split point of `a ‖ b` is
determined as soon as one side has the digest length.  (`Injective2` on all byte strings is
false for such a `comb`: `(a ‖ x) ‖ b = a ‖ (x ‖ b)`.) -/
def InjectiveOn2 (D : α → Prop) (comb : α → α → α) : Prop :=
  ∀ a b c d, D c → D d → (D a ∨ D b) → comb a b = comb c d → a = c ∧ b = d

theorem nextLayer_forall (comb : α → α → α) (D : α → Prop) (hD : ∀ a b, D (comb a b))
    (l : List α) (hl : ∀ x ∈ l, D x) : ∀ x ∈ nextLayer comb l, D x := by
  fun_induction nextLayer comb l with
  | case1 a b rest ih =>
    intro x hx
    simp only [List.mem_cons] at hx
    rcases hx with rfl | hx
    · exact hD _ _
    · exact ih (fun y hy => hl y (by simp [hy])) x hx
  | case2 a => exact hl
  | case3 => exact hl

/-- Soundness: if playback of a well-formed value with *any* proof (elements of any shape)
ends in a node of the target row, the value is the committed node and the proof starts with
the honest proof. -/
theorem play_sound_on (comb : α → α → α) (D : α → Prop) (hD : ∀ a b, D (comb a b))
    (hinj : InjectiveOn2 D comb) (d : Nat) (cur : List α)
    (idx : Nat) (v : α) (p : List α) (j : Nat) (h : α) (hlt : idx < cur.length)
    (hcur : ∀ x ∈ cur, D x) (hv : D v)
    (hplay : playProof comb (layout cur.length) (rowAt comb cur d).length idx v p = some (j, h))
    (hrow : (rowAt comb cur d)[j]? = some h) :
    cur[idx]? = some v ∧ proofGo (genTree comb cur) idx d <+: p := by
  induction d generalizing cur idx v p with
  | zero =>
    have : playProof comb (layout cur.length) cur.length idx v p = some (idx, v) := by
      by_cases hb : 1 < cur.length
      · rw [layout_big _ hb]; simp [playProof]
      · rw [layout_small _ hb]; simp [playProof]
    simp only [rowAt] at hplay hrow
    rw [this] at hplay
    simp only [Option.some.injEq, Prod.mk.injEq] at hplay
    obtain ⟨rfl, rfl⟩ := hplay
    refine ⟨hrow, ?_⟩
    by_cases hb : 1 < cur.length
    · rw [genTree_big comb cur hb]; simp [proofGo]
    · rw [genTree_small comb cur hb]; simp [proofGo]
  | succ d ih =>
    by_cases hb : 1 < cur.length
    · have hrw : (rowAt comb cur (d + 1)) = rowAt comb (nextLayer comb cur) d := by
        simp [rowAt, hb]
      have hne : ¬ cur.length = (rowAt comb (nextLayer comb cur) d).length := by
        have := rowAt_length_le comb (nextLayer comb cur) d
        rw [nextLayer_length'] at this
        omega
      have hlt2 : idx / 2 < (nextLayer comb cur).length := by
        rw [nextLayer_length']; omega
      have hnl := nextLayer_forall comb D hD cur hcur
      have hv0 : cur[idx]? = some cur[idx] := by simp [hlt]
      rw [hrw] at hplay hrow
      rw [layout_big _ hb, ← nextLayer_length comb cur] at hplay
      rw [genTree_big comb cur hb]
      by_cases hodd : idx % 2 = 1
      · have hl : idx - 1 < cur.length := by omega
        have ha : cur[idx - 1]? = some cur[idx - 1] := by simp [hl]
        have hnext : (nextLayer comb cur)[idx / 2]? = some (comb cur[idx - 1] cur[idx]) := by
          apply nextLayer_pair
          · have : 2 * (idx / 2) = idx - 1 := by omega
            rw [this]; exact ha
          · have : 2 * (idx / 2) + 1 = idx := by omega
            rw [this]; exact hv0
        cases p with
        | nil => simp [playProof, hne, hodd, hl] at hplay
        | cons x ps =>
          simp only [playProof, hne, if_false, hodd, if_true, hl] at hplay
          obtain ⟨h1, h2⟩ :=
            ih (nextLayer comb cur) (idx / 2) (comb x v) ps hlt2 hnl (hD _ _) hplay hrow
          rw [hnext] at h1
          obtain ⟨rfl, rfl⟩ := hinj _ _ _ _ (hcur _ (List.getElem_mem hl))
            (hcur _ (List.getElem_mem hlt)) (Or.inr hv) (Option.some.inj h1).symm
          refine ⟨hv0, ?_⟩
          simp only [proofGo, Nat.succ_ne_zero, if_false, hodd, if_true, Nat.add_sub_cancel, ha]
          exact List.cons_prefix_cons.mpr ⟨rfl, h2⟩
      · by_cases hs : idx + 1 < cur.length
        · have hbb : cur[idx + 1]? = some cur[idx + 1] := by simp [hs]
          have hnext : (nextLayer comb cur)[idx / 2]? = some (comb cur[idx] cur[idx + 1]) := by
            apply nextLayer_pair
            · have : 2 * (idx / 2) = idx := by omega
              rw [this]; exact hv0
            · have : 2 * (idx / 2) + 1 = idx + 1 := by omega
              rw [this]; exact hbb
          cases p with
          | nil => simp [playProof, hne, hodd, hs] at hplay
          | cons x ps =>
            simp only [playProof, hne, if_false, hodd, hs, if_true] at hplay
            obtain ⟨h1, h2⟩ :=
              ih (nextLayer comb cur) (idx / 2) (comb v x) ps hlt2 hnl (hD _ _) hplay hrow
            rw [hnext] at h1
            obtain ⟨rfl, rfl⟩ := hinj _ _ _ _ (hcur _ (List.getElem_mem hlt))
              (hcur _ (List.getElem_mem hs)) (Or.inl hv) (Option.some.inj h1).symm
            refine ⟨hv0, ?_⟩
            simp only [proofGo, Nat.succ_ne_zero, if_false, hodd, Nat.add_sub_cancel, hbb]
            exact List.cons_prefix_cons.mpr ⟨rfl, h2⟩
        · have hbn : cur[idx + 1]? = none := by
            apply List.getElem?_eq_none; omega
          have hnext : (nextLayer comb cur)[idx / 2]? = some cur[idx] := by
            apply nextLayer_promote
            · have : 2 * (idx / 2) = idx := by omega
              rw [this]; exact hv0
            · have : 2 * (idx / 2) + 1 = idx + 1 := by omega
              rw [this]; exact hbn
          simp only [playProof, hne, if_false, hodd, hs] at hplay
          obtain ⟨h1, h2⟩ := ih (nextLayer comb cur) (idx / 2) v p hlt2 hnl hv hplay hrow
          rw [hnext] at h1
          obtain rfl := Option.some.inj h1
          refine ⟨hv0, ?_⟩
          simp only [proofGo, Nat.succ_ne_zero, if_false, hodd, Nat.add_sub_cancel, hbn]
          exact h2
    · have hrw : (rowAt comb cur (d + 1)) = cur := by simp [rowAt, hb]
      rw [hrw] at hplay hrow
      rw [layout_small _ hb] at hplay
      simp only [playProof, if_true, Option.some.injEq, Prod.mk.injEq] at hplay
      obtain ⟨rfl, rfl⟩ := hplay
      refine ⟨hrow, ?_⟩
      rw [genTree_small comb cur hb]
      have h0 : idx = 0 := by omega
      subst h0
      have : cur[0 + 1]? = none := by apply List.getElem?_eq_none; omega
      simp [proofGo, this]

/-- `play_sound_on` for a `comb` that is injective on all pairs. -/
theorem play_sound (comb : α → α → α) (hinj : Injective2 comb) (d : Nat) (cur : List α)
    (idx : Nat) (v : α) (p : List α) (j : Nat) (h : α) (hlt : idx < cur.length)
    (hplay : playProof comb (layout cur.length) (rowAt comb cur d).length idx v p = some (j, h))
    (hrow : (rowAt comb cur d)[j]? = some h) :
    cur[idx]? = some v ∧ proofGo (genTree comb cur) idx d <+: p :=
  play_sound_on comb (fun _ => True) (fun _ _ => trivial)
    (fun a b c d _ _ _ h => hinj a b c d h) d cur idx v p j h hlt (fun _ _ => trivial) trivial
    hplay hrow

/-- Soundness of the *empty* proof, for every `comb` (no collision-freeness needed): if the
playback of a value without any proof element ends in a node of the target row, no sibling was
needed on the way (the generated proof is empty) and the value is the committed node — the
node was carried up unchanged. -/
theorem play_sound_nil (comb : α → α → α) (d : Nat) (cur : List α)
    (idx : Nat) (v : α) (j : Nat) (h : α) (hlt : idx < cur.length)
    (hplay : playProof comb (layout cur.length) (rowAt comb cur d).length idx v [] = some (j, h))
    (hrow : (rowAt comb cur d)[j]? = some h) :
    cur[idx]? = some v ∧ proofGo (genTree comb cur) idx d = [] := by
  induction d generalizing cur idx with
  | zero =>
    have : playProof comb (layout cur.length) cur.length idx v [] = some (idx, v) := by
      by_cases hb : 1 < cur.length
      · rw [layout_big _ hb]; simp [playProof]
      · rw [layout_small _ hb]; simp [playProof]
    simp only [rowAt] at hplay hrow
    rw [this] at hplay
    simp only [Option.some.injEq, Prod.mk.injEq] at hplay
    obtain ⟨rfl, rfl⟩ := hplay
    refine ⟨hrow, ?_⟩
    by_cases hb : 1 < cur.length
    · rw [genTree_big comb cur hb]; simp [proofGo]
    · rw [genTree_small comb cur hb]; simp [proofGo]
  | succ d ih =>
    by_cases hb : 1 < cur.length
    · have hrw : (rowAt comb cur (d + 1)) = rowAt comb (nextLayer comb cur) d := by
        simp [rowAt, hb]
      have hne : ¬ cur.length = (rowAt comb (nextLayer comb cur) d).length := by
        have := rowAt_length_le comb (nextLayer comb cur) d
        rw [nextLayer_length'] at this
        omega
      have hlt2 : idx / 2 < (nextLayer comb cur).length := by
        rw [nextLayer_length']; omega
      have hv0 : cur[idx]? = some cur[idx] := by simp [hlt]
      rw [hrw] at hplay hrow
      rw [layout_big _ hb, ← nextLayer_length comb cur] at hplay
      rw [genTree_big comb cur hb]
      by_cases hodd : idx % 2 = 1
      · have hl : idx - 1 < cur.length := by omega
        simp [playProof, hne, hodd, hl] at hplay
      · by_cases hs : idx + 1 < cur.length
        · simp [playProof, hne, hodd, hs] at hplay
        · have hbn : cur[idx + 1]? = none := by
            apply List.getElem?_eq_none; omega
          have hnext : (nextLayer comb cur)[idx / 2]? = some cur[idx] := by
            apply nextLayer_promote
            · have : 2 * (idx / 2) = idx := by omega
              rw [this]; exact hv0
            · have : 2 * (idx / 2) + 1 = idx + 1 := by omega
              rw [this]; exact hbn
          simp only [playProof, hne, if_false, hodd, hs] at hplay
          obtain ⟨h1, h2⟩ := ih (nextLayer comb cur) (idx / 2) hlt2 hplay hrow
          rw [hnext] at h1
          obtain rfl := Option.some.inj h1
          refine ⟨hv0, ?_⟩
          simp only [proofGo, Nat.succ_ne_zero, if_false, hodd, Nat.add_sub_cancel, hbn]
          exact h2
    · have hrw : (rowAt comb cur (d + 1)) = cur := by simp [rowAt, hb]
      rw [hrw] at hplay hrow
      rw [layout_small _ hb] at hplay
      simp only [playProof, if_true, Option.some.injEq, Prod.mk.injEq] at hplay
      obtain ⟨rfl, rfl⟩ := hplay
      refine ⟨hrow, ?_⟩
      rw [genTree_small comb cur hb]
      have h0 : idx = 0 := by omega
      subst h0
      have : cur[0 + 1]? = none := by apply List.getElem?_eq_none; omega
      simp [proofGo, this]

/-- Refinement of the two loops of `check_merkle_tree`: the (repaired) `None` loop is the
`Some` loop run on the empty proof; the running hash is never changed. -/
theorem playProof_nil (comb : α → α → α) (layers : List Nat) (rowLen idx : Nat) (v : α) :
    playProof comb layers rowLen idx v [] = (playEmpty layers rowLen idx).map fun j => (j, v) := by
  induction layers generalizing idx with
  | nil => simp [playProof, playEmpty]
  | cons layer rest ih =>
    simp only [playProof, playEmpty]
    split
    · simp
    · split
      · split <;> simp [ih]
      · split <;> simp [ih]

end C2pa.C16
