import C2paModel.Lemmas.C18Post
/-
C18 — the reader is total: with the fuel `parse` supplies it never runs out of fuel and never
reaches an unchecked overflow, every accepted tree is `Valid` and nests at most 32 deep.

Fuel argument: one unit of fuel is spent per loop iteration / recursive super box, and each of
them consumes at least 8 bytes (a header) before the next unit is spent; `superBox f` is fine when
fewer than `8 f` bytes remain, `loop f` when fewer than `8 f - 8` remain.
-/
namespace C2pa.C18

def Box.isSuper : Box → Prop
  | .super _ _ => True
  | _ => False

def SuperPost (d : Bytes) (depth pos : Nat) (r : Box × Nat) : Prop :=
  r.1.Valid ∧ r.1.height + depth ≤ 32 ∧ pos + 16 ≤ r.2 ∧ r.2 ≤ d.length ∧ r.1.isSuper

def LoopPost (d : Bytes) (depth pos : Nat) (r : List Box × Nat) : Prop :=
  ValidList r.1 ∧ heightList r.1 + depth + 1 ≤ 32 ∧ pos ≤ r.2 ∧ r.2 ≤ d.length

theorem afterChild_post (dest p : Nat) : (afterChild dest p).Post (fun _ => True) := by
  unfold afterChild
  split
  · simp
  · split <;> simp

theorem addChild_post (d : Bytes) (depth dest pos : Nat) (b : Box) (p3 : Nat)
    (rest : Unit → Res (List Box × Nat))
    (hb : b.Valid) (hh : b.height + depth + 1 ≤ 32) (hp : pos ≤ p3) (hl : p3 ≤ d.length)
    (hrest : (rest ()).Post (LoopPost d depth p3)) :
    (addChild dest b p3 rest).Post (LoopPost d depth pos) := by
  unfold addChild
  refine Res.Post.bind (afterChild_post dest p3) ?_
  intro more _
  split
  · refine Res.Post.bind hrest ?_
    rintro ⟨cs, p4⟩ ⟨h1, h2, h3, h4⟩
    dsimp only at h1 h2 h3 h4
    simp only [post_ok, LoopPost, ValidList, heightList]
    exact ⟨⟨hb, h1⟩, by omega, by omega, h4⟩
  · simp only [post_ok, LoopPost, ValidList, heightList]
    exact ⟨⟨hb, trivial⟩, by omega, hp, hl⟩

theorem kindOf_ne_zero {n : Nat} {k : Kind} (h : kindOf? n = some k) : n ≠ 0 := by
  intro h0; subst h0; simp [kindOf?] at h

theorem parse_post_main (d : Bytes) : ∀ f,
    (∀ depth pos, pos ≤ d.length → d.length - pos < 8 * f →
      (superBox f d depth pos).Post (SuperPost d depth pos)) ∧
    (∀ depth dest pos, depth < 32 → pos ≤ d.length → d.length - pos + 8 < 8 * f →
      (loop f d depth dest pos).Post (LoopPost d depth pos)) := by
  intro f
  induction f with
  | zero =>
    exact ⟨fun _ _ _ h => by omega, fun _ _ _ _ _ h => by omega⟩
  | succ f ih =>
    obtain ⟨ihS, ihL⟩ := ih
    constructor
    · -- superBox
      intro depth pos hp hf
      unfold superBox
      split
      · simp
      · rename_i hdepth
        simp only [MAX_JUMB_DEPTH, ge_iff_le, Nat.not_le] at hdepth
        refine Res.Post.bind ((readHeader_post d pos hp).mapErr _) ?_
        rintro ⟨jh, p1⟩ ⟨h1l, h1c⟩
        simp only []
        split
        · simp
        · rename_i hn0
          split
          · simp
          · split
            · simp
            · have hp1 := header_named h1c hn0
              refine Res.Post.bind ((readHeader_post d p1 h1l).mapErr _) ?_
              rintro ⟨dh, p2⟩ ⟨h2l, h2c⟩
              simp only []
              split
              · simp
              · rename_i hjumd
                have hdn : ¬ dh.name = 0 := by
                  intro h0; simp [h0, JUMD] at hjumd
                have hp2 := header_named h2c hdn
                refine Res.Post.bind ((readDesc_post d p2 dh.size h2l).mapErr _) ?_
                rintro ⟨desc, p3⟩ ⟨hv0, h3, h3l⟩
                simp only []
                split
                · simp
                · rename_i hlabel
                  simp at hlabel
                  refine Res.Post.bind (ihL depth _ p3 hdepth h3l (by omega)) ?_
                  rintro ⟨cs, p4⟩ ⟨hc1, hc2, hc3, hc4⟩
                  simp only [post_ok, SuperPost, Box.Valid, Box.height]
                  dsimp only at hc1 hc2 hc3 hc4
                  exact ⟨⟨⟨hv0, hlabel⟩, hc1⟩, by omega, by omega, hc4, trivial⟩
    · -- loop
      intro depth dest pos hdepth hp hf
      unfold loop
      refine Res.Post.bind' ((readHeader_post d pos hp).mapErr _) ?_
      rintro ⟨bh, p1⟩ heq ⟨h1l, h1c⟩
      have hrh := mapErr_eq_ok heq
      simp only []
      split
      · split
        · simp
        · simp only [post_ok, LoopPost, ValidList, heightList]
          refine ⟨trivial, by omega, ?_, h1l⟩
          rcases h1c with ⟨h, _⟩ | h | h <;> omega
      · rename_i hn0
        have hp1 := header_named h1c hn0
        rw [unread_ok p1 (by omega)]
        simp only [bind_ok]
        -- p2 = p1 - 8 is `pos` (ordinary header) or `pos + 8` (large-size header)
        have hp2 : pos ≤ p1 - 8 ∧ p1 - 8 ≤ d.length := by omega
        split
        · -- jumb
          refine Res.Post.bind (ihS (depth + 1) (p1 - 8) hp2.2 (by omega)) ?_
          rintro ⟨b, p3⟩ ⟨hb1, hb2, hb3, hb4, _⟩
          dsimp only at hb1 hb2 hb3 hb4 ⊢
          exact addChild_post d depth dest pos b p3 _ hb1 (by omega) (by omega) hb4
            (ihL depth dest p3 hdepth hb4 (by omega))
        · split
          · -- uuid
            have key : (readUuid d (p1 - 8) bh.size).Post
                (fun r => (pos + 8 ≤ r.2 ∧ r.2 ≤ d.length) ∧ r.1.1.length = 16) := by
              rcases hp1 with h | h
              · subst h
                simp only [Nat.add_sub_cancel]
                exact (readUuid_progress d pos bh hp hrh).and
                  ((readUuid_mono d pos bh.size hp).mono fun r hr => hr.2.2)
              · subst h
                rw [show pos + 16 - 8 = pos + 8 by omega]
                exact (readUuid_mono d (pos + 8) bh.size (by omega)).mono
                  fun r hr => ⟨⟨hr.1, hr.2.1⟩, hr.2.2⟩
            refine Res.Post.bind (key.mapErr _) ?_
            rintro ⟨⟨u, buf⟩, p3⟩ ⟨⟨hk1, hk2⟩, hk3⟩
            dsimp only at hk1 hk2 hk3 ⊢
            exact addChild_post d depth dest pos _ p3 _ (by simpa [Box.Valid] using hk3)
              (by simp [Box.height]; omega) (by omega) hk2
              (ihL depth dest p3 hdepth hk2 (by omega))
          · split
            · -- bfdb
              have key : (readBfdb d (p1 - 8) bh.size).Post
                  (fun r => pos + 8 ≤ r.2 ∧ r.2 ≤ d.length) := by
                rcases hp1 with h | h
                · subst h
                  simp only [Nat.add_sub_cancel]
                  exact readBfdb_progress d pos bh hp hrh
                · subst h
                  rw [show pos + 16 - 8 = pos + 8 by omega]
                  exact (readBfdb_mono d (pos + 8) bh.size (by omega)).mono
                    fun r hr => ⟨hr.1, hr.2⟩
              refine Res.Post.bind (key.mapErr _) ?_
              rintro ⟨⟨t, mt, fn⟩, p3⟩ ⟨hk1, hk2⟩
              dsimp only at hk1 hk2 ⊢
              exact addChild_post d depth dest pos _ p3 _ (by simp [Box.Valid])
                (by simp [Box.height]; omega) (by omega) hk2
                (ihL depth dest p3 hdepth hk2 (by omega))
            · split
              · -- plain content box
                rename_i k hk
                have key : (readData d (p1 - 8) bh.size).Post
                    (fun r => pos + 8 ≤ r.2 ∧ r.2 ≤ d.length) := by
                  rcases hp1 with h | h
                  · subst h
                    simp only [Nat.add_sub_cancel]
                    exact readData_progress d pos bh hp hrh
                  · subst h
                    rw [show pos + 16 - 8 = pos + 8 by omega]
                    exact (readData_mono d (pos + 8) bh.size (by omega)).mono
                      fun r hr => ⟨hr.1, hr.2⟩
                refine Res.Post.bind (key.mapErr _) ?_
                rintro ⟨buf, p3⟩ ⟨hk1, hk2⟩
                dsimp only at hk1 hk2 ⊢
                exact addChild_post d depth dest pos _ p3 _ (by simp [Box.Valid])
                  (by simp [Box.height]; omega) (by omega) hk2
                  (ihL depth dest p3 hdepth hk2 (by omega))
              · -- unknown box, skipped
                have key : ((readHeader d (p1 - 8)).mapErr Err.invalidBoxHeader >>= fun x =>
                    match x with
                    | (h, q1) =>
                      if h.size = 0 then Res.err Err.invalidUnknown
                      else do
                        let q2 ← reseek (h.size != bh.size) q1
                        if bh.size < 8 then Res.err Err.invalidBoxHeader
                        else do
                          let x ← (readToVec d q2 (bh.size - 8)).mapErr Err.invalidBoxHeader
                          match x with
                          | (_, q3) => loop f d depth dest q3).Post (LoopPost d depth pos) := by
                  have tail : ∀ q2, pos + 8 ≤ q2 →
                      (if bh.size < 8 then Res.err Err.invalidBoxHeader
                        else do
                          let x ← (readToVec d q2 (bh.size - 8)).mapErr Err.invalidBoxHeader
                          match x with
                          | (_, q3) => loop f d depth dest q3).Post (LoopPost d depth pos) := by
                    intro q2 hq2
                    split
                    · simp
                    · refine Res.Post.bind ((readToVec_post d q2 _).mapErr _) ?_
                      rintro ⟨_, q3⟩ ⟨hq3, hq3l, _⟩
                      dsimp only at hq3 hq3l ⊢
                      refine (ihL depth dest q3 hdepth hq3l (by omega)).mono ?_
                      rintro ⟨cs, p4⟩ ⟨h1, h2, h3, h4⟩
                      exact ⟨h1, h2, by dsimp only at h3 ⊢; omega, h4⟩
                  rcases hp1 with h | h
                  · subst h
                    simp only [Nat.add_sub_cancel]
                    rw [hrh]
                    simp only [mapErr_ok, bind_ok]
                    split
                    · simp
                    · simp only [reseek, bne_self_eq_false, Bool.false_eq_true, if_false, bind_ok]
                      exact tail _ (by omega)
                  · subst h
                    rw [show pos + 16 - 8 = pos + 8 by omega]
                    refine Res.Post.bind ((readHeader_post d (pos + 8) (by omega)).mapErr _) ?_
                    rintro ⟨h, q1⟩ ⟨hq1l, hq1c⟩
                    dsimp only
                    split
                    · simp
                    · rename_i hs
                      refine Res.Post.bind (reseek_post _ (pos + 8) q1 (header_nonzero hq1c hs)) ?_
                      intro q2 hq2
                      exact tail q2 hq2.1
                exact key

/-- everything `parse` can do, in one statement -/
theorem parse_post (x : Bytes) :
    (parse x).Post (fun r => r.1.Valid ∧ r.1.height ≤ 32 ∧ 16 ≤ r.2 ∧ r.2 ≤ x.length ∧ r.1.isSuper) := by
  have := (parse_post_main x (x.length + 2)).1 0 0 (Nat.zero_le _) (by omega)
  unfold parse
  refine this.mono ?_
  rintro ⟨b, e⟩ ⟨h1, h2, h3, h4, h5⟩
  exact ⟨h1, by simpa using h2, by simpa using h3, h4, h5⟩

end C2pa.C18
