import C2paModel.Model.C02
import C2paModel.Lemmas.C02A
/-
C02 — soundness of the ingredient walk (`Store::ingredient_checks` with its `visited` set and
depth bound): when the walk logs nothing and does not stop, every manifest reachable from the
active one through ingredient references has been verified and every reference on the way has
passed the hash comparisons.
-/
namespace C2pa.C02
open C2pa.C18

/-- what the walk requires of one reference -/
def RefOk (dec : Dec) (store : List Manifest) (reds : List Redaction) (r : IngRef) : Prop :=
  ∃ t, findManifest r.target store = some t ∧ (refFailures reds r t).log = [] ∧
    (verifyClaim dec reds t).log = []

/-- the manifest labelled `l` is in the store and all its references are fine and lead into `v` -/
def Processed (dec : Dec) (store : List Manifest) (reds : List Redaction) (v : List String)
    (l : String) : Prop :=
  ∃ t, findManifest l store = some t ∧
    ∀ r ∈ allRefs dec t, RefOk dec store reds r ∧ r.target ∈ v

theorem Processed.mono {dec : Dec} {store : List Manifest} {reds : List Redaction}
    {v v' : List String} {l : String} (h : Processed dec store reds v l) (hs : ∀ x ∈ v, x ∈ v') :
    Processed dec store reds v' l := by
  obtain ⟨t, ht, hr⟩ := h
  exact ⟨t, ht, fun r hmem => ⟨(hr r hmem).1, hs _ (hr r hmem).2⟩⟩

def Walk.Clean (w : Walk) : Prop := w.log = [] ∧ w.stop = false

/-- what a clean result of walking the references `refs` from state `w` to state `w'` tells -/
structure WalkSpec (dec : Dec) (store : List Manifest) (reds : List Redaction)
    (refs : List IngRef) (w w' : Walk) : Prop where
  clean : w.Clean
  sub : ∀ x ∈ w.visited, x ∈ w'.visited
  refs : ∀ r ∈ refs, RefOk dec store reds r ∧ r.target ∈ w'.visited
  fresh : ∀ l ∈ w'.visited, l ∈ w.visited ∨ Processed dec store reds w'.visited l

theorem walkList_spec (dec : Dec) (store : List Manifest) (reds : List Redaction)
    (step : IngRef → Walk → Walk)
    (hstep : ∀ r w, w.stop = false → (step r w).Clean → WalkSpec dec store reds [r] w (step r w)) :
    ∀ (refs : List IngRef) (w : Walk), (walkList step refs w).Clean →
      WalkSpec dec store reds refs w (walkList step refs w)
  | [], w, h => by
    unfold walkList at h ⊢
    exact ⟨h, fun x hx => hx, fun r hr => absurd hr List.not_mem_nil, fun l hl => Or.inl hl⟩
  | r :: rest, w, h => by
    unfold walkList at h ⊢
    by_cases hs : w.stop = true
    · simp only [hs, if_true] at h
      exact absurd h.2 (by rw [hs]; simp)
    · simp only [hs] at h ⊢
      have ih := walkList_spec dec store reds step hstep rest (step r w) h
      have h1 := hstep r w (by simpa using hs) ih.clean
      refine ⟨h1.clean, fun x hx => ih.sub x (h1.sub x hx), ?_, ?_⟩
      · intro r' hr'
        rcases List.mem_cons.1 hr' with rfl | hm
        · have := h1.refs r' (List.mem_singleton.2 rfl)
          exact ⟨this.1, ih.sub _ this.2⟩
        · exact ih.refs r' hm
      · intro l hl
        rcases ih.fresh l hl with h2 | h2
        · rcases h1.fresh l h2 with h3 | h3
          · exact Or.inl h3
          · exact Or.inr (h3.mono ih.sub)
        · exact Or.inr h2

theorem refFailures_log_nil_not_stop {reds : List Redaction} {r : IngRef} {t : Manifest}
    (h : (refFailures reds r t).log = []) : (refFailures reds r t).stop = false := by
  unfold refFailures at h ⊢
  by_cases hr : hasRed reds r.target = true
  · simp only [hr, Bool.not_true, Bool.false_eq_true, if_false] at h ⊢
    by_cases hv : t.version > 1
    · simp only [hv, if_true] at h ⊢
      cases hs : r.sigPre with
      | none => simp [hs] at h
      | some s => simp
    · simp [hv]
  · simp [hr]

theorem walkStep_spec (dec : Dec) (store : List Manifest) (reds : List Redaction)
    (recurse : Manifest → Walk → Walk)
    (hrec : ∀ t w, (recurse t w).Clean → WalkSpec dec store reds (allRefs dec t) w (recurse t w))
    (r : IngRef) (w : Walk) (hw : w.stop = false) (h : (walkStep dec store reds recurse r w).Clean) :
    WalkSpec dec store reds [r] w (walkStep dec store reds recurse r w) := by
  unfold walkStep at h ⊢
  cases hf : findManifest r.target store with
  | none =>
    simp only [hf] at h
    exact absurd h.1 (by simp)
  | some t =>
    simp only [hf] at h ⊢
    obtain ⟨_, hlab⟩ := findManifest_some hf
    by_cases hrs : (refFailures reds r t).stop = true
    · simp only [hrs, if_true] at h
      exact absurd h.2 (by simp)
    · simp only [hrs] at h ⊢
      by_cases hvs : (verifyClaim dec reds t).stop = true
      · simp only [hvs, if_true] at h
        exact absurd h.2 (by simp)
      · simp only [hvs] at h ⊢
        -- the pieces that a clean `w1` gives
        have pieces : ∀ {w1 : Walk}, w1.log = w.log ++ (refFailures reds r t).log ++ (verifyClaim dec reds t).log →
            w1.log = [] → w.log = [] ∧ RefOk dec store reds r := by
          intro w1 e1 e0
          rw [e1] at e0
          simp only [List.append_eq_nil_iff] at e0
          exact ⟨e0.1.1, t, hf, e0.1.2, e0.2⟩
        by_cases hvis : w.visited.contains t.label = true
        · simp only [hvis, if_true] at h ⊢
          obtain ⟨hl, hok⟩ := pieces rfl h.1
          refine ⟨⟨hl, hw⟩, fun x hx => hx, ?_, fun l hl' => Or.inl hl'⟩
          · intro r' hr'
            rw [List.mem_singleton.1 hr']
            refine ⟨hok, ?_⟩
            rw [← hlab]
            simpa using hvis
        · simp only [hvis] at h ⊢
          have hs := hrec t _ h
          obtain ⟨hl, hok⟩ := pieces rfl hs.clean.1
          refine ⟨⟨hl, hw⟩, fun x hx => hs.sub x (List.mem_cons_of_mem _ hx), ?_, ?_⟩
          · intro r' hr'
            rw [List.mem_singleton.1 hr']
            refine ⟨hok, ?_⟩
            rw [← hlab]
            exact hs.sub _ (List.mem_cons_self ..)
          · intro l hl'
            rcases hs.fresh l hl' with h2 | h2
            · rcases List.mem_cons.1 h2 with rfl | h3
              · exact Or.inr ⟨t, by rw [hlab]; exact hf, hs.refs⟩
              · exact Or.inl h3
            · exact Or.inr h2

theorem walkRefs_spec (dec : Dec) (store : List Manifest) (reds : List Redaction) :
    ∀ (fuel depth : Nat) (refs : List IngRef) (w : Walk),
      (walkRefs dec store reds fuel depth refs w).Clean →
      WalkSpec dec store reds refs w (walkRefs dec store reds fuel depth refs w)
  | 0, _, _, w, h => by
    unfold walkRefs at h
    exact absurd h.2 (by simp)
  | fuel + 1, depth, refs, w, h => by
    unfold walkRefs at h ⊢
    by_cases hd : depth ≥ maxDepth
    · simp only [hd, if_true] at h
      exact absurd h.2 (by simp)
    · simp only [hd, if_false] at h ⊢
      apply walkList_spec dec store reds _ _ refs w h
      intro r w' hw' hc
      exact walkStep_spec dec store reds _
        (fun t w2 h2 => walkRefs_spec dec store reds fuel (depth + 1) (allRefs dec t) w2 h2) r w' hw' hc

/-- manifests reachable from `root` through the (non-zero) ingredient references -/
inductive Reach (dec : Dec) (store : List Manifest) (root : Manifest) : Manifest → Prop
  | root : Reach dec store root root
  | step {m t : Manifest} {r : IngRef} : Reach dec store root m → r ∈ allRefs dec m →
      findManifest r.target store = some t → Reach dec store root t

/-- **`walk_sound`.** A store verification that logs nothing and does not stop has verified every
manifest reachable from the active one (paths of any length), and every reference on the way has
passed the hash comparisons of `ingredient_checks`. (`hroot`: the active manifest is the one found
under its label.) -/
theorem walk_sound (dec : Dec) (store : List Manifest) (reds : List Redaction) (root : Manifest)
    (hroot : findManifest root.label store = some root)
    (h : verifyStoreWith dec store reds root = ⟨[], false⟩) :
    ∀ t, Reach dec store root t →
      (verifyClaim dec reds t).log = [] ∧ ∀ r ∈ allRefs dec t, RefOk dec store reds r := by
  unfold verifyStoreWith at h
  by_cases hs : (verifyClaim dec reds root).stop = true
  · simp only [hs, if_true] at h
    rw [h] at hs; cases hs
  · simp only [hs] at h
    have hclean : (walkRefs dec store reds (maxDepth + 1) 0 (allRefs dec root)
        ⟨(verifyClaim dec reds root).log, false, [root.label]⟩).Clean := by
      constructor
      · exact congrArg Out.log h
      · exact congrArg Out.stop h
    have spec := walkRefs_spec dec store reds _ _ _ _ hclean
    -- the invariant along reachability
    have inv : ∀ t, Reach dec store root t →
        (verifyClaim dec reds t).log = [] ∧
        ∀ r ∈ allRefs dec t, RefOk dec store reds r ∧ r.target ∈
          (walkRefs dec store reds (maxDepth + 1) 0 (allRefs dec root)
            ⟨(verifyClaim dec reds root).log, false, [root.label]⟩).visited := by
      intro t ht
      induction ht with
      | root => exact ⟨spec.clean.1, spec.refs⟩
      | @step m t r _ hr hf ih =>
        obtain ⟨t0, hf0, _, hv0⟩ := (ih.2 r hr).1
        have e : t0 = t := by rw [hf] at hf0; exact (Option.some.inj hf0).symm
        subst e
        refine ⟨hv0, ?_⟩
        rcases spec.fresh r.target (ih.2 r hr).2 with h1 | h1
        · have : r.target = root.label := by simpa using h1
          rw [this, hroot] at hf
          have e2 : root = t0 := Option.some.inj hf
          subst e2
          exact spec.refs
        · obtain ⟨t1, hf1, hrefs⟩ := h1
          rw [hf] at hf1
          have e2 : t0 = t1 := Option.some.inj hf1
          subst e2
          exact hrefs
    intro t ht
    exact ⟨(inv t ht).1, fun r hr => ((inv t ht).2 r hr).1⟩

end C2pa.C02
