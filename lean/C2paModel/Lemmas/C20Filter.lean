import C2paModel.Lemmas.C20Loop
/-
C20 / C21 — the `ValidationResults::from_store` filter (`Model/C20.lean`: `keep`,
`fromStoreFilter`) composed with the C04 model of `add_status` / `validation_state`.

`reportS` is what the Reader computes from a validation log: the statuses (with their URLs) that
survive the filter are added, in log order, to the results. The lemmas say which statuses are
guaranteed to survive *whatever the ingredient assertions of the store record* — the ingredient
assertions are written by the signers of the manifests under validation:

* a status logged while the active claim itself was validated (no ingredient URI),
* a status whose URL names the active manifest,
* a status no ingredient assertion records.
-/
namespace C2pa.C20
open C2pa.C34

theorem keep_spec (active : Str) (recs : List Rec) (s : St) (b : Bool)
    (h : keep active recs s = some b) :
    ∃ a, isActiveUrl active s.url = some a ∧ b = (!s.ing || a || !recordedIn recs s) := by
  unfold keep at h
  cases ha : isActiveUrl active s.url with
  | none => simp [ha] at h
  | some a =>
    simp only [ha, Option.bind_eq_bind, Option.bind_some, Option.pure_def, Option.some.injEq] at h
    exact ⟨a, rfl, h.symm⟩

/-- a status of the active claim's own validation is never filtered -/
theorem keep_active_scope (active : Str) (recs : List Rec) (s : St) (b : Bool)
    (h : keep active recs s = some b) (hi : s.ing = false) : b = true := by
  obtain ⟨a, _, hb⟩ := keep_spec active recs s b h
  rw [hb, hi]; rfl

/-- a status that names the active manifest is never filtered -/
theorem keep_active_url (active : Str) (recs : List Rec) (s : St) (b : Bool)
    (h : keep active recs s = some b) (ha : isActiveUrl active s.url = some true) : b = true := by
  obtain ⟨a, ha', hb⟩ := keep_spec active recs s b h
  rw [ha] at ha'; cases ha'
  rw [hb]; cases s.ing <;> rfl

/-- a status recorded in no ingredient assertion is never filtered -/
theorem keep_unrecorded (active : Str) (recs : List Rec) (s : St) (b : Bool)
    (h : keep active recs s = some b) (hr : recordedIn recs s = false) : b = true := by
  obtain ⟨a, _, hb⟩ := keep_spec active recs s b h
  rw [hb, hr]; cases s.ing <;> cases a <;> rfl

/-- **exactly what is dropped**: an ingredient-scoped status whose URL does not name the active
manifest and which an ingredient assertion of the store records -/
theorem keep_false_iff (active : Str) (recs : List Rec) (s : St) :
    keep active recs s = some false ↔
      s.ing = true ∧ isActiveUrl active s.url = some false ∧ recordedIn recs s = true := by
  constructor
  · intro h
    obtain ⟨a, ha, hb⟩ := keep_spec active recs s false h
    cases hi : s.ing
    · rw [hi] at hb; cases hb
    · cases a
      · cases hr : recordedIn recs s
        · rw [hi, hr] at hb; cases hb
        · exact ⟨rfl, ha, rfl⟩
      · rw [hi] at hb; cases hb
  · rintro ⟨hi, ha, hr⟩
    unfold keep
    rw [ha, hi, hr]
    rfl

theorem filterP_spec {α : Type} (p : α → P Bool) :
    ∀ (l k : List α), filterP p l = some k →
      (∀ x ∈ l, ∃ b, p x = some b) ∧ (∀ x, x ∈ k ↔ x ∈ l ∧ p x = some true) := by
  intro l
  induction l with
  | nil =>
    intro k h
    simp [filterP] at h
    subst h
    simp
  | cons y ys ih =>
    intro k h
    unfold filterP at h
    cases hy : p y with
    | none => simp [hy] at h
    | some b =>
      cases hr : filterP p ys with
      | none => simp [hy, hr] at h
      | some rest =>
        simp only [hy, hr, Option.bind_eq_bind, Option.bind_some, Option.pure_def,
          Option.some.injEq] at h
        obtain ⟨h1, h2⟩ := ih rest hr
        refine ⟨?_, ?_⟩
        · intro x hx
          rcases List.mem_cons.1 hx with rfl | hx
          · exact ⟨b, hy⟩
          · exact h1 x hx
        · intro x
          subst h
          cases b
          · simp only [Bool.false_eq_true, if_false, List.mem_cons]
            rw [h2 x]
            constructor
            · rintro ⟨hx, hp⟩; exact ⟨Or.inr hx, hp⟩
            · rintro ⟨rfl | hx, hp⟩
              · rw [hy] at hp; cases hp
              · exact ⟨hx, hp⟩
          · simp only [if_true, List.mem_cons]
            rw [h2 x]
            constructor
            · rintro (rfl | ⟨hx, hp⟩)
              · exact ⟨Or.inl rfl, hy⟩
              · exact ⟨Or.inr hx, hp⟩
            · rintro ⟨rfl | hx, hp⟩
              · exact Or.inl rfl
              · exact Or.inr ⟨hx, hp⟩

/-- the filter never invents a status -/
theorem fromStoreFilter_sub (active : Str) (recs : List Rec) (l k : List St)
    (h : fromStoreFilter active recs l = some k) : ∀ x ∈ k, x ∈ l := by
  unfold fromStoreFilter at h
  cases hg : anyP (notActive active) l with
  | none => simp [hg] at h
  | some g =>
    simp only [hg] at h
    cases g
    · simp at h; subst h; exact fun x hx => hx
    · simp only [if_true] at h
      intro x hx
      exact (((filterP_spec _ l k h).2 x).1 hx).1

/-- a status of the log for which `keep` cannot answer `false` survives `from_store` -/
theorem fromStoreFilter_mem (active : Str) (recs : List Rec) (l k : List St)
    (h : fromStoreFilter active recs l = some k) (x : St) (hx : x ∈ l)
    (hkeep : ∀ b, keep active recs x = some b → b = true) : x ∈ k := by
  unfold fromStoreFilter at h
  cases hg : anyP (notActive active) l with
  | none => simp [hg] at h
  | some g =>
    simp only [hg] at h
    cases g
    · simp at h; subst h; exact hx
    · simp only [if_true] at h
      obtain ⟨h1, h2⟩ := filterP_spec _ l k h
      obtain ⟨b, hb⟩ := h1 x hx
      have := hkeep b hb
      subst this
      exact (h2 x).2 ⟨hx, hb⟩

/-- **statuses of the active claim's own validation always reach the results** -/
theorem fromStoreFilter_keeps_active_scope (active : Str) (recs : List Rec) (l k : List St)
    (h : fromStoreFilter active recs l = some k) (x : St) (hx : x ∈ l) (hi : x.ing = false) :
    x ∈ k :=
  fromStoreFilter_mem active recs l k h x hx fun b hb => keep_active_scope active recs x b hb hi

/-- statuses nobody recorded always reach the results -/
theorem fromStoreFilter_keeps_unrecorded (active : Str) (recs : List Rec) (l k : List St)
    (h : fromStoreFilter active recs l = some k) (x : St) (hx : x ∈ l)
    (hr : recordedIn recs x = false) : x ∈ k :=
  fromStoreFilter_mem active recs l k h x hx fun b hb => keep_unrecorded active recs x b hb hr

/-- `ValidationStatus` → C04 status; `uriOf` gives the ingredient URI of an ingredient-scoped one -/
def toStatusS (uriOf : St → List Char) (s : St) : C04.Status :=
  { code := s.code,
    kind := match s.kind with
      | .success => .success | .info => .informational | .failure => .failure,
    uri := if s.ing then some (uriOf s) else none }

/-- `ValidationResults::from_store`: filter, then `add_status` in log order (`none` = a URI
helper panicked) -/
def reportS (active : Str) (recs : List Rec) (uriOf : St → List Char) (r0 : C04.Results)
    (log : List St) : P C04.Results := do
  let kept ← fromStoreFilter active recs log
  pure ((kept.map (toStatusS uriOf)).foldl C04.addStatus r0)

/-- **a surviving non-tolerated failure makes the reported state Invalid** -/
theorem reportS_invalid (active : Str) (recs : List Rec) (uriOf : St → List Char) (r0 r : C04.Results)
    (log : List St) (h : reportS active recs uriOf r0 log = some r) (x : St) (hx : x ∈ log)
    (hkeep : ∀ b, keep active recs x = some b → b = true)
    (hf : x.kind = .failure) (ht : C04.tolerated x.code = false) :
    C04.state r = .invalid := by
  unfold reportS at h
  cases hk : fromStoreFilter active recs log with
  | none => simp [hk] at h
  | some kept =>
    simp only [hk, Option.bind_eq_bind, Option.bind_some, Option.pure_def, Option.some.injEq] at h
    subst h
    have hin := fromStoreFilter_mem active recs log kept hk x hx hkeep
    refine C04.nontolerated_failure_in_sequence_invalid r0 _ (toStatusS uriOf x) ?_ ?_ ht
    · exact List.mem_map.2 ⟨x, hin, rfl⟩
    · simp [toStatusS, hf]

/-- a log decorated with URLs: `sts` is the list of `ValidationStatus`es `from_store` makes from
the logged events `log` (same codes, kinds and scopes, any URLs) -/
def Decorates (sts : List St) (log : List Ev) : Prop := sts.map St.toEv = log

theorem decorates_mem (sts : List St) (log : List Ev) (h : Decorates sts log) (e : Ev) (he : e ∈ log) :
    ∃ s ∈ sts, s.code = e.code ∧ s.kind = e.kind ∧ s.ing = e.ing := by
  unfold Decorates at h
  rw [← h] at he
  obtain ⟨s, hs, rfl⟩ := List.mem_map.1 he
  exact ⟨s, hs, rfl, rfl, rfl⟩

/-- **the composition used by the "never Valid" theorems**: an active-scope, non-tolerated
failure event of the log makes the Reader's state `Invalid`, for every URL decoration of the log
and every content of the ingredient assertions -/
theorem active_scope_failure_invalid (log : List Ev) (e : Ev) (he : e ∈ log)
    (hf : e.isFailure = true) (hi : e.ing = false) (ht : C04.tolerated e.code = false)
    (sts : List St) (hd : Decorates sts log)
    (active : Str) (recs : List Rec) (uriOf : St → List Char) (r0 r : C04.Results)
    (h : reportS active recs uriOf r0 sts = some r) : C04.state r = .invalid := by
  obtain ⟨s, hs, hc, hk, hing⟩ := decorates_mem sts log hd e he
  have hkf : e.kind = .failure := by unfold Ev.isFailure at hf; simpa using hf
  refine reportS_invalid active recs uriOf r0 r sts h s hs ?_ (by rw [hk, hkf]) (by rw [hc]; exact ht)
  intro b hb
  exact keep_active_scope active recs s b hb (by rw [hing, hi])

/-- the same for any event, under the explicit condition that no ingredient assertion records it -/
theorem unrecorded_failure_invalid (log : List Ev) (e : Ev) (he : e ∈ log)
    (hf : e.isFailure = true) (ht : C04.tolerated e.code = false)
    (sts : List St) (hd : Decorates sts log)
    (active : Str) (recs : List Rec) (uriOf : St → List Char) (r0 r : C04.Results)
    (hrec : ∀ s ∈ sts, s.code = e.code → s.ing = true → recordedIn recs s = false)
    (h : reportS active recs uriOf r0 sts = some r) : C04.state r = .invalid := by
  obtain ⟨s, hs, hc, hk, hing⟩ := decorates_mem sts log hd e he
  have hkf : e.kind = .failure := by unfold Ev.isFailure at hf; simpa using hf
  refine reportS_invalid active recs uriOf r0 r sts h s hs ?_ (by rw [hk, hkf]) (by rw [hc]; exact ht)
  intro b hb
  cases hi : s.ing
  · exact keep_active_scope active recs s b hb hi
  · exact keep_unrecorded active recs s b hb (hrec s hs hc hi)

end C2pa.C20
