import C2paModel.Lemmas.C20Loop
/-
C20 — helper lemmas for "the redacted claim still validates" at the level of the whole
`verify_claim`: the tracking list of the assertion loop, the rule blocks and rule 2.d of
`verify_actions` after one assertion was removed from the assertion store.
-/
namespace C2pa.C20
open C2pa.C34

/-! ### the tracking list -/

theorem eraseKey_eq_eraseP (l : Str) (i : Nat) (t : List CA) :
    eraseKey l i t = t.eraseP fun a => a.label == l && a.inst == i := by
  induction t with
  | nil => rfl
  | cons a as ih =>
    unfold eraseKey
    by_cases h : (a.label == l && a.inst == i) = true
    · simp [h, List.eraseP_cons_of_pos]
    · simp only [h]
      rw [List.eraseP_cons_of_neg (by simpa using h), ih]
      rfl

theorem step_track (c : Claim) (keys : List RedKey) (ing : Bool) (track : List CA) (r : Ref) :
    (assertionStep c keys ing track r).2 = eraseKey r.label r.inst track := by
  unfold assertionStep
  simp only []
  split
  · rfl
  · split
    · split <;> rfl
    · rfl

/-- the tracking list the loop returns depends only on the hashed URIs and the initial list -/
theorem loop_track (c : Claim) (keys : List RedKey) (ing : Bool) :
    ∀ (refs : List Ref) (track : List CA),
      (assertionLoop c keys ing refs track).2 =
        refs.foldl (fun t r => eraseKey r.label r.inst t) track := by
  intro refs
  induction refs with
  | nil => intro track; rfl
  | cons r rs ih =>
    intro track
    simp only [assertionLoop, List.foldl_cons]
    rw [ih, step_track]

theorem track_sublist (refs : List Ref) :
    ∀ (t t' : List CA), t'.Sublist t →
      (refs.foldl (fun t r => eraseKey r.label r.inst t) t').Sublist
        (refs.foldl (fun t r => eraseKey r.label r.inst t) t) := by
  induction refs with
  | nil => intro t t' h; exact h
  | cons r rs ih =>
    intro t t' h
    simp only [List.foldl_cons]
    apply ih
    rw [eraseKey_eq_eraseP, eraseKey_eq_eraseP]
    exact h.eraseP

/-- **no assertion becomes undeclared by removing one**: if the loop consumed the whole
assertion store, it consumes every sub-list of it -/
theorem track_nil_of_sublist (c c' : Claim) (keys keys' : List RedKey) (ing : Bool) (refs : List Ref)
    (t t' : List CA) (hs : t'.Sublist t) (h : (assertionLoop c keys ing refs t).2 = []) :
    (assertionLoop c' keys' ing refs t').2 = [] := by
  rw [loop_track] at h ⊢
  have := track_sublist refs t t' hs
  rw [h] at this
  exact List.sublist_nil.1 this

/-! ### parsed redaction lists -/

theorem parseRedactions_mem :
    ∀ (reds : List Str) (keys : List RedKey), parseRedactions reds = some keys →
      (∀ r ∈ reds, ∃ k ∈ keys, parseRedaction r = some k) ∧
      (∀ k ∈ keys, ∃ r ∈ reds, parseRedaction r = some k) := by
  intro reds
  induction reds with
  | nil =>
    intro keys h
    simp [parseRedactions] at h
    subst h
    simp
  | cons r rs ih =>
    intro keys h
    unfold parseRedactions at h
    cases hk : parseRedaction r with
    | none => simp [hk] at h
    | some k =>
      cases hr : parseRedactions rs with
      | none => simp [hk, hr] at h
      | some ks =>
        simp only [hk, hr, Option.bind_eq_bind, Option.bind_some, Option.pure_def,
          Option.some.injEq] at h
        subst h
        obtain ⟨h1, h2⟩ := ih ks hr
        constructor
        · intro x hx
          rcases List.mem_cons.1 hx with rfl | hx
          · exact ⟨k, List.mem_cons_self .., hk⟩
          · obtain ⟨k', hk', hp⟩ := h1 x hx
            exact ⟨k', List.mem_cons_of_mem _ hk', hp⟩
        · intro x hx
          rcases List.mem_cons.1 hx with rfl | hx
          · exact ⟨r, List.mem_cons_self .., hk⟩
          · obtain ⟨r', hr', hp⟩ := h2 x hx
            exact ⟨r', List.mem_cons_of_mem _ hr', hp⟩

/-- a longer redaction list of the hierarchy parses to a larger key set -/
theorem keys_mono (reds reds' : List Str) (keys keys' : List RedKey)
    (hk : parseRedactions reds = some keys) (hk' : parseRedactions reds' = some keys')
    (hsub : ∀ r ∈ reds, r ∈ reds') : ∀ k ∈ keys, k ∈ keys' := by
  intro k hkm
  obtain ⟨r, hr, hp⟩ := (parseRedactions_mem reds keys hk).2 k hkm
  obtain ⟨k', hk'm, hp'⟩ := (parseRedactions_mem reds' keys' hk').1 r (hsub r hr)
  rw [hp] at hp'; cases hp'
  exact hk'm

/-! ### rule 2.d of `verify_actions` reads only labels, hashed-URI lists and the redaction list -/

/-- what `verify_actions` reads of a claim of the manifest map -/
def ckey (c : Claim) : Str × List HU := (c.label, c.assertions)

theorem find_ckey_congr :
    ∀ (map map' : List Claim), map.map ckey = map'.map ckey → ∀ il : Str,
      (map.find? (·.label == il)).map ckey = (map'.find? (·.label == il)).map ckey := by
  intro map
  induction map with
  | nil =>
    intro map' h il
    cases map' with
    | nil => rfl
    | cons _ _ => simp at h
  | cons x xs ih =>
    intro map' h il
    cases map' with
    | nil => simp at h
    | cons y ys =>
      simp only [List.map_cons, List.cons.injEq] at h
      obtain ⟨hxy, hrest⟩ := h
      have hl : x.label = y.label := congrArg Prod.fst hxy
      simp only [List.find?_cons]
      rw [hl]
      cases hq : (y.label == il)
      · exact ih ys hrest il
      · simp only [Option.map_some, hxy]

theorem redactedParamTest_congr (c c' : Claim) (map map' : List Claim)
    (hr : c.redactions = c'.redactions) (hm : map.map ckey = map'.map ckey) (uri : Str) :
    redactedParamTest c map uri = redactedParamTest c' map' uri := by
  unfold redactedParamTest
  cases hml : manifestLabelFromUri uri with
  | none => rfl
  | some m =>
    cases m with
    | none => rfl
    | some il =>
      simp only [Option.bind_eq_bind, Option.bind_some]
      have hf := find_ckey_congr map map' hm il
      cases h1 : map.find? (·.label == il) with
      | none =>
        cases h2 : map'.find? (·.label == il) with
        | none => rfl
        | some ic' => rw [h1, h2] at hf; simp at hf
      | some ic =>
        cases h2 : map'.find? (·.label == il) with
        | none => rw [h1, h2] at hf; simp at hf
        | some ic' =>
          rw [h1, h2] at hf
          simp only [Option.map_some, Option.some.injEq] at hf
          have ha : ic.assertions = ic'.assertions := congrArg Prod.snd hf
          simp only [ha, hr]

theorem redactedActionEvents_congr (c c' : Claim) (map map' : List Claim) (ing : Bool)
    (hr : c.redactions = c'.redactions) (hm : map.map ckey = map'.map ckey) (a : Act) :
    redactedActionEvents c map ing a = redactedActionEvents c' map' ing a := by
  unfold redactedActionEvents
  split
  · cases a.params with
    | none => rfl
    | some p =>
      cases p with
      | none => rfl
      | some uri =>
        simp only []
        rw [redactedParamTest_congr c c' map map' hr hm uri]
  · rfl

theorem actsEvents_congr (c c' : Claim) (map map' : List Claim) (ing : Bool)
    (hr : c.redactions = c'.redactions) (hm : map.map ckey = map'.map ckey) :
    ∀ l : List Act, actsEvents c map ing l = actsEvents c' map' ing l := by
  intro l
  induction l with
  | nil => rfl
  | cons a as ih =>
    simp only [actsEvents]
    rw [redactedActionEvents_congr c c' map map' ing hr hm a, ih]

theorem actionsEvents_congr (c c' : Claim) (map map' : List Claim) (ing : Bool)
    (hr : c.redactions = c'.redactions) (hm : map.map ckey = map'.map ckey) :
    ∀ l : List (List Act), actionsEvents c map ing l = actionsEvents c' map' ing l := by
  intro l
  induction l with
  | nil => rfl
  | cons a as ih =>
    simp only [actionsEvents]
    rw [actsEvents_congr c c' map map' ing hr hm a, ih]

/-! ### the rule blocks after the removal of a plain assertion

`c'` is the claim after the removal: same fields, assertion store without `a`. -/

theorem actionAssertions_remove (c c' : Claim) (pre post : List CA) (a : CA)
    (hs : c.store = pre ++ a :: post) (hs' : c'.store = pre ++ post) (ha : a.acts? = none) :
    actionAssertions c' = actionAssertions c := by
  unfold actionAssertions
  rw [hs, hs']
  simp [List.filterMap_append, ha]

theorem ingAssertions_remove (c c' : Claim) (pre post : List CA) (a : CA)
    (hs : c.store = pre ++ a :: post) (hs' : c'.store = pre ++ post) (ha : a.ing? = none) :
    ingAssertions c' = ingAssertions c := by
  unfold ingAssertions
  rw [hs, hs']
  simp [List.filterMap_append, ha]

theorem parentCount_remove (c c' : Claim) (pre post : List CA) (a : CA)
    (hs : c.store = pre ++ a :: post) (hs' : c'.store = pre ++ post) (ha : a.ing? = none) :
    parentCount c' = parentCount c := by
  unfold parentCount
  rw [ingAssertions_remove c c' pre post a hs hs' ha]

theorem thumbCount_remove (c c' : Claim) (pre post : List CA) (a : CA)
    (hs : c.store = pre ++ a :: post) (hs' : c'.store = pre ++ post) :
    thumbCount c' ≤ thumbCount c := by
  unfold thumbCount
  rw [hs, hs']
  simp only [List.filter_append, List.length_append, List.filter_cons]
  split <;> simp <;> omega

theorem hasBindingLabel_remove (c c' : Claim) (pre post : List CA) (a : CA)
    (hs : c.store = pre ++ a :: post) (hs' : c'.store = pre ++ post) (h : hasBindingLabel c' = true) :
    hasBindingLabel c = true := by
  unfold hasBindingLabel at h ⊢
  rw [hs]
  rw [hs'] at h
  simp only [List.any_append, List.any_cons, Bool.or_eq_true] at h ⊢
  rcases h with h | h
  · exact Or.inl h
  · exact Or.inr (Or.inr h)

/-- every event the rule block logs for the reduced claim it also logs for the original one -/
theorem manifestRules_remove (c c' : Claim) (ing : Bool) (pre post : List CA) (a : CA)
    (hs : c.store = pre ++ a :: post) (hs' : c'.store = pre ++ post) (hu' : c'.update = c.update)
    (hacts : a.acts? = none) (hing : a.ing? = none) :
    ∀ e ∈ manifestRules c' ing, e ∈ manifestRules c ing := by
  intro e he
  unfold manifestRules at he ⊢
  have hpc := parentCount_remove c c' pre post a hs hs' hing
  have hda : disallowedActionEvents c' ing = disallowedActionEvents c ing := by
    unfold disallowedActionEvents
    rw [actionAssertions_remove c c' pre post a hs hs' hacts]
  rw [hu', hda, hpc] at he
  by_cases hu : c.update = true
  · simp only [hu, if_true] at he ⊢
    simp only [List.mem_append] at he ⊢
    rcases he with ((he | he) | he) | he
    · exact Or.inl (Or.inl (Or.inl he))
    · left; left; right
      by_cases ht : thumbCount c' > 1
      · have : thumbCount c > 1 := Nat.lt_of_lt_of_le ht (thumbCount_remove c c' pre post a hs hs')
        simp only [ht, if_true] at he
        simp only [this, if_true]
        exact he
      · simp [ht] at he
    · left; right
      cases hh : hasBindingLabel c'
      · simp [hh] at he
      · simp only [hh, if_true] at he
        simp only [hasBindingLabel_remove c c' pre post a hs hs' hh, if_true]
        exact he
    · exact Or.inr he
  · simp only [hu] at he ⊢
    exact he

/-! ### databoxes: erasure of the first box whose normalised URL is the target -/

theorem eraseBox_some (target : Str) :
    ∀ (l l' : List (Str × Str)), eraseBox target l = some (some l') →
      ∃ pre b post, l = pre ++ b :: post ∧ l' = pre ++ post ∧
        toNormalizedUri b.1 = some target ∧
        ∀ x ∈ pre, toNormalizedUri x.1 ≠ some target := by
  intro l
  induction l with
  | nil => intro l' h; simp [eraseBox] at h
  | cons a as ih =>
    intro l' h
    unfold eraseBox at h
    cases hk : toNormalizedUri a.1 with
    | none => simp [hk] at h
    | some k =>
      simp only [hk, Option.bind_eq_bind, Option.bind_some] at h
      by_cases he : (k == target) = true
      · simp only [he, if_true] at h
        cases h
        have : k = target := by simpa using he
        exact ⟨[], a, as, rfl, rfl, by rw [hk, this], by intro b hb; cases hb⟩
      · simp only [he] at h
        cases hr : eraseBox target as with
        | none => simp [hr] at h
        | some o =>
          cases o with
          | none => simp [hr] at h
          | some r =>
            simp [hr] at h
            subst h
            obtain ⟨pre, x, post, h1, h2, h3, h4⟩ := ih r hr
            refine ⟨a :: pre, x, post, by simp [h1], by simp [h2], h3, ?_⟩
            intro b hb
            rcases List.mem_cons.1 hb with rfl | hb
            · rw [hk]; intro hc; cases hc; exact he (by simp)
            · exact h4 b hb

end C2pa.C20
