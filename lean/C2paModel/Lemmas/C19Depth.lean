import C2paModel.Lemmas.C19Topo
/-
C19 — edge-counting reachability and the *depth* invariant of `gcrm`: `claim_label_path` is a
real edge path from the root, every claim in the memo map was entered on a path of fewer than
`lim` edges, every log entry of a successful walk is a missing-manifest event of a reachable
dangling reference, and each failing outcome has a graph witness.
-/
namespace C2pa.C19

/-- `ReachIn s a k b`: there is a path of exactly `k` edges from `a` to `b`. -/
inductive ReachIn (s : Store) (a : Nat) : Nat → Nat → Prop
  | refl : ReachIn s a 0 a
  | step {k b c : Nat} : ReachIn s a k b → Edge s b c → ReachIn s a (k + 1) c

theorem ReachIn.reach {s : Store} {a k b : Nat} (h : ReachIn s a k b) : Reach s a b := by
  induction h with
  | refl => exact .refl
  | step _ he ih => exact .step ih he

theorem Reach.reachIn {s : Store} {a b : Nat} (h : Reach s a b) : ∃ k, ReachIn s a k b := by
  induction h with
  | refl => exact ⟨0, .refl⟩
  | step _ he ih => obtain ⟨k, hk⟩ := ih; exact ⟨k + 1, .step hk he⟩

theorem Reach.trans {s : Store} {a b c : Nat} (h₁ : Reach s a b) (h₂ : Reach s b c) :
    Reach s a c := by
  induction h₂ with
  | refl => exact h₁
  | step _ he ih => exact .step ih he

/-- how claim `u` may be entered when the label path is `p` (innermost first): as the root, or
through an ingredient reference of the innermost claim -/
def Entry (s : Store) (root : Nat) (p : List Nat) (u : Nat) : Prop :=
  match p with
  | [] => u = root
  | y :: _ => Edge s y u

/-- the label path is an edge path starting at the root -/
def PathOK (s : Store) (root : Nat) : List Nat → Prop
  | [] => True
  | y :: r => Entry s root r y ∧ PathOK s root r

theorem reachIn_of_path {s : Store} {root : Nat} :
    ∀ (p : List Nat) (u : Nat), PathOK s root p → Entry s root p u → ReachIn s root p.length u
  | [], u, _, he => by
    have : u = root := he
    subst this
    exact .refl
  | y :: r, u, hp, he => by
    have he' : Edge s y u := he
    exact .step (reachIn_of_path r y hp.2 hp.1) he'

/-- every member of the path reaches the innermost claim -/
theorem path_reach_head {s : Store} {root : Nat} :
    ∀ (p : List Nat) (y : Nat), PathOK s root (y :: p) → ∀ x ∈ y :: p, Reach s x y
  | [], y, _, x, hx => by
    rcases List.mem_cons.1 hx with rfl | hx
    · exact .refl
    · cases hx
  | y' :: r, y, hp, x, hx => by
    rcases List.mem_cons.1 hx with rfl | hx
    · exact .refl
    · have he : Edge s y' y := hp.1
      exact .step (path_reach_head r y' hp.2 x hx) he

/-- The depth invariant. -/
structure GD (s : Store) (root lim : Nat) (st : GSt) : Prop where
  pok : PathOK s root st.path
  minv : ∀ x ∈ st.map, ∃ k, k < lim ∧ ReachIn s root k x
  linv : ∀ e ∈ st.log, ∃ u v, e = Ev.missing v ∧ Reach s root u ∧ Dangling s u v
  /-- every finished claim was entered on a path so short that each of its references could be
  followed below the limit (the depth test precedes the memo test: it also applies to a
  reference to a claim that was walked before) -/
  einv : ∀ x ∈ st.fin, ∃ k, ReachIn s root k x ∧ ∀ v, Edge s x v → k + 1 < lim

/-- What a call / a loop establishes, by outcome. -/
structure GDPost (s : Store) (root lim : Nat) (st : GSt) (r : Out × GSt) : Prop where
  ok : r.1 = .ok → GD s root lim r.2 ∧ r.2.path = st.path
  deep : r.1 = .tooDeep → ∃ v k, ReachIn s root k v ∧ lim ≤ k
  cyc : r.1 = .cyclic → ∃ v, Reach s root v ∧ OnCycle s v

theorem GD.pre {s : Store} {root lim : Nat} {st : GSt} (h : GD s root lim st) (u v : Nat) :
    GD s root lim (gPre st u v) := ⟨h.pok, h.minv, h.linv, h.einv⟩

theorem GD.skip {s : Store} {root lim : Nat} {st : GSt} (h : GD s root lim st) :
    GD s root lim (gSkip st) := ⟨h.pok, h.minv, h.linv, h.einv⟩

/-- **the depth test comes first** — an arrival with `lim` claims on the path is the depth error,
whether or not the claim is already in the memo map. -/
theorem gcrm_arrival_too_deep (lim : Nat) (s : Store) (stop : Bool) (n u : Nat) (st : GSt)
    (h : lim ≤ st.path.length) : gcrm lim s stop (n + 1) u st = (.tooDeep, st) := by
  rw [gcrm_succ]; simp [h]

theorem gcrm_ok_entry_depth (lim : Nat) (s : Store) (stop : Bool) (n u : Nat) (st : GSt)
    (h : (gcrm lim s stop n u st).1 = .ok) : st.path.length < lim := by
  cases n with
  | zero => simp [gcrm_zero] at h
  | succ n =>
    rcases Nat.lt_or_ge st.path.length lim with hl | hl
    · exact hl
    · rw [gcrm_arrival_too_deep lim s stop n u st hl] at h; cases h

/-- a loop that completes followed every reference to an existing claim below the limit -/
theorem gLoop_ok_arrivals (s : Store) (stop : Bool) (lim u : Nat) (rec : Nat → GSt → Out × GSt)
    (hpath : ∀ v st, (rec v st).1 = .ok → (rec v st).2.path = st.path)
    (hdep : ∀ v st, (rec v st).1 = .ok → st.path.length < lim) :
    ∀ (ings : List Ing) (st : GSt), (gLoop rec s stop u ings st).1 = .ok →
      ∀ i ∈ ings, ∀ v, i.target = some v → v < s.length → st.path.length < lim := by
  intro ings
  induction ings with
  | nil => intro st _ i hi; cases hi
  | cons i is ih =>
    intro st
    rw [gLoop_cons]
    cases ht : i.target with
    | none =>
      simp only
      intro hok j hj w hw hwl
      rcases List.mem_cons.1 hj with rfl | hj
      · rw [ht] at hw; cases hw
      · exact ih (gSkip st) hok j hj w hw hwl
    | some v =>
      simp only
      by_cases hv : v < s.length
      · simp only [hv, if_true]
        by_cases hc : v ∈ st.path
        · simp [hc]
        · simp only [hc, if_false]
          by_cases hok : (rec v (gPre st u v)).1 = .ok
          · simp only [hok, if_true]
            intro hl j hj w hw hwl
            rcases List.mem_cons.1 hj with rfl | hj
            · exact hdep v (gPre st u v) hok
            · have := ih _ hl j hj w hw hwl
              rw [hpath _ _ hok] at this
              exact this
          · simp only [hok, if_false]
            intro hl; exact hl.elim
      · simp only [hv, if_false]
        cases stop with
        | true => simp
        | false =>
          simp only [Bool.false_eq_true, if_false]
          intro hl j hj w hw hwl
          rcases List.mem_cons.1 hj with rfl | hj
          · rw [ht] at hw; cases hw; exact absurd hwl hv
          · exact ih (gMiss st v) hl j hj w hw hwl

theorem gLoop_depth (s : Store) (stop : Bool) (root lim u : Nat) (c : Claim) (p0 : List Nat)
    (hc : s[u]? = some c) (rec : Nat → GSt → Out × GSt)
    (hrec : ∀ v st, GD s root lim st → Entry s root st.path v → GDPost s root lim st (rec v st)) :
    ∀ (ings : List Ing) (st : GSt), (∀ i ∈ ings, i ∈ c.ings) → GD s root lim st →
      st.path = u :: p0 → GDPost s root lim st (gLoop rec s stop u ings st) := by
  intro ings
  induction ings with
  | nil =>
    intro st _ h _
    exact ⟨fun _ => ⟨h, rfl⟩, (fun h => by simp [gLoop_nil] at h), (fun h => by simp [gLoop_nil] at h)⟩
  | cons i is ih =>
    intro st hsub h hp
    have hsub' : ∀ j ∈ is, j ∈ c.ings := fun j hj => hsub j (List.mem_cons_of_mem _ hj)
    have hru : Reach s root u := by
      have hpok := h.pok
      rw [hp] at hpok
      exact (reachIn_of_path p0 u hpok.2 hpok.1).reach
    rw [gLoop_cons]
    cases ht : i.target with
    | none =>
      simp only
      have := ih (gSkip st) hsub' h.skip hp
      exact ⟨this.ok, this.deep, this.cyc⟩
    | some v =>
      simp only
      by_cases hv : v < s.length
      · simp only [hv, if_true]
        have hedge : Edge s u v := ⟨c, hc, i, hsub i (List.mem_cons_self ..), ht, hv⟩
        by_cases hcy : v ∈ st.path
        · simp only [hcy, if_true]
          refine ⟨(fun h => by cases h), (fun h => by cases h), fun _ => ?_⟩
          have hpok := h.pok
          rw [hp] at hpok hcy
          exact ⟨u, hru, v, hedge, path_reach_head p0 u hpok v hcy⟩
        · simp only [hcy, if_false]
          have hent : Entry s root (gPre st u v).path v := by
            show Entry s root st.path v
            rw [hp]; exact hedge
          have hr := hrec v (gPre st u v) (h.pre u v) hent
          by_cases hok : (rec v (gPre st u v)).1 = .ok
          · simp only [hok, if_true]
            obtain ⟨r1, r2⟩ := hr.ok hok
            have hp' : (rec v (gPre st u v)).2.path = u :: p0 := by rw [r2]; exact hp
            have := ih _ hsub' r1 hp'
            refine ⟨fun h => ?_, this.deep, this.cyc⟩
            obtain ⟨l1, l2⟩ := this.ok h
            exact ⟨l1, by rw [l2, r2]; rfl⟩
          · simp only [hok, if_false]
            exact ⟨fun h => absurd h hok, hr.deep, hr.cyc⟩
      · simp only [hv, if_false]
        cases stop with
        | true =>
          simp only [if_true]
          exact ⟨(fun h => by cases h), (fun h => by cases h), (fun h => by cases h)⟩
        | false =>
          simp only [Bool.false_eq_true, if_false]
          have hd : Dangling s u v :=
            ⟨c, hc, i, hsub i (List.mem_cons_self ..), ht, Nat.le_of_not_lt hv⟩
          have hm : GD s root lim (gMiss st v) := by
            refine ⟨h.pok, h.minv, ?_, h.einv⟩
            intro e he
            rcases List.mem_cons.1 he with rfl | he
            · exact ⟨u, v, rfl, hru, hd⟩
            · exact h.linv e he
          have := ih (gMiss st v) hsub' hm hp
          exact ⟨this.ok, this.deep, this.cyc⟩

/-- **The depth invariant of `gcrm`, for every outcome.** -/
theorem gcrm_depth (s : Store) (stop : Bool) (root lim : Nat) :
    ∀ (n u : Nat) (st : GSt), GD s root lim st → Entry s root st.path u →
      GDPost s root lim st (gcrm lim s stop n u st) := by
  intro n
  induction n with
  | zero =>
    intro u st _ _
    exact ⟨(fun h => by simp [gcrm_zero] at h), (fun h => by simp [gcrm_zero] at h),
      (fun h => by simp [gcrm_zero] at h)⟩
  | succ n ih =>
    intro u st h hent
    have hin := reachIn_of_path st.path u h.pok hent
    rw [gcrm_succ]
    by_cases hl : lim ≤ st.path.length
    · simp only [hl, if_true]
      exact ⟨(fun h => by cases h), fun _ => ⟨u, st.path.length, hin, hl⟩, (fun h => by cases h)⟩
    · simp only [hl, if_false]
      by_cases hm : u ∈ st.map
      · simp only [hm, if_true]
        exact ⟨fun _ => ⟨h, rfl⟩, (fun h => by cases h), (fun h => by cases h)⟩
      · simp only [hm, if_false]
        cases hs : s[u]? with
        | none =>
          simp only
          exact ⟨(fun h => by cases h), (fun h => by cases h), (fun h => by cases h)⟩
        | some c =>
          simp only
          have hpush : GD s root lim (gPush st u) := by
            refine ⟨⟨hent, h.pok⟩, ?_, h.linv, h.einv⟩
            intro x hx
            rcases List.mem_cons.1 hx with rfl | hx
            · exact ⟨st.path.length, Nat.lt_of_not_le hl, hin⟩
            · exact h.minv x hx
          have hloop := gLoop_depth s stop root lim u c st.path hs (gcrm lim s stop n) ih c.ings
            (gPush st u) (fun _ hi => hi) hpush rfl
          by_cases hok : (gLoop (gcrm lim s stop n) s stop u c.ings (gPush st u)).1 = .ok
          · simp only [hok, if_true]
            refine ⟨fun _ => ?_, (fun h => by cases h), (fun h => by cases h)⟩
            obtain ⟨l1, l2⟩ := hloop.ok hok
            refine ⟨⟨?_, l1.minv, l1.linv, ?_⟩, ?_⟩
            · show PathOK s root (gLoop (gcrm lim s stop n) s stop u c.ings (gPush st u)).2.path.tail
              rw [l2]; exact h.pok
            · intro x hx
              rcases List.mem_cons.1 hx with rfl | hx
              · refine ⟨st.path.length, hin, ?_⟩
                rintro v ⟨c', hc', i, hi, ht, hv⟩
                rw [hs] at hc'; cases hc'
                have := gLoop_ok_arrivals s stop lim x (gcrm lim s stop n)
                  (gcrm_ok_path s stop lim n) (gcrm_ok_entry_depth lim s stop n)
                  _ (gPush st x) hok i hi v ht hv
                simpa [gPush] using this
              · exact l1.einv x hx
            · show (gLoop (gcrm lim s stop n) s stop u c.ings (gPush st u)).2.path.tail = st.path
              rw [l2]; rfl
          · simp only [hok, if_false]
            exact ⟨fun h => absurd h hok, hloop.deep, hloop.cyc⟩

theorem GD.init (s : Store) (root lim : Nat) : GD s root lim {} :=
  ⟨trivial, fun _ h => (by cases h), fun _ h => (by cases h), fun _ h => (by cases h)⟩

end C2pa.C19
