import C2paModel.Lemmas.C19Basic
/-
C19 — `ingredient_checks`: unfolding equations, safety for every outcome, fuel lemmas.
-/
namespace C2pa.C19

theorem iLoop_nil (rec : Nat → ISt → Out × ISt) (s : Store) (st : ISt) :
    iLoop rec s [] st = (.ok, st) := rfl

theorem iLoop_cons (rec : Nat → ISt → Out × ISt) (s : Store) (i : Ing) (is : List Ing) (st : ISt) :
    iLoop rec s (i :: is) st =
      match i.target with
      | none => iLoop rec s is (iSkip st)
      | some v =>
        match s[v]? with
        | some c =>
          if c.sigOk = false then (.verifyFailed, iHash st i v)
          else if v ∈ st.visited then iLoop rec s is (iVer st i v)
          else if (rec v (iIns st i v)).1 = .ok then iLoop rec s is (rec v (iIns st i v)).2
          else rec v (iIns st i v)
        | none => iLoop rec s is (iMiss st v) := by
  cases ht : i.target with
  | none => simp [iLoop, ht]
  | some v => cases hs : s[v]? <;> simp [iLoop, ht, hs]

theorem ic_zero (lim : Nat) (s : Store) (d u : Nat) (st : ISt) :
    ic lim s 0 d u st = (.outOfFuel, st) := rfl

theorem ic_succ (lim : Nat) (s : Store) (n d u : Nat) (st : ISt) :
    ic lim s (n + 1) d u st =
      if lim ≤ d then (.tooDeep, st)
      else match s[u]? with
        | none => (.noClaim, st)
        | some c => iLoop (ic lim s n (d + 1)) s c.ings st := by
  cases hs : s[u]? <;> simp [ic, hs]

structure IW (s : Store) (st : ISt) : Prop where
  vnd : st.visited.Nodup
  vlt : ∀ x ∈ st.visited, x < s.length

structure IStep (s : Store) (k : Nat) (st st' : ISt) : Prop where
  iw : IW s st'
  visg : ∃ new, st'.visited = new ++ st.visited
  expg : st'.exp + st.visited.length = st.exp + st'.visited.length
  inspg : st'.insp + degSum s st.visited ≤ st.insp + k + degSum s st'.visited
  logg : ∃ new, st'.log = new ++ st.log

def IOut (o : Out) : Prop := o = .ok ∨ o = .tooDeep ∨ o = .verifyFailed ∨ o = .outOfFuel

theorem IStep.refl {s : Store} {st : ISt} (h : IW s st) : IStep s 0 st st :=
  ⟨h, ⟨[], rfl⟩, rfl, by omega, ⟨[], rfl⟩⟩

theorem IStep.trans {s : Store} {k₁ k₂ : Nat} {a b c : ISt}
    (h₁ : IStep s k₁ a b) (h₂ : IStep s k₂ b c) : IStep s (k₁ + k₂) a c := by
  obtain ⟨n₁, e₁⟩ := h₁.visg
  obtain ⟨n₂, e₂⟩ := h₂.visg
  obtain ⟨m₁, f₁⟩ := h₁.logg
  obtain ⟨m₂, f₂⟩ := h₂.logg
  refine ⟨h₂.iw, ⟨n₂ ++ n₁, by rw [e₂, e₁, List.append_assoc]⟩, ?_, ?_,
    ⟨m₂ ++ m₁, by rw [f₂, f₁, List.append_assoc]⟩⟩
  · have := h₁.expg; have := h₂.expg; omega
  · have := h₁.inspg; have := h₂.inspg; omega

theorem IStep.mono {s : Store} {k k' : Nat} {a b : ISt} (h : IStep s k a b) (hk : k ≤ k') :
    IStep s k' a b :=
  ⟨h.iw, h.visg, h.expg, by have := h.inspg; omega, h.logg⟩

theorem IW.hash {s : Store} {st : ISt} (h : IW s st) (i : Ing) (v : Nat) :
    IStep s 1 st (iHash st i v) :=
  ⟨⟨h.vnd, h.vlt⟩, ⟨[], rfl⟩, rfl, by simp only [iHash]; omega, ⟨[_], rfl⟩⟩

theorem IW.ver {s : Store} {st : ISt} (h : IW s st) (i : Ing) (v : Nat) :
    IStep s 1 st (iVer st i v) :=
  ⟨⟨h.vnd, h.vlt⟩, ⟨[], rfl⟩, rfl, by simp only [iVer, iHash]; omega, ⟨[_, _], rfl⟩⟩

theorem IW.skip {s : Store} {st : ISt} (h : IW s st) :
    IStep s 1 st (iSkip st) :=
  ⟨⟨h.vnd, h.vlt⟩, ⟨[], rfl⟩, rfl, by simp only [iSkip]; omega, ⟨[], rfl⟩⟩

theorem IW.miss {s : Store} {st : ISt} (h : IW s st) (v : Nat) :
    IStep s 1 st (iMiss st v) :=
  ⟨⟨h.vnd, h.vlt⟩, ⟨[], rfl⟩, rfl, by simp only [iMiss]; omega, ⟨[_], rfl⟩⟩

theorem IW.ins {s : Store} {st : ISt} (h : IW s st) (i : Ing) (v : Nat) (hv : v < s.length)
    (hn : v ∉ st.visited) : IW s (iIns st i v) := by
  refine ⟨List.nodup_cons.2 ⟨hn, h.vnd⟩, ?_⟩
  intro x hx
  rcases List.mem_cons.1 hx with rfl | hx
  · exact hv
  · exact h.vlt x hx

theorem iLoop_safe (s : Store) (rec : Nat → ISt → Out × ISt)
    (hrec : ∀ v st, IW s st → v < s.length →
      IStep s (deg s v) st (rec v st).2 ∧ IOut (rec v st).1) :
    ∀ (ings : List Ing) (st : ISt), IW s st →
      IStep s ings.length st (iLoop rec s ings st).2 ∧ IOut (iLoop rec s ings st).1 := by
  intro ings
  induction ings with
  | nil => intro st h; exact ⟨IStep.refl h, Or.inl rfl⟩
  | cons i is ih =>
    intro st h
    rw [iLoop_cons]
    cases ht : i.target with
    | none =>
      simp only
      obtain ⟨h1, h2⟩ := ih (iSkip st) h.skip.iw
      exact ⟨(h.skip.trans h1).mono (by simp; omega), h2⟩
    | some v =>
      simp only
      cases hs : s[v]? with
      | none =>
        simp only
        obtain ⟨l1, l2⟩ := ih _ (h.miss v).iw
        exact ⟨((h.miss v).trans l1).mono (by simp; omega), l2⟩
      | some c =>
        simp only
        have hv : v < s.length := by
          rcases Nat.lt_or_ge v s.length with h' | h'
          · exact h'
          · rw [List.getElem?_eq_none h'] at hs; cases hs
        by_cases hsig : c.sigOk = false
        · simp only [hsig, if_true]
          exact ⟨(h.hash i v).mono (by simp), Or.inr (Or.inr (Or.inl rfl))⟩
        · simp only [hsig]
          by_cases hvis : v ∈ st.visited
          · simp only [hvis, if_true]
            obtain ⟨l1, l2⟩ := ih _ (h.ver i v).iw
            exact ⟨((h.ver i v).trans l1).mono (by simp; omega), l2⟩
          · simp only [hvis, if_false]
            have hins := h.ins i v hv hvis
            obtain ⟨r1, r2⟩ := hrec v (iIns st i v) hins hv
            -- the step from `st` to the state after the recursive call
            have hstep : IStep s 1 st (rec v (iIns st i v)).2 := by
              obtain ⟨new, e⟩ := r1.visg
              have e1 : (iIns st i v).visited = v :: st.visited := rfl
              have e2 : (iIns st i v).exp = st.exp + 1 := rfl
              have e3 : (iIns st i v).insp = st.insp + 1 := rfl
              have e4 : (iIns st i v).log = Ev.verify v ::
                (if i.hashOk then Ev.matched v else Ev.mismatch v) :: st.log := rfl
              refine ⟨r1.iw, ⟨new ++ [v], by rw [e, e1]; simp⟩, ?_, ?_, ?_⟩
              · have := r1.expg
                rw [e1, e2, List.length_cons] at this
                omega
              · have := r1.inspg
                rw [e1, e3, degSum_cons] at this
                omega
              · obtain ⟨m, f⟩ := r1.logg
                exact ⟨m ++ [Ev.verify v, if i.hashOk then Ev.matched v else Ev.mismatch v],
                  by rw [f, e4]; simp⟩
            by_cases hok : (rec v (iIns st i v)).1 = .ok
            · simp only [hok, if_true]
              obtain ⟨l1, l2⟩ := ih _ hstep.iw
              exact ⟨(hstep.trans l1).mono (by simp; omega), l2⟩
            · simp only [hok, if_false]
              exact ⟨hstep.mono (by simp), r2⟩

/-- **Safety of `ingredient_checks` for every outcome.** -/
theorem ic_safe (s : Store) (lim : Nat) :
    ∀ (n d u : Nat) (st : ISt), IW s st → u < s.length →
      IStep s (deg s u) st (ic lim s n d u st).2 ∧ IOut (ic lim s n d u st).1 := by
  intro n
  induction n with
  | zero =>
    intro d u st h _
    exact ⟨(IStep.refl h).mono (Nat.zero_le _), Or.inr (Or.inr (Or.inr rfl))⟩
  | succ n ih =>
    intro d u st h hu
    rw [ic_succ]
    by_cases hl : lim ≤ d
    · simp only [hl, if_true]
      exact ⟨(IStep.refl h).mono (Nat.zero_le _), Or.inr (Or.inl rfl)⟩
    · simp only [hl, if_false]
      have hsome : s[u]? = some s[u] := List.getElem?_eq_getElem hu
      rw [hsome]
      simp only
      have := iLoop_safe s (ic lim s n (d + 1)) (ih (d + 1)) s[u].ings st h
      rw [deg_of_get s u _ hsome]
      exact this

/-! ### fuel -/

theorem iLoop_fuel_mono (s : Store) (rec rec' : Nat → ISt → Out × ISt)
    (hrec : ∀ v st, (rec v st).1 ≠ .outOfFuel → rec' v st = rec v st) :
    ∀ (ings : List Ing) (st : ISt), (iLoop rec s ings st).1 ≠ .outOfFuel →
      iLoop rec' s ings st = iLoop rec s ings st := by
  intro ings
  induction ings with
  | nil => intro st _; rfl
  | cons i is ih =>
    intro st
    rw [iLoop_cons, iLoop_cons]
    cases ht : i.target with
    | none => exact ih (iSkip st)
    | some v =>
      simp only
      cases hs : s[v]? with
      | none => exact ih _
      | some c =>
        simp only
        by_cases hsig : c.sigOk = false
        · simp [hsig]
        · simp only [hsig]
          by_cases hvis : v ∈ st.visited
          · simp only [hvis, if_true]; exact ih _
          · simp only [hvis, if_false]
            by_cases hok : (rec v (iIns st i v)).1 = .ok
            · have e := hrec v (iIns st i v) (by rw [hok]; decide)
              simp only [hok, if_true, e]
              exact ih _
            · simp only [hok, if_false]
              intro h
              have e := hrec v (iIns st i v) h
              simp only [e, hok, if_false]

theorem ic_fuel_succ (s : Store) (lim : Nat) :
    ∀ (n d u : Nat) (st : ISt), (ic lim s n d u st).1 ≠ .outOfFuel →
      ic lim s (n + 1) d u st = ic lim s n d u st := by
  intro n
  induction n with
  | zero => intro d u st h; simp [ic_zero] at h
  | succ n ih =>
    intro d u st
    rw [ic_succ lim s (n + 1), ic_succ lim s n]
    by_cases hl : lim ≤ d
    · simp [hl]
    · simp only [hl, if_false]
      cases hs : s[u]? with
      | none => simp
      | some c =>
        simp only
        intro h
        exact iLoop_fuel_mono s (ic lim s n (d + 1)) (ic lim s (n + 1) (d + 1)) (ih (d + 1)) c.ings st h

theorem ic_fuel_le (s : Store) (lim : Nat) (n d u : Nat) (st : ISt)
    (h : (ic lim s n d u st).1 ≠ .outOfFuel) :
    ∀ k, ic lim s (n + k) d u st = ic lim s n d u st := by
  intro k
  induction k with
  | zero => rfl
  | succ k ih =>
    have : (ic lim s (n + k) d u st).1 ≠ .outOfFuel := by rw [ih]; exact h
    rw [← Nat.add_assoc, ic_fuel_succ s lim (n + k) d u st this, ih]

theorem iLoop_fuel_any (s : Store) (rec : Nat → ISt → Out × ISt)
    (hrec : ∀ v st, (rec v st).1 ≠ .outOfFuel) :
    ∀ (ings : List Ing) (st : ISt), (iLoop rec s ings st).1 ≠ .outOfFuel := by
  intro ings
  induction ings with
  | nil => intro st; simp [iLoop_nil]
  | cons i is ih =>
    intro st
    rw [iLoop_cons]
    cases ht : i.target with
    | none => exact ih (iSkip st)
    | some v =>
      simp only
      cases hs : s[v]? with
      | none => exact ih _
      | some c =>
        simp only
        by_cases hsig : c.sigOk = false
        · simp [hsig]
        · simp only [hsig]
          by_cases hvis : v ∈ st.visited
          · simp only [hvis, if_true]; exact ih _
          · simp only [hvis, if_false]
            by_cases hok : (rec v (iIns st i v)).1 = .ok
            · simp only [hok, if_true]; exact ih _
            · simp only [hok, if_false]; exact hrec _ _

/-- Fuel `lim + 1 - depth` suffices: the recursion is never deeper than the limit. -/
theorem ic_fuel_depth (s : Store) (lim : Nat) :
    ∀ (n d u : Nat) (st : ISt), d ≤ lim → lim + 1 ≤ d + n →
      (ic lim s n d u st).1 ≠ .outOfFuel := by
  intro n
  induction n with
  | zero => intro d u st h1 h2; omega
  | succ n ih =>
    intro d u st h1 h2
    rw [ic_succ]
    by_cases hl : lim ≤ d
    · simp [hl]
    · simp only [hl, if_false]
      cases hs : s[u]? with
      | none => simp
      | some c =>
        simp only
        exact iLoop_fuel_any s _ (fun v st' => ih (d + 1) v st' (by omega) (by omega)) c.ings st

theorem iLoop_fuel_unv (s : Store) (m : Nat) (rec : Nat → ISt → Out × ISt)
    (hsafe : ∀ v st, IW s st → v < s.length →
      IStep s (deg s v) st (rec v st).2 ∧ IOut (rec v st).1)
    (hrec : ∀ v st, IW s st → v < s.length → m + 1 ≤ st.visited.length →
      (rec v st).1 ≠ .outOfFuel) :
    ∀ (ings : List Ing) (st : ISt), IW s st → m ≤ st.visited.length →
      (iLoop rec s ings st).1 ≠ .outOfFuel := by
  intro ings
  induction ings with
  | nil => intro st _ _; simp [iLoop_nil]
  | cons i is ih =>
    intro st h hm
    rw [iLoop_cons]
    cases ht : i.target with
    | none => exact ih (iSkip st) h.skip.iw hm
    | some v =>
      simp only
      cases hs : s[v]? with
      | none => exact ih _ (h.miss v).iw hm
      | some c =>
        simp only
        have hv : v < s.length := by
          rcases Nat.lt_or_ge v s.length with h' | h'
          · exact h'
          · rw [List.getElem?_eq_none h'] at hs; cases hs
        by_cases hsig : c.sigOk = false
        · simp [hsig]
        · simp only [hsig]
          by_cases hvis : v ∈ st.visited
          · simp only [hvis, if_true]; exact ih _ (h.ver i v).iw hm
          · simp only [hvis, if_false]
            have hins := h.ins i v hv hvis
            have hlen : (iIns st i v).visited.length = st.visited.length + 1 := rfl
            obtain ⟨r1, _⟩ := hsafe v (iIns st i v) hins hv
            by_cases hok : (rec v (iIns st i v)).1 = .ok
            · simp only [hok, if_true]
              apply ih _ r1.iw
              obtain ⟨new, e⟩ := r1.visg
              rw [e, List.length_append, hlen]; omega
            · simp only [hok, if_false]
              exact hrec v _ hins hv (by rw [hlen]; omega)

/-- Fuel `|V| - |visited| + 1` suffices. -/
theorem ic_fuel_unv (s : Store) (lim : Nat) :
    ∀ (n d u : Nat) (st : ISt), IW s st → u < s.length →
      s.length + 1 ≤ st.visited.length + n → (ic lim s n d u st).1 ≠ .outOfFuel := by
  intro n
  induction n with
  | zero =>
    intro d u st h _ hn
    have := nodup_length_le s.length st.visited h.vnd h.vlt
    omega
  | succ n ih =>
    intro d u st h hu hn
    rw [ic_succ]
    by_cases hl : lim ≤ d
    · simp [hl]
    · simp only [hl, if_false]
      have hsome : s[u]? = some s[u] := List.getElem?_eq_getElem hu
      rw [hsome]
      simp only
      exact iLoop_fuel_unv s st.visited.length (ic lim s n (d + 1)) (ic_safe s lim n (d + 1))
        (fun v st' hw hv hlen => ih (d + 1) v st' hw hv (by omega)) s[u].ings st h (Nat.le_refl _)

end C2pa.C19
