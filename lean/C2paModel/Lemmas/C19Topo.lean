import C2paModel.Lemmas.C19Fuel
/-
C19 — graph notions (edges, reachability, cycles, topological finish order) and the DFS
invariant that a successful `gcrm` establishes.
-/
namespace C2pa.C19

/-- `u → v`: claim `u` has an ingredient assertion naming the existing claim `v`. -/
def Edge (s : Store) (u v : Nat) : Prop :=
  ∃ c, s[u]? = some c ∧ ∃ i ∈ c.ings, i.target = some v ∧ v < s.length

/-- claim `u` has an ingredient assertion naming a manifest `v` that is not in the store -/
def Dangling (s : Store) (u v : Nat) : Prop :=
  ∃ c, s[u]? = some c ∧ ∃ i ∈ c.ings, i.target = some v ∧ s.length ≤ v

inductive Reach (s : Store) (a : Nat) : Nat → Prop
  | refl : Reach s a a
  | step {b c : Nat} : Reach s a b → Edge s b c → Reach s a c

/-- `v` lies on a directed cycle (self references included) -/
def OnCycle (s : Store) (v : Nat) : Prop := ∃ w, Edge s v w ∧ Reach s w v

/-- `l` (most recently finished first) is a topological order: every successor of a member
was finished strictly earlier. -/
def Topo (s : Store) : List Nat → Prop
  | [] => True
  | u :: l => (∀ v, Edge s u v → v ∈ l) ∧ Topo s l

theorem Topo.closed_edge {s : Store} : ∀ {l : List Nat}, Topo s l → ∀ {u v}, u ∈ l → Edge s u v → v ∈ l
  | [], _, _, _, hu, _ => by cases hu
  | x :: l, ⟨h1, h2⟩, u, v, hu, he => by
    rcases List.mem_cons.1 hu with rfl | hu
    · exact List.mem_cons_of_mem _ (h1 v he)
    · exact List.mem_cons_of_mem _ (Topo.closed_edge h2 hu he)

theorem Topo.closed {s : Store} {l : List Nat} (h : Topo s l) {u v : Nat} (hu : u ∈ l)
    (hr : Reach s u v) : v ∈ l := by
  induction hr with
  | refl => exact hu
  | step _ he ih => exact h.closed_edge ih he

/-- A duplicate-free topological order contains no node that lies on a cycle. -/
theorem Topo.acyclic {s : Store} : ∀ {l : List Nat}, Topo s l → l.Nodup → ∀ u ∈ l, ¬ OnCycle s u
  | [], _, _, u, hu => by cases hu
  | x :: l, ⟨h1, h2⟩, hnd, u, hu => by
    rcases List.mem_cons.1 hu with rfl | hu
    · rintro ⟨w, he, hr⟩
      have hw : w ∈ l := h1 w he
      have : u ∈ l := h2.closed hw hr
      exact (List.nodup_cons.1 hnd).1 this
    · exact Topo.acyclic h2 (List.nodup_cons.1 hnd).2 u hu

/-- The DFS invariant (grey = `path`, black = `fin`, `map` = grey ∪ black). -/
structure GInv (s : Store) (st : GSt) : Prop where
  pm : ∀ x ∈ st.path, x ∈ st.map
  fm : ∀ x ∈ st.fin, x ∈ st.map
  mpf : ∀ x ∈ st.map, x ∈ st.path ∨ x ∈ st.fin
  disj : ∀ x ∈ st.path, x ∉ st.fin
  fnd : st.fin.Nodup
  topo : Topo s st.fin
  dlog : ∀ x ∈ st.fin, ∀ v, Dangling s x v → Ev.missing v ∈ st.log

/-- What a successful call / loop guarantees. -/
structure GOk (s : Store) (st st' : GSt) : Prop where
  inv : GInv s st'
  path : st'.path = st.path
  fing : ∀ x ∈ st.fin, x ∈ st'.fin
  logg : ∀ e ∈ st.log, e ∈ st'.log

theorem GOk.refl {s : Store} {st : GSt} (h : GInv s st) : GOk s st st :=
  ⟨h, rfl, fun _ h => h, fun _ h => h⟩

theorem GOk.trans {s : Store} {a b c : GSt} (h₁ : GOk s a b) (h₂ : GOk s b c) : GOk s a c :=
  ⟨h₂.inv, h₂.path.trans h₁.path, fun x hx => h₂.fing x (h₁.fing x hx),
    fun e he => h₂.logg e (h₁.logg e he)⟩

theorem GInv.pre {s : Store} {st : GSt} (h : GInv s st) (u v : Nat) : GOk s st (gPre st u v) :=
  ⟨⟨h.pm, h.fm, h.mpf, h.disj, h.fnd, h.topo, h.dlog⟩, rfl, fun _ h => h, fun _ h => h⟩

theorem GInv.skip {s : Store} {st : GSt} (h : GInv s st) : GOk s st (gSkip st) :=
  ⟨⟨h.pm, h.fm, h.mpf, h.disj, h.fnd, h.topo, h.dlog⟩, rfl, fun _ h => h, fun _ h => h⟩

theorem GInv.miss {s : Store} {st : GSt} (h : GInv s st) (v : Nat) : GOk s st (gMiss st v) :=
  ⟨⟨h.pm, h.fm, h.mpf, h.disj, h.fnd, h.topo,
      fun x hx w hw => List.mem_cons_of_mem _ (h.dlog x hx w hw)⟩,
    rfl, fun _ h => h, fun _ h => List.mem_cons_of_mem _ h⟩

theorem gLoop_ok (s : Store) (stop : Bool) (u : Nat) (rec : Nat → GSt → Out × GSt)
    (hrec : ∀ v st, GInv s st → v ∉ st.path → (rec v st).1 = .ok →
      GOk s st (rec v st).2 ∧ v ∈ (rec v st).2.fin) :
    ∀ (ings : List Ing) (st : GSt), GInv s st → (gLoop rec s stop u ings st).1 = .ok →
      GOk s st (gLoop rec s stop u ings st).2 ∧
      ∀ i ∈ ings, ∀ v, i.target = some v →
        (v < s.length → v ∈ (gLoop rec s stop u ings st).2.fin) ∧
        (s.length ≤ v → Ev.missing v ∈ (gLoop rec s stop u ings st).2.log) := by
  intro ings
  induction ings with
  | nil =>
    intro st h _
    exact ⟨GOk.refl h, fun i hi => by cases hi⟩
  | cons i is ih =>
    intro st h
    rw [gLoop_cons]
    cases ht : i.target with
    | none =>
      simp only
      intro hok
      obtain ⟨l1, l2⟩ := ih (gSkip st) h.skip.inv hok
      refine ⟨h.skip.trans l1, ?_⟩
      intro i' hi' v hv
      rcases List.mem_cons.1 hi' with rfl | hi'
      · rw [ht] at hv; cases hv
      · exact l2 i' hi' v hv
    | some v =>
      simp only
      by_cases hv : v < s.length
      · simp only [hv, if_true]
        by_cases hc : v ∈ st.path
        · simp [hc]
        · simp only [hc, if_false]
          by_cases hok : (rec v (gPre st u v)).1 = .ok
          · simp only [hok, if_true]
            intro hl
            have hpre := h.pre u v
            obtain ⟨r1, r2⟩ := hrec v (gPre st u v) hpre.inv hc hok
            obtain ⟨l1, l2⟩ := ih _ r1.inv hl
            refine ⟨(hpre.trans r1).trans l1, ?_⟩
            intro i' hi' v' hv'
            rcases List.mem_cons.1 hi' with rfl | hi'
            · rw [ht] at hv'
              cases hv'
              exact ⟨fun _ => l1.fing _ r2, fun hge => absurd hv (by omega)⟩
            · exact l2 i' hi' v' hv'
          · simp only [hok, if_false]
            intro hl; exact hl.elim
      · simp only [hv, if_false]
        cases stop with
        | true => simp
        | false =>
          simp only [Bool.false_eq_true, if_false]
          intro hl
          have hm := h.miss v
          obtain ⟨l1, l2⟩ := ih _ hm.inv hl
          refine ⟨hm.trans l1, ?_⟩
          intro i' hi' v' hv'
          rcases List.mem_cons.1 hi' with rfl | hi'
          · rw [ht] at hv'
            cases hv'
            exact ⟨fun hlt => absurd hlt hv, fun _ => l1.logg _ (List.mem_cons_self ..)⟩
          · exact l2 i' hi' v' hv'

theorem GInv.push {s : Store} {st : GSt} (h : GInv s st) (u : Nat) (hm : u ∉ st.map) :
    GInv s (gPush st u) := by
  refine ⟨?_, ?_, ?_, ?_, h.fnd, h.topo, h.dlog⟩
  · intro x hx
    rcases List.mem_cons.1 hx with rfl | hx
    · exact List.mem_cons_self ..
    · exact List.mem_cons_of_mem _ (h.pm x hx)
  · intro x hx
    exact List.mem_cons_of_mem _ (h.fm x hx)
  · intro x hx
    rcases List.mem_cons.1 hx with rfl | hx
    · exact Or.inl (List.mem_cons_self ..)
    · rcases h.mpf x hx with hp | hf
      · exact Or.inl (List.mem_cons_of_mem _ hp)
      · exact Or.inr hf
  · intro x hx
    rcases List.mem_cons.1 hx with rfl | hx
    · exact fun hf => hm (h.fm _ hf)
    · exact h.disj x hx

/-- **A successful `gcrm` call finishes its claim and keeps the DFS invariant.** -/
theorem gcrm_ok (s : Store) (stop : Bool) (lim : Nat) :
    ∀ (n u : Nat) (st : GSt), GInv s st → u ∉ st.path → (gcrm lim s stop n u st).1 = .ok →
      GOk s st (gcrm lim s stop n u st).2 ∧ u ∈ (gcrm lim s stop n u st).2.fin := by
  intro n
  induction n with
  | zero => intro u st _ _ h; simp [gcrm_zero] at h
  | succ n ih =>
    intro u st h hp
    rw [gcrm_succ]
    by_cases hl : lim ≤ st.path.length
    · simp [hl]
    · simp only [hl, if_false]
      by_cases hm : u ∈ st.map
      · simp only [hm, if_true]
        intro _
        refine ⟨GOk.refl h, ?_⟩
        rcases h.mpf u hm with h1 | h1
        · exact absurd h1 hp
        · exact h1
      · simp only [hm, if_false]
        cases hs : s[u]? with
        | none => simp
        | some c =>
          simp only
          by_cases hok : (gLoop (gcrm lim s stop n) s stop u c.ings (gPush st u)).1 = .ok
          · simp only [hok, if_true]
            intro _
            obtain ⟨l1, l2⟩ := gLoop_ok s stop u (gcrm lim s stop n) ih c.ings (gPush st u)
              (h.push u hm) hok
            generalize gLoop (gcrm lim s stop n) s stop u c.ings (gPush st u) = r at l1 l2
            have hp2 : r.2.path = u :: st.path := l1.path
            have hi := l1.inv
            have hup : u ∈ r.2.path := by rw [hp2]; exact List.mem_cons_self ..
            refine ⟨⟨⟨?_, ?_, ?_, ?_, ?_, ?_, ?_⟩, ?_, ?_, ?_⟩, ?_⟩
            · intro x hx
              exact hi.pm x (List.mem_of_mem_tail hx)
            · intro x hx
              rcases List.mem_cons.1 hx with rfl | hx
              · exact hi.pm _ hup
              · exact hi.fm x hx
            · intro x hx
              rcases hi.mpf x hx with h1 | h1
              · rw [hp2] at h1
                rcases List.mem_cons.1 h1 with rfl | h1
                · exact Or.inr (List.mem_cons_self ..)
                · left; show x ∈ r.2.path.tail; rw [hp2]; exact h1
              · exact Or.inr (List.mem_cons_of_mem _ h1)
            · intro x hx
              have hx' : x ∈ st.path := by
                have : x ∈ r.2.path.tail := hx
                rw [hp2] at this; exact this
              have hxp : x ∈ r.2.path := by rw [hp2]; exact List.mem_cons_of_mem _ hx'
              intro hf
              rcases List.mem_cons.1 hf with rfl | hf
              · exact hp hx'
              · exact hi.disj x hxp hf
            · exact List.nodup_cons.2 ⟨hi.disj u hup, hi.fnd⟩
            · refine ⟨?_, hi.topo⟩
              rintro v ⟨c', hc', i, hi', ht, hv⟩
              rw [hs] at hc'; cases hc'
              exact (l2 i hi' v ht).1 hv
            · intro x hx v hd
              rcases List.mem_cons.1 hx with rfl | hx
              · obtain ⟨c', hc', i, hi', ht, hv⟩ := hd
                rw [hs] at hc'; cases hc'
                exact (l2 i hi' v ht).2 hv
              · exact hi.dlog x hx v hd
            · show r.2.path.tail = st.path
              rw [hp2]; rfl
            · intro x hx
              exact List.mem_cons_of_mem _ (l1.fing x hx)
            · exact l1.logg
            · exact List.mem_cons_self ..
          · simp only [hok, if_false]
            intro hl'; exact hl'.elim

theorem GInv.init (s : Store) : GInv s {} :=
  ⟨fun _ h => (by cases h), fun _ h => (by cases h), fun _ h => (by cases h),
    fun _ h => (by cases h), List.nodup_nil, trivial, fun _ h => (by cases h)⟩

theorem GW.init (s : Store) (lim : Nat) : GW s lim {} :=
  ⟨List.nodup_nil, fun _ h => (by cases h), Nat.zero_le _, List.nodup_nil, fun _ h => (by cases h)⟩

end C2pa.C19
