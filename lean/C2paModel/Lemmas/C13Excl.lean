import C2paModel.Lemmas.C13Pieces
import C2paModel.Lemmas.C13Sort
/-
C13 — the exclusion branch: interval subtraction keeps the remaining ranges ordered and
disjoint and removes exactly the excluded positions; marker splitting and the "remaining
markers" rule produce an ordered piece list whose position-wise reading is the specification.
-/
namespace C2pa.C13

/-! ### remaining ranges (`RangeSet`) -/

/-- ordered, disjoint, non-empty ranges inside `[k, N)` -/
def WFR (N : Nat) : Nat → List (Nat × Nat) → Prop
  | _, [] => True
  | k, r :: rs => k ≤ r.1 ∧ r.1 ≤ r.2 ∧ r.2 < N ∧ WFR N (r.2 + 1) rs

def runCover (rs : List (Nat × Nat)) (x : Nat) : Bool := rs.any fun r => r.1 ≤ x && x ≤ r.2

theorem WFR_mono {N : Nat} (rs : List (Nat × Nat)) (k k' : Nat) (h : WFR N k rs) (hk : k' ≤ k) :
    WFR N k' rs := by
  cases rs with
  | nil => trivial
  | cons r rs => exact ⟨by have := h.1; omega, h.2⟩

theorem WFR_cover {N : Nat} : ∀ (rs : List (Nat × Nat)) (k x : Nat), WFR N k rs →
    runCover rs x = true → k ≤ x ∧ x < N := by
  intro rs
  induction rs with
  | nil => intro k x _ h; simp [runCover] at h
  | cons r rs ih =>
    intro k x h hc
    obtain ⟨h1, h2, h3, h4⟩ := h
    simp only [runCover, List.any_cons, Bool.or_eq_true, Bool.and_eq_true, decide_eq_true_eq] at hc
    rcases hc with hc | hc
    · omega
    · have := ih (r.2 + 1) x h4 (by simpa [runCover] using hc); omega

theorem removeOne_cover (s e : Nat) (r : Nat × Nat) (x : Nat) :
    runCover (removeOne s e r) x = (runCover [r] x && !(decide (s ≤ x) && decide (x ≤ e))) := by
  rw [Bool.eq_iff_iff]
  unfold removeOne
  by_cases h1 : r.2 < s ∨ e < r.1
  · simp only [h1, if_true]
    simp only [runCover, List.any_cons, List.any_nil, Bool.or_false, Bool.and_eq_true,
      decide_eq_true_eq, Bool.not_eq_true', Bool.and_eq_false_iff, decide_eq_false_iff_not]
    omega
  · simp only [h1, if_false]
    by_cases h2 : r.1 < s <;> by_cases h3 : e < r.2 <;>
      simp only [h2, h3, if_true, if_false, runCover, List.any_cons, List.any_nil, List.append_nil,
        List.nil_append, List.cons_append, Bool.or_false, Bool.and_eq_true, Bool.or_eq_true,
        decide_eq_true_eq, Bool.not_eq_true', Bool.and_eq_false_iff, decide_eq_false_iff_not,
        Bool.false_eq_true, false_iff, false_and] <;> omega

theorem runCover_append (a b : List (Nat × Nat)) (x : Nat) :
    runCover (a ++ b) x = (runCover a x || runCover b x) := by
  simp [runCover, List.any_append]

theorem removeRange_cover (s e : Nat) (rs : List (Nat × Nat)) (x : Nat) :
    runCover (removeRange s e rs) x = (runCover rs x && !(decide (s ≤ x) && decide (x ≤ e))) := by
  unfold removeRange
  by_cases h : e < s
  · simp only [h, if_true]
    have : (decide (s ≤ x) && decide (x ≤ e)) = false := by
      rw [Bool.and_eq_false_iff, decide_eq_false_iff_not, decide_eq_false_iff_not]; omega
    rw [this]; simp
  · simp only [h, if_false]
    induction rs with
    | nil => simp [runCover]
    | cons r rs ih =>
      rw [List.flatMap_cons, runCover_append, ih, removeOne_cover]
      simp only [runCover, List.any_cons, List.any_nil, Bool.or_false]
      cases (decide (r.1 ≤ x) && decide (x ≤ r.2)) <;> simp

theorem removeOne_WFR {N : Nat} (s e : Nat) (r : Nat × Nat) (rest : List (Nat × Nat)) (k : Nat)
    (hse : s ≤ e)
    (h1 : k ≤ r.1) (h2 : r.1 ≤ r.2) (h3 : r.2 < N) (h4 : WFR N (r.2 + 1) rest) :
    WFR N k (removeOne s e r ++ rest) := by
  unfold removeOne
  by_cases c1 : r.2 < s ∨ e < r.1
  · simp only [c1, if_true, List.cons_append, List.nil_append]
    exact ⟨h1, h2, h3, h4⟩
  · simp only [c1, if_false]
    by_cases c2 : r.1 < s <;> by_cases c3 : e < r.2 <;>
      simp only [c2, c3, if_true, if_false, List.cons_append, List.nil_append, List.append_nil]
    · show k ≤ r.1 ∧ r.1 ≤ s - 1 ∧ s - 1 < N ∧
        (s - 1 + 1 ≤ e + 1 ∧ e + 1 ≤ r.2 ∧ r.2 < N ∧ WFR N (r.2 + 1) rest)
      exact ⟨h1, by omega, by omega, by omega, by omega, h3, h4⟩
    · show k ≤ r.1 ∧ r.1 ≤ s - 1 ∧ s - 1 < N ∧ WFR N (s - 1 + 1) rest
      exact ⟨h1, by omega, by omega, WFR_mono rest _ _ h4 (by omega)⟩
    · show k ≤ e + 1 ∧ e + 1 ≤ r.2 ∧ r.2 < N ∧ WFR N (r.2 + 1) rest
      exact ⟨by omega, by omega, h3, h4⟩
    · exact WFR_mono rest _ _ h4 (by omega)

theorem removeRange_WFR {N : Nat} (s e : Nat) : ∀ (rs : List (Nat × Nat)) (k : Nat),
    WFR N k rs → WFR N k (removeRange s e rs) := by
  intro rs k h
  unfold removeRange
  by_cases c : e < s
  · simpa [c] using h
  · simp only [c, if_false]
    induction rs generalizing k with
    | nil => trivial
    | cons r rs ih =>
      obtain ⟨h1, h2, h3, h4⟩ := h
      rw [List.flatMap_cons]
      exact removeOne_WFR s e r _ k (by omega) h1 h2 h3 (ih _ h4)

/-! ### the exclusion loop -/

/-- position `x` lies in an exclusion range (entries carrying a BMFF offset are not ranges) -/
def excluded (hr : List HashRange) (x : Nat) : Bool :=
  hr.any fun h => h.off.isNone && h.length != 0 && decide (h.start ≤ x) && decide (x < h.start + h.length)

/-- the BMFF offsets of the entries, in list order -/
def markersOf (hr : List HashRange) : List Nat := hr.filterMap (·.off)

theorem exclLoop_spec {N : Nat} : ∀ (hr : List HashRange) (rs : List (Nat × Nat)) (ms : List Nat)
    (rs' : List (Nat × Nat)) (ms' : List Nat),
    exclLoop hr rs ms = .ok (rs', ms') → WFR N 0 rs →
      WFR N 0 rs' ∧ ms' = ms ++ markersOf hr ∧
      ∀ x, runCover rs' x = (runCover rs x && !excluded hr x) := by
  intro hr
  induction hr with
  | nil =>
    intro rs ms rs' ms' h hw
    simp only [exclLoop, Except.ok.injEq, Prod.mk.injEq] at h
    obtain ⟨rfl, rfl⟩ := h
    exact ⟨hw, by simp [markersOf], fun x => by simp [excluded]⟩
  | cons a hr ih =>
    intro rs ms rs' ms' h hw
    unfold exclLoop at h
    cases ho : a.off with
    | some o =>
      simp only [ho] at h
      obtain ⟨w, m, c⟩ := ih _ _ _ _ h hw
      refine ⟨w, ?_, ?_⟩
      · rw [m]; simp [markersOf, ho]
      · intro x; rw [c x]; simp [excluded, ho]
    | none =>
      simp only [ho] at h
      by_cases hl : a.length = 0
      · simp only [hl, if_true] at h
        obtain ⟨w, m, c⟩ := ih _ _ _ _ h hw
        refine ⟨w, ?_, ?_⟩
        · rw [m]; simp [markersOf, ho]
        · intro x; rw [c x]; simp [excluded, ho, hl]
      · simp only [hl, if_false] at h
        cases hc : checkedAdd a.start a.length with
        | none => simp [hc] at h
        | some e1 =>
          simp only [hc] at h
          have he1 : e1 = a.start + a.length := by
            unfold checkedAdd at hc
            by_cases hb : a.start + a.length ≤ u64Max
            · simp [hb] at hc; omega
            · simp [hb] at hc
          by_cases hz : e1 = 0
          · simp [hz] at h
          · simp only [hz, if_false] at h
            obtain ⟨w, m, c⟩ := ih _ _ _ _ h (removeRange_WFR _ _ rs 0 hw)
            refine ⟨w, ?_, ?_⟩
            · rw [m]; simp [markersOf, ho]
            · intro x
              rw [c x, removeRange_cover]
              have hx : (decide (a.start ≤ x) && decide (x ≤ e1 - 1)) =
                  (decide (a.start ≤ x) && decide (x < a.start + a.length)) := by
                rw [Bool.eq_iff_iff]
                simp only [Bool.and_eq_true, decide_eq_true_eq]
                omega
              have hl' : (a.length != 0) = true := by simpa using hl
              simp only [excluded, List.any_cons, ho, Option.isNone_none, hl', Bool.true_and]
              rw [hx]
              cases runCover rs x <;> cases (decide (a.start ≤ x) && decide (x < a.start + a.length)) <;> simp

end C2pa.C13
