import C2paModel.Lemmas.C20Loop
/-
C20 — store level: the log that `ingredient_checks` returns extends the log it was given, so
everything `verify_claim` logged for the active manifest is in the log `verify_store` returns
(or `verify_store` returns `Err`, which the Reader propagates: never Valid either way).
-/
namespace C2pa.C20
open C2pa.C34

/-- the result's log extends the given state's log -/
def Ext (st : ISt) : IRes → Prop
  | .ok st' => ∃ suf, st'.log = st.log ++ suf
  | .err st' => ∃ suf, st'.log = st.log ++ suf
  | .panic => True

theorem Ext.refl_ok (st : ISt) : Ext st (.ok st) := ⟨[], by simp⟩
theorem Ext.refl_err (st : ISt) : Ext st (.err st) := ⟨[], by simp⟩

theorem Ext.trans (st st1 : ISt) (r : IRes) (x : List Ev) (h1 : st1.log = st.log ++ x)
    (h : Ext st1 r) : Ext st r := by
  cases r with
  | ok st' => obtain ⟨suf, hs⟩ := h; exact ⟨x ++ suf, by rw [hs, h1, List.append_assoc]⟩
  | err st' => obtain ⟨suf, hs⟩ := h; exact ⟨x ++ suf, by rw [hs, h1, List.append_assoc]⟩
  | panic => trivial

theorem iLoop_mono (s : Store) (reds : List Str) (map : List Claim) (fuel : Nat)
    (hq : ∀ c st, Ext st (ingChecks s reds map fuel c st)) :
    ∀ l st, Ext st (iLoop s reds map fuel l st) := by
  intro l
  induction l with
  | nil => intro st; unfold iLoop; exact Ext.refl_ok st
  | cons x rest ih =>
    intro st
    obtain ⟨a, d⟩ := x
    unfold iLoop
    by_cases hz : a.zero = true
    · simp only [hz, if_true]; exact ih st
    · simp only [hz]
      cases d with
      | none => exact ⟨_, rfl⟩
      | some d =>
        simp only []
        cases ht : d.target with
        | none =>
          simp only []
          exact Ext.trans st _ _ _ rfl (ih _)
        | some t =>
          simp only []
          generalize (if (decide (d.version ≥ 3) && !d.hasResults) = true then
            [fail "assertion.ingredient.malformed" true] else ([] : List Ev)) = e0
          cases hl : labelFromPath t.url with
          | none => trivial
          | some il =>
            simp only []
            cases hg : getClaim s il with
            | none =>
              simp only []
              exact Ext.trans st _ _ (e0 ++ [fail "ingredient.manifest.missing" true])
                (by simp only [List.append_assoc]) (ih _)
            | some ic =>
              simp only []
              by_cases hec : (edgeCheck reds il d t ic).err = true
              · simp only [hec, if_true]
                exact ⟨e0 ++ (edgeCheck reds il d t ic).log, by simp only [List.append_assoc]⟩
              · simp only [hec]
                cases hv : verifyClaim ic reds map true with
                | none => trivial
                | some vc =>
                  simp only []
                  by_cases hve : vc.err = true
                  · simp only [hve, if_true]
                    exact ⟨e0 ++ ((edgeCheck reds il d t ic).log ++ vc.log),
                      by simp only [List.append_assoc]⟩
                  · simp only [hve]
                    by_cases hvis : st.visited.contains ic.label = true
                    · simp only [hvis, if_true]
                      exact Ext.trans st _ _ (e0 ++ ((edgeCheck reds il d t ic).log ++ vc.log))
                        (by simp only [List.append_assoc]) (ih _)
                    · simp only [hvis]
                      have hrec := hq ic
                        { visited := st.visited ++ [ic.label],
                          log := st.log ++ e0 ++ (edgeCheck reds il d t ic).log ++ vc.log }
                      generalize ingChecks s reds map fuel ic
                        { visited := st.visited ++ [ic.label],
                          log := st.log ++ e0 ++ (edgeCheck reds il d t ic).log ++ vc.log } = res at hrec ⊢
                      cases res with
                      | ok st2 =>
                        simp only []
                        obtain ⟨suf, hs⟩ := hrec
                        exact Ext.trans st st2 _
                          (e0 ++ ((edgeCheck reds il d t ic).log ++ (vc.log ++ suf)))
                          (by rw [hs]; simp only [List.append_assoc]) (ih st2)
                      | err st2 =>
                        simp only []
                        obtain ⟨suf, hs⟩ := hrec
                        exact ⟨e0 ++ ((edgeCheck reds il d t ic).log ++ (vc.log ++ suf)),
                          by rw [hs]; simp only [List.append_assoc]⟩
                      | panic => trivial

theorem ingChecks_mono (s : Store) (reds : List Str) (map : List Claim) :
    ∀ fuel c st, Ext st (ingChecks s reds map fuel c st) := by
  intro fuel
  induction fuel with
  | zero => intro c st; unfold ingChecks; exact Ext.refl_err st
  | succ n ih =>
    intro c st
    unfold ingChecks
    exact iLoop_mono s reds map n ih _ st

/-- **the log `verify_store` returns contains everything `verify_claim` logged for the active
manifest, or `verify_store` returned `Err`** -/
theorem verifyStore_contains_root (s : Store) (o : Out) (h : verifyStore s = some o) :
    o.err = true ∨
    ∃ root reds map vc, s.getLast? = some root ∧ verifyClaim root reds map false = some vc ∧
      ∀ e ∈ vc.log, e ∈ o.log := by
  unfold verifyStore at h
  cases hr : s.getLast? with
  | none => simp [hr] at h; left; rw [← h]
  | some root =>
    simp only [hr] at h
    cases hg : gcrm s (fuelFor s) root [] {} with
    | panic => simp [hg] at h
    | err g => simp [hg] at h; left; rw [← h]
    | ok g =>
      simp only [hg] at h
      cases hb : hbm s (fuelFor s) root [] with
      | none => simp [hb] at h
      | some ob =>
        cases ob with
        | none => simp [hb] at h; left; rw [← h]
        | some bl =>
          simp only [hb] at h
          cases hv : verifyClaim root g.reds (g.map.filterMap (getClaim s)) false with
          | none => simp [hv] at h
          | some vc =>
            simp only [hv] at h
            by_cases hve : vc.err = true
            · simp [hve] at h; left; rw [← h]
            · simp only [hve] at h
              have hm := ingChecks_mono s g.reds (g.map.filterMap (getClaim s)) (fuelFor s) root
                ⟨[root.label], g.log ++ vc.log⟩
              cases hi : ingChecks s g.reds (g.map.filterMap (getClaim s)) (fuelFor s) root
                  ⟨[root.label], g.log ++ vc.log⟩ with
              | panic => simp [hi] at h
              | err st => simp [hi] at h; left; rw [← h]
              | ok st =>
                simp [hi] at h
                right
                rw [hi] at hm
                obtain ⟨suf, hs⟩ := hm
                refine ⟨root, g.reds, _, vc, rfl, hv, ?_⟩
                intro e he
                rw [← h]
                simp only []
                rw [hs]
                exact List.mem_append_left _ (List.mem_append_right _ he)

end C2pa.C20
