import C2paModel.Lemmas.C13Excl
/-
C13 — BMFF offset markers in the exclusion branch: splitting the remaining ranges at the
offsets, the "remaining offsets" rule, and the final stable sort.
-/
namespace C2pa.C13

def anyContains (L : List Piece) (x : Nat) : Bool := L.any (·.contains x)

def mk (o : Nat) : Piece := ⟨o, o, true⟩

/-! ### `splitRun` -/

theorem splitRun_WF {N : Nat} : ∀ (starts : List Nat) (c b k : Nat) (rest : List Piece),
    c ≤ b → b < N → k ≤ c → WF N (b + 1) rest → WF N k (splitRun starts (c, b) ++ rest) := by
  intro starts
  induction starts with
  | nil =>
    intro c b k rest h1 h2 h3 h4
    show k ≤ c ∧ c ≤ b ∧ b < N ∧ (if false = true then _ else WF N (b + 1) rest)
    exact ⟨h3, h1, h2, by simpa using h4⟩
  | cons os more ih =>
    intro c b k rest h1 h2 h3 h4
    unfold splitRun
    by_cases hin : c ≤ os ∧ os ≤ b
    · simp only [hin, and_self, if_true]
      by_cases heq : c = os
      · simp only [heq, if_true, List.cons_append]
        subst heq
        show k ≤ c ∧ c ≤ c ∧ c < N ∧ (if true = true then c = c ∧ WF N c _ else _)
        refine ⟨h3, Nat.le_refl _, by omega, ?_⟩
        simp only [if_true]
        exact ⟨trivial, ih c b c rest h1 h2 (Nat.le_refl _) h4⟩
      · simp only [heq, if_false, List.cons_append]
        show k ≤ c ∧ c ≤ os - 1 ∧ os - 1 < N ∧
          (if false = true then _ else WF N (os - 1 + 1) (_ :: (splitRun more (os, b) ++ rest)))
        refine ⟨h3, by omega, by omega, ?_⟩
        simp only [Bool.false_eq_true, if_false]
        show os - 1 + 1 ≤ os ∧ os ≤ os ∧ os < N ∧ (if true = true then os = os ∧ WF N os _ else _)
        refine ⟨by omega, Nat.le_refl _, by omega, ?_⟩
        simp only [if_true]
        exact ⟨trivial, ih os b os rest hin.2 h2 (Nat.le_refl _) h4⟩
    · simp only [hin, if_false]
      exact ih c b k rest h1 h2 h3 h4

theorem splitRun_dataCover : ∀ (starts : List Nat) (c b x : Nat), c ≤ b →
    dataCover (splitRun starts (c, b)) x = (decide (c ≤ x) && decide (x ≤ b)) := by
  intro starts
  induction starts with
  | nil => intro c b x _; simp [splitRun, dataCover, Piece.covers]
  | cons os more ih =>
    intro c b x h
    unfold splitRun
    by_cases hin : c ≤ os ∧ os ≤ b
    · simp only [hin, and_self, if_true]
      by_cases heq : c = os
      · simp only [heq, if_true]
        subst heq
        have := ih c b x h
        simp only [dataCover, List.any_cons] at *
        rw [this]; simp [Piece.covers]
      · simp only [heq, if_false]
        have := ih os b x hin.2
        simp only [dataCover, List.any_cons] at *
        rw [this, Bool.eq_iff_iff]
        simp [Piece.covers]
        omega
    · simp only [hin, if_false]
      exact ih c b x h

theorem splitRun_anyContains : ∀ (starts : List Nat) (c b x : Nat), c ≤ b →
    anyContains (splitRun starts (c, b)) x = (decide (c ≤ x) && decide (x ≤ b)) := by
  intro starts
  induction starts with
  | nil => intro c b x _; simp [splitRun, anyContains, Piece.contains]
  | cons os more ih =>
    intro c b x h
    unfold splitRun
    by_cases hin : c ≤ os ∧ os ≤ b
    · simp only [hin, and_self, if_true]
      by_cases heq : c = os
      · simp only [heq, if_true]
        subst heq
        have := ih c b x h
        simp only [anyContains, List.any_cons] at *
        rw [this, Bool.eq_iff_iff]
        simp [Piece.contains]
        omega
      · simp only [heq, if_false]
        have := ih os b x hin.2
        simp only [anyContains, List.any_cons] at *
        rw [this, Bool.eq_iff_iff]
        simp [Piece.contains]
        omega
    · simp only [hin, if_false]
      exact ih c b x h

theorem count_eq_zero_of_sorted (os : Nat) (more : List Nat) (x : Nat)
    (hs : (os :: more).Pairwise (· ≤ ·)) (hx : x < os) : (os :: more).count x = 0 := by
  rw [List.count_eq_zero]
  intro hmem
  rcases List.mem_cons.1 hmem with rfl | hm
  · omega
  · have := (List.pairwise_cons.1 hs).1 x hm; omega

theorem splitRun_markerCount : ∀ (starts : List Nat) (c b x : Nat), c ≤ b →
    starts.Pairwise (· ≤ ·) →
    markerCount (splitRun starts (c, b)) x = if c ≤ x ∧ x ≤ b then starts.count x else 0 := by
  intro starts
  induction starts with
  | nil => intro c b x _ _; simp [splitRun, markerCount]
  | cons os more ih =>
    intro c b x h hs
    have hs' := (List.pairwise_cons.1 hs).2
    unfold splitRun
    by_cases hin : c ≤ os ∧ os ≤ b
    · simp only [hin, and_self, if_true]
      by_cases heq : c = os
      · simp only [heq, if_true]
        subst heq
        have := ih c b x h hs'
        simp only [markerCount, List.countP_cons] at *
        rw [this, List.count_cons]
        by_cases hx : c ≤ x ∧ x ≤ b
        · simp only [hx, and_self, if_true]
          by_cases hxc : x = c
          · subst hxc; simp
          · have : ¬ c = x := fun h => hxc h.symm
            simp [this, hxc]
        · simp only [hx, if_false]
          have : ¬ c = x := by omega
          simp [this]
      · simp only [heq, if_false]
        have := ih os b x hin.2 hs'
        simp only [markerCount, List.countP_cons] at *
        rw [this]
        by_cases hx1 : os ≤ x ∧ x ≤ b
        · have hx2 : c ≤ x ∧ x ≤ b := by omega
          simp only [hx1, hx2, and_self, if_true, List.count_cons]
          by_cases hxo : x = os
          · subst hxo; simp
          · have : ¬ os = x := fun h => hxo h.symm
            simp [this, hxo]
        · simp only [hx1, if_false]
          have hne : ¬ os = x := by omega
          by_cases hx2 : c ≤ x ∧ x ≤ b
          · -- c ≤ x < os: no start equals x (they are all ≥ os)
            have hz := count_eq_zero_of_sorted os more x hs (by omega)
            simp [hx2, hne, hz]
          · simp [hx2, hne]
    · simp only [hin, if_false]
      rw [ih c b x h hs']
      by_cases hx : c ≤ x ∧ x ≤ b
      · have hne : ¬ x = os := by omega
        simp [hx, List.count_cons, hne]
        intro h; omega
      · simp [hx]

theorem splitRun_head : ∀ (starts : List Nat) (c b : Nat),
    ∃ p tl, splitRun starts (c, b) = p :: tl ∧ p.lo = c := by
  intro starts
  induction starts with
  | nil => intro c b; exact ⟨_, _, rfl, rfl⟩
  | cons os more ih =>
    intro c b
    unfold splitRun
    by_cases hin : c ≤ os ∧ os ≤ b
    · simp only [hin, and_self, if_true]
      by_cases heq : c = os
      · simp only [heq, if_true]; exact ⟨_, _, rfl, rfl⟩
      · simp only [heq, if_false]; exact ⟨_, _, rfl, rfl⟩
    · simp only [hin, if_false]; exact ih c b

theorem splitRun_last : ∀ (starts : List Nat) (c b : Nat),
    ∃ p, (splitRun starts (c, b)).getLast? = some p ∧ p.hi = b := by
  intro starts
  induction starts with
  | nil => intro c b; exact ⟨_, rfl, rfl⟩
  | cons os more ih =>
    intro c b
    unfold splitRun
    by_cases hin : c ≤ os ∧ os ≤ b
    · simp only [hin, and_self, if_true]
      by_cases heq : c = os
      · simp only [heq, if_true]
        obtain ⟨p, hp, hb⟩ := ih os b
        obtain ⟨q, tl, hq, _⟩ := splitRun_head more os b
        refine ⟨p, ?_, hb⟩
        rw [hq] at hp ⊢
        simpa [List.getLast?_cons_cons] using hp
      · simp only [heq, if_false]
        obtain ⟨p, hp, hb⟩ := ih os b
        obtain ⟨q, tl, hq, _⟩ := splitRun_head more os b
        refine ⟨p, ?_, hb⟩
        rw [hq] at hp ⊢
        simpa [List.getLast?_cons_cons] using hp
    · simp only [hin, if_false]; exact ih c b

/-! ### all remaining ranges split -/

def splitAll (starts : List Nat) (rs : List (Nat × Nat)) : List Piece := rs.flatMap (splitRun starts)

theorem splitAll_WF {N : Nat} (starts : List Nat) : ∀ (rs : List (Nat × Nat)) (k : Nat),
    WFR N k rs → WF N k (splitAll starts rs) := by
  intro rs
  induction rs with
  | nil => intro k _; trivial
  | cons r rs ih =>
    intro k h
    obtain ⟨h1, h2, h3, h4⟩ := h
    show WF N k (splitRun starts r ++ splitAll starts rs)
    exact splitRun_WF starts r.1 r.2 k _ h2 h3 h1 (ih _ h4)

theorem WFR_below {N : Nat} (rs : List (Nat × Nat)) (k x : Nat) (h : WFR N k rs) (hx : x < k) :
    runCover rs x = false := by
  cases hc : runCover rs x with
  | false => rfl
  | true => have := WFR_cover rs k x h hc; omega

theorem dataCover_append (a b : List Piece) (x : Nat) :
    dataCover (a ++ b) x = (dataCover a x || dataCover b x) := by
  simp [dataCover, List.any_append]

theorem anyContains_append (a b : List Piece) (x : Nat) :
    anyContains (a ++ b) x = (anyContains a x || anyContains b x) := by
  simp [anyContains, List.any_append]

theorem markerCount_append (a b : List Piece) (x : Nat) :
    markerCount (a ++ b) x = markerCount a x + markerCount b x := by
  simp [markerCount, List.countP_append]

theorem splitAll_dataCover {N : Nat} (starts : List Nat) : ∀ (rs : List (Nat × Nat)) (k x : Nat),
    WFR N k rs → dataCover (splitAll starts rs) x = runCover rs x := by
  intro rs
  induction rs with
  | nil => intro k x _; rfl
  | cons r rs ih =>
    intro k x h
    obtain ⟨h1, h2, h3, h4⟩ := h
    show dataCover (splitRun starts r ++ splitAll starts rs) x = _
    rw [dataCover_append, ih _ x h4, splitRun_dataCover starts r.1 r.2 x h2]
    simp [runCover]

theorem splitAll_anyContains {N : Nat} (starts : List Nat) : ∀ (rs : List (Nat × Nat)) (k x : Nat),
    WFR N k rs → anyContains (splitAll starts rs) x = runCover rs x := by
  intro rs
  induction rs with
  | nil => intro k x _; rfl
  | cons r rs ih =>
    intro k x h
    obtain ⟨h1, h2, h3, h4⟩ := h
    show anyContains (splitRun starts r ++ splitAll starts rs) x = _
    rw [anyContains_append, ih _ x h4, splitRun_anyContains starts r.1 r.2 x h2]
    simp [runCover]

theorem splitAll_markerCount {N : Nat} (starts : List Nat) (hs : starts.Pairwise (· ≤ ·)) :
    ∀ (rs : List (Nat × Nat)) (k x : Nat), WFR N k rs →
      markerCount (splitAll starts rs) x = if runCover rs x then starts.count x else 0 := by
  intro rs
  induction rs with
  | nil => intro k x _; simp [splitAll, markerCount, runCover]
  | cons r rs ih =>
    intro k x h
    obtain ⟨h1, h2, h3, h4⟩ := h
    show markerCount (splitRun starts r ++ splitAll starts rs) x = _
    rw [markerCount_append, ih _ x h4, splitRun_markerCount starts r.1 r.2 x h2 hs]
    have hcons : runCover (r :: rs) x = ((decide (r.1 ≤ x) && decide (x ≤ r.2)) || runCover rs x) := by
      simp [runCover]
    rw [hcons]
    by_cases hx : r.1 ≤ x ∧ x ≤ r.2
    · have hb := WFR_below rs (r.2 + 1) x h4 (by omega)
      have hd : (decide (r.1 ≤ x) && decide (x ≤ r.2)) = true := by simp [hx]
      rw [hd, hb]; simp [hx]
    · have hd : (decide (r.1 ≤ x) && decide (x ≤ r.2)) = false := by
        rw [Bool.and_eq_false_iff, decide_eq_false_iff_not, decide_eq_false_iff_not]; omega
      rw [hd]; simp [hx]

/-! ### "remaining offsets" -/

/-- the pieces that `remaining` appends -/
def gapList (before after : Nat) : List Nat → List Piece → List Piece
  | [], _ => []
  | os :: rest, vec =>
    if !vec.any (·.contains os) && before < os && os < after then
      mk os :: gapList before after rest (vec ++ [mk os])
    else gapList before after rest vec

theorem remaining_eq (before after : Nat) : ∀ (starts : List Nat) (vec : List Piece),
    remaining before after starts vec = vec ++ gapList before after starts vec := by
  intro starts
  induction starts with
  | nil => intro vec; simp [remaining, gapList]
  | cons os rest ih =>
    intro vec
    unfold remaining gapList
    by_cases hc : (!vec.any (·.contains os) && decide (before < os) && decide (os < after)) = true
    · rw [if_pos hc, if_pos hc, ih]; simp [mk]
    · rw [if_neg hc, if_neg hc]
      exact ih vec

theorem gapList_mem (before after : Nat) : ∀ (starts : List Nat) (vec : List Piece) (g : Piece),
    g ∈ gapList before after starts vec →
      g = mk g.lo ∧ before < g.lo ∧ g.lo < after ∧ anyContains vec g.lo = false := by
  intro starts
  induction starts with
  | nil => intro vec g h; simp [gapList] at h
  | cons os rest ih =>
    intro vec g h
    unfold gapList at h
    by_cases hc : (!vec.any (·.contains os) && decide (before < os) && decide (os < after)) = true
    · rw [if_pos hc] at h
      simp only [Bool.and_eq_true, Bool.not_eq_true', decide_eq_true_eq] at hc
      rcases List.mem_cons.1 h with rfl | h
      · exact ⟨rfl, hc.1.2, hc.2, hc.1.1⟩
      · obtain ⟨a, b, c, d⟩ := ih _ g h
        refine ⟨a, b, c, ?_⟩
        rw [anyContains_append] at d
        simpa using (Bool.or_eq_false_iff.1 d).1
    · rw [if_neg hc] at h
      exact ih vec g h

theorem gapList_distinct (before after : Nat) : ∀ (starts : List Nat) (vec : List Piece),
    (gapList before after starts vec).Pairwise (fun g g' => g.lo ≠ g'.lo) := by
  intro starts
  induction starts with
  | nil => intro vec; simp [gapList]
  | cons os rest ih =>
    intro vec
    unfold gapList
    by_cases hc : (!vec.any (·.contains os) && decide (before < os) && decide (os < after)) = true
    · rw [if_pos hc, List.pairwise_cons]
      refine ⟨?_, ih _⟩
      intro g hg
      obtain ⟨_, _, _, d⟩ := gapList_mem before after rest _ g hg
      rw [anyContains_append] at d
      have d2 := (Bool.or_eq_false_iff.1 d).2
      simp [anyContains, mk, Piece.contains] at d2
      show os ≠ g.lo
      intro he; omega
    · rw [if_neg hc]
      exact ih vec

theorem markerCount_cons_mk (os : Nat) (T : List Piece) (x : Nat) :
    markerCount (mk os :: T) x = markerCount T x + (if os = x then 1 else 0) := by
  simp [markerCount, List.countP_cons, mk]

theorem gapList_markerCount (before after : Nat) : ∀ (starts : List Nat) (vec : List Piece) (x : Nat),
    markerCount (gapList before after starts vec) x =
      if x ∈ starts ∧ anyContains vec x = false ∧ before < x ∧ x < after then 1 else 0 := by
  intro starts
  induction starts with
  | nil => intro vec x; simp [gapList, markerCount]
  | cons os rest ih =>
    intro vec x
    unfold gapList
    by_cases hc : (!vec.any (·.contains os) && decide (before < os) && decide (os < after)) = true
    · rw [if_pos hc]
      have hc' := hc
      simp only [Bool.and_eq_true, Bool.not_eq_true', decide_eq_true_eq] at hc'
      rw [markerCount_cons_mk, ih (vec ++ [mk os]) x, anyContains_append]
      by_cases hx : x = os
      · subst hx
        have h1 : anyContains [mk x] x = true := by simp [anyContains, mk, Piece.contains]
        have h2 : anyContains vec x = false := hc'.1.1
        rw [h1]
        simp [h2, hc'.1.2, hc'.2]
      · have h1 : anyContains [mk os] x = false := by
          simp [anyContains, mk, Piece.contains]; omega
        have hne : ¬ os = x := fun h => hx h.symm
        rw [h1]
        simp [hne, hx]
    · rw [if_neg hc, ih vec x]
      by_cases hx : x = os
      · subst hx
        -- the condition fails for x itself
        have hfail : ¬ (anyContains vec x = false ∧ before < x ∧ x < after) := by
          intro ⟨a, b, c⟩
          apply hc
          simp only [Bool.and_eq_true, Bool.not_eq_true', decide_eq_true_eq]
          exact ⟨⟨a, b⟩, c⟩
        by_cases hm : x ∈ rest
        · simp [hm, hfail]
        · simp [hm, hfail]
      · simp [hx]

/-! ### inserting the gap markers keeps the list ordered -/

theorem insertAfter_mk_WF {N : Nat} (o : Nat) : ∀ (L : List Piece) (k : Nat), WF N k L →
    k ≤ o → o < N → anyContains L o = false → WF N k (insertAfter Piece.lo (mk o) L) := by
  intro L
  induction L with
  | nil =>
    intro k _ h1 h2 _
    show k ≤ o ∧ o ≤ o ∧ o < N ∧ (if true = true then o = o ∧ True else _)
    exact ⟨h1, Nat.le_refl _, h2, by simp⟩
  | cons p ps ih =>
    intro k h h1 h2 hc
    obtain ⟨w1, w2, w3, w4⟩ := h
    simp only [anyContains, List.any_cons, Bool.or_eq_false_iff] at hc
    obtain ⟨hc1, hc2⟩ := hc
    have hnot : ¬ (p.lo ≤ o ∧ o ≤ p.hi) := by
      simpa [Piece.contains] using hc1
    unfold insertAfter
    by_cases hle : p.lo ≤ (mk o).lo
    · simp only [hle, if_true]
      have hle' : p.lo ≤ o := hle
      refine ⟨w1, w2, w3, ?_⟩
      by_cases hm : p.marker = true
      · simp only [hm, if_true] at w4 ⊢
        exact ⟨w4.1, ih p.lo w4.2 hle' h2 hc2⟩
      · simp only [hm] at w4 ⊢
        exact ih (p.hi + 1) w4 (by omega) h2 hc2
    · simp only [hle, if_false]
      have hlt : o < p.lo := by
        have : ¬ p.lo ≤ o := hle
        omega
      show k ≤ o ∧ o ≤ o ∧ o < N ∧ (if true = true then o = o ∧ WF N o (p :: ps) else _)
      refine ⟨h1, Nat.le_refl _, h2, ?_⟩
      simp only [if_true]
      exact ⟨trivial, by omega, w2, w3, w4⟩

theorem anyContains_insertAfter (g : Piece) (L : List Piece) (x : Nat) :
    anyContains (insertAfter Piece.lo g L) x = (g.contains x || anyContains L x) := by
  have := (insertAfter_perm Piece.lo g L).any_eq (f := (·.contains x))
  simpa [anyContains] using this

theorem foldl_insert_WF {N : Nat} : ∀ (G L : List Piece) (k : Nat), WF N k L →
    (∀ g ∈ G, g = mk g.lo ∧ k ≤ g.lo ∧ g.lo < N ∧ anyContains L g.lo = false) →
    G.Pairwise (fun g g' => g.lo ≠ g'.lo) →
    WF N k (G.foldl (fun acc x => insertAfter Piece.lo x acc) L) := by
  intro G
  induction G with
  | nil => intro L k h _ _; exact h
  | cons g G ih =>
    intro L k h hg hd
    simp only [List.foldl_cons]
    obtain ⟨g1, g2, g3, g4⟩ := hg g (List.mem_cons_self ..)
    rw [List.pairwise_cons] at hd
    apply ih
    · rw [g1]; exact insertAfter_mk_WF g.lo L k h g2 g3 g4
    · intro g' hg'
      obtain ⟨a, b, c, d⟩ := hg g' (List.mem_cons_of_mem _ hg')
      refine ⟨a, b, c, ?_⟩
      have hne := hd.1 g' hg'
      have hcg : (mk g.lo).contains g'.lo = false := by
        have hne' : g.lo ≠ g'.lo := hne
        cases hcc : (mk g.lo).contains g'.lo with
        | false => rfl
        | true =>
          exfalso
          simp only [mk, Piece.contains, Bool.and_eq_true] at hcc
          have h1 := of_decide_eq_true hcc.1
          have h2 := of_decide_eq_true hcc.2
          omega
      rw [anyContains_insertAfter, d, g1, hcg]; rfl
    · exact hd.2

theorem WF_lo_ge {N : Nat} : ∀ (L : List Piece) (k : Nat), WF N k L → ∀ p ∈ L, k ≤ p.lo := by
  intro L
  induction L with
  | nil => intro k _ p hp; cases hp
  | cons q qs ih =>
    intro k h p hp
    obtain ⟨w1, w2, w3, w4⟩ := h
    rcases List.mem_cons.1 hp with rfl | hp
    · exact w1
    · by_cases hm : q.marker = true
      · simp only [hm, if_true] at w4
        have := ih q.lo w4.2 p hp; omega
      · simp only [hm] at w4
        have := ih (q.hi + 1) w4 p hp; omega

theorem WF_sorted {N : Nat} : ∀ (L : List Piece) (k : Nat), WF N k L →
    L.Pairwise (fun a b => a.lo ≤ b.lo) := by
  intro L
  induction L with
  | nil => intro k _; exact List.Pairwise.nil
  | cons q qs ih =>
    intro k h
    obtain ⟨w1, w2, w3, w4⟩ := h
    rw [List.pairwise_cons]
    by_cases hm : q.marker = true
    · simp only [hm, if_true] at w4
      exact ⟨fun p hp => WF_lo_ge qs q.lo w4.2 p hp, ih _ w4.2⟩
    · simp only [hm] at w4
      exact ⟨fun p hp => by have := WF_lo_ge qs (q.hi + 1) w4 p hp; omega, ih _ w4⟩

/-- the final `sort_by` applied to an ordered list followed by the gap markers -/
theorem stableSort_append_WF {N : Nat} (vec G : List Piece) (hv : WF N 0 vec)
    (hg : ∀ g ∈ G, g = mk g.lo ∧ g.lo < N ∧ anyContains vec g.lo = false)
    (hd : G.Pairwise (fun g g' => g.lo ≠ g'.lo)) :
    WF N 0 (stableSort Piece.lo (vec ++ G)) := by
  unfold stableSort
  rw [List.foldl_append]
  have hs := foldl_insertAfter_of_sorted Piece.lo vec [] (by simpa using WF_sorted vec 0 hv)
  rw [hs, List.nil_append]
  apply foldl_insert_WF G vec 0 hv _ hd
  intro g hg'
  obtain ⟨a, b, c⟩ := hg g hg'
  exact ⟨a, Nat.zero_le _, b, c⟩

end C2pa.C13
