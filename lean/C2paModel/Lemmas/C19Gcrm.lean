import C2paModel.Lemmas.C19Basic
/-
C19 — invariants of `gcrm` that hold for every outcome (resource accounting, growth of the
memo map, classification of outcomes), fuel lemmas.
-/
namespace C2pa.C19

/-- Well-formedness of a walker state. -/
structure GW (s : Store) (lim : Nat) (st : GSt) : Prop where
  pnd : st.path.Nodup
  plt : ∀ x ∈ st.path, x < s.length
  plen : st.path.length ≤ lim
  mnd : st.map.Nodup
  mlt : ∀ x ∈ st.map, x < s.length

/-- What one call (k = 0) or one loop over `k` remaining ingredients may do to the state. -/
structure GStep (s : Store) (lim k : Nat) (st st' : GSt) : Prop where
  gw : GW s lim st'
  mapg : ∃ new, st'.map = new ++ st.map
  expg : st'.exp + st.map.length = st.exp + st'.map.length
  inspg : st'.insp + degSum s st.map ≤ st.insp + k + degSum s st'.map
  cmpsg : st'.cmps + lim * st.insp ≤ st.cmps + lim * st'.insp
  logg : ∃ new, st'.log = new ++ st.log

/-- Outcomes `gcrm` can produce. -/
def GOut (s : Store) (stop : Bool) (lim : Nat) (o : Out) : Prop :=
  o = .ok ∨ (o = .tooDeep ∧ lim < s.length) ∨ o = .cyclic ∨ (o = .missing ∧ stop = true) ∨
    o = .outOfFuel

theorem GStep.refl {s : Store} {lim : Nat} {st : GSt} (h : GW s lim st) : GStep s lim 0 st st :=
  ⟨h, ⟨[], rfl⟩, rfl, by omega, by omega, ⟨[], rfl⟩⟩

theorem GStep.trans {s : Store} {lim k₁ k₂ : Nat} {a b c : GSt}
    (h₁ : GStep s lim k₁ a b) (h₂ : GStep s lim k₂ b c) : GStep s lim (k₁ + k₂) a c := by
  obtain ⟨n₁, e₁⟩ := h₁.mapg
  obtain ⟨n₂, e₂⟩ := h₂.mapg
  obtain ⟨m₁, f₁⟩ := h₁.logg
  obtain ⟨m₂, f₂⟩ := h₂.logg
  refine ⟨h₂.gw, ⟨n₂ ++ n₁, by rw [e₂, e₁, List.append_assoc]⟩, ?_, ?_, ?_,
    ⟨m₂ ++ m₁, by rw [f₂, f₁, List.append_assoc]⟩⟩
  · have := h₁.expg; have := h₂.expg; omega
  · have := h₁.inspg; have := h₂.inspg; omega
  · have := h₁.cmpsg; have := h₂.cmpsg; omega

theorem GStep.mono {s : Store} {lim k k' : Nat} {a b : GSt} (h : GStep s lim k a b) (hk : k ≤ k') :
    GStep s lim k' a b :=
  ⟨h.gw, h.mapg, h.expg, by have := h.inspg; omega, h.cmpsg, h.logg⟩

theorem GW.pre {s : Store} {lim : Nat} {st : GSt} (h : GW s lim st) (u v : Nat) :
    GStep s lim 1 st (gPre st u v) := by
  refine ⟨⟨h.pnd, h.plt, h.plen, h.mnd, h.mlt⟩, ⟨[], rfl⟩, rfl, ?_, ?_, ⟨[], rfl⟩⟩
  · simp only [gPre]; omega
  · simp only [gPre, Nat.mul_succ]
    have := h.plen
    omega

theorem GW.cyc {s : Store} {lim : Nat} {st : GSt} (h : GW s lim st) (u : Nat) :
    GStep s lim 1 st (gCyc st u) := by
  refine ⟨⟨h.pnd, h.plt, h.plen, h.mnd, h.mlt⟩, ⟨[], rfl⟩, rfl, ?_, ?_, ⟨[_], rfl⟩⟩
  · simp only [gCyc]; omega
  · simp only [gCyc, Nat.mul_succ]
    have := h.plen
    omega

theorem GW.skip {s : Store} {lim : Nat} {st : GSt} (h : GW s lim st) :
    GStep s lim 1 st (gSkip st) := by
  refine ⟨⟨h.pnd, h.plt, h.plen, h.mnd, h.mlt⟩, ⟨[], rfl⟩, rfl, ?_, ?_, ⟨[], rfl⟩⟩
  · simp only [gSkip]; omega
  · simp only [gSkip, Nat.mul_succ]
    omega

theorem GW.miss {s : Store} {lim : Nat} {st : GSt} (h : GW s lim st) (v : Nat) :
    GStep s lim 1 st (gMiss st v) := by
  refine ⟨⟨h.pnd, h.plt, h.plen, h.mnd, h.mlt⟩, ⟨[], rfl⟩, rfl, ?_, ?_, ⟨[_], rfl⟩⟩
  · simp only [gMiss]; omega
  · simp only [gMiss, Nat.mul_succ]
    omega

/-- The loop is safe when the recursive call is. -/
theorem gLoop_safe (s : Store) (stop : Bool) (lim u : Nat) (rec : Nat → GSt → Out × GSt)
    (hrec : ∀ v st, GW s lim st → v ∉ st.path → v < s.length →
      GStep s lim 0 st (rec v st).2 ∧ GOut s stop lim (rec v st).1) :
    ∀ (ings : List Ing) (st : GSt), GW s lim st →
      GStep s lim ings.length st (gLoop rec s stop u ings st).2 ∧
        GOut s stop lim (gLoop rec s stop u ings st).1 := by
  intro ings
  induction ings with
  | nil =>
    intro st h
    exact ⟨GStep.refl h, Or.inl rfl⟩
  | cons i is ih =>
    intro st h
    rw [gLoop_cons]
    cases ht : i.target with
    | none =>
      simp only
      obtain ⟨h1, h2⟩ := ih (gSkip st) h.skip.gw
      exact ⟨(h.skip.trans h1).mono (by simp; omega), h2⟩
    | some v =>
      simp only
      by_cases hv : v < s.length
      · simp only [hv, if_true]
        by_cases hc : v ∈ st.path
        · simp only [hc, if_true]
          exact ⟨(h.cyc u).mono (by simp), Or.inr (Or.inr (Or.inl rfl))⟩
        · simp only [hc, if_false]
          have hnot : v ∉ (gPre st u v).path := hc
          have hpre := h.pre u v
          obtain ⟨r1, r2⟩ := hrec v (gPre st u v) hpre.gw hnot hv
          by_cases hok : (rec v (gPre st u v)).1 = .ok
          · simp only [hok, if_true]
            obtain ⟨l1, l2⟩ := ih (rec v (gPre st u v)).2 r1.gw
            refine ⟨?_, l2⟩
            have := (hpre.trans r1).trans l1
            exact this.mono (by simp; omega)
          · simp only [hok]
            exact ⟨(hpre.trans r1).mono (by simp), r2⟩
      · simp only [hv]
        have hm := h.miss v
        cases stop with
        | true =>
          simp only [if_true]
          exact ⟨hm.mono (by simp), Or.inr (Or.inr (Or.inr (Or.inl ⟨rfl, rfl⟩)))⟩
        | false =>
          simp only [Bool.false_eq_true, if_false]
          obtain ⟨l1, l2⟩ := ih (gMiss st v) hm.gw
          exact ⟨(hm.trans l1).mono (by simp; omega), l2⟩

theorem GW.push {s : Store} {lim : Nat} {st : GSt} (h : GW s lim st) (u : Nat)
    (hu : u < s.length) (hp : u ∉ st.path) (hm : u ∉ st.map) (hl : ¬ lim ≤ st.path.length) :
    GW s lim (gPush st u) := by
  refine ⟨?_, ?_, ?_, ?_, ?_⟩
  · exact List.nodup_cons.2 ⟨hp, h.pnd⟩
  · intro x hx
    rcases List.mem_cons.1 hx with rfl | hx
    · exact hu
    · exact h.plt x hx
  · simp only [gPush, List.length_cons]; omega
  · exact List.nodup_cons.2 ⟨hm, h.mnd⟩
  · intro x hx
    rcases List.mem_cons.1 hx with rfl | hx
    · exact hu
    · exact h.mlt x hx

theorem GW.pop {s : Store} {lim : Nat} {st : GSt} (h : GW s lim st) (u : Nat) :
    GW s lim (gPop st u) := by
  refine ⟨?_, ?_, ?_, h.mnd, h.mlt⟩
  · exact h.pnd.sublist (List.tail_sublist _)
  · intro x hx
    exact h.plt x (List.mem_of_mem_tail hx)
  · simp only [gPop, List.length_tail]
    have := h.plen
    omega

/-- **Safety of `gcrm` for every outcome.** -/
theorem gcrm_safe (s : Store) (stop : Bool) (lim : Nat) :
    ∀ (n u : Nat) (st : GSt), GW s lim st → u ∉ st.path → u < s.length →
      GStep s lim 0 st (gcrm lim s stop n u st).2 ∧ GOut s stop lim (gcrm lim s stop n u st).1 := by
  intro n
  induction n with
  | zero =>
    intro u st h _ _
    exact ⟨GStep.refl h, Or.inr (Or.inr (Or.inr (Or.inr rfl)))⟩
  | succ n ih =>
    intro u st h hp hu
    rw [gcrm_succ]
    by_cases hl : lim ≤ st.path.length
    · simp only [hl, if_true]
      refine ⟨GStep.refl h, Or.inr (Or.inl ⟨rfl, ?_⟩)⟩
      have hnd : (u :: st.path).Nodup := List.nodup_cons.2 ⟨hp, h.pnd⟩
      have hlt : ∀ x ∈ u :: st.path, x < s.length := by
        intro x hx
        rcases List.mem_cons.1 hx with rfl | hx
        · exact hu
        · exact h.plt x hx
      have := nodup_length_le s.length _ hnd hlt
      simp only [List.length_cons] at this
      omega
    · simp only [hl, if_false]
      by_cases hm : u ∈ st.map
      · simp only [hm, if_true]
        exact ⟨GStep.refl h, Or.inl rfl⟩
      · simp only [hm, if_false]
        have hm' : u ∉ st.map := hm
        have hsome : s[u]? = some s[u] := List.getElem?_eq_getElem hu
        rw [hsome]
        simp only
        have hpush := h.push u hu hp hm' hl
        obtain ⟨l1, l2⟩ := gLoop_safe s stop lim u (gcrm lim s stop n) ih s[u].ings (gPush st u) hpush
        have hdeg : deg s u = s[u].ings.length := deg_of_get s u _ hsome
        -- the step from `st` to the state after the loop
        have hstep : GStep s lim 0 st (gLoop (gcrm lim s stop n) s stop u s[u].ings (gPush st u)).2 := by
          obtain ⟨new, e⟩ := l1.mapg
          have hm1 : (gPush st u).map = u :: st.map := rfl
          have hx1 : (gPush st u).exp = st.exp + 1 := rfl
          have hi1 : (gPush st u).insp = st.insp := rfl
          have hc1 : (gPush st u).cmps = st.cmps := rfl
          have hl1 : (gPush st u).log = st.log := rfl
          refine ⟨l1.gw, ⟨new ++ [u], by rw [e, hm1]; simp⟩, ?_, ?_, ?_, ?_⟩
          · have := l1.expg
            rw [hm1, hx1, List.length_cons] at this
            omega
          · have := l1.inspg
            rw [hm1, hi1, degSum_cons, hdeg] at this
            omega
          · have := l1.cmpsg
            rw [hi1, hc1] at this
            exact this
          · have := l1.logg
            rw [hl1] at this
            exact this
        by_cases hok : (gLoop (gcrm lim s stop n) s stop u s[u].ings (gPush st u)).1 = .ok
        · simp only [hok, if_true]
          refine ⟨?_, Or.inl rfl⟩
          exact ⟨hstep.gw.pop u, hstep.mapg, hstep.expg, hstep.inspg, hstep.cmpsg, hstep.logg⟩
        · simp only [hok]
          exact ⟨hstep, l2⟩

end C2pa.C19
