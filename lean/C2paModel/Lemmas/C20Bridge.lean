import C2paModel.Props.C34
import C2paModel.Model.C20
/-
C20 — bridge between the two ways the code looks at a redaction URI: the assertion loop skips a
hashed URI when `assertion_label_from_link` of a redaction gives its label, the disallowed-
redaction rule tests `contains` on the URI text. `label_prefix_in_uri`: whatever label
`assertion_label_from_link` extracts from a URI, every protected label that is a prefix of it
occurs in the URI text — so a redaction that *targets* an actions or hard-binding assertion is
always *flagged*.
-/
namespace C2pa.C20
open C2pa.C34

theorem containsSub_iff (p : Str) : ∀ s : Str, containsSub p s = true ↔ p <:+: s := by
  intro s
  induction s with
  | nil =>
    unfold containsSub
    constructor
    · intro h
      have : p = [] := by simpa using h
      rw [this]
      exact List.infix_refl _
    · intro h
      have : p = [] := List.eq_nil_of_infix_nil h
      simp [this]
  | cons c cs ih =>
    unfold containsSub
    rw [Bool.or_eq_true, ih, List.isPrefixOf_iff_prefix, List.infix_cons_iff]

theorem mem_joinWith_infix (sep : Char) : ∀ (l : List Str) (x : Str), x ∈ l → x <:+: joinWith sep l := by
  intro l
  induction l with
  | nil => intro x hx; cases hx
  | cons a rest ih =>
    intro x hx
    cases rest with
    | nil =>
      have : x = a := by simpa using hx
      subst this
      simp [joinWith]
    | cons b rest' =>
      simp only [joinWith]
      rcases List.mem_cons.1 hx with rfl | hx
      · exact (List.prefix_append _ _).isInfix
      · have h1 := ih x hx
        have h2 : joinWith sep (b :: rest') <:+ a ++ sep :: joinWith sep (b :: rest') :=
          ⟨a ++ [sep], by simp⟩
        exact h1.trans h2.isInfix

theorem getLast_joinWith_suffix (sep : Char) :
    ∀ (l : List Str) (x : Str), l.getLast? = some x → x <:+ joinWith sep l := by
  intro l
  induction l with
  | nil => intro x hx; simp at hx
  | cons a rest ih =>
    intro x hx
    cases rest with
    | nil =>
      have : x = a := by simpa using hx.symm
      subst this
      simp [joinWith]
    | cons b rest' =>
      simp only [joinWith]
      have hx' : (b :: rest').getLast? = some x := by
        simpa [List.getLast?_cons_cons] using hx
      have h1 := ih x hx'
      have h2 : joinWith sep (b :: rest') <:+ a ++ sep :: joinWith sep (b :: rest') :=
        ⟨a ++ [sep], by simp⟩
      exact h1.trans h2

theorem splitDU_head_prefix : ∀ s : Str, ∃ h t, splitDU s = h :: t ∧ h <+: s := by
  intro s
  fun_induction splitDU s with
  | case1 => exact ⟨[], [], rfl, List.prefix_refl _⟩
  | case2 a => exact ⟨[a], [], rfl, List.prefix_refl _⟩
  | case3 a b rest hab ih => exact ⟨[], _, rfl, List.nil_prefix⟩
  | case4 a b rest hab ih =>
    obtain ⟨h, t, hs, hp⟩ := ih
    refine ⟨a :: h, t, ?_, ?_⟩
    · rw [hs]; rfl
    · exact List.cons_prefix_cons.2 ⟨rfl, hp⟩

/-- a non-empty pattern that does not begin with `/` and occurs in the normalised URI occurs in
the URI -/
theorem infix_of_normalized (r v p : Str) (hv : toNormalizedUri r = some v)
    (hne : p ≠ []) (hslash : p.head? ≠ some '/') (hp : p <:+: v) : p <:+: r := by
  unfold toNormalizedUri at hv
  simp only [Option.bind_eq_bind] at hv
  have hjoin := join_split_id '=' r
  generalize hparts : splitOnC '=' r = parts at hv hjoin
  have key : ∀ output, output ∈ parts → (v = output ∨ v = '/' :: output) → p <:+: r := by
    intro output hmem hvv
    have hin : output <:+: r := by rw [← hjoin]; exact mem_joinWith_infix '=' parts output hmem
    rcases hvv with rfl | rfl
    · exact hp.trans hin
    · rcases List.infix_cons_iff.1 hp with hpre | hinf
      · exfalso
        cases p with
        | nil => exact hne rfl
        | cons c cs =>
          have := (List.cons_prefix_cons.1 hpre).1
          exact hslash (by simp [this])
      · exact hinf.trans hin
  by_cases hlen : parts.length = 1
  · simp only [hlen, if_true] at hv
    cases h0 : idx parts 0 with
    | none => simp [h0] at hv
    | some output =>
      simp only [h0, Option.bind_some] at hv
      have hmem : output ∈ parts := by
        unfold idx at h0; exact List.mem_of_getElem? h0
      split at hv
      · simp only [Option.pure_def, Option.some.injEq] at hv
        exact key output hmem (Or.inr hv.symm)
      · simp only [Option.pure_def, Option.some.injEq] at hv
        exact key output hmem (Or.inl hv.symm)
  · simp only [hlen, if_false] at hv
    cases h1 : idx parts 1 with
    | none => simp [h1] at hv
    | some output =>
      simp only [h1, Option.bind_some] at hv
      have hmem : output ∈ parts := by
        unfold idx at h1; exact List.mem_of_getElem? h1
      split at hv
      · simp only [Option.pure_def, Option.some.injEq] at hv
        exact key output hmem (Or.inr hv.symm)
      · simp only [Option.pure_def, Option.some.injEq] at hv
        exact key output hmem (Or.inl hv.symm)

/-- **the manifest label `manifest_label_from_uri` extracts from a URI occurs in the URI**: a
redaction whose parsed manifest is the claim's own label passes the `contains(claim.label())`
test of the self-redaction rule -/
theorem manifest_label_in_uri (r m : Str) (h : manifestLabelFromUri r = some (some m)) :
    containsSub m r = true := by
  rw [containsSub_iff]
  unfold manifestLabelFromUri at h
  cases hv : toNormalizedUri r with
  | none => simp [hv] at h
  | some v =>
    simp only [hv, Option.bind_eq_bind, Option.bind_some] at h
    cases hc : lenGtAndEq (splitOnC '/' v) 2 1 cManifestStore with
    | none => simp [hc] at h
    | some b =>
      simp only [hc, Option.bind_some] at h
      cases b with
      | false => simp at h
      | true =>
        simp only [if_true] at h
        cases h2 : idx (splitOnC '/' v) 2 with
        | none => simp [h2] at h
        | some p2 =>
          simp only [h2, Option.bind_some, Option.pure_def, Option.some.injEq] at h
          subst h
          have hmem : p2 ∈ splitOnC '/' v := by unfold idx at h2; exact List.mem_of_getElem? h2
          by_cases hne : p2 = []
          · rw [hne]; exact List.nil_infix
          · have hin : p2 <:+: v := by
              have := mem_joinWith_infix '/' _ p2 hmem
              rwa [join_split_id '/' v] at this
            refine infix_of_normalized r v p2 hv hne ?_ hin
            intro hh
            have hnot := sep_not_mem_of_mem_splitOnC hmem
            cases p2 with
            | nil => exact hne rfl
            | cons c cs =>
              simp only [List.head?_cons, Option.some.injEq] at hh
              exact hnot (by rw [hh]; exact List.mem_cons_self ..)

/-- the protected labels: `c2pa.actions` and the four hard-binding labels -/
def Protected (p : Str) : Prop := p = cActions ∨ p ∈ hashLabels

theorem protected_facts (p : Str) (hp : Protected p) :
    p ≠ [] ∧ p.head? ≠ some '/' ∧ ∀ x : Str, p.isPrefixOf (cIngThumb ++ x) = false := by
  have h5 : p = cActions ∨ p = "c2pa.hash.data".toList ∨ p = "c2pa.hash.boxes".toList ∨
      p = "c2pa.hash.bmff".toList ∨ p = "c2pa.hash.collection.data".toList := by
    rcases hp with h | h
    · exact Or.inl h
    · right; simpa [hashLabels] using h
  rcases h5 with rfl | rfl | rfl | rfl | rfl <;>
    exact ⟨by decide, by decide, fun x => rfl⟩

/-- **label_prefix_in_uri** — if `assertion_label_from_link` extracts the label `l` from the URI
`r` and a protected label is a prefix of `l`, then that protected label occurs in `r` -/
theorem label_prefix_in_uri (r l : Str) (i : Nat) (hl : assertionLabelFromLink r = some (l, i))
    (p : Str) (hprot : Protected p) (hpre : p.isPrefixOf l = true) : containsSub p r = true := by
  obtain ⟨hne, hslash, hthumb⟩ := protected_facts p hprot
  have hpl : p <+: l := List.isPrefixOf_iff_prefix.1 hpre
  rw [containsSub_iff]
  unfold assertionLabelFromLink at hl
  cases hv : toNormalizedUri r with
  | none => simp [hv] at hl
  | some v =>
    simp only [hv, Option.bind_eq_bind, Option.bind_some] at hl
    have hjoin := join_split_id '/' v
    apply infix_of_normalized r v p hv hne hslash
    cases hlast : (splitOnC '/' v).getLast? with
    | none =>
      simp only [hlast] at hl
      cases h0 : idx (splitOnC '/' v) 0 with
      | none => simp [h0] at hl
      | some v0 =>
        simp only [h0, Option.bind_some, Option.pure_def, Option.some.injEq, Prod.mk.injEq] at hl
        have hmem : v0 ∈ splitOnC '/' v := by unfold idx at h0; exact List.mem_of_getElem? h0
        have := mem_joinWith_infix '/' _ v0 hmem
        rw [hjoin] at this
        rw [← hl.1] at hpl
        exact hpl.isInfix.trans this
    | some s =>
      simp only [hlast] at hl
      have hsuf : s <:+ v := by
        have := getLast_joinWith_suffix '/' _ s hlast
        rwa [hjoin] at this
      -- `l` is a prefix of `s`, or a thumbnail label that no protected label is a prefix of
      have hls : p <+: s := by
        unfold labelAndInstance at hl
        by_cases ht : (thumbnailType s == cIngThumb) = true
        · exfalso
          have hty : thumbnailType s = cIngThumb := by simpa using ht
          simp only [ht, if_true] at hl
          cases hi : thumbnailInstance s with
          | none => simp [hi] at hl
          | some inst =>
            simp only [hi, Option.bind_eq_bind, Option.bind_some] at hl
            cases him : thumbnailImageType s with
            | none => simp [him] at hl
            | some oit =>
              simp only [him, Option.bind_some] at hl
              cases oit with
              | none =>
                simp only [Option.pure_def, Option.some.injEq, Prod.mk.injEq] at hl
                have := hthumb []
                rw [List.append_nil, ← hty, hl.1, hpre] at this
                cases this
              | some it =>
                simp only [Option.pure_def, Option.some.injEq, Prod.mk.injEq] at hl
                have := hthumb ('.' :: it)
                rw [← hty, hl.1, hpre] at this
                cases this
        · rw [if_neg ht] at hl
          obtain ⟨h, t, hsd, hhp⟩ := splitDU_head_prefix s
          simp only [hsd, Option.bind_eq_bind] at hl
          obtain ⟨n, _, hl⟩ := Option.bind_eq_some_iff.1 hl
          have h0 : idx (h :: t) 0 = some h := rfl
          simp only [h0, Option.bind_some, Option.pure_def, Option.some.injEq, Prod.mk.injEq] at hl
          rw [← hl.1] at hpl
          exact hpl.trans hhp
      exact hls.isInfix.trans hsuf.isInfix

end C2pa.C20
