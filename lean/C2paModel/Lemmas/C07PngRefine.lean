import C2paModel.Lemmas.C07PngOps
/-
PNG: the commuting squares between the byte-exact handler model (`Png.write`, `Png.remove`,
`Png.read`, `Png.locations` — the functions that are compared with `png_io.rs` on every run)
and layer A (`writeA`, `removeA`, `readA`, `caiOff`/`locA`) through the lexer `Png.segs`:

      bytes  b ───── Png.write · s ─────▶  bytes o            bytes b ── Png.read ──▶ result
        │ Png.segs                           │ Png.segs          │ Png.segs              ║
        ▼                                    ▼                   ▼                       ║
   container c ── writeA Png.fmt · s ──▶ container           container c ── readA ──▶ result

Preconditions, all on the input: the file parses, it holds at most one caBX chunk (the
handler replaces / removes only the *first* one — with two the squares do not commute, see
`Props/C07.lean` `png_two_manifests_*`), and the store is shorter than 2³² bytes (the chunk
length field; layer A's `unwrap` never looks at it).
-/
namespace C2pa.C07.Png

open C2pa.C07

theorem manifests_length_segsOf (rs : List RC) (tail : Bytes) :
    (manifests (segsOf rs tail)).length = (rs.filter (·.name == caBX)).length := by
  rw [manifests_segsOf, List.length_map]

/-- The lexer succeeds exactly on the files the chunk walker accepts. -/
theorem segs_isSome_iff (b : Bytes) : (segs b).isSome ↔ (chunks b).isSome := by
  cases hch : chunks b with
  | none => simp [segs, hch]
  | some ps => simp [segs, hch]

/-- Number of manifest segments = number of caBX chunks. -/
theorem manifests_length_segs {b : Bytes} {c : List Seg} {ps : List Chunk} (h : segs b = some c)
    (hch : chunks b = some ps) : (manifests c).length = (ps.filter (·.name == caBX)).length := by
  obtain ⟨rs, tail, hp, rfl⟩ := parsed_of_segs h
  have := chunks_of_parsed hp
  rw [hch] at this; injection this with this
  rw [manifests_length_segsOf, this, filter_place_length]

/-! ### write -/

/-- **Commuting square for `write`.** -/
theorem segs_write {b s o : Bytes} {c : List Seg} (h : segs b = some c)
    (h1 : (manifests c).length ≤ 1) (hs : s.length < 4294967296) (hw : write b s = some o) :
    segs o = some (writeA fmt c s) := by
  obtain ⟨rs, tail, hp, rfl⟩ := parsed_of_segs h
  obtain ⟨L, R, hpo, he, hL⟩ := write_parsed hp hs hw
  rw [manifests_length_segsOf] at h1
  have hf := (eraseFirst_filter he h1).1
  have hokL : ∀ r ∈ L, r.ok := fun r hr => hpo.stream.all_ok r (by simp [hr])
  rw [segs_parsed hpo, writeA_segsOf tail s hokL hL hf]

/-- The written file *is* the serialisation of the layer-A write. -/
theorem write_refines {b s o : Bytes} {c : List Seg} (h : segs b = some c)
    (h1 : (manifests c).length ≤ 1) (hs : s.length < 4294967296) (hw : write b s = some o) :
    o = ser (writeA fmt c s) :=
  (ser_segs (segs_write h h1 hs hw)).symm

/-- `write` fails only when there is no IHDR chunk. -/
theorem write_isSome {b : Bytes} {ps : List Chunk} (s : Bytes) (h : chunks b = some ps)
    (hi : (firstIhdr ps).isSome) : ∃ o, write b s = some o := by
  cases h1 : firstIhdr ps with
  | none => rw [h1] at hi; cases hi
  | some ih =>
    cases h2 : firstCai ps with
    | none => exact ⟨_, write_eq_fresh h h1 h2⟩
    | some c =>
      by_cases h3 : c.fin ≤ ih.fin
      · exact ⟨_, write_eq_before h h1 h2 h3⟩
      · exact ⟨_, write_eq_after h h1 h2 h3⟩

/-! ### remove -/

/-- **Commuting square for `remove`**; `remove` never fails on a parsable file. -/
theorem segs_remove {b : Bytes} {c : List Seg} (h : segs b = some c) (h1 : (manifests c).length ≤ 1) :
    ∃ o, remove b = some o ∧ segs o = some (removeA c) := by
  obtain ⟨rs, tail, hp, rfl⟩ := parsed_of_segs h
  obtain ⟨o, rs', hr, hpo, he⟩ := remove_parsed hp
  rw [manifests_length_segsOf] at h1
  have hf := (eraseFirst_filter he h1).1
  refine ⟨o, hr, ?_⟩
  rw [segs_parsed hpo]
  show _ = some (strip _)
  rw [strip_segsOf, hf]

theorem remove_refines {b : Bytes} {c : List Seg} (h : segs b = some c) (h1 : (manifests c).length ≤ 1) :
    remove b = some (ser (removeA c)) := by
  obtain ⟨o, hr, hs⟩ := segs_remove h h1
  rw [hr, ser_segs hs]

/-! ### read -/

theorem unwrap_enc (r : RC) (h : r.ok) : unwrap r.enc = some r.data := by
  unfold unwrap
  have hl := enc_length r h
  have h12 : ¬ r.enc.length < 12 := by omega
  rw [if_neg h12]
  have e : r.enc = (be32 r.data.length ++ r.name) ++ (r.data ++ r.crc) := by
    simp [RC.enc, List.append_assoc]
  have hn : r.enc.length - 12 = r.data.length := by omega
  rw [hn, e]
  exact congrArg some (slice_app _ _ _ _ _ (by simp [be32_length, h.name4]) rfl)

/-- **Commuting square for `read`** (no precondition: none / one / many agree). -/
theorem read_segs {b : Bytes} {c : List Seg} (h : segs b = some c) :
    read b = some (readA fmt c) := by
  obtain ⟨rs, tail, hp, rfl⟩ := parsed_of_segs h
  have hok := hp.stream.all_ok
  unfold readA
  rw [manifests_segsOf]
  rcases split_first caBX rs with hno | ⟨X, c, Y, rfl, hX, hc⟩
  · rw [read_parsed_none hp hno, (filter_none hno).1]; rfl
  · have hcb : (c.name == caBX) = true := by simpa using hc
    have hcok : c.ok := hok c (by simp)
    have hfX := (filter_none hX).1
    rcases split_first caBX Y with hnoY | ⟨Y1, c2, Y2, rfl, hY1, hc2⟩
    · rw [read_parsed_one hp hX hc hnoY]
      rw [List.filter_append, hfX, List.nil_append, List.filter_cons, if_pos hcb, (filter_none hnoY).1]
      show _ = some (match fmt.unwrap (rcSeg c).raw with | some s => ReadR.ok s | none => ReadR.bad)
      show _ = some (match unwrap c.enc with | some s => ReadR.ok s | none => ReadR.bad)
      rw [unwrap_enc c hcok]
    · have hc2b : (c2.name == caBX) = true := by simpa using hc2
      have hfY1 := (filter_none hY1).1
      have hflt : (X ++ c :: (Y1 ++ c2 :: Y2)).filter (·.name == caBX)
          = c :: c2 :: Y2.filter (·.name == caBX) := by
        rw [List.filter_append, hfX, List.nil_append, List.filter_cons, if_pos hcb,
          List.filter_append, hfY1, List.nil_append, List.filter_cons, if_pos hc2b]
      rw [read_parsed_many hp (by rw [hflt]; simp), hflt]
      rfl

/-! ### locations -/

/-- **Commuting square for the object locations after a write**: the handler reports the
layer-A regions of the written container. -/
theorem locations_write {b s o : Bytes} {c : List Seg} (h : segs b = some c)
    (h1 : (manifests c).length ≤ 1) (hs : s.length < 4294967296) (hw : write b s = some o) :
    locations o = some (locA (caiOff fmt c) (s.length + 12) o.length) := by
  obtain ⟨rs, tail, hp, rfl⟩ := parsed_of_segs h
  obtain ⟨L, R, hpo, he, hL⟩ := write_parsed hp hs hw
  rw [manifests_length_segsOf] at h1
  obtain ⟨hf, hno⟩ := eraseFirst_filter he h1
  have hokL : ∀ r ∈ L, r.ok := fun r hr => hpo.stream.all_ok r (by simp [hr])
  rw [caiOff_segsOf tail hokL hL hf]
  exact locations_parsed_at hpo (fun x hx => hno x (by simp [hx])) rfl

/-- Without a caBX chunk the handler reports the regions of the asset that embedding an
empty store would produce (the "12-byte pseudo chunk in a file 12 bytes longer"). -/
theorem locations_fresh {b o : Bytes} {c : List Seg} (h : segs b = some c)
    (h0 : manifests c = []) (hw : write b [] = some o) : locations b = locations o := by
  have h1 : (manifests c).length ≤ 1 := by rw [h0]; exact Nat.zero_le 1
  rw [locations_write h h1 (by decide) hw]
  obtain ⟨rs, tail, hp, rfl⟩ := parsed_of_segs h
  obtain ⟨L, R, hpo, he, hL⟩ := write_parsed hp (by decide) hw
  have hno : ∀ r ∈ rs, r.name ≠ caBX := by
    intro r hr hrc
    have : r ∈ rs.filter (·.name == caBX) := List.mem_filter.2 ⟨hr, by simpa using hrc⟩
    rw [manifests_segsOf] at h0
    rw [List.map_eq_nil_iff.1 h0] at this; cases this
  rw [manifests_length_segsOf] at h1
  obtain ⟨hf, _⟩ := eraseFirst_filter he h1
  have hokL : ∀ r ∈ L, r.ok := fun r hr => hpo.stream.all_ok r (List.mem_append_left _ hr)
  rw [caiOff_segsOf tail hokL hL hf]
  rw [(filter_none hno).2] at hf
  obtain ⟨A, ihr, rfl, hi, hA⟩ := hL
  have hrs : rs = A ++ ihr :: R := by rw [hf]; simp
  subst hrs
  rw [locations_parsed_fresh hp hA hi hno]
  have hlen : o.length = b.length + 12 := by
    rw [hpo.eq, hp.eq]; simp [encAll_append, encAll_cons, newRC_enc, wrap_length]; omega
  have hl := enc_length ihr (hokL ihr (by simp))
  have e : 8 + (encAll A).length + ihr.data.length + 12 = 8 + (encAll (A ++ [ihr])).length := by
    simp [encAll_append, encAll_cons, encAll_nil, hl]; omega
  rw [hlen, e]; rfl

end C2pa.C07.Png
