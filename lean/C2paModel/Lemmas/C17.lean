import C2paModel.Model.C17
import C2paModel.Props.C16
/-
C17 — helper lemmas: block decomposition (`chunksOf`), the accumulator invariants for the
fixed-size loop and the variable-size branch, and the verifier's range construction.
-/
namespace C2pa.C17

variable {β : Type}

/-! ### specification functions -/

/-- consecutive blocks of `F` elements, the last one possibly shorter (none for `F = 0`) -/
def chunksOf (F : Nat) (l : List β) : List (List β) :=
  if _h : 0 < F ∧ l ≠ [] then l.take F :: chunksOf F (l.drop F) else []
termination_by l.length
decreasing_by
  have : 0 < l.length := List.length_pos_iff.mpr _h.2
  simp only [List.length_drop]; omega

/-- the leaf recorded for a data block -/
def leafOf (d : List β) : Leaf β := ⟨d.length, hashByAlg d⟩

/-- the part of an mdat payload the Merkle leaves cover: everything for a large-size box, all
but the first 8 bytes otherwise (the verifier excludes 16 bytes from the start of the box) -/
def covered (large : Bool) (p : List β) : List β := if large then p else p.drop 8

theorem chunksOf_nil (F : Nat) : chunksOf F ([] : List β) = [] := by
  rw [chunksOf]; simp

theorem chunksOf_cons (F : Nat) (l : List β) (hF : 0 < F) (hl : l ≠ []) :
    chunksOf F l = l.take F :: chunksOf F (l.drop F) := by
  rw [chunksOf]; simp [hF, hl]

/-- a full block followed by more data -/
theorem chunksOf_block_append (F : Nat) (b r : List β) (hF : 0 < F) (hb : b.length = F) :
    chunksOf F (b ++ r) = b :: chunksOf F r := by
  have hne : b ++ r ≠ [] := by
    intro h
    have : b.length = 0 := by simp [List.append_eq_nil_iff.mp h]
    omega
  rw [chunksOf_cons F _ hF hne]
  simp [← hb]

theorem chunksOf_blocks (F : Nat) (blocks : List (List β)) (r : List β) (hF : 0 < F)
    (hb : ∀ b ∈ blocks, b.length = F) (hr : r.length < F) :
    chunksOf F (blocks.flatten ++ r) = blocks ++ (if r = [] then [] else [r]) := by
  induction blocks with
  | nil =>
    by_cases h : r = []
    · subst h; simp [chunksOf_nil]
    · rw [List.flatten_nil, List.nil_append, chunksOf_cons F r hF h]
      have : r.take F = r := List.take_of_length_le (by omega)
      have h2 : r.drop F = [] := List.drop_of_length_le (by omega)
      simp [this, h2, chunksOf_nil, h]
  | cons b bs ih =>
    have hb1 : b.length = F := hb b (by simp)
    have := ih (fun x hx => hb x (by simp [hx]))
    rw [List.flatten_cons, List.append_assoc, chunksOf_block_append F b _ hF hb1, this]
    simp

theorem chunksOf_ne_nil (F : Nat) (l : List β) : ∀ c ∈ chunksOf F l, c ≠ [] := by
  fun_induction chunksOf F l with
  | case1 l h ih =>
    intro c hc
    simp only [List.mem_cons] at hc
    rcases hc with rfl | hc
    · intro e
      have h1 : 0 < l.length := List.length_pos_iff.mpr h.2
      have : (l.take F).length = 0 := by simp [e]
      simp only [List.length_take] at this
      omega
    · exact ih c hc
  | case2 l h => simp

theorem chunksOf_flatten (F : Nat) (l : List β) (hF : 0 < F) : (chunksOf F l).flatten = l := by
  fun_induction chunksOf F l with
  | case1 l h ih => simp [ih]
  | case2 l h =>
    have : l = [] := by
      by_cases e : l = []
      · exact e
      · exact absurd ⟨hF, e⟩ h
    simp [this]

/-! ### fixed-size loop -/

/-- the per-mdat state represents the covered stream `D`: complete blocks hashed, tail buffered -/
def WF (F : Nat) (st : MdatState β) (D : List β) : Prop :=
  ∃ blocks : List (List β), (∀ b ∈ blocks, b.length = F)
    ∧ st.leaves = blocks.map (fun b => (⟨F, hashByAlg b⟩ : Leaf β))
    ∧ D = blocks.flatten ++ st.rem.getD []
    ∧ (∀ b, st.rem = some b → 0 < b.length ∧ b.length < F)

theorem fixedLoop_spec (F : Nat) (hF : 0 < F) (st : MdatState β) (rest : List β) (dataLen : Nat)
    (D : List β) (hwf : WF F st D) (hlen : st.rem.isSome → dataLen = rest.length) :
    ∃ st', fixedLoop F st rest dataLen = .ok st' ∧ WF F st' (D ++ rest) ∧ st'.skip = st.skip := by
  fun_induction fixedLoop F st rest dataLen generalizing D with
  | case1 st rest buf hrem hbig =>
    -- checked_sub failure: impossible, the buffered partial leaf is shorter than F
    obtain ⟨_, _, _, _, hr⟩ := hwf
    have := (hr buf hrem).2
    omega
  | case2 st rest buf hrem hnbig toCopy hgt =>
    -- read_exact past the end: impossible, to_copy ≤ data_len = unread bytes
    have := hlen (by simp [hrem])
    omega
  | case3 st rest buf hrem hnbig toCopy hle buf' hfull ih =>
    obtain ⟨blocks, hb, hl, hD, hr⟩ := hwf
    have hwf' : WF F { st with leaves := st.leaves ++ [⟨F, hashByAlg buf'⟩], rem := none }
        (D ++ rest.take toCopy) := by
      refine ⟨blocks ++ [buf'], ?_, ?_, ?_, ?_⟩
      · intro b hbm
        simp only [List.mem_append, List.mem_singleton] at hbm
        rcases hbm with h | rfl
        · exact hb b h
        · exact hfull
      · simp [hl]
      · simp [hD, hrem, buf']
      · intro b hbm; simp at hbm
    obtain ⟨st', h1, h2, h3⟩ := ih (D ++ rest.take toCopy) hwf' (by simp)
    refine ⟨st', h1, ?_, h3⟩
    simpa [List.append_assoc] using h2
  | case4 st rest buf hrem hnbig toCopy hle buf' hnfull =>
    obtain ⟨blocks, hb, hl, hD, hr⟩ := hwf
    have hdl := hlen (by simp [hrem])
    obtain ⟨hpos, hlt⟩ := hr buf hrem
    have hbl : buf'.length = buf.length + toCopy := by
      simp only [buf', List.length_append, List.length_take]; omega
    have htc : toCopy = rest.length := by
      simp only [toCopy] at *; omega
    have htake : rest.take toCopy = rest := List.take_of_length_le (by omega)
    refine ⟨{ st with rem := some buf' }, rfl, ?_, rfl⟩
    refine ⟨blocks, hb, hl, ?_, ?_⟩
    · simp [hD, hrem, buf', htake]
    · intro b hbm
      simp only [Option.some.injEq] at hbm
      subst hbm
      simp only [toCopy] at *
      omega
  | case5 st rest hrem toCopy hz =>
    have : rest = [] := by
      have : rest.length = 0 := by simp only [toCopy] at hz; omega
      exact List.length_eq_zero_iff.mp this
    subst this
    exact ⟨st, rfl, by simpa using hwf, rfl⟩
  | case6 st rest hrem toCopy hnz hlt =>
    obtain ⟨blocks, hb, hl, hD, hr⟩ := hwf
    have htake : rest.take toCopy = rest := List.take_of_length_le (by simp only [toCopy]; omega)
    refine ⟨{ st with rem := some (rest.take toCopy) }, rfl, ?_, rfl⟩
    refine ⟨blocks, hb, hl, ?_, ?_⟩
    · simp [hD, hrem, htake]
    · intro b hbm
      simp only [Option.some.injEq] at hbm
      subst hbm
      rw [htake]
      simp only [toCopy] at *
      omega
  | case7 st rest hrem toCopy hnz hnlt toHash hfull ih =>
    obtain ⟨blocks, hb, hl, hD, hr⟩ := hwf
    have hwf' : WF F { st with leaves := st.leaves ++ [⟨F, hashByAlg toHash⟩], rem := none }
        (D ++ rest.take toCopy) := by
      refine ⟨blocks ++ [toHash], ?_, ?_, ?_, ?_⟩
      · intro b hbm
        simp only [List.mem_append, List.mem_singleton] at hbm
        rcases hbm with h | rfl
        · exact hb b h
        · exact hfull
      · simp [hl]
      · simp [hD, hrem, toHash]
      · intro b hbm; simp at hbm
    obtain ⟨st', h1, h2, h3⟩ := ih (D ++ rest.take toCopy) hwf' (by simp)
    refine ⟨st', h1, ?_, h3⟩
    simpa [List.append_assoc] using h2
  | case8 st rest hrem toCopy hnz hnlt toHash hnfull =>
    exfalso
    apply hnfull
    simp only [toHash, toCopy, List.length_take] at *
    omega

/-! ### header skip arithmetic -/

theorem drop8_append (S data : List β) :
    (S ++ data).drop 8 = S.drop 8 ++ data.drop (min (8 - min 8 S.length) data.length) := by
  rw [List.drop_append]
  congr 1
  by_cases h : 8 - S.length ≤ data.length
  · have : min (8 - min 8 S.length) data.length = 8 - S.length := by omega
    rw [this]
  · have e1 : data.drop (8 - S.length) = [] := List.drop_of_length_le (by omega)
    have : min (8 - min 8 S.length) data.length = data.length := by omega
    rw [this, e1]; simp

/-- invariant between calls, fixed leaf size: `S` = payload bytes delivered so far -/
def InvF (F : Nat) (large : Bool) (st : MdatState β) (S : List β) : Prop :=
  (large = false → st.skip.getD 8 = 8 - min 8 S.length) ∧ WF F st (covered large S)

theorem WF_rem_nonempty {F : Nat} {st : MdatState β} {D : List β} (h : WF F st D)
    (hs : st.rem.isSome) : D ≠ [] := by
  obtain ⟨blocks, _, _, hD, hr⟩ := h
  obtain ⟨b, hb⟩ := Option.isSome_iff_exists.mp hs
  have := (hr b hb).1
  intro e
  rw [hD, hb] at e
  simp only [Option.getD_some, List.append_eq_nil_iff] at e
  rw [e.2] at this
  simp at this

theorem addLeaf_fixed_spec (F : Nat) (hF : 0 < F) (large : Bool) (st : MdatState β)
    (S data : List β) (hinv : InvF F large st S) :
    ∃ st', addLeaf (some F) large st data = .ok st' ∧ InvF F large st' (S ++ data) := by
  obtain ⟨hskip, hwf⟩ := hinv
  cases large with
  | true =>
    simp only [addLeaf, InvF, covered, ↓reduceIte] at *
    by_cases h0 : 0 = data.length
    · have : data = [] := List.length_eq_zero_iff.mp h0.symm
      subst this
      exact ⟨st, by simp, by simp, by simpa using hwf⟩
    · simp only [h0, if_false, List.drop_zero]
      have hl : st.rem.isSome → data.length = data.length := fun _ => rfl
      obtain ⟨st', h1, h2, _⟩ := fixedLoop_spec F hF st data data.length S hwf hl
      exact ⟨st', h1, by simp, h2⟩
  | false =>
    have hsk := hskip rfl
    simp only [addLeaf, InvF, covered, Bool.false_eq_true, ↓reduceIte] at *
    rw [hsk]
    have hcov := drop8_append S data
    by_cases hall : min (8 - min 8 S.length) data.length = data.length
    · -- the whole chunk falls into the exclusion (or is empty)
      simp only [hall, if_true]
      refine ⟨_, rfl, ?_, ?_⟩
      · intro _
        simp only [Option.getD_some, List.length_append]
        omega
      · rw [hcov, hall, List.drop_length, List.append_nil]
        obtain ⟨blocks, hb, hl, hD, hr⟩ := hwf
        exact ⟨blocks, hb, hl, hD, hr⟩
    · simp only [hall, if_false]
      have hwf0 : WF F { st with skip := some (8 - min 8 S.length - min (8 - min 8 S.length) data.length) }
          (S.drop 8) := by
        obtain ⟨blocks, hb, hl, hD, hr⟩ := hwf
        exact ⟨blocks, hb, hl, hD, hr⟩
      have hl : ({ st with skip := some (8 - min 8 S.length - min (8 - min 8 S.length) data.length) }
            : MdatState β).rem.isSome →
          data.length = (data.drop (min (8 - min 8 S.length) data.length)).length := by
        intro hs
        have hne := WF_rem_nonempty hwf hs
        have : 8 < S.length := by
          have : 0 < (S.drop 8).length := List.length_pos_iff.mpr hne
          simp only [List.length_drop] at this
          omega
        simp only [List.length_drop]
        omega
      obtain ⟨st', h1, h2, h3⟩ := fixedLoop_spec F hF _ _ data.length (S.drop 8) hwf0 hl
      refine ⟨st', h1, ?_, ?_⟩
      · intro _
        rw [h3]
        simp only [Option.getD_some, List.length_append]
        omega
      · rw [hcov]; exact h2

theorem runMdat_fixed_spec (F : Nat) (hF : 0 < F) (large : Bool) (cs : List (List β))
    (st : MdatState β) (S : List β) (hinv : InvF F large st S) :
    ∃ st', runMdat (some F) large st cs = .ok st' ∧ InvF F large st' (S ++ cs.flatten) := by
  induction cs generalizing st S with
  | nil => exact ⟨st, rfl, by simpa using hinv⟩
  | cons c cs ih =>
    obtain ⟨st1, h1, hinv1⟩ := addLeaf_fixed_spec F hF large st S c hinv
    obtain ⟨st2, h2, hinv2⟩ := ih st1 (S ++ c) hinv1
    refine ⟨st2, ?_, ?_⟩
    · simp [runMdat, h1, h2]
    · simpa [List.append_assoc] using hinv2

theorem InvF_init (F : Nat) (large : Bool) : InvF F large ({} : MdatState β) [] := by
  refine ⟨by intro _; simp, [], by simp, by simp, by simp [covered], by simp⟩

theorem flush_leaves_of_WF (F : Nat) (hF : 0 < F) (st : MdatState β) (D : List β)
    (h : WF F st D) : (flush st).leaves = (chunksOf F D).map leafOf := by
  obtain ⟨blocks, hb, hl, hD, hr⟩ := h
  have hmap : blocks.map (fun b => (⟨F, hashByAlg b⟩ : Leaf β)) = blocks.map leafOf := by
    apply List.map_congr_left
    intro b hbm
    simp [leafOf, hb b hbm]
  cases hrem : st.rem with
  | none =>
    have : D = blocks.flatten ++ [] := by simpa [hrem] using hD
    rw [this, chunksOf_blocks F blocks [] hF hb (by simpa using hF)]
    simp [flush, hrem, hl, hmap]
  | some b =>
    obtain ⟨hpos, hlt⟩ := hr b hrem
    have hne : b ≠ [] := by intro e; subst e; simp at hpos
    have : D = blocks.flatten ++ b := by simpa [hrem] using hD
    rw [this, chunksOf_blocks F blocks b hF hb hlt]
    simp [flush, hrem, hl, hmap, hne, leafOf]

/-! ### variable-size branch -/

def InvV (large : Bool) (st : MdatState β) (S : List β) : Prop :=
  (large = false → st.skip.getD 8 = 8 - min 8 S.length)
    ∧ st.rem = none
    ∧ ∃ pieces : List (List β), (∀ p ∈ pieces, p ≠ []) ∧ st.leaves = pieces.map leafOf
        ∧ pieces.flatten = covered large S

theorem addLeaf_var_spec (large : Bool) (st : MdatState β) (S data : List β)
    (hinv : InvV large st S) :
    ∃ st', addLeaf none large st data = .ok st' ∧ InvV large st' (S ++ data) := by
  obtain ⟨hskip, hrem, pieces, hp, hl, hfl⟩ := hinv
  cases large with
  | true =>
    simp only [addLeaf, InvV, covered, ↓reduceIte] at *
    by_cases h0 : 0 = data.length
    · have : data = [] := List.length_eq_zero_iff.mp h0.symm
      subst this
      exact ⟨st, by simp, by simp, hrem, pieces, hp, hl, by simpa using hfl⟩
    · simp only [h0, if_false, List.drop_zero, Nat.sub_zero]
      refine ⟨_, rfl, by simp, hrem, pieces ++ [data], ?_, ?_, ?_⟩
      · intro p hpm
        simp only [List.mem_append, List.mem_singleton] at hpm
        rcases hpm with h | rfl
        · exact hp p h
        · intro e; subst e; simp at h0
      · simp [hl, leafOf]
      · simp [hfl]
  | false =>
    have hsk := hskip rfl
    simp only [addLeaf, InvV, covered, Bool.false_eq_true, ↓reduceIte] at *
    rw [hsk]
    have hcov := drop8_append S data
    by_cases hall : min (8 - min 8 S.length) data.length = data.length
    · simp only [hall, if_true]
      refine ⟨_, rfl, ?_, hrem, pieces, hp, hl, ?_⟩
      · intro _
        simp only [Option.getD_some, List.length_append]
        omega
      · rw [hcov, hall, List.drop_length, List.append_nil]; exact hfl
    · simp only [hall, if_false]
      refine ⟨_, rfl, ?_, hrem, pieces ++ [data.drop (min (8 - min 8 S.length) data.length)], ?_, ?_, ?_⟩
      · intro _
        simp only [Option.getD_some, List.length_append]
        omega
      · intro p hpm
        simp only [List.mem_append, List.mem_singleton] at hpm
        rcases hpm with h | rfl
        · exact hp p h
        · intro e
          have : (data.drop (min (8 - min 8 S.length) data.length)).length = 0 := by simp [e]
          simp only [List.length_drop] at this
          omega
      · simp [hl, leafOf]
      · rw [hcov]; simp [hfl]

theorem runMdat_var_spec (large : Bool) (cs : List (List β)) (st : MdatState β) (S : List β)
    (hinv : InvV large st S) :
    ∃ st', runMdat none large st cs = .ok st' ∧ InvV large st' (S ++ cs.flatten) := by
  induction cs generalizing st S with
  | nil => exact ⟨st, rfl, by simpa using hinv⟩
  | cons c cs ih =>
    obtain ⟨st1, h1, hinv1⟩ := addLeaf_var_spec large st S c hinv
    obtain ⟨st2, h2, hinv2⟩ := ih st1 (S ++ c) hinv1
    refine ⟨st2, ?_, ?_⟩
    · simp [runMdat, h1, h2]
    · simpa [List.append_assoc] using hinv2

theorem InvV_init (large : Bool) : InvV large ({} : MdatState β) [] :=
  ⟨by intro _; simp, rfl, [], by simp, by simp, by simp [covered]⟩

/-! ### verifier ranges -/

theorem fixedRanges_eq_chunksOf (fb : Nat) (region : List β) (hfb : 0 < fb) :
    fixedRanges fb region = chunksOf fb region := by
  fun_induction fixedRanges fb region with
  | case1 region h ih =>
    have hne : region ≠ [] := List.length_pos_iff.mp h.1
    rw [chunksOf_cons fb region hfb hne, ih]
    have : min region.length fb = fb ∨ min region.length fb = region.length := by omega
    rcases this with e | e
    · rw [e]
    · have hle : region.length ≤ fb := by omega
      rw [e, List.take_of_length_le (Nat.le_refl _), List.take_of_length_le hle,
        List.drop_of_length_le (Nat.le_refl _), List.drop_of_length_le hle]
  | case2 region h =>
    have : region = [] := by
      by_cases e : region = []
      · exact e
      · exact absurd ⟨List.length_pos_iff.mpr e, hfb⟩ h
    subst this
    rw [chunksOf_nil]

/-- `fixed_block_size = min(total, F)` gives the same blocks as `F` -/
theorem chunksOf_min (F : Nat) (D : List β) (hF : 0 < F) (hD : D ≠ []) :
    chunksOf (min D.length F) D = chunksOf F D := by
  by_cases h : F ≤ D.length
  · rw [Nat.min_eq_right h]
  · have hlt : D.length < F := by omega
    have hpos : 0 < D.length := List.length_pos_iff.mpr hD
    rw [Nat.min_eq_left (by omega)]
    rw [chunksOf_cons _ D hpos hD, chunksOf_cons F D hF hD]
    simp [List.take_of_length_le (Nat.le_refl D.length), List.take_of_length_le (Nat.le_of_lt hlt),
      List.drop_of_length_le (Nat.le_of_lt hlt), chunksOf_nil]

theorem varRanges_pieces (pieces : List (List β)) (tail : List β) :
    varRanges (pieces.map List.length) (pieces.flatten ++ tail) = pieces := by
  induction pieces with
  | nil => simp [varRanges]
  | cons p ps ih =>
    simp only [List.map_cons, varRanges, List.flatten_cons, List.append_assoc]
    rw [List.take_left', List.drop_left']
    · rw [ih]
    · rfl
    · rfl

theorem sum_map_length_flatten (pieces : List (List β)) :
    (pieces.map List.length).sum = pieces.flatten.length := by
  rw [List.length_flatten]

theorem hashByAlg_of_ne_nil (d : List β) (h : d ≠ []) : hashByAlg d = hashRange d := by
  simp [hashByAlg, hashRange, h]

/-- a map that stores the leaves of the blocks `ds` accepts exactly those blocks as ranges -/
theorem checkMap_blocks [DecidableEq β] (mm : MMap β) (ds : List (List β))
    (hne : ∀ d ∈ ds, d ≠ []) (hcount : mm.count = ds.length)
    (hh : mm.hashes = ds.map hashByAlg) : checkMap mm ds = true := by
  have hlen : mm.hashes.length = mm.count := by rw [hh, hcount]; simp
  simp only [checkMap, hcount, ne_eq, not_true_eq_false, if_false]
  have hroot : ¬ (mm.hashes.length = 1 ∧ ds.length > 1) := by
    rw [hlen, hcount]; omega
  rw [if_neg hroot]
  rw [List.all_eq_true]
  intro i hi
  have hi' : i < ds.length := by simpa using hi
  have hget : ds[i]? = some ds[i] := by simp [hi']
  rw [hget]
  simp only
  have hmaplen : (mm.hashes.map Node.leaf).length = ds.length := by simp [hh]
  rw [← hmaplen]
  apply (C16.none_proof_leaf_row_iff Node.comb (mm.hashes.map Node.leaf) i _).mpr
  have hd : ds[i] ≠ [] := hne _ (List.getElem_mem hi')
  rw [hh]
  simp only [List.map_map, List.getElem?_map, hget, Option.map_some, Function.comp]
  rw [hashByAlg_of_ne_nil _ hd]

/-! ### leaf counts and the validator's memory budget -/

theorem chunksOf_length (F : Nat) (l : List β) (hF : 0 < F) :
    (chunksOf F l).length = divCeil l.length F := by
  fun_induction chunksOf F l with
  | case1 l h ih =>
    have hpos : 0 < l.length := List.length_pos_iff.mpr h.2
    simp only [List.length_cons, ih, List.length_drop, divCeil]
    by_cases hle : F ≤ l.length
    · have e : l.length + F - 1 = (l.length - F + F - 1) + F := by omega
      rw [e, Nat.add_div_right _ hF]
    · have h1 : l.length - F + F - 1 = F - 1 := by omega
      have e : l.length + F - 1 = (l.length - 1) + F := by omega
      rw [h1, e, Nat.add_div_right _ hF, Nat.div_eq_of_lt (by omega), Nat.div_eq_of_lt (by omega)]
  | case2 l h =>
    have : l = [] := by
      by_cases e : l = []
      · exact e
      · exact absurd ⟨hF, e⟩ h
    subst this
    simp only [List.length_nil, divCeil, Nat.zero_add]
    rw [Nat.div_eq_of_lt (by omega)]

theorem capOk_iff (hsz n : Nat) : capOk hsz n = true ↔ n * hsz ≤ maxMerkleLeavesSize := by
  simp [capOk]

/-- the validator's ranges for the map the signer stores with a fixed leaf size: the recorded
blocks when the leaf vector fits the budget, `tooManyLeaves` otherwise -/
theorem mdatRanges_fixed (F : Nat) (hF : 1 < F) (D box : List β) (hne : D ≠ [])
    (hreg : box.drop 16 = D) (mm : MMap β)
    (hfb : mm.fixedBlock = some (if D.length > 1 then min D.length F else F)) :
    mdatRanges mm box =
      if capOk mm.hsz (chunksOf F D).length then .ok (chunksOf F D) else .error .tooManyLeaves := by
  have hF0 : 0 < F := by omega
  have hpos : 0 < D.length := List.length_pos_iff.mpr hne
  simp only [mdatRanges, rangeCount, hreg, hfb]
  by_cases h1 : D.length > 1
  · have hfb1 : ¬ min D.length F ≤ 1 := by omega
    have hm0 : 0 < min D.length F := by omega
    simp only [h1, if_true, hfb1, if_false]
    rw [← chunksOf_length _ D hm0, chunksOf_min F D hF0 hne, fixedRanges_eq_chunksOf _ _ hm0,
      chunksOf_min F D hF0 hne]
    cases capOk mm.hsz (chunksOf F D).length <;> simp
  · have hfb1 : ¬ F ≤ 1 := by omega
    simp only [h1, if_false, hfb1]
    rw [← chunksOf_length _ D hF0, fixedRanges_eq_chunksOf _ _ hF0]
    cases capOk mm.hsz (chunksOf F D).length <;> simp

/-- likewise for variable leaf sizes -/
theorem mdatRanges_var (pieces : List (List β)) (box : List β)
    (hreg : box.drop 16 = pieces.flatten) (mm : MMap β)
    (hfb : mm.fixedBlock = none) (hv : mm.varSizes = some (pieces.map List.length)) :
    mdatRanges mm box =
      if capOk mm.hsz pieces.length then .ok pieces else .error .tooManyLeaves := by
  have hvr := varRanges_pieces pieces []
  rw [List.append_nil] at hvr
  simp only [mdatRanges, rangeCount, hreg, hfb, hv, sum_map_length_flatten, ne_eq,
    not_true_eq_false, if_false, List.length_map, hvr]
  cases capOk mm.hsz pieces.length <;> simp

/-! ### the remainder flush -/

theorem flush_idempotent (st : MdatState β) : flush (flush st) = flush st := by
  unfold flush
  cases h : st.rem with
  | none => simp [h]
  | some b => simp

theorem flush_rem (st : MdatState β) : (flush st).rem = none := by
  unfold flush
  cases h : st.rem with
  | none => simp [h]
  | some b => simp

/-! ### the per-mdat association list keeps ascending, duplicate-free ids -/

/-- the mdat ids present in the accumulator, in iteration order -/
def keys (l : List (Nat × MdatState β)) : List Nat := l.map (·.1)

theorem mem_keys_insertSt (i : Nat) (s : MdatState β) (l : List (Nat × MdatState β)) (k : Nat) :
    k ∈ keys (insertSt i s l) ↔ k = i ∨ k ∈ keys l := by
  induction l with
  | nil => simp [insertSt, keys]
  | cons x xs ih =>
    obtain ⟨j, t⟩ := x
    simp only [insertSt]
    by_cases hj : j = i
    · subst hj; simp [keys]
    · simp only [hj, if_false]
      by_cases hlt : i < j
      · simp [hlt, keys]
      · simp only [hlt, if_false]
        have ih' : k ∈ List.map (·.1) (insertSt i s xs) ↔ k = i ∨ k ∈ List.map (·.1) xs := ih
        simp only [keys, List.map_cons, List.mem_cons, ih']
        constructor
        · rintro (h | h | h)
          · exact Or.inr (Or.inl h)
          · exact Or.inl h
          · exact Or.inr (Or.inr h)
        · rintro (h | h | h)
          · exact Or.inr (Or.inl h)
          · exact Or.inl h
          · exact Or.inr (Or.inr h)

theorem insertSt_sorted (i : Nat) (s : MdatState β) (l : List (Nat × MdatState β))
    (h : (keys l).Pairwise (· < ·)) : (keys (insertSt i s l)).Pairwise (· < ·) := by
  induction l with
  | nil => simp [insertSt, keys]
  | cons x xs ih =>
    obtain ⟨j, t⟩ := x
    have h' : (j :: keys xs).Pairwise (· < ·) := h
    obtain ⟨hx, hxs⟩ := List.pairwise_cons.mp h'
    simp only [insertSt]
    by_cases hj : j = i
    · subst hj; simpa [keys] using h
    · simp only [hj, if_false]
      by_cases hlt : i < j
      · simp only [hlt, if_true]
        have : keys ((i, s) :: (j, t) :: xs) = i :: keys ((j, t) :: xs) := rfl
        rw [this]
        refine List.pairwise_cons.mpr ⟨?_, h⟩
        intro k hk
        have : k = j ∨ k ∈ keys xs := by simpa [keys] using hk
        rcases this with rfl | hk
        · exact hlt
        · exact Nat.lt_trans hlt (hx k hk)
      · simp only [hlt, if_false]
        have : keys ((j, t) :: insertSt i s xs) = j :: keys (insertSt i s xs) := rfl
        rw [this]
        refine List.pairwise_cons.mpr ⟨?_, ih hxs⟩
        intro k hk
        rcases (mem_keys_insertSt i s xs k).mp hk with rfl | hk
        · omega
        · exact hx k hk

/-- a strictly ascending list is determined by its members -/
theorem sorted_ext : ∀ (l₁ l₂ : List Nat), l₁.Pairwise (· < ·) → l₂.Pairwise (· < ·) →
    (∀ x, x ∈ l₁ ↔ x ∈ l₂) → l₁ = l₂
  | [], [], _, _, _ => rfl
  | [], b :: bs, _, _, h => by have := (h b).mpr (by simp); simp at this
  | a :: as, [], _, _, h => by have := (h a).mp (by simp); simp at this
  | a :: as, b :: bs, h1, h2, h => by
    obtain ⟨ha, has⟩ := List.pairwise_cons.mp h1
    obtain ⟨hb, hbs⟩ := List.pairwise_cons.mp h2
    have hab : a = b := by
      have m1 : a = b ∨ a ∈ bs := by simpa using (h a).mp (by simp)
      have m2 : b = a ∨ b ∈ as := by simpa using (h b).mpr (by simp)
      rcases m1 with e | m1
      · exact e
      · rcases m2 with e | m2
        · exact e.symm
        · have := hb a m1; have := ha b m2; omega
    subst hab
    have htl : ∀ x, x ∈ as ↔ x ∈ bs := by
      intro x
      constructor
      · intro hx
        have : x = a ∨ x ∈ bs := by simpa using (h x).mp (by simp [hx])
        rcases this with e | m
        · have := ha x hx; omega
        · exact m
      · intro hx
        have : x = a ∨ x ∈ as := by simpa using (h x).mpr (by simp [hx])
        rcases this with e | m
        · have := hb x hx; omega
        · exact m
    rw [sorted_ext as bs has hbs htl]

theorem sorted_eq_range (l : List Nat) (n : Nat) (hs : l.Pairwise (· < ·))
    (hm : ∀ k, k ∈ l ↔ k < n) : l = List.range n :=
  sorted_ext l (List.range n) hs List.pairwise_lt_range (by intro x; simp [hm])

/-- with duplicate-free ids the list is its own lookup table -/
theorem sorted_lookup (l : List (Nat × MdatState β)) (h : (keys l).Pairwise (· < ·)) :
    l = (keys l).map fun k => (k, lookupSt k l) := by
  induction l with
  | nil => rfl
  | cons x xs ih =>
    obtain ⟨j, t⟩ := x
    have h' : (j :: keys xs).Pairwise (· < ·) := h
    obtain ⟨hj, hxs'⟩ := List.pairwise_cons.mp h'
    have e : keys ((j, t) :: xs) = j :: keys xs := rfl
    rw [e, List.map_cons]
    congr 1
    · simp [lookupSt]
    · conv => lhs; rw [ih hxs']
      apply List.map_congr_left
      intro k hk
      have : j < k := hj k hk
      have hne : ¬ j = k := by omega
      simp [lookupSt, hne]

end C2pa.C17
