import C2paModel.Model.C02
/-
C02 — helper lemmas for layer A (assertion loop of `verify_internal`): first-match lookups, the
tracking list as a multiset (counting by (label, instance)), the shape of a failure-free log.
-/
namespace C2pa.C02
open C2pa.C18

theorem findBox_some {k : Key} {as : List AssertionBox} {a : AssertionBox}
    (h : findBox k as = some a) : a ∈ as ∧ a.key = k := by
  induction as with
  | nil => simp [findBox] at h
  | cons x xs ih =>
    unfold findBox at h
    by_cases hx : x.key = k
    · simp [hx] at h; subst h; exact ⟨List.mem_cons_self .., hx⟩
    · simp [hx] at h
      obtain ⟨h1, h2⟩ := ih h
      exact ⟨List.mem_cons_of_mem _ h1, h2⟩

theorem findManifest_some {l : String} {ms : List Manifest} {m : Manifest}
    (h : findManifest l ms = some m) : m ∈ ms ∧ m.label = l := by
  induction ms with
  | nil => simp [findManifest] at h
  | cons x xs ih =>
    unfold findManifest at h
    by_cases hx : x.label = l
    · simp [hx] at h; subst h; exact ⟨List.mem_cons_self .., hx⟩
    · simp [hx] at h
      obtain ⟨h1, h2⟩ := ih h
      exact ⟨List.mem_cons_of_mem _ h1, h2⟩

/-- number of boxes with (label, instance) `k` -/
def cnt (k : Key) : List AssertionBox → Nat
  | [] => 0
  | a :: as => (if a.key = k then 1 else 0) + cnt k as

/-- number of hashed URIs with (label, instance) `k` that reach the removal from the tracking list -/
def ucnt (k : Key) : List HashedUri → Nat
  | [] => 0
  | u :: us => (if u.key = k ∧ u.target ≠ .malformed then 1 else 0) + ucnt k us

theorem cnt_cons (k : Key) (a : AssertionBox) (as : List AssertionBox) :
    cnt k (a :: as) = (if a.key = k then 1 else 0) + cnt k as := rfl

theorem ucnt_cons (k : Key) (u : HashedUri) (us : List HashedUri) :
    ucnt k (u :: us) = (if u.key = k ∧ u.target ≠ .malformed then 1 else 0) + ucnt k us := rfl

theorem cnt_pos_of_mem {k : Key} : ∀ {l : List AssertionBox} {a : AssertionBox}, a ∈ l → a.key = k →
    1 ≤ cnt k l
  | x :: xs, a, h, hk => by
    unfold cnt
    rcases List.mem_cons.1 h with rfl | hm
    · simp [hk]
    · have := cnt_pos_of_mem hm hk
      omega

theorem mem_of_cnt_pos {k : Key} : ∀ {l : List AssertionBox}, 1 ≤ cnt k l → ∃ a ∈ l, a.key = k
  | [], h => by simp [cnt] at h
  | x :: xs, h => by
    unfold cnt at h
    by_cases hx : x.key = k
    · exact ⟨x, List.mem_cons_self .., hx⟩
    · simp [hx] at h
      obtain ⟨a, ha, hk⟩ := mem_of_cnt_pos h
      exact ⟨a, List.mem_cons_of_mem _ ha, hk⟩

theorem mem_of_ucnt_pos {k : Key} : ∀ {l : List HashedUri}, 1 ≤ ucnt k l →
    ∃ u ∈ l, u.key = k ∧ u.target ≠ .malformed
  | [], h => by simp [ucnt] at h
  | x :: xs, h => by
    unfold ucnt at h
    by_cases hx : x.key = k ∧ x.target ≠ .malformed
    · exact ⟨x, List.mem_cons_self .., hx⟩
    · simp only [hx, if_false, Nat.zero_add] at h
      obtain ⟨a, ha, hk⟩ := mem_of_ucnt_pos h
      exact ⟨a, List.mem_cons_of_mem _ ha, hk⟩

theorem ucnt_pos_of_mem {k : Key} : ∀ {l : List HashedUri} {u : HashedUri}, u ∈ l → u.key = k →
    u.target ≠ .malformed → 1 ≤ ucnt k l
  | x :: xs, u, h, hk, ht => by
    unfold ucnt
    rcases List.mem_cons.1 h with rfl | hm
    · simp [hk, ht]
    · have := ucnt_pos_of_mem hm hk ht
      omega

/-- removing one entry with key `k` lowers the count of `k'` by at most one, and only for `k' = k` -/
theorem cnt_eraseKey (k k' : Key) : ∀ (t : List AssertionBox),
    cnt k' t ≤ cnt k' (eraseKey k t) + (if k = k' then 1 else 0)
  | [] => by simp [cnt, eraseKey]
  | a :: as => by
    unfold eraseKey
    by_cases ha : a.key = k
    · simp only [ha, if_true]
      rw [cnt_cons, ha]
      omega
    · simp only [ha, if_false]
      have ih := cnt_eraseKey k k' as
      rw [cnt_cons, cnt_cons]
      omega

/-- exact form: an entry with key `k` leaves iff there is one -/
theorem cnt_eraseKey_eq (k k' : Key) : ∀ (t : List AssertionBox),
    cnt k' (eraseKey k t) = cnt k' t - (if k = k' ∧ 1 ≤ cnt k t then 1 else 0)
  | [] => by simp [cnt, eraseKey]
  | a :: as => by
    unfold eraseKey
    by_cases ha : a.key = k
    · simp only [ha, if_true]
      rw [cnt_cons, cnt_cons, ha]
      by_cases hk : k = k'
      · simp [hk]
      · simp [hk]
    · simp only [ha, if_false]
      have ih := cnt_eraseKey_eq k k' as
      rw [cnt_cons, cnt_cons, cnt_cons, ih]
      simp only [ha, if_false, Nat.zero_add]
      by_cases hk : k = k'
      · subst hk
        simp only [ha, if_false, true_and, Nat.zero_add]
      · simp [hk]

/-- the tracking list as a multiset: what is left of key `k` is at least what the URIs did not take -/
theorem cnt_track (k : Key) : ∀ (us : List HashedUri) (t : List AssertionBox),
    cnt k t ≤ ucnt k us + cnt k (track us t)
  | [], t => by simp [ucnt, track]
  | hu :: us, t => by
    unfold track ucnt
    by_cases hm : hu.target = .malformed
    · simp only [hm, if_true]
      have := cnt_track k us t
      simp
      omega
    · simp only [hm, if_false]
      have h1 := cnt_track k us (eraseKey hu.key t)
      have h2 := cnt_eraseKey hu.key k t
      by_cases hk : hu.key = k
      · simp [hk, hm] at h2 ⊢
        rw [hk] at h1
        omega
      · simp [hk] at h2 ⊢
        omega

theorem mem_eraseKey {k : Key} {a : AssertionBox} : ∀ {t : List AssertionBox}, a ∈ eraseKey k t → a ∈ t
  | x :: xs, h => by
    unfold eraseKey at h
    by_cases hx : x.key = k
    · simp only [hx, if_true] at h
      exact List.mem_cons_of_mem _ h
    · simp only [hx, if_false] at h
      rcases List.mem_cons.1 h with rfl | hm
      · exact List.mem_cons_self ..
      · exact List.mem_cons_of_mem _ (mem_eraseKey hm)

theorem mem_track {a : AssertionBox} : ∀ {us : List HashedUri} {t : List AssertionBox},
    a ∈ track us t → a ∈ t
  | [], _, h => h
  | hu :: us, t, h => by
    unfold track at h
    by_cases hm : hu.target = .malformed
    · simp only [hm, if_true] at h
      exact mem_track h
    · simp only [hm, if_false] at h
      exact mem_eraseKey (mem_track h)

/-- with at most one box of key `k`, the first-match lookup finds exactly the given box -/
theorem findBox_unique {k : Key} : ∀ {t : List AssertionBox} {a a' : AssertionBox},
    findBox k t = some a' → a ∈ t → a.key = k → cnt k t ≤ 1 → a = a'
  | x :: xs, a, a', hf, ha, hk, hc => by
    unfold findBox at hf
    unfold cnt at hc
    by_cases hx : x.key = k
    · simp only [hx, if_true] at hf hc
      have hxa : x = a' := by simpa using hf
      rcases List.mem_cons.1 ha with rfl | hm
      · exact hxa
      · have := cnt_pos_of_mem hm hk
        omega
    · simp only [hx, if_false, Nat.zero_add] at hf hc
      rcases List.mem_cons.1 ha with rfl | hm
      · exact absurd hk hx
      · exact findBox_unique hf hm hk hc

theorem findBox_of_mem {k : Key} : ∀ {t : List AssertionBox} {a : AssertionBox}, a ∈ t → a.key = k →
    ∃ a', findBox k t = some a'
  | x :: xs, a, ha, hk => by
    unfold findBox
    by_cases hx : x.key = k
    · exact ⟨x, by simp [hx]⟩
    · simp only [hx, if_false]
      rcases List.mem_cons.1 ha with rfl | hm
      · exact absurd hk hx
      · exact findBox_of_mem hm hk

/-- distinct (label, instance) of the hashed URIs: at most one URI per key -/
theorem ucnt_le_one {k : Key} : ∀ {us : List HashedUri}, (us.map (·.key)).Nodup → ucnt k us ≤ 1
  | [], _ => by simp [ucnt]
  | u :: us, h => by
    rw [List.map_cons, List.nodup_cons] at h
    obtain ⟨hn, hr⟩ := h
    have ih := ucnt_le_one (k := k) hr
    unfold ucnt
    by_cases hk : u.key = k ∧ u.target ≠ .malformed
    · have : ucnt k us = 0 := by
        cases hz : ucnt k us with
        | zero => rfl
        | succ n =>
          obtain ⟨v, hv, hvk, _⟩ := mem_of_ucnt_pos (k := k) (l := us) (by omega)
          exact absurd (List.mem_map.2 ⟨v, hv, by rw [hvk, hk.1]⟩) hn
      rw [if_pos hk]
      omega
    · rw [if_neg hk]
      omega

/-! ### a failure-free claim verification, taken apart -/

/-- what one round of the assertion loop requires when it logs nothing -/
def UriOk (reds : List Redaction) (m : Manifest) (hu : HashedUri) : Prop :=
  hu.target ≠ .malformed ∧ (∀ l, hu.target = .manifest l → l = m.label) ∧
  (redactedBy reds m.label hu.key = true ∨
    ∃ a, findBox hu.key m.assertions = some a ∧ a.body = hu.pre)

theorem uriFailures_nil_iff (reds : List Redaction) (m : Manifest) (hu : HashedUri) :
    uriFailures reds m hu = [] ↔ UriOk reds m hu := by
  unfold uriFailures UriOk
  cases ht : hu.target with
  | malformed => simp
  | relative =>
    simp only [List.nil_append, ne_eq, reduceCtorEq, not_false_eq_true, false_implies, implies_true,
      true_and]
    by_cases hr : redactedBy reds m.label hu.key = true
    · simp [hr]
    · simp only [hr, Bool.false_eq_true, if_false, false_or]
      cases hf : findBox hu.key m.assertions with
      | none => simp
      | some a =>
        by_cases hb : a.body = hu.pre
        · simp [hb]
        · simp [hb]
  | manifest l =>
    simp only [ne_eq, reduceCtorEq, not_false_eq_true, Target.manifest.injEq, true_and]
    by_cases hl : l = m.label
    · simp only [hl, if_true, List.nil_append]
      by_cases hr : redactedBy reds m.label hu.key = true
      · simp [hr]
      · simp only [hr, Bool.false_eq_true, if_false, false_or]
        cases hf : findBox hu.key m.assertions with
        | none => simp
        | some a =>
          by_cases hb : a.body = hu.pre
          · simp [hb]
          · simp [hb]
    · simp only [hl, if_false, List.cons_append, List.nil_append]
      constructor
      · intro h; cases h
      · intro h; exact absurd (h.1 l rfl) hl

/-- **iff-characterisation of a clean claim verification** -/
theorem verifyClaim_nil_iff (dec : Dec) (reds : List Redaction) (m : Manifest) :
    (verifyClaim dec reds m).log = [] ↔
      (dec.sigOf m.sigBox).signed = m.claim ∧
      (∀ hu ∈ dec.decl m.claim, UriOk reds m hu) ∧
      track (dec.decl m.claim) m.assertions = [] := by
  unfold verifyClaim checkSig
  simp only [List.append_eq_nil_iff, List.map_eq_nil_iff, List.flatMap_eq_nil_iff]
  constructor
  · rintro ⟨⟨h1, h2⟩, h3⟩
    refine ⟨?_, ?_, h3⟩
    · by_cases hs : (dec.sigOf m.sigBox).signed = m.claim
      · exact hs
      · simp [hs, payloadUsed] at h1
    · intro hu hmem
      exact (uriFailures_nil_iff reds m hu).1 (h2 hu hmem)
  · rintro ⟨h1, h2, h3⟩
    refine ⟨⟨by simp [h1, payloadUsed], ?_⟩, h3⟩
    intro hu hmem
    exact (uriFailures_nil_iff reds m hu).2 (h2 hu hmem)

theorem verifyClaim_stop_iff (dec : Dec) (reds : List Redaction) (m : Manifest) :
    (verifyClaim dec reds m).stop = true ↔ track (dec.decl m.claim) m.assertions ≠ [] := by
  unfold verifyClaim
  cases track (dec.decl m.claim) m.assertions <;> simp

theorem verifyClaim_nil_not_stop {dec : Dec} {reds : List Redaction} {m : Manifest}
    (h : (verifyClaim dec reds m).log = []) : (verifyClaim dec reds m).stop = false := by
  have := ((verifyClaim_nil_iff dec reds m).1 h).2.2
  cases hs : (verifyClaim dec reds m).stop with
  | false => rfl
  | true => exact absurd this ((verifyClaim_stop_iff dec reds m).1 hs)

end C2pa.C02
