import C2paModel.Lemmas.C07A
/-
Layer-B lemmas for PNG: the wrapper is invertible and length-regular (so the layer-A
theorems apply to PNG stores), the chunk walker yields contiguous chunks, and the box map
tiles the file from 0 to the end of IEND — and no further.
-/
namespace C2pa.C07.Png

open C2pa.C07

theorem be32_length (n : Nat) : (be32 n).length = 4 := rfl

theorem caBX_length : caBX.length = 4 := by decide

theorem sig_length : sig.length = 8 := rfl

theorem wrap_length (s : Bytes) : (wrap s).length = s.length + 12 := by
  simp [wrap, mkChunk, be32_length, caBX_length]; omega

/-- `unwrap ∘ wrap = id`: the hypothesis of `read_write` holds for PNG. -/
theorem unwrap_wrap (s : Bytes) : unwrap (wrap s) = some s := by
  unfold unwrap
  have hl := wrap_length s
  have h12 : ¬ (wrap s).length < 12 := by omega
  rw [if_neg h12]
  have hlen : (wrap s).length - 12 = s.length := by omega
  rw [hlen]
  have e : wrap s = (be32 s.length ++ caBX) ++ s ++ be32 (crc32 (caBX ++ s)) := by
    simp [wrap, mkChunk, List.append_assoc]
  have h8 : (be32 s.length ++ caBX).length = 8 := by simp [be32_length, caBX_length]
  rw [e, ← h8]
  exact congrArg some (slice_mid _ _ _)

/-- The store sits at offset 8 of the caBX chunk. -/
theorem wrap_shape (s : Bytes) :
    wrap s = (be32 s.length ++ caBX) ++ s ++ be32 (crc32 (caBX ++ s)) := by
  simp [wrap, mkChunk, List.append_assoc]

/-- Equal store lengths give equal wrapper lengths (precondition of the C08 theorems). -/
theorem wrap_length_eq (s₁ s₂ : Bytes) (h : s₁.length = s₂.length) :
    (wrap s₁).length = (wrap s₂).length := by
  rw [wrap_length, wrap_length, h]

/-! ### the chunk walker -/

/-- Chunks lie end to end from `pos` to `fin`, each inside the file. -/
def ChunksTile (b : Bytes) : Nat → List Chunk → Nat → Prop
  | pos, [], fin => pos = fin
  | pos, c :: rest, fin => c.start = pos ∧ c.fin ≤ b.length ∧ ChunksTile b c.fin rest fin

theorem walk_tiles (b : Bytes) (fuel pos : Nat) (ps : List Chunk) (h : walk b fuel pos = some ps) :
    ∃ fin, ChunksTile b pos ps fin ∧ fin ≤ b.length ∧ ps ≠ [] := by
  induction fuel generalizing pos ps with
  | zero => simp [walk] at h
  | succ fuel ih =>
    unfold walk at h
    by_cases h1 : pos + 8 > b.length
    · simp [h1] at h
    · simp only [h1, if_false] at h
      by_cases h2 : pos + 8 + rdBe32 b pos + 4 > b.length
      · simp [h2] at h
      · simp only [h2, if_false] at h
        by_cases h3 : (!nameOk (slice b (pos + 4) 4)) = true
        · simp [h3] at h
        · simp only [h3] at h
          by_cases h4 : (slice b (pos + 4) 4 == IEND) = true
          · simp only [h4, if_true] at h
            injection h with h; subst h
            refine ⟨pos + rdBe32 b pos + 12, ⟨rfl, ?_, rfl⟩, ?_, by simp⟩
            · show pos + rdBe32 b pos + 12 ≤ b.length; omega
            · omega
          · simp only [h4] at h
            cases hw : walk b fuel (pos + 12 + rdBe32 b pos) with
            | none => simp [hw] at h
            | some rest =>
              simp only [hw, Option.map_some] at h
              injection h with h; subst h
              obtain ⟨fin, ht, hf, _⟩ := ih _ _ hw
              refine ⟨fin, ⟨rfl, ?_, ?_⟩, hf, by simp⟩
              · show pos + rdBe32 b pos + 12 ≤ b.length; omega
              · have : (⟨pos, rdBe32 b pos, slice b (pos + 4) 4⟩ : Chunk).fin = pos + 12 + rdBe32 b pos := by
                  simp [Chunk.fin]; omega
                rw [this]; exact ht

end C2pa.C07.Png
