import C2paModel.Lemmas.C20Store
/-
C20 — depth-1 reach: when `verify_store` returns `Ok`, every ingredient assertion of the active
manifest that is not zeroed, parses, and names a manifest present in the store has had
`verify_claim` run on that manifest (ingredient scope), and everything that run logged — and
everything the edge check logged — is in the log `verify_store` returns.
-/
namespace C2pa.C20
open C2pa.C34

/-- the ingredient edge `x` of a claim resolves to the claim `ic` of the store -/
def Resolves (s : Store) (x : CA × Option IngD) (d : IngD) (t : HU) (il : Str) (ic : Claim) : Prop :=
  x.1.zero = false ∧ x.2 = some d ∧ d.target = some t ∧ labelFromPath t.url = some il ∧
    getClaim s il = some ic

/-- what the loop has done for an edge once it is past it -/
def Reached (reds : List Str) (map : List Claim) (d : IngD) (t : HU) (il : Str) (ic : Claim)
    (log : List Ev) : Prop :=
  ∃ vc, verifyClaim ic reds map true = some vc ∧ vc.err = false ∧
    (edgeCheck reds il d t ic).err = false ∧
    (∀ e ∈ (edgeCheck reds il d t ic).log, e ∈ log) ∧ ∀ e ∈ vc.log, e ∈ log

theorem Reached.mono {reds : List Str} {map : List Claim} {d : IngD} {t : HU} {il : Str} {ic : Claim}
    {l1 l2 : List Ev} (h : Reached reds map d t il ic l1) (hsub : ∀ e ∈ l1, e ∈ l2) :
    Reached reds map d t il ic l2 := by
  obtain ⟨vc, h1, h2, h3, h4, h5⟩ := h
  exact ⟨vc, h1, h2, h3, fun e he => hsub e (h4 e he), fun e he => hsub e (h5 e he)⟩

/-- one iteration that ends in `.ok`: the state handed to the rest of the loop extends the
given one, and if the edge resolves it has been reached -/
theorem iLoop_cons_ok (s : Store) (reds : List Str) (map : List Claim) (fuel : Nat)
    (hq : ∀ c st, Ext st (ingChecks s reds map fuel c st))
    (x : CA × Option IngD) (rest : List (CA × Option IngD)) (st st' : ISt)
    (h : iLoop s reds map fuel (x :: rest) st = .ok st') :
    ∃ st1, (∃ suf, st1.log = st.log ++ suf) ∧ iLoop s reds map fuel rest st1 = .ok st' ∧
      ∀ d t il ic, Resolves s x d t il ic → Reached reds map d t il ic st1.log := by
  obtain ⟨a, d⟩ := x
  unfold iLoop at h
  by_cases hz : a.zero = true
  · simp only [hz, if_true] at h
    refine ⟨st, ⟨[], by simp⟩, h, ?_⟩
    rintro d' t il ic ⟨hz', _⟩
    simp only [] at hz'
    rw [hz] at hz'; cases hz'
  · simp only [hz] at h
    cases d with
    | none => simp at h
    | some d =>
      simp only [] at h
      cases ht : d.target with
      | none =>
        simp only [ht] at h
        refine ⟨_, ⟨_, rfl⟩, h, ?_⟩
        rintro d' t il ic ⟨_, hd, ht', _⟩
        simp only [Option.some.injEq] at hd
        subst hd
        rw [ht] at ht'; cases ht'
      | some t =>
        simp only [ht] at h
        generalize he0 : (if (decide (d.version ≥ 3) && !d.hasResults) = true then
          [fail "assertion.ingredient.malformed" true] else ([] : List Ev)) = e0 at h
        cases hl : labelFromPath t.url with
        | none => simp [hl] at h
        | some il =>
          simp only [hl] at h
          cases hg : getClaim s il with
          | none =>
            simp only [hg] at h
            refine ⟨_, ⟨e0 ++ [fail "ingredient.manifest.missing" true], by simp only [List.append_assoc]⟩, h, ?_⟩
            rintro d' t' il' ic ⟨_, hd, ht', hl', hg'⟩
            simp only [Option.some.injEq] at hd
            subst hd
            rw [ht] at ht'; cases ht'
            rw [hl] at hl'; cases hl'
            rw [hg] at hg'; cases hg'
          | some ic =>
            simp only [hg] at h
            by_cases hec : (edgeCheck reds il d t ic).err = true
            · simp [hec] at h
            · simp only [hec] at h
              cases hv : verifyClaim ic reds map true with
              | none => simp [hv] at h
              | some vc =>
                simp only [hv] at h
                by_cases hve : vc.err = true
                · simp [hve] at h
                · simp only [hve] at h
                  have hreach : ∀ log : List Ev,
                      (∀ e ∈ st.log ++ e0 ++ (edgeCheck reds il d t ic).log ++ vc.log, e ∈ log) →
                      ∀ d' t' il' ic', Resolves s (a, some d) d' t' il' ic' →
                        Reached reds map d' t' il' ic' log := by
                    rintro log hsub d' t' il' ic' ⟨_, hd, ht', hl', hg'⟩
                    simp only [Option.some.injEq] at hd
                    subst hd
                    rw [ht] at ht'; cases ht'
                    rw [hl] at hl'; cases hl'
                    rw [hg] at hg'; cases hg'
                    refine ⟨vc, hv, by simpa using hve, by simpa using hec, ?_, ?_⟩
                    · intro e he
                      exact hsub e (List.mem_append_left _ (List.mem_append_right _ he))
                    · intro e he
                      exact hsub e (List.mem_append_right _ he)
                  by_cases hvis : st.visited.contains ic.label = true
                  · simp only [hvis, if_true] at h
                    refine ⟨_, ⟨e0 ++ ((edgeCheck reds il d t ic).log ++ vc.log),
                      by simp only [List.append_assoc]⟩, h, ?_⟩
                    exact hreach _ (fun e he => he)
                  · simp only [hvis] at h
                    have hrec := hq ic
                      { visited := st.visited ++ [ic.label],
                        log := st.log ++ e0 ++ (edgeCheck reds il d t ic).log ++ vc.log }
                    generalize ingChecks s reds map fuel ic
                      { visited := st.visited ++ [ic.label],
                        log := st.log ++ e0 ++ (edgeCheck reds il d t ic).log ++ vc.log } = res at hrec h
                    cases res with
                    | ok st2 =>
                      simp only [] at h
                      obtain ⟨suf, hs⟩ := hrec
                      simp only [] at hs
                      refine ⟨st2, ⟨e0 ++ ((edgeCheck reds il d t ic).log ++ (vc.log ++ suf)),
                        by rw [hs]; simp only [List.append_assoc]⟩, h, ?_⟩
                      exact hreach _ (fun e he => by rw [hs]; exact List.mem_append_left _ he)
                    | err st2 => simp at h
                    | panic => simp at h

/-- **reach within one level**: after an `.ok` loop every resolving edge of the list has been
reached and its logs are in the final log -/
theorem iLoop_reach (s : Store) (reds : List Str) (map : List Claim) (fuel : Nat)
    (hq : ∀ c st, Ext st (ingChecks s reds map fuel c st)) :
    ∀ (l : List (CA × Option IngD)) (st st' : ISt), iLoop s reds map fuel l st = .ok st' →
      ∀ x ∈ l, ∀ d t il ic, Resolves s x d t il ic → Reached reds map d t il ic st'.log := by
  intro l
  induction l with
  | nil => intro st st' _ x hx; cases hx
  | cons y rest ih =>
    intro st st' h x hx d t il ic hres
    obtain ⟨st1, _, hrest, hy⟩ := iLoop_cons_ok s reds map fuel hq y rest st st' h
    rcases List.mem_cons.1 hx with rfl | hx
    · have hm := iLoop_mono s reds map fuel hq rest st1
      rw [hrest] at hm
      obtain ⟨suf, hs⟩ := hm
      exact (hy d t il ic hres).mono (fun e he => by rw [hs]; exact List.mem_append_left _ he)
    · exact ih st1 st' hrest x hx d t il ic hres

/-- **depth-1 reach lemma** — if `verify_store` returns `Ok` with log `o.log`, then for every
non-zero, parsing ingredient assertion of the active manifest whose target resolves to a
manifest `ic` of the store, `verify_claim ic` ran in ingredient scope without `Err`, and its
whole log as well as the log of the edge check is part of `o.log`. -/
theorem verifyStore_reaches_ingredients (s : Store) (o : Out) (h : verifyStore s = some o)
    (hok : o.err = false) (root : Claim) (hroot : s.getLast? = some root) :
    ∃ g vc, gcrm s (fuelFor s) root [] {} = .ok g ∧
      verifyClaim root g.reds (g.map.filterMap (getClaim s)) false = some vc ∧ vc.err = false ∧
      (∀ e ∈ vc.log, e ∈ o.log) ∧
      ∀ x ∈ ingAssertions root, ∀ d t il ic, Resolves s x d t il ic →
        Reached g.reds (g.map.filterMap (getClaim s)) d t il ic o.log := by
  unfold verifyStore at h
  simp only [hroot] at h
  cases hg : gcrm s (fuelFor s) root [] {} with
  | panic => simp [hg] at h
  | err g => simp [hg] at h; rw [← h] at hok; cases hok
  | ok g =>
    simp only [hg] at h
    cases hb : hbm s (fuelFor s) root [] with
    | none => simp [hb] at h
    | some ob =>
      cases ob with
      | none => simp [hb] at h; rw [← h] at hok; cases hok
      | some bl =>
        simp only [hb] at h
        cases hv : verifyClaim root g.reds (g.map.filterMap (getClaim s)) false with
        | none => simp [hv] at h
        | some vc =>
          simp only [hv] at h
          by_cases hve : vc.err = true
          · simp [hve] at h; rw [← h] at hok; cases hok
          · simp only [hve] at h
            cases hi : ingChecks s g.reds (g.map.filterMap (getClaim s)) (fuelFor s) root
                ⟨[root.label], g.log ++ vc.log⟩ with
            | panic => simp [hi] at h
            | err st => simp [hi] at h; rw [← h] at hok; cases hok
            | ok st =>
              simp [hi] at h
              have hm := ingChecks_mono s g.reds (g.map.filterMap (getClaim s)) (fuelFor s) root
                ⟨[root.label], g.log ++ vc.log⟩
              rw [hi] at hm
              obtain ⟨suf, hsuf⟩ := hm
              refine ⟨g, vc, rfl, hv, by simpa using hve, ?_, ?_⟩
              · intro e he
                rw [← h]
                simp only []
                rw [hsuf]
                exact List.mem_append_left _ (List.mem_append_right _ he)
              · intro x hx d t il ic hres
                rw [← h]
                simp only []
                unfold fuelFor at hi
                unfold ingChecks at hi
                exact iLoop_reach s g.reds _ (s.length + 1)
                  (ingChecks_mono s g.reds _ (s.length + 1)) _ _ st hi x hx d t il ic hres

end C2pa.C20
