import C2paModel.Lemmas.C03Base
/-
C03 — the hasher's preconditions (`HashOK`) from input-level facts: a supported algorithm, a
non-empty asset shorter than 4 GiB, a positive chunk size and in-range exclusions. The only
non-obvious field is the `u32` progress-counter bound: the number of chunks is at most the
number of hashed bytes (each chunk holds at least one byte), which is at most the asset length.
-/
namespace C2pa.C03
open C2pa

theorem supported_of_digestLen {alg : String} {n : Nat} (h : digestLen alg = some n) :
    C13.supported alg = true := by
  unfold digestLen at h
  unfold C13.supported
  by_cases h1 : (alg == "sha256") = true
  · simp [h1]
  · by_cases h2 : (alg == "sha384") = true
    · simp [h2]
    · by_cases h3 : (alg == "sha512") = true
      · simp [h3]
      · simp [h1, h2, h3] at h

/-- what the piece builder returns for a non-empty exclusion list absorbs exactly `exclSpec`
(the step of `C13.excl_digest` that does not need a hasher run) -/
theorem buildPieces_excl_flat (data : List UInt8) (hr : List C13.HashRange) (ps : List C13.Piece)
    (hne : hr ≠ []) (h1 : 1 ≤ data.length)
    (hb : C13.buildPieces data.length (some hr) true = .ok ps) :
    ps.flatMap (C13.pieceBytes data) = C13.exclSpec data hr := by
  cases hr with
  | nil => exact absurd rfl hne
  | cons a t =>
    unfold C13.buildPieces at hb
    simp only at hb
    cases hm : C13.maxEnd (C13.stableSort C13.HashRange.start (a :: t)) 0 with
    | none => simp [hm] at hb
    | some e =>
      simp only [hm] at hb
      by_cases hlt : data.length < e
      · simp [hlt] at hb
      · simp only [hlt, if_false, if_true] at hb
        cases he : C13.exclLoop (C13.stableSort C13.HashRange.start (a :: t)) [(0, data.length - 1)] [] with
        | error e' => simp [he] at hb
        | ok r =>
          obtain ⟨rs, ms⟩ := r
          simp only [he, Except.ok.injEq] at hb
          subst hb
          exact (C13.exclPieces_spec data (a :: t) _ (C13.stableSort_perm _ _) h1 rs ms he).1

theorem flatMap_length_le {α β : Type} (l : List α) (f : α → List β) (h : ∀ a ∈ l, (f a).length ≤ 1) :
    (l.flatMap f).length ≤ l.length := by
  induction l with
  | nil => simp
  | cons a t ih =>
    simp only [List.flatMap_cons, List.length_append, List.length_cons]
    have := h a (List.mem_cons_self ..)
    have := ih (fun b hb => h b (List.mem_cons_of_mem _ hb))
    omega

theorem markersOf_toHR (ex : List C15.Range) : C13.markersOf (ex.map toHR) = [] := by
  unfold C13.markersOf
  induction ex with
  | nil => rfl
  | cons a t ih => simp [toHR]

/-- without BMFF offset entries the hasher absorbs at most one byte per position -/
theorem exclSpec_length_le (data : List UInt8) (hr : List C13.HashRange) (hm : C13.markersOf hr = []) :
    (C13.exclSpec data hr).length ≤ data.length := by
  unfold C13.exclSpec
  have := flatMap_length_le (List.range data.length) (fun x =>
      (List.replicate (C13.markerCopies data.length hr x) (C13.be64 x)).flatten ++
        (if C13.included data.length hr x then C13.byteAt data x else [])) (by
    intro x _
    have h0 : C13.markerCopies data.length hr x = 0 := by
      unfold C13.markerCopies
      rw [hm]; simp
    simp only [h0, List.replicate_zero, List.flatten_nil, List.nil_append]
    split
    · unfold C13.byteAt
      cases data[x]? <;> simp
    · simp)
  simpa using this

theorem ceilDiv_le (a b : Nat) (hb : 0 < b) : C13.ceilDiv a b ≤ a := by
  rcases Nat.eq_zero_or_pos a with h | h
  · subst h
    rw [C13.ceilDiv_zero b hb]
    exact Nat.le_refl 0
  · unfold C13.ceilDiv
    obtain ⟨c, rfl⟩ : ∃ c, b = c + 1 := ⟨b - 1, by omega⟩
    apply Nat.div_le_of_le_mul
    show a + (c + 1 - 1) ≤ (c + 1) * a
    have : c ≤ c * a := Nat.le_mul_of_pos_right c h
    rw [Nat.add_mul, Nat.one_mul]
    omega

/-- a piece needs at most as many chunks as it contributes bytes -/
theorem chunk_le_bytes (data : List UInt8) (p : C13.Piece) (buf : Nat) (hb : 0 < buf)
    (hp : C13.PieceOK data p) :
    C13.ceilDiv (p.hi - p.lo + 1) buf ≤ (C13.pieceBytes data p).length := by
  obtain ⟨hlo, _, hmk, hin⟩ := hp
  have h1 := ceilDiv_le (p.hi - p.lo + 1) buf hb
  unfold C13.pieceBytes
  cases hm : p.marker with
  | true =>
    have := hmk hm
    simp only [if_true]
    have h8 : (C13.be64 p.lo).length = 8 := by simp [C13.be64]
    omega
  | false =>
    rcases hin with h | h
    · rw [hm] at h; cases h
    · simp only [Bool.false_eq_true, if_false, List.length_take, List.length_drop]
      omega

theorem chunkCount_le_flat (data : List UInt8) (buf : Nat) (hb : 0 < buf) :
    ∀ ps : List C13.Piece, (∀ p ∈ ps, C13.PieceOK data p) →
      C13.chunkCount buf ps ≤ (ps.flatMap (C13.pieceBytes data)).length := by
  intro ps
  induction ps with
  | nil => intro _; simp [C13.chunkCount]
  | cons p t ih =>
    intro h
    rw [C13.chunkCount_cons]
    simp only [List.flatMap_cons, List.length_append]
    have := chunk_le_bytes data p buf hb (h p (List.mem_cons_self ..))
    have := ih (fun q hq => h q (List.mem_cons_of_mem _ hq))
    omega

/-- **The progress counters cannot overflow below 4 GiB**: for exclusion lists without BMFF
offset entries the number of chunks is at most the asset length, whatever the chunk size. -/
theorem chunkCount_le_len (n : Nat) (ex : List C15.Range) (buf : Nat) (hb : 0 < buf)
    (hne : ex ≠ []) (h1 : 1 ≤ n) (hn : n ≤ C13.u64Max) (ps : List C13.Piece)
    (hps : C13.buildPieces n (some (ex.map toHR)) true = .ok ps) : C13.chunkCount buf ps ≤ n := by
  let data : List UInt8 := List.replicate n 0
  have hl : data.length = n := List.length_replicate ..
  rw [← hl] at hps h1 hn
  have hok := C13.buildPieces_pieceOK (data := data) h1 hn hps
  have hflat := buildPieces_excl_flat data (ex.map toHR) ps (map_toHR_ne hne) h1 hps
  have := chunkCount_le_flat data buf hb ps hok
  rw [hflat] at this
  have := exclSpec_length_le data (ex.map toHR) (markersOf_toHR ex)
  omega

/-- `HashOK` from input-level facts. -/
theorem hashOK_of {alg : String} {d : Nat} (hd : digestLen alg = some d) (n : Nat)
    (ex : List C15.Range) (buf : Nat) (hb : 0 < buf) (hne : ex ≠ []) (h1 : 1 ≤ n)
    (hn : n ≤ C13.u32Max) (hw : ∀ r ∈ ex, r.start + r.length ≤ n) :
    HashOK alg n (ex.map toHR) buf := by
  have hu : C13.u32Max ≤ C13.u64Max := by decide
  refine ⟨supported_of_digestLen hd, h1, by omega, hb, ?_, ?_⟩
  · intro x hx
    obtain ⟨r, hr, rfl⟩ := List.mem_map.1 hx
    exact hw r hr
  · intro ps hps
    have := chunkCount_le_len n ex buf hb hne h1 (by omega) ps hps
    omega

end C2pa.C03
