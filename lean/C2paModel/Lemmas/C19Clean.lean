import C2paModel.Lemmas.C19Depth
import C2paModel.Lemmas.C19Ic
/-
C19 — the positive direction: on a well-formed reachable graph (no dangling reference, every
path from the root shorter than the limit, signatures parse, hashed URIs carry the right hash)
`ingredient_checks` returns `Ok` and logs no failure.
-/
namespace C2pa.C19

/-- The part of the store reachable from `root` is well formed. `depth` — every path from the
root has fewer than `lim` edges — also excludes reachable cycles (a cycle yields arbitrarily
long paths). -/
structure WF (s : Store) (root lim : Nat) : Prop where
  root_lt : root < s.length
  nd : ∀ u v, Reach s root u → ¬ Dangling s u v
  sig : ∀ u c, Reach s root u → s[u]? = some c → c.sigOk = true
  hash : ∀ u c, Reach s root u → s[u]? = some c → ∀ i ∈ c.ings, ∀ v, i.target = some v →
    i.hashOk = true
  depth : ∀ v k, ReachIn s root k v → k < lim

def LogClean (l : List Ev) : Prop := ∀ e ∈ l, e.isFailure = false

/-- outcome `Ok`, or the model artefact `outOfFuel` (excluded separately by `ic_fuel_suffices`) -/
def OkOrFuel (o : Out) : Prop := o = .ok ∨ o = .outOfFuel

theorem reach_lt {s : Store} {root v : Nat} (hr : root < s.length) (h : Reach s root v) :
    v < s.length := by
  cases h with
  | refl => exact hr
  | step _ he => obtain ⟨_, _, _, _, _, hv⟩ := he; exact hv

theorem ReachIn.trans {s : Store} {a b c k m : Nat} (h₁ : ReachIn s a k b) (h₂ : ReachIn s b m c) :
    ReachIn s a (k + m) c := by
  induction h₂ with
  | refl => exact h₁
  | step _ he ih => exact .step ih he

/-- a claim on a cycle is reachable from itself on arbitrarily long paths -/
theorem cycle_pump {s : Store} {root v k c : Nat} (h : ReachIn s root k v)
    (hc : ReachIn s v (c + 1) v) : ∀ j, ReachIn s root (k + j * (c + 1)) v
  | 0 => by simpa using h
  | j + 1 => by
    have := (cycle_pump h hc j).trans hc
    rw [Nat.add_assoc, ← Nat.succ_mul] at this
    exact this

/-- the depth condition excludes reachable cycles -/
theorem WF.acyclic {s : Store} {root lim : Nat} (hwf : WF s root lim) :
    ∀ v, Reach s root v → ¬ OnCycle s v := by
  rintro v hv ⟨w, he, hw⟩
  obtain ⟨k, hk⟩ := hv.reachIn
  obtain ⟨m, hm⟩ := hw.reachIn
  have hcyc : ReachIn s v (m + 1) v := by
    have h1 : ReachIn s v 1 w := .step .refl he
    have := h1.trans hm
    rw [Nat.add_comm] at this
    exact this
  have hlong := cycle_pump hk hcyc lim
  have := hwf.depth v _ hlong
  have h2 : lim ≤ lim * (m + 1) := Nat.le_mul_of_pos_right lim (Nat.succ_pos m)
  omega

theorem iLoop_clean (s : Store) (root lim d u : Nat) (c : Claim) (hwf : WF s root lim)
    (hc : s[u]? = some c) (hu : ReachIn s root d u) (rec : Nat → ISt → Out × ISt)
    (hrec : ∀ v st, ReachIn s root (d + 1) v → LogClean st.log →
      OkOrFuel (rec v st).1 ∧ LogClean (rec v st).2.log) :
    ∀ (ings : List Ing) (st : ISt), (∀ i ∈ ings, i ∈ c.ings) → LogClean st.log →
      OkOrFuel (iLoop rec s ings st).1 ∧ LogClean (iLoop rec s ings st).2.log := by
  intro ings
  induction ings with
  | nil => intro st _ h; exact ⟨Or.inl rfl, h⟩
  | cons i is ih =>
    intro st hsub h
    have hsub' : ∀ j ∈ is, j ∈ c.ings := fun j hj => hsub j (List.mem_cons_of_mem _ hj)
    have hi : i ∈ c.ings := hsub i (List.mem_cons_self ..)
    rw [iLoop_cons]
    cases ht : i.target with
    | none => exact ih (iSkip st) hsub' h
    | some v =>
      simp only
      have hho : i.hashOk = true := hwf.hash u c hu.reach hc i hi v ht
      cases hs : s[v]? with
      | none =>
        have hge : s.length ≤ v := by
          rcases Nat.lt_or_ge v s.length with h' | h'
          · rw [List.getElem?_eq_getElem h'] at hs; cases hs
          · exact h'
        exact absurd ⟨c, hc, i, hi, ht, hge⟩ (hwf.nd u v hu.reach)
      | some c' =>
        simp only
        have hv : v < s.length := by
          rcases Nat.lt_or_ge v s.length with h' | h'
          · exact h'
          · rw [List.getElem?_eq_none h'] at hs; cases hs
        have hedge : Edge s u v := ⟨c, hc, i, hi, ht, hv⟩
        have hin : ReachIn s root (d + 1) v := .step hu hedge
        have hsig : c'.sigOk = true := hwf.sig v c' hin.reach hs
        have hver : LogClean (iVer st i v).log := by
          intro e he
          have : e = Ev.verify v ∨ e = Ev.matched v ∨ e ∈ st.log := by
            simpa [iVer, iHash, hho] using he
          rcases this with rfl | rfl | he
          · rfl
          · rfl
          · exact h e he
        simp only [hsig, Bool.true_eq_false, if_false]
        by_cases hvis : v ∈ st.visited
        · simp only [hvis, if_true]
          exact ih _ hsub' hver
        · simp only [hvis, if_false]
          have hins : LogClean (iIns st i v).log := hver
          obtain ⟨r1, r2⟩ := hrec v (iIns st i v) hin hins
          by_cases hok : (rec v (iIns st i v)).1 = .ok
          · simp only [hok, if_true]
            exact ih _ hsub' r2
          · simp only [hok, if_false]
            exact ⟨r1, r2⟩

theorem ic_clean (s : Store) (root lim : Nat) (hwf : WF s root lim) :
    ∀ (n d u : Nat) (st : ISt), ReachIn s root d u → LogClean st.log →
      OkOrFuel (ic lim s n d u st).1 ∧ LogClean (ic lim s n d u st).2.log := by
  intro n
  induction n with
  | zero => intro d u st _ h; exact ⟨Or.inr rfl, h⟩
  | succ n ih =>
    intro d u st hu h
    rw [ic_succ]
    have hd : ¬ lim ≤ d := Nat.not_le.2 (hwf.depth u d hu)
    simp only [hd, if_false]
    have hlt := reach_lt hwf.root_lt hu.reach
    have hsome : s[u]? = some s[u] := List.getElem?_eq_getElem hlt
    rw [hsome]
    simp only
    exact iLoop_clean s root lim d u s[u] hwf hsome hu (ic lim s n (d + 1))
      (fun v st' hv hl => ih (d + 1) v st' hv hl) s[u].ings st (fun _ hi => hi) h

end C2pa.C19
