import C2paModel.Lemmas.C07PngParse
/-
PNG, layer B: the handler functions (`Png.write`, `Png.remove`, `Png.read`,
`Png.locations`) expressed on the parsed form of the file (a list of raw chunk records),
and the lexer `Png.segs` expressed on the same form. The refinement theorems towards
layer A (`Props/C07.lean`, `C08.lean`, `C09.lean`) are assembled from these.
-/
namespace C2pa.C07.Png

open C2pa.C07

/-! ### record-level bookkeeping -/

theorem place_append : ∀ (xs ys : List RC) (pos : Nat), (∀ r ∈ xs, r.ok) →
    place pos (xs ++ ys) = place pos xs ++ place (pos + (encAll xs).length) ys
  | [], ys, pos, _ => by simp [place, encAll]
  | r :: xs, ys, pos, h => by
    have hr := enc_length r (h r List.mem_cons_self)
    have ih := place_append xs ys (pos + (r.data.length + 12))
      (fun x hx => h x (List.mem_cons_of_mem _ hx))
    have e : pos + (r.data.length + 12) + (encAll xs).length = pos + (encAll (r :: xs)).length := by
      simp [encAll_cons, hr]; omega
    simp only [List.cons_append, place, ih, e]

/-- A list either has no record named `n`, or splits at the first one. -/
theorem split_first (n : Bytes) : ∀ (rs : List RC),
    (∀ r ∈ rs, r.name ≠ n) ∨ ∃ X r Y, rs = X ++ r :: Y ∧ (∀ x ∈ X, x.name ≠ n) ∧ r.name = n
  | [] => Or.inl (by simp)
  | r :: rest => by
    by_cases h : r.name = n
    · exact Or.inr ⟨[], r, rest, rfl, by simp, h⟩
    · rcases split_first n rest with hall | ⟨X, c, Y, rfl, hX, hc⟩
      · left; intro x hx
        rcases List.mem_cons.1 hx with rfl | hx
        · exact h
        · exact hall x hx
      · right
        refine ⟨r :: X, c, Y, rfl, ?_, hc⟩
        intro x hx
        rcases List.mem_cons.1 hx with rfl | hx
        · exact h
        · exact hX x hx

theorem find_place_none (n : Bytes) : ∀ (rs : List RC) (pos : Nat), (∀ r ∈ rs, r.name ≠ n) →
    (place pos rs).find? (·.name == n) = none
  | [], _, _ => rfl
  | r :: rest, pos, h => by
    have h1 : (r.name == n) = false := by simpa using h r List.mem_cons_self
    simp only [place, List.find?_cons, h1]
    exact find_place_none n rest _ (fun x hx => h x (List.mem_cons_of_mem _ hx))

theorem find_place_at (n : Bytes) (r : RC) (Y : List RC) (hr : r.name = n) :
    ∀ (X : List RC) (pos : Nat), (∀ x ∈ X, x.ok) → (∀ x ∈ X, x.name ≠ n) →
    (place pos (X ++ r :: Y)).find? (·.name == n)
      = some ⟨pos + (encAll X).length, r.data.length, r.name⟩
  | [], pos, _, _ => by
    have h1 : (r.name == n) = true := by simpa using hr
    simp [place, h1, encAll]
  | x :: X, pos, hok, hne => by
    have h1 : (x.name == n) = false := by simpa using hne x List.mem_cons_self
    have hx := enc_length x (hok x List.mem_cons_self)
    simp only [List.cons_append, place, List.find?_cons, h1]
    rw [find_place_at n r Y hr X _ (fun y hy => hok y (List.mem_cons_of_mem _ hy))
      (fun y hy => hne y (List.mem_cons_of_mem _ hy))]
    simp [encAll_cons, hx]; omega

theorem filter_place_length (n : Bytes) : ∀ (rs : List RC) (pos : Nat),
    ((place pos rs).filter (·.name == n)).length = (rs.filter (·.name == n)).length
  | [], _ => rfl
  | r :: rest, pos => by
    simp only [place, List.filter_cons]
    cases h : (r.name == n) <;> simp [filter_place_length n rest]

theorem finOf_place : ∀ (rs : List RC) (pos : Nat), rs ≠ [] → (∀ r ∈ rs, r.ok) →
    finOf (place pos rs) = pos + (encAll rs).length
  | [], _, h, _ => absurd rfl h
  | [r], pos, _, hok => by
    have hr := enc_length r (hok r List.mem_cons_self)
    simp [finOf, place, Chunk.fin, encAll, hr]; omega
  | r :: r2 :: rest, pos, _, hok => by
    have hr := enc_length r (hok r List.mem_cons_self)
    have ih := finOf_place (r2 :: rest) (pos + (r.data.length + 12)) (by simp)
      (fun x hx => hok x (List.mem_cons_of_mem _ hx))
    have e : finOf (place pos (r :: r2 :: rest)) = finOf (place (pos + (r.data.length + 12)) (r2 :: rest)) := by
      simp [finOf, place, List.getLast?_cons_cons]
    rw [e, ih, encAll_cons r]
    simp [hr]; omega

/-! ### streams under insertion and erasure -/

theorem stream_insert (x : RC) (B : List RC) (hx : x.ok) (hn : x.name ≠ IEND) (hB : B ≠ []) :
    ∀ (A : List RC), Stream (A ++ B) → Stream (A ++ x :: B)
  | [], h => ⟨hx, Or.inr ⟨hn, h⟩⟩
  | a :: A, h => by
    refine ⟨h.1, ?_⟩
    rcases h.2 with ⟨_, he⟩ | ⟨hne, hs⟩
    · exact absurd (List.append_eq_nil_iff.1 he).2 hB
    · exact Or.inr ⟨hne, stream_insert x B hx hn hB A hs⟩

theorem stream_erase (x : RC) (B : List RC) (hn : x.name ≠ IEND) :
    ∀ (A : List RC), Stream (A ++ x :: B) → Stream (A ++ B) ∧ B ≠ []
  | [], h => by
    rcases h.2 with ⟨he, _⟩ | ⟨_, hs⟩
    · exact absurd he hn
    · exact ⟨hs, hs.ne_nil⟩
  | a :: A, h => by
    rcases h.2 with ⟨_, he⟩ | ⟨hne, hs⟩
    · simp at he
    · obtain ⟨h1, h2⟩ := stream_erase x B hn A hs
      exact ⟨⟨h.1, Or.inr ⟨hne, h1⟩⟩, h2⟩

/-! ### the new caBX record -/

def newRC (s : Bytes) : RC := ⟨caBX, s, be32 (crc32 (caBX ++ s))⟩

theorem newRC_enc (s : Bytes) : (newRC s).enc = wrap s := by
  simp [newRC, RC.enc, wrap, mkChunk, List.append_assoc]

theorem newRC_ok (s : Bytes) (h : s.length < 4294967296) : (newRC s).ok :=
  ⟨caBX_length, rfl, h, (by decide : nameOk caBX = true)⟩

theorem caBX_ne_IEND : caBX ≠ IEND := by decide
theorem caBX_ne_IHDR : caBX ≠ IHDR := by decide
theorem IHDR_ne_IEND : IHDR ≠ IEND := by decide

/-! ### byte splices -/

theorem splice0 (P Q d : Bytes) (k : Nat) (hk : k = P.length) :
    (P ++ Q).take k ++ d ++ (P ++ Q).drop k = P ++ (d ++ Q) := by
  rw [take_app P Q k hk, drop_app P Q k hk, List.append_assoc]

/-- existing container before the insertion point -/
theorem splice1 (P C M Q d : Bytes) (k1 k2 k3 : Nat) (h1 : k1 = P.length)
    (h2 : k2 = P.length + C.length) (h3 : k3 = P.length + C.length + M.length) :
    (P ++ (C ++ (M ++ Q))).take k1 ++ slice (P ++ (C ++ (M ++ Q))) k2 (k3 - k2) ++ d
      ++ (P ++ (C ++ (M ++ Q))).drop k3 = P ++ (M ++ (d ++ Q)) := by
  have e1 : (P ++ (C ++ (M ++ Q))).take k1 = P := take_app _ _ _ h1
  have e2 : slice (P ++ (C ++ (M ++ Q))) k2 (k3 - k2) = M := by
    have : P ++ (C ++ (M ++ Q)) = (P ++ C) ++ (M ++ Q) := by simp
    rw [this]; exact slice_app _ _ _ _ _ (by simp; omega) (by omega)
  have e3 : (P ++ (C ++ (M ++ Q))).drop k3 = Q := by
    have : P ++ (C ++ (M ++ Q)) = (P ++ C ++ M) ++ Q := by simp
    rw [this]; exact drop_app _ _ _ (by simp; omega)
  rw [e1, e2, e3]; simp

/-- existing container after the insertion point -/
theorem splice2 (P M C Q d : Bytes) (k1 k2 k3 : Nat) (h1 : k1 = P.length)
    (h2 : k2 = P.length + M.length) (h3 : k3 = P.length + M.length + C.length) :
    (P ++ (M ++ (C ++ Q))).take k1 ++ d ++ slice (P ++ (M ++ (C ++ Q))) k1 (k2 - k1)
      ++ (P ++ (M ++ (C ++ Q))).drop k3 = P ++ (d ++ (M ++ Q)) := by
  have e1 : (P ++ (M ++ (C ++ Q))).take k1 = P := take_app _ _ _ h1
  have e2 : slice (P ++ (M ++ (C ++ Q))) k1 (k2 - k1) = M :=
    slice_app _ _ _ _ _ h1 (by omega)
  have e3 : (P ++ (M ++ (C ++ Q))).drop k3 = Q := by
    have : P ++ (M ++ (C ++ Q)) = (P ++ M ++ C) ++ Q := by simp
    rw [this]; exact drop_app _ _ _ (by simp; omega)
  rw [e1, e2, e3]; simp

theorem splice_rm (P C Q : Bytes) (k1 k2 : Nat) (h1 : k1 = P.length) (h2 : k2 = P.length + C.length) :
    (P ++ (C ++ Q)).take k1 ++ (P ++ (C ++ Q)).drop k2 = P ++ Q := by
  have e1 : (P ++ (C ++ Q)).take k1 = P := take_app _ _ _ h1
  have e3 : (P ++ (C ++ Q)).drop k2 = Q := by
    have : P ++ (C ++ Q) = (P ++ C) ++ Q := by simp
    rw [this]; exact drop_app _ _ _ (by simp; omega)
  rw [e1, e3]

/-! ### equations of the handler functions -/

theorem write_eq_fresh {b s : Bytes} {ps : List Chunk} {ih : Chunk} (h : chunks b = some ps)
    (h1 : firstIhdr ps = some ih) (h2 : firstCai ps = none) :
    write b s = some (b.take ih.fin ++ wrap s ++ b.drop ih.fin) := by
  simp [write, h, h1, h2]

theorem write_eq_before {b s : Bytes} {ps : List Chunk} {ih c : Chunk} (h : chunks b = some ps)
    (h1 : firstIhdr ps = some ih) (h2 : firstCai ps = some c) (h3 : c.fin ≤ ih.fin) :
    write b s = some (b.take c.start ++ slice b c.fin (ih.fin - c.fin) ++ wrap s ++ b.drop ih.fin) := by
  simp [write, h, h1, h2, h3]

theorem write_eq_after {b s : Bytes} {ps : List Chunk} {ih c : Chunk} (h : chunks b = some ps)
    (h1 : firstIhdr ps = some ih) (h2 : firstCai ps = some c) (h3 : ¬ c.fin ≤ ih.fin) :
    write b s = some (b.take ih.fin ++ wrap s ++ slice b ih.fin (c.start - ih.fin) ++ b.drop c.fin) := by
  simp [write, h, h1, h2, h3]

theorem write_eq_none {b s : Bytes} {ps : List Chunk} (h : chunks b = some ps)
    (h1 : firstIhdr ps = none) : write b s = none := by
  simp [write, h, h1]

theorem remove_eq_some {b : Bytes} {ps : List Chunk} {c : Chunk} (h : chunks b = some ps)
    (h2 : firstCai ps = some c) : remove b = some (b.take c.start ++ b.drop c.fin) := by
  simp [remove, h, h2]

theorem remove_eq_self {b : Bytes} {ps : List Chunk} (h : chunks b = some ps)
    (h2 : firstCai ps = none) : remove b = some b := by
  simp [remove, h, h2]

theorem read_eq_ok {b : Bytes} {ps : List Chunk} {c : Chunk} (h : chunks b = some ps)
    (h1 : (ps.filter (·.name == caBX)).length ≤ 1) (h2 : firstCai ps = some c) :
    read b = some (.ok (slice b (c.start + 8) c.length)) := by
  have : ¬ (ps.filter (·.name == caBX)).length > 1 := by omega
  simp only [read, h, this, h2, if_false]

/-! ### `write` and `remove` on the parsed form -/

/-- `rs'` is `rs` without its first caBX record (unchanged when there is none). -/
def EraseFirst (rs rs' : List RC) : Prop :=
  ((∀ r ∈ rs, r.name ≠ caBX) ∧ rs' = rs) ∨
  ∃ X c Y, rs = X ++ c :: Y ∧ (∀ x ∈ X, x.name ≠ caBX) ∧ c.name = caBX ∧ rs' = X ++ Y

/-- `L` ends with the first IHDR record. -/
def AfterIhdr (L : List RC) : Prop :=
  ∃ A ihr, L = A ++ [ihr] ∧ ihr.name = IHDR ∧ ∀ x ∈ A, x.name ≠ IHDR

theorem fin_mk (a l : Nat) (n : Bytes) : (⟨a, l, n⟩ : Chunk).fin = a + l + 12 := rfl

/-- **`Png.write` on records**: the output is the input stream with its first caBX record
removed and the new caBX record inserted right after the first IHDR record; the signature
and the bytes after IEND are kept. Holds for any number of caBX records in the input. -/
theorem write_parsed {b s o : Bytes} {rs : List RC} {tail : Bytes} (hp : Parsed b rs tail)
    (hs : s.length < 4294967296) (hw : write b s = some o) :
    ∃ L R, Parsed o (L ++ newRC s :: R) tail ∧ EraseFirst rs (L ++ R) ∧ AfterIhdr L := by
  have hch := chunks_of_parsed hp
  have hok := hp.stream.all_ok
  have hst := hp.stream
  have hbeq := hp.eq
  have hnew := newRC_ok s hs
  have hnewn : (newRC s).name ≠ IEND := caBX_ne_IEND
  rcases split_first IHDR rs with hno | ⟨A, ihr, B, rfl, hA, hihr⟩
  · rw [write_eq_none hch (find_place_none IHDR rs 8 hno)] at hw; cases hw
  · have hokA : ∀ x ∈ A, x.ok := fun x hx => hok x (by simp [hx])
    have hih := find_place_at IHDR ihr B hihr A 8 hokA hA
    have hihrok : ihr.ok := hok ihr (by simp)
    have hihrlen := enc_length ihr hihrok
    have hihrn : ihr.name ≠ IEND := by rw [hihr]; exact IHDR_ne_IEND
    have hihrc : ihr.name ≠ caBX := by rw [hihr]; exact fun e => caBX_ne_IHDR e.symm
    rcases split_first caBX A with hnoA | ⟨X, c, A2, rfl, hX, hc⟩
    · rcases split_first caBX B with hnoB | ⟨B1, c, B2, rfl, hB1, hc⟩
      · -- no existing container
        have hall : ∀ x ∈ A ++ ihr :: B, x.name ≠ caBX := by
          intro x hx; rcases List.mem_append.1 hx with h | h
          · exact hnoA x h
          · rcases List.mem_cons.1 h with rfl | h
            · exact hihrc
            · exact hnoB x h
        have hnone := find_place_none caBX _ 8 hall
        rw [write_eq_fresh hch hih hnone, fin_mk] at hw
        injection hw with hw
        have hb : b = (sig ++ (encAll A ++ ihr.enc)) ++ (encAll B ++ tail) := by
          rw [hbeq]; simp [encAll_append, encAll_cons, List.append_assoc]
        rw [hb, splice0 _ _ _ _ (by simp [sig_length, hihrlen]; omega)] at hw
        have hBne : B ≠ [] := (stream_erase ihr B hihrn A hst).2
        refine ⟨A ++ [ihr], B, ⟨?_, ?_⟩, Or.inl ⟨?_, by simp⟩, ⟨A, ihr, rfl, hihr, hA⟩⟩
        · rw [← hw]; simp [encAll_append, encAll_cons, newRC_enc, List.append_assoc]
        · apply stream_insert _ _ hnew hnewn hBne
          simpa [List.append_assoc] using hst
        · simpa [List.append_assoc] using hall
      · -- existing container after IHDR
        have hcok : c.ok := hok c (by simp)
        have hclen := enc_length c hcok
        have hcn : c.name ≠ IEND := by rw [hc]; exact caBX_ne_IEND
        have e : A ++ ihr :: (B1 ++ c :: B2) = (A ++ ihr :: B1) ++ c :: B2 := by simp
        have hokX : ∀ x ∈ A ++ ihr :: B1, x.ok := fun x hx => hok x (by
          rw [e]; exact List.mem_append_left _ hx)
        have hneX : ∀ x ∈ A ++ ihr :: B1, x.name ≠ caBX := by
          intro x hx; rcases List.mem_append.1 hx with h | h
          · exact hnoA x h
          · rcases List.mem_cons.1 h with rfl | h
            · exact hihrc
            · exact hB1 x h
        have hcai := find_place_at caBX c B2 hc (A ++ ihr :: B1) 8 hokX hneX
        rw [← e] at hcai
        have hnle : ¬ (⟨8 + (encAll (A ++ ihr :: B1)).length, c.data.length, c.name⟩ : Chunk).fin
            ≤ (⟨8 + (encAll A).length, ihr.data.length, ihr.name⟩ : Chunk).fin := by
          simp [fin_mk, encAll_append, encAll_cons, hihrlen]; omega
        rw [write_eq_after hch hih hcai hnle, fin_mk, fin_mk] at hw
        injection hw with hw
        have hb : b = (sig ++ (encAll A ++ ihr.enc)) ++ (encAll B1 ++ (c.enc ++ (encAll B2 ++ tail))) := by
          rw [hbeq]; simp [encAll_append, encAll_cons, List.append_assoc]
        rw [hb, splice2 _ _ _ _ _ _ _ _ (by simp [sig_length, hihrlen]; omega)
          (show 8 + (encAll (A ++ ihr :: B1)).length = _ by
            simp [sig_length, encAll_append, encAll_cons, hihrlen]; omega)
          (by simp [sig_length, encAll_append, encAll_cons, hihrlen, hclen]; omega)] at hw
        have hst1 : Stream ((A ++ ihr :: B1) ++ B2) ∧ B2 ≠ [] := by
          apply stream_erase c B2 hcn; rw [← e]; exact hst
        have hBne : B1 ++ B2 ≠ [] := by simp [hst1.2]
        refine ⟨A ++ [ihr], B1 ++ B2, ⟨?_, ?_⟩, Or.inr ⟨A ++ ihr :: B1, c, B2, e, hneX, hc, by simp⟩,
          ⟨A, ihr, rfl, hihr, hA⟩⟩
        · rw [← hw]; simp [encAll_append, encAll_cons, newRC_enc, List.append_assoc]
        · apply stream_insert _ _ hnew hnewn hBne
          simpa [List.append_assoc] using hst1.1
    · -- existing container before IHDR
      have hcok : c.ok := hok c (by simp)
      have hclen := enc_length c hcok
      have hcn : c.name ≠ IEND := by rw [hc]; exact caBX_ne_IEND
      have hokX : ∀ x ∈ X, x.ok := fun x hx => hok x (by simp [hx])
      have e : (X ++ c :: A2) ++ ihr :: B = X ++ c :: (A2 ++ ihr :: B) := by simp
      have hcai := find_place_at caBX c (A2 ++ ihr :: B) hc X 8 hokX hX
      rw [← e] at hcai
      have hle : (⟨8 + (encAll X).length, c.data.length, c.name⟩ : Chunk).fin
          ≤ (⟨8 + (encAll (X ++ c :: A2)).length, ihr.data.length, ihr.name⟩ : Chunk).fin := by
        simp [fin_mk, encAll_append, encAll_cons, hclen]; omega
      rw [write_eq_before hch hih hcai hle, fin_mk, fin_mk] at hw
      injection hw with hw
      have hb : b = (sig ++ encAll X) ++ (c.enc ++ ((encAll A2 ++ ihr.enc) ++ (encAll B ++ tail))) := by
        rw [hbeq]; simp [encAll_append, encAll_cons, List.append_assoc]
      rw [hb, splice1 _ _ _ _ _ _ _ _ (by simp [sig_length])
        (by simp [sig_length, hclen]; omega)
        (by simp [sig_length, encAll_append, encAll_cons, hihrlen, hclen]; omega)] at hw
      have hst1 : Stream (X ++ (A2 ++ ihr :: B)) ∧ (A2 ++ ihr :: B) ≠ [] := by
        apply stream_erase c _ hcn; rw [← e]; exact hst
      have hst2 : Stream ((X ++ A2) ++ ihr :: B) := by simpa [List.append_assoc] using hst1.1
      have hBne : B ≠ [] := (stream_erase ihr B hihrn _ hst2).2
      refine ⟨X ++ A2 ++ [ihr], B, ⟨?_, ?_⟩,
        Or.inr ⟨X, c, A2 ++ ihr :: B, e, hX, hc, by simp⟩,
        ⟨X ++ A2, ihr, rfl, hihr, fun x hx => by
          rcases List.mem_append.1 hx with h | h
          · exact hA x (by simp [h])
          · exact hA x (by simp [h])⟩⟩
      · rw [← hw]; simp [encAll_append, encAll_cons, newRC_enc, List.append_assoc]
      · apply stream_insert _ _ hnew hnewn hBne
        simpa [List.append_assoc] using hst2

/-- **`Png.remove` on records**: never fails on a parsable file; the output is the input
stream without its first caBX record. -/
theorem remove_parsed {b : Bytes} {rs : List RC} {tail : Bytes} (hp : Parsed b rs tail) :
    ∃ o rs', remove b = some o ∧ Parsed o rs' tail ∧ EraseFirst rs rs' := by
  have hch := chunks_of_parsed hp
  have hok := hp.stream.all_ok
  have hst := hp.stream
  have hbeq := hp.eq
  rcases split_first caBX rs with hno | ⟨X, c, Y, rfl, hX, hc⟩
  · exact ⟨b, rs, remove_eq_self hch (find_place_none caBX rs 8 hno), hp, Or.inl ⟨hno, rfl⟩⟩
  · have hcok : c.ok := hok c (by simp)
    have hclen := enc_length c hcok
    have hcn : c.name ≠ IEND := by rw [hc]; exact caBX_ne_IEND
    have hokX : ∀ x ∈ X, x.ok := fun x hx => hok x (by simp [hx])
    have hcai := find_place_at caBX c Y hc X 8 hokX hX
    have hr := remove_eq_some hch hcai
    rw [fin_mk] at hr
    have hb : b = (sig ++ encAll X) ++ (c.enc ++ (encAll Y ++ tail)) := by
      rw [hbeq]; simp [encAll_append, encAll_cons, List.append_assoc]
    rw [hb, splice_rm _ _ _ _ _ (by simp [sig_length]) (by simp [sig_length, hclen]; omega), ← hb] at hr
    refine ⟨_, X ++ Y, hr, ⟨?_, (stream_erase c Y hcn X hst).1⟩, Or.inr ⟨X, c, Y, rfl, hX, hc, rfl⟩⟩
    simp [encAll_append, List.append_assoc]

/-! ### `read` and `locations` on the parsed form -/

theorem read_parsed_many {b : Bytes} {rs : List RC} {tail : Bytes} (hp : Parsed b rs tail)
    (h : 1 < (rs.filter (·.name == caBX)).length) : read b = some .many := by
  have hch := chunks_of_parsed hp
  simp [read, hch, filter_place_length, h]

theorem read_parsed_none {b : Bytes} {rs : List RC} {tail : Bytes} (hp : Parsed b rs tail)
    (h : ∀ r ∈ rs, r.name ≠ caBX) : read b = some .none := by
  have hch := chunks_of_parsed hp
  have hf : rs.filter (·.name == caBX) = [] := by
    apply List.filter_eq_nil_iff.2; intro x hx; simpa using h x hx
  have hnone : firstCai (place 8 rs) = none := find_place_none caBX rs 8 h
  simp [read, hch, filter_place_length, hf, hnone]

theorem read_parsed_one {b : Bytes} {X Y : List RC} {c : RC} {tail : Bytes}
    (hp : Parsed b (X ++ c :: Y) tail) (hX : ∀ x ∈ X, x.name ≠ caBX) (hc : c.name = caBX)
    (hY : ∀ x ∈ Y, x.name ≠ caBX) : read b = some (.ok c.data) := by
  have hch := chunks_of_parsed hp
  have hok := hp.stream.all_ok
  have hcok : c.ok := hok c (by simp)
  have hokX : ∀ x ∈ X, x.ok := fun x hx => hok x (by simp [hx])
  have hfX : X.filter (·.name == caBX) = [] := by
    apply List.filter_eq_nil_iff.2; intro x hx; simpa using hX x hx
  have hfY : Y.filter (·.name == caBX) = [] := by
    apply List.filter_eq_nil_iff.2; intro x hx; simpa using hY x hx
  have hf : ((X ++ c :: Y).filter (·.name == caBX)).length = 1 := by
    simp [List.filter_append, hfX, hfY, hc]
  have hcai := find_place_at caBX c Y hc X 8 hokX hX
  have hb : b = (sig ++ (encAll X ++ (be32 c.data.length ++ c.name))) ++ (c.data ++ (c.crc ++ (encAll Y ++ tail))) := by
    rw [hp.eq]; simp [encAll_append, encAll_cons, RC.enc, List.append_assoc]
  have hsl : slice b (8 + (encAll X).length + 8) c.data.length = c.data := by
    rw [hb]
    exact slice_app _ _ _ _ _ (by simp [sig_length, be32_length, hcok.name4]; omega) rfl
  have hcount : ((place 8 (X ++ c :: Y)).filter (·.name == caBX)).length ≤ 1 := by
    rw [filter_place_length, hf]; exact Nat.le_refl 1
  rw [read_eq_ok hch hcount hcai]
  exact congrArg (fun x => some (ReadR.ok x)) hsl

theorem locations_parsed_at {b : Bytes} {X Y : List RC} {c : RC} {tail : Bytes}
    (hp : Parsed b (X ++ c :: Y) tail) (hX : ∀ x ∈ X, x.name ≠ caBX) (hc : c.name = caBX) :
    locations b = some (locA (8 + (encAll X).length) (c.data.length + 12) b.length) := by
  have hch := chunks_of_parsed hp
  have hok := hp.stream.all_ok
  have hokX : ∀ x ∈ X, x.ok := fun x hx => hok x (by simp [hx])
  have hcai := find_place_at caBX c Y hc X 8 hokX hX
  simp [locations, hch, firstCai, hcai]

/-- Without a caBX chunk the handler reports the regions the asset *would* have after
embedding an empty store: a 12-byte container right after IHDR in a file 12 bytes longer. -/
theorem locations_parsed_fresh {b : Bytes} {A B : List RC} {ihr : RC} {tail : Bytes}
    (hp : Parsed b (A ++ ihr :: B) tail) (hA : ∀ x ∈ A, x.name ≠ IHDR) (hi : ihr.name = IHDR)
    (hno : ∀ x ∈ A ++ ihr :: B, x.name ≠ caBX) :
    locations b = some (locA (8 + (encAll A).length + ihr.data.length + 12) 12 (b.length + 12)) := by
  have hch := chunks_of_parsed hp
  have hok := hp.stream.all_ok
  have hokA : ∀ x ∈ A, x.ok := fun x hx => hok x (by simp [hx])
  have hnone : firstCai (place 8 (A ++ ihr :: B)) = none := find_place_none caBX _ 8 hno
  have hih := find_place_at IHDR ihr B hi A 8 hokA hA
  simp [locations, hch, hnone, firstIhdr, hih, fin_mk]

/-! ### the lexer on the parsed form -/

def rcSeg (r : RC) : Seg := ⟨kindOf r.name, tagOf r.name, r.enc⟩

def hdrSeg : Seg := ⟨.header, "PNGh", sig⟩

def trailSegs (tail : Bytes) : List Seg := if tail.isEmpty then [] else [⟨.media, "trailing", tail⟩]

/-- The layer-A container of a parsed file. -/
def segsOf (rs : List RC) (tail : Bytes) : List Seg := hdrSeg :: (rs.map rcSeg ++ trailSegs tail)

theorem map_chunkSeg_place : ∀ (rs : List RC) (pre rest : Bytes), (∀ r ∈ rs, r.ok) →
    (place pre.length rs).map (chunkSeg (pre ++ (encAll rs ++ rest))) = rs.map rcSeg
  | [], _, _, _ => rfl
  | r :: rs, pre, rest, hok => by
    have hr := enc_length r (hok r List.mem_cons_self)
    have hb : pre ++ (encAll (r :: rs) ++ rest) = pre ++ (r.enc ++ (encAll rs ++ rest)) := by
      simp [encAll_cons, List.append_assoc]
    have hb2 : pre ++ (encAll (r :: rs) ++ rest) = (pre ++ r.enc) ++ (encAll rs ++ rest) := by
      simp [encAll_cons, List.append_assoc]
    have hl : pre.length + (r.data.length + 12) = (pre ++ r.enc).length := by simp [hr]
    have ih := map_chunkSeg_place rs (pre ++ r.enc) rest (fun x hx => hok x (List.mem_cons_of_mem _ hx))
    simp only [place, List.map_cons]
    congr 1
    · show (⟨_, _, slice _ pre.length (r.data.length + 12)⟩ : Seg) = ⟨_, _, r.enc⟩
      rw [hb, slice_app _ _ _ _ _ rfl hr.symm]
    · rw [hl, hb2]; exact ih

theorem segs_parsed {b : Bytes} {rs : List RC} {tail : Bytes} (hp : Parsed b rs tail) :
    segs b = some (segsOf rs tail) := by
  have hch := chunks_of_parsed hp
  have hok := hp.stream.all_ok
  have hfin : finOf (place 8 rs) = 8 + (encAll rs).length := finOf_place rs 8 hp.stream.ne_nil hok
  have ht : b.take 8 = sig := take_of_eq hp.eq rfl
  have hd : b.drop (8 + (encAll rs).length) = tail :=
    drop_of_eq (hp.eq.trans (List.append_assoc _ _ _).symm) (by simp [sig_length])
  have hm : (place 8 rs).map (chunkSeg b) = rs.map rcSeg := by
    have := map_chunkSeg_place rs sig tail hok
    rw [← hp.eq, sig_length] at this; exact this
  simp only [segs, hch, hfin, hd, ht, hm, segsOf, hdrSeg, trailSegs, List.cons_append]

theorem ser_segsOf (rs : List RC) (tail : Bytes) : ser (segsOf rs tail) = sig ++ (encAll rs ++ tail) := by
  have h1 : ∀ rs : List RC, ser (rs.map rcSeg) = encAll rs := by
    intro rs; induction rs with
    | nil => rfl
    | cons r rs ih => rw [List.map_cons, ser_cons, ih, encAll_cons]; rfl
  have h2 : ser (trailSegs tail) = tail := by
    unfold trailSegs
    cases tail with
    | nil => rfl
    | cons x xs => simp [ser]
  rw [segsOf, ser_cons, ser_append, h1, h2]; rfl

/-- **The lexer is lossless**: the segments of a file concatenate to the file. -/
theorem ser_segs {b : Bytes} {c : List Seg} (h : segs b = some c) : ser c = b := by
  cases hch : chunks b with
  | none => simp [segs, hch] at h
  | some ps =>
    obtain ⟨rs, tail, hp, _⟩ := parsed_of_chunks hch
    rw [segs_parsed hp] at h
    injection h with h
    rw [← h, ser_segsOf, ← hp.eq]

theorem parsed_of_segs {b : Bytes} {c : List Seg} (h : segs b = some c) :
    ∃ rs tail, Parsed b rs tail ∧ c = segsOf rs tail := by
  cases hch : chunks b with
  | none => simp [segs, hch] at h
  | some ps =>
    obtain ⟨rs, tail, hp, _⟩ := parsed_of_chunks hch
    rw [segs_parsed hp] at h
    injection h with h
    exact ⟨rs, tail, hp, h.symm⟩

/-! ### the parsed form and layer A -/

theorem isM_rcSeg (r : RC) : isM (rcSeg r) = (r.name == caBX) := by
  unfold isM rcSeg kindOf
  by_cases h : (r.name == caBX) = true
  · simp [h]
  · by_cases h2 : (r.name == iTXt) = true <;> simp [h, h2]

theorem isM_hdrSeg : isM hdrSeg = false := rfl

theorem isM_trailSegs (tail : Bytes) : ∀ x ∈ trailSegs tail, isM x = false := by
  intro x hx
  unfold trailSegs at hx
  by_cases h : tail.isEmpty = true
  · simp [h] at hx
  · simp [h] at hx; subst hx; rfl

theorem strip_map_rcSeg (rs : List RC) :
    strip (rs.map rcSeg) = (rs.filter (fun r => !(r.name == caBX))).map rcSeg := by
  induction rs with
  | nil => rfl
  | cons r rs ih =>
    unfold strip at ih ⊢
    simp only [List.map_cons, List.filter_cons, isM_rcSeg, ih]
    cases (r.name == caBX) <;> simp

theorem manifests_map_rcSeg (rs : List RC) :
    manifests (rs.map rcSeg) = (rs.filter (·.name == caBX)).map rcSeg := by
  induction rs with
  | nil => rfl
  | cons r rs ih =>
    unfold manifests at ih ⊢
    simp only [List.map_cons, List.filter_cons, isM_rcSeg, ih]
    cases (r.name == caBX) <;> simp

theorem strip_segsOf (rs : List RC) (tail : Bytes) :
    strip (segsOf rs tail) = segsOf (rs.filter (fun r => !(r.name == caBX))) tail := by
  have e : segsOf rs tail = [hdrSeg] ++ (rs.map rcSeg ++ trailSegs tail) := rfl
  rw [e, strip_append, strip_append, strip_map_rcSeg, strip_eq_self (isM_trailSegs tail)]
  rfl

theorem manifests_segsOf (rs : List RC) (tail : Bytes) :
    manifests (segsOf rs tail) = (rs.filter (·.name == caBX)).map rcSeg := by
  have e : segsOf rs tail = [hdrSeg] ++ (rs.map rcSeg ++ trailSegs tail) := rfl
  rw [e, manifests_append, manifests_append, manifests_map_rcSeg,
    manifests_eq_nil (isM_trailSegs tail)]
  simp [manifests, isM_hdrSeg]

theorem filter_none {rs : List RC} (h : ∀ r ∈ rs, r.name ≠ caBX) :
    rs.filter (·.name == caBX) = [] ∧ rs.filter (fun r => !(r.name == caBX)) = rs := by
  constructor
  · apply List.filter_eq_nil_iff.2; intro x hx; simpa using h x hx
  · apply List.filter_eq_self.2; intro x hx; simpa using h x hx

/-- With at most one caBX record, erasing the first one is erasing them all. -/
theorem eraseFirst_filter {rs rs' : List RC} (h : EraseFirst rs rs')
    (h1 : (rs.filter (·.name == caBX)).length ≤ 1) :
    rs.filter (fun r => !(r.name == caBX)) = rs' ∧ ∀ r ∈ rs', r.name ≠ caBX := by
  rcases h with ⟨hno, rfl⟩ | ⟨X, c, Y, rfl, hX, hc, rfl⟩
  · exact ⟨(filter_none hno).2, hno⟩
  · have hfX := filter_none hX
    have hcb : (c.name == caBX) = true := by simpa using hc
    have hY : ∀ y ∈ Y, y.name ≠ caBX := by
      intro y hy hyc
      have : y ∈ Y.filter (·.name == caBX) := List.mem_filter.2 ⟨hy, by simpa using hyc⟩
      have hpos : 0 < (Y.filter (·.name == caBX)).length := List.length_pos_of_mem this
      rw [List.filter_append, hfX.1, List.nil_append, List.filter_cons, if_pos hcb,
        List.length_cons] at h1
      omega
    have hfY := filter_none hY
    refine ⟨?_, ?_⟩
    · simp [List.filter_append, hfX.2, hfY.2, hcb]
    · intro r hr
      rcases List.mem_append.1 hr with h | h
      · exact hX r h
      · exact hY r h

theorem isIhdrSeg_rcSeg (r : RC) (h : r.ok) : isIhdrSeg (rcSeg r) = (r.name == IHDR) := by
  have hk : (kindOf r.name != Kind.header) = true := by
    unfold kindOf
    by_cases h1 : (r.name == caBX) = true
    · simp [h1]
    · by_cases h2 : (r.name == iTXt) = true <;> simp [h1, h2]
  have hs : slice r.enc 4 4 = r.name := by
    have e : r.enc = be32 r.data.length ++ (r.name ++ (r.data ++ r.crc)) := by
      simp [RC.enc, List.append_assoc]
    rw [e]; exact slice_app _ _ _ _ _ rfl h.name4.symm
  simp [isIhdrSeg, rcSeg, hk, hs]

theorem findIdx_first {α : Type} (p : α → Bool) (y : α) (Q : List α) (hy : p y = true) :
    ∀ (P : List α), (∀ x ∈ P, p x = false) → (P ++ y :: Q).findIdx? p = some P.length
  | [], _ => by simp [List.findIdx?_cons, hy]
  | x :: P, h => by
    have hx : p x = false := h x List.mem_cons_self
    have ih := findIdx_first p y Q hy P (fun z hz => h z (List.mem_cons_of_mem _ hz))
    simp [List.findIdx?_cons, hx, ih]

theorem rcSeg_newRC (s : Bytes) : rcSeg (newRC s) = mseg fmt s := by
  show (⟨kindOf caBX, tagOf caBX, (newRC s).enc⟩ : Seg) = ⟨.manifest, "C2PA", wrap s⟩
  rw [newRC_enc]
  have h1 : kindOf caBX = .manifest := by decide
  have h2 : tagOf caBX = "C2PA" := by decide
  rw [h1, h2]

theorem writeA_explicit (F : Fmt) (c : List Seg) (s : Bytes) (Lx Rx : List Seg)
    (h : strip c = Lx ++ Rx) (hi : F.pos c = Lx.length) :
    writeA F c s = Lx ++ mseg F s :: Rx := by
  have hidx : insIdx F c = Lx.length := by
    unfold insIdx; rw [hi, h]; simp
  rw [writeA_def, hidx, h]
  simp

theorem ser_map_rcSeg (rs : List RC) : ser (rs.map rcSeg) = encAll rs := by
  induction rs with
  | nil => rfl
  | cons r rs ih => rw [List.map_cons, ser_cons, ih, encAll_cons]; rfl

/-- Where layer A inserts the container into the container of a parsed file: the stripped
segment list splits right after the first IHDR record. -/
theorem layout_segsOf {rs L R : List RC} (tail : Bytes) (hok : ∀ r ∈ L, r.ok) (hL : AfterIhdr L)
    (hf : rs.filter (fun r => !(r.name == caBX)) = L ++ R) :
    strip (segsOf rs tail) = (hdrSeg :: L.map rcSeg) ++ (R.map rcSeg ++ trailSegs tail) ∧
    fmt.pos (segsOf rs tail) = (hdrSeg :: L.map rcSeg).length := by
  obtain ⟨A, ihr, rfl, hi, hA⟩ := hL
  have hstrip : strip (segsOf rs tail) = (hdrSeg :: (A ++ [ihr]).map rcSeg) ++ (R.map rcSeg ++ trailSegs tail) := by
    rw [strip_segsOf, hf]; simp [segsOf, List.append_assoc]
  refine ⟨hstrip, ?_⟩
  show Png.pos (segsOf rs tail) = _
  unfold Png.pos
  have e : strip (segsOf rs tail)
      = (hdrSeg :: A.map rcSeg) ++ rcSeg ihr :: (R.map rcSeg ++ trailSegs tail) := by
    rw [hstrip]; simp [List.append_assoc]
  have hfi := findIdx_first isIhdrSeg (rcSeg ihr) (R.map rcSeg ++ trailSegs tail)
    (by rw [isIhdrSeg_rcSeg ihr (hok ihr (by simp))]; simpa using hi)
    (hdrSeg :: A.map rcSeg) (by
      intro x hx
      rcases List.mem_cons.1 hx with rfl | hx
      · rfl
      · obtain ⟨a, ha, rfl⟩ := List.mem_map.1 hx
        rw [isIhdrSeg_rcSeg a (hok a (by simp [ha]))]; simpa using hA a ha)
  rw [e, hfi]; simp

/-- The layer-A write on the container of a parsed file, computed. -/
theorem writeA_segsOf {rs L R : List RC} (tail s : Bytes) (hok : ∀ r ∈ L, r.ok) (hL : AfterIhdr L)
    (hf : rs.filter (fun r => !(r.name == caBX)) = L ++ R) :
    writeA fmt (segsOf rs tail) s = segsOf (L ++ newRC s :: R) tail := by
  obtain ⟨hstrip, hpos⟩ := layout_segsOf tail hok hL hf
  rw [writeA_explicit fmt _ s _ _ hstrip hpos, ← rcSeg_newRC]
  simp [segsOf, List.append_assoc]

/-- … and the offset of the layer-A Cai region. -/
theorem caiOff_segsOf {rs L R : List RC} (tail : Bytes) (hok : ∀ r ∈ L, r.ok) (hL : AfterIhdr L)
    (hf : rs.filter (fun r => !(r.name == caBX)) = L ++ R) :
    caiOff fmt (segsOf rs tail) = 8 + (encAll L).length := by
  obtain ⟨hstrip, hpos⟩ := layout_segsOf tail hok hL hf
  have hidx : insIdx fmt (segsOf rs tail) = (hdrSeg :: L.map rcSeg).length := by
    unfold insIdx; rw [hpos, hstrip]; simp
  unfold caiOff offAt
  rw [hidx, hstrip, List.take_left', ser_cons, ser_map_rcSeg]
  · simp [hdrSeg, sig_length]
  · rfl

end C2pa.C07.Png
