import C2paModel.Lemmas.C18Total
import C2paModel.Lemmas.C18Dec
/-
C18 — size of the re-serialisation against the bytes the reader consumed.

`parse_size_bound`: for an accepted, quirk-free tree `8 * b.size ≤ 9 * e`.  Everything the reader
returns is written with at most the bytes it consumed, except a `bfdb` box whose media type had no
terminating NUL (the writer appends one): one byte more per box of at least 8 consumed bytes.
`not_parse_size_le` is the kernel-evaluated witness that `b.size ≤ e` is false.

The statements are partial-correctness ones (`Res.Part`: "if the result is `ok a` then `Q a`"), so
that the fuel induction needs neither the fuel nor the in-bounds side conditions of `C18Total`
(absence of `panic`/`oof` is `parse_post`).
-/
namespace C2pa.C18

/-! ### partial correctness -/

/-- an `ok` value satisfies `Q` (nothing is said about `err`, `panic`, `oof`) -/
def Res.Part {α : Type} (r : Res α) (Q : α → Prop) : Prop :=
  match r with
  | .ok a => Q a
  | _ => True

@[simp] theorem part_ok {α : Type} (a : α) (Q : α → Prop) : (Res.ok a).Part Q ↔ Q a := Iff.rfl
@[simp] theorem part_err {α : Type} (e : Err) (Q : α → Prop) : (Res.err e : Res α).Part Q ↔ True := Iff.rfl
@[simp] theorem part_panic {α : Type} (Q : α → Prop) : (Res.panic : Res α).Part Q ↔ True := Iff.rfl
@[simp] theorem part_oof {α : Type} (Q : α → Prop) : (Res.oof : Res α).Part Q ↔ True := Iff.rfl

theorem Res.Part.bind {α β : Type} {x : Res α} {f : α → Res β} {P : α → Prop} {Q : β → Prop}
    (hx : x.Part P) (hf : ∀ a, P a → (f a).Part Q) : (x >>= f).Part Q := by
  cases x with
  | ok a => exact hf a hx
  | err e => trivial
  | panic => trivial
  | oof => trivial

theorem Res.Part.bind' {α β : Type} {x : Res α} {f : α → Res β} {P : α → Prop} {Q : β → Prop}
    (hx : x.Part P) (hf : ∀ a, x = .ok a → P a → (f a).Part Q) : (x >>= f).Part Q := by
  cases x with
  | ok a => exact hf a rfl hx
  | err e => trivial
  | panic => trivial
  | oof => trivial

theorem Res.Part.mono {α : Type} {x : Res α} {P Q : α → Prop}
    (hx : x.Part P) (h : ∀ a, P a → Q a) : x.Part Q := by
  cases x with
  | ok a => exact h a hx
  | err e => trivial
  | panic => trivial
  | oof => trivial

theorem Res.Part.mapErr {α : Type} {x : Res α} {P : α → Prop} (e : Err)
    (hx : x.Part P) : (x.mapErr e).Part P := by
  cases x <;> first | exact hx | trivial

theorem Res.Post.part {α : Type} {x : Res α} {P : α → Prop} (hx : x.Post P) : x.Part P := by
  cases x <;> first | exact hx | trivial

theorem Res.Part.of_eq_ok {α : Type} {x : Res α} {P : α → Prop} {a : α}
    (hx : x.Part P) (h : x = .ok a) : P a := by
  subst h; exact hx

theorem Res.Part.intro {α : Type} {x : Res α} {P : α → Prop} (h : ∀ a, x = .ok a → P a) : x.Part P := by
  cases x with
  | ok a => exact h a rfl
  | err e => trivial
  | panic => trivial
  | oof => trivial

/-! ### the elementary readers, without the in-bounds hypotheses -/

theorem readHeader_part (d : Bytes) (pos : Nat) :
    (readHeader d pos).Part (fun r => (r.2 = pos ∧ r.1 = ⟨0, 0⟩) ∨ r.2 = pos + 8 ∨ r.2 = pos + 16) := by
  unfold readHeader
  simp only []
  split
  · simp
  · split
    · simp
    · split
      · split
        · simp
        · simp
      · simp

theorem readToVec_part (d : Bytes) (pos n : Nat) :
    (readToVec d pos n).Part (fun r => r.2 = pos + n ∧ r.1.length = n) :=
  ((readToVec_post d pos n).mono fun _ hr => ⟨hr.1, hr.2.2⟩).part

theorem readExact_part (d : Bytes) (pos n : Nat) :
    (readExact d pos n).Part (fun r => r.2 = pos + n ∧ r.1.length = n) := by
  unfold readExact
  split
  · simp
  · simp; omega

theorem readByte_part (d : Bytes) (pos : Nat) : (readByte d pos).Part (fun r => r.2 = pos + 1) := by
  unfold readByte
  split <;> simp

theorem reseek_part (c : Bool) (pos p1 : Nat) (h : p1 = pos + 8 ∨ p1 = pos + 16) :
    (reseek c p1).Part (fun p2 => pos ≤ p2 ∧ p2 ≤ p1) :=
  (reseek_post c pos p1 h).part

/-! ### the description box: consumed bytes ≥ written bytes -/

theorem readLabel_part (rest : Bytes) (bl : Nat) :
    (readLabel rest bl).Part (fun r => r.2 + r.1.length + 1 = bl ∧ 8 ≤ r.2) :=
  ((readLabel_post rest bl).mono fun _ h => ⟨h.2.2.1, h.2.2.2⟩).part

theorem readBoxId_size (d : Bytes) (togs : UInt8) (p bl : Nat) :
    (readBoxId d togs p bl).Part (fun r => r.2.2 = p + (if r.1.isSome then 4 else 0)) := by
  unfold readBoxId
  split
  · refine Res.Part.bind (readExact_part d p 4) ?_
    rintro ⟨v, p'⟩ ⟨h1, _⟩
    dsimp only at h1 ⊢
    unfold usub
    split
    · simp
    · simp [h1]
  · simp

theorem readSig_size (d : Bytes) (togs : UInt8) (p bl : Nat) :
    (readSig d togs p bl).Part (fun r => r.2.2 = p + (optBytes r.1).length) := by
  unfold readSig
  split
  · refine Res.Part.bind (readExact_part d p 32) ?_
    rintro ⟨v, p'⟩ ⟨h1, h2⟩
    dsimp only at h1 h2 ⊢
    split
    · simp
    · simp [optBytes, h1, h2]
  · simp [optBytes]

/-- the salt box: when the description box is accepted (`bytes_left` ends at 8) the header re-read
did not seek back, and the salt box was consumed in full -/
theorem readSalt_size (d : Bytes) (togs : UInt8) (p bl : Nat) :
    (readSalt d togs p bl).Part (fun r => r.2.1 = 8 →
      (r.1 = none ∧ p ≤ r.2.2) ∨ (∃ s, r.1 = some s ∧ p + (8 + s.length) ≤ r.2.2)) := by
  unfold readSalt
  split
  · refine Res.Part.bind ((readHeader_part d p).mapErr _) ?_
    rintro ⟨h, q1⟩ hc
    dsimp only at hc ⊢
    split
    · simp
    · rename_i hs
      have hq1 := header_nonzero hc hs
      cases hdiff : (decide (bl < 8) || bl - 8 != h.size)
      · simp only [reseek, Bool.false_eq_true, if_false, bind_ok]
        split
        · simp
        · split
          · simp
          · refine Res.Part.bind (readToVec_part d q1 _) ?_
            rintro ⟨buf, q3⟩ ⟨h4, h5⟩
            dsimp only at h4 h5 ⊢
            split
            · simp
            · simp only [part_ok]
              intro _
              refine Or.inr ⟨buf, rfl, ?_⟩
              omega
      · simp only [reseek, if_true]
        refine Res.Part.bind (Res.Part.intro (P := fun _ => True) fun _ _ => trivial) ?_
        intro q2 _
        split
        · simp
        · split
          · simp
          · refine Res.Part.bind (readToVec_part d q2 _) ?_
            rintro ⟨buf, q3⟩ _
            dsimp only
            split
            · simp
            · simp only [part_ok]
              intro h8
              exfalso
              simp at hdiff
              omega
  · simp

theorem readDesc_size (d : Bytes) (pos size : Nat) :
    (readDesc d pos size).Part (fun r => pos + (descPayload r.1).length ≤ r.2) := by
  unfold readDesc
  split
  · simp
  · simp only []
    split
    · simp
    · refine Res.Part.bind (Res.Part.intro (P := fun _ => True) fun _ _ => trivial) ?_
      intro bl0 _
      refine Res.Part.bind (readByte_part d _) ?_
      rintro ⟨t, p1⟩ h1
      dsimp only at h1 ⊢
      refine Res.Part.bind (Res.Part.intro (P := fun _ => True) fun _ _ => trivial) ?_
      intro bl1 _
      split
      · simp
      · refine Res.Part.bind (readLabel_part (d.drop p1) _) ?_
        rintro ⟨label, bl⟩ _
        dsimp only
        refine Res.Part.bind (readBoxId_size d _ _ bl) ?_
        rintro ⟨bxid, bl2, p3⟩ hi
        dsimp only at hi ⊢
        refine Res.Part.bind (readSig_size d _ p3 bl2) ?_
        rintro ⟨sig, bl3, p4⟩ hs
        dsimp only at hs ⊢
        refine Res.Part.bind (readSalt_size d _ p4 bl3) ?_
        rintro ⟨salt, bl4, p5⟩ ha
        dsimp only at ha ⊢
        split
        · simp
        · rename_i h8
          have h8' : bl4 = 8 := by simpa using h8
          have hlab : (if strNonEmpty label = true then label ++ [0] else []).length ≤ label.length + 1 := by
            split <;> simp
          simp only [part_ok, descPayload, List.length_append, slice_length, List.length_cons,
            List.length_nil]
          rcases ha h8' with ⟨rfl, ha⟩ | ⟨s, rfl, ha⟩ <;> cases bxid <;>
            simp [serSalt] at hi ⊢ <;> omega

/-! ### the content boxes in the loop

The loop reads the header `bh` at `pos`, seeks back 8 bytes and calls the reader of the box type,
which reads a header again: at `pos` (ordinary header: the same header, no seek back) or at
`pos + 8` (large-size header: anything).  `Reread` is what the readers need to know about that. -/

def Reread (d : Bytes) (p2 size base : Nat) : Prop :=
  ∀ h q1, readHeader d p2 = .ok (h, q1) →
    base ≤ q1 ∧ (¬ h.size = 0 → (reseek (h.size != size) q1).Part (fun q2 => base ≤ q2))

theorem reread_loop (d : Bytes) (pos : Nat) (bh : Header) (p1 : Nat)
    (hh : readHeader d pos = .ok (bh, p1)) (hn : ¬ bh.name = 0) :
    Reread d (p1 - 8) bh.size (pos + 8) := by
  have hc := (readHeader_part d pos).of_eq_ok hh
  rcases header_named hc hn with rfl | rfl
  · simp only [Nat.add_sub_cancel]
    intro h q1 e
    rw [hh] at e
    cases e
    exact ⟨Nat.le_refl _, fun _ => by simp [reseek]⟩
  · rw [show pos + 16 - 8 = pos + 8 by omega]
    intro h q1 e
    have hc2 := (readHeader_part d (pos + 8)).of_eq_ok e
    dsimp only at hc2
    refine ⟨by omega, fun hs => ?_⟩
    exact (reseek_part _ (pos + 8) q1 (header_nonzero hc2 hs)).mono fun q2 h => h.1

theorem readData_size (d : Bytes) (p2 size base : Nat) (H : Reread d p2 size base) :
    (readData d p2 size).Part (fun r => base + r.1.length ≤ r.2) := by
  unfold readData
  refine Res.Part.bind' ((readHeader_part d p2).mapErr _) ?_
  rintro ⟨h, q1⟩ heq _
  obtain ⟨hb, hr⟩ := H h q1 (mapErr_eq_ok heq)
  dsimp only
  split
  · simpa using hb
  · rename_i hs
    refine Res.Part.bind (hr hs) ?_
    intro q2 hq2
    split
    · simp
    · exact (readToVec_part d q2 _).mono (fun r hr => by omega)

theorem readUuid_size (d : Bytes) (p2 size base : Nat) (H : Reread d p2 size base) :
    (readUuid d p2 size).Part (fun r => base ≤ r.2 ∧ (r.1.2 ≠ [] → base + 16 + r.1.2.length ≤ r.2)) := by
  unfold readUuid
  refine Res.Part.bind' ((readHeader_part d p2).mapErr _) ?_
  rintro ⟨h, q1⟩ heq _
  obtain ⟨hb, hr⟩ := H h q1 (mapErr_eq_ok heq)
  dsimp only
  split
  · simpa using hb
  · rename_i hs
    refine Res.Part.bind (hr hs) ?_
    intro q2 hq2
    refine Res.Part.bind (readExact_part d q2 16) ?_
    rintro ⟨u, p3⟩ ⟨h3, _⟩
    dsimp only at h3 ⊢
    split
    · simp
    · refine Res.Part.bind (readToVec_part d p3 _) ?_
      rintro ⟨buf, p4⟩ ⟨h4, h5⟩
      dsimp only at h4 h5
      simp only [part_ok]
      exact ⟨by omega, fun _ => by omega⟩

theorem splitMedia_len (togs : UInt8) (buf : Bytes) :
    (splitMedia togs buf).Part (fun r => r.1.length ≤ buf.length) := by
  unfold splitMedia
  split
  · split
    · unfold usub
      split
      · simp
      · simp only [bind_ok]
        split
        · simp
        · simp [List.length_take]; omega
    · simp
  · split <;> simp

theorem bfdbPayload_length_le (t : UInt8) (m : Bytes) : (bfdbPayload t m).length ≤ m.length + 2 := by
  unfold bfdbPayload
  split <;> simp

/-- a `bfdb` box may be written one byte longer than it was read -/
theorem readBfdb_size (d : Bytes) (p2 size pos : Nat) (H : Reread d p2 size (pos + 8)) :
    (readBfdb d p2 size).Part (fun r => pos + 8 ≤ r.2 ∧
      8 * (8 + (bfdbPayload r.1.1 r.1.2.1).length) ≤ 9 * (r.2 - pos)) := by
  unfold readBfdb
  split
  · simp
  · refine Res.Part.bind' ((readHeader_part d p2).mapErr _) ?_
    rintro ⟨h, q1⟩ heq _
    obtain ⟨hb, hr⟩ := H h q1 (mapErr_eq_ok heq)
    dsimp only
    split
    · simp only [part_ok]
      refine ⟨hb, ?_⟩
      have : (bfdbPayload 0 []).length = 1 := by decide
      rw [this]; omega
    · rename_i hs
      refine Res.Part.bind (hr hs) ?_
      intro q2 hq2
      refine Res.Part.bind (readByte_part d q2) ?_
      rintro ⟨t, p3⟩ h3
      dsimp only at h3 ⊢
      refine Res.Part.bind (Res.Part.intro (P := fun _ => True) fun _ _ => trivial) ?_
      intro n _
      refine Res.Part.bind (readToVec_part d p3 n) ?_
      rintro ⟨buf, p4⟩ ⟨h4, h5⟩
      dsimp only at h4 h5 ⊢
      refine Res.Part.bind (splitMedia_len t buf) ?_
      rintro ⟨mt, fn⟩ hm
      dsimp only at hm
      simp only [part_ok]
      have := bfdbPayload_length_le t mt
      omega

/-! ### the fuel induction -/

def SuperSize (pos : Nat) (r : Box × Nat) : Prop :=
  pos + 16 ≤ r.2 ∧ (r.1.QuirkFree → 8 * r.1.size ≤ 9 * (r.2 - pos))

def LoopSize (pos : Nat) (r : List Box × Nat) : Prop :=
  pos ≤ r.2 ∧ (QuirkFreeList r.1 → 8 * sizeList r.1 ≤ 9 * (r.2 - pos))

theorem addChild_size (dest pos : Nat) (b : Box) (p3 : Nat) (rest : Unit → Res (List Box × Nat))
    (hp : pos ≤ p3) (hb : b.QuirkFree → 8 * b.size ≤ 9 * (p3 - pos))
    (hrest : (rest ()).Part (LoopSize p3)) :
    (addChild dest b p3 rest).Part (LoopSize pos) := by
  unfold addChild
  refine Res.Part.bind (Res.Part.intro (P := fun _ => True) fun _ _ => trivial) ?_
  intro more _
  split
  · refine Res.Part.bind hrest ?_
    rintro ⟨cs, p4⟩ ⟨h1, h2⟩
    dsimp only at h1 h2
    simp only [part_ok, LoopSize, QuirkFreeList, sizeList]
    refine ⟨by omega, ?_⟩
    rintro ⟨q1, q2⟩
    have := hb q1
    have := h2 q2
    omega
  · simp only [part_ok, LoopSize, QuirkFreeList, sizeList]
    exact ⟨hp, fun q => by have := hb q.1; omega⟩

theorem parse_size_main (d : Bytes) : ∀ f,
    (∀ depth pos, (superBox f d depth pos).Part (SuperSize pos)) ∧
    (∀ depth dest pos, (loop f d depth dest pos).Part (LoopSize pos)) := by
  intro f
  induction f with
  | zero =>
    exact ⟨fun _ _ => by unfold superBox; trivial, fun _ _ _ => by unfold loop; trivial⟩
  | succ f ih =>
    obtain ⟨ihS, ihL⟩ := ih
    constructor
    · -- superBox
      intro depth pos
      unfold superBox
      split
      · simp
      · refine Res.Part.bind ((readHeader_part d pos).mapErr _) ?_
        rintro ⟨jh, p1⟩ h1c
        dsimp only at h1c ⊢
        split
        · simp
        · rename_i hn0
          split
          · simp
          · split
            · simp
            · have hp1 := header_named h1c hn0
              refine Res.Part.bind ((readHeader_part d p1).mapErr _) ?_
              rintro ⟨dh, p2⟩ h2c
              dsimp only at h2c ⊢
              split
              · simp
              · rename_i hjumd
                have hdn : ¬ dh.name = 0 := by
                  intro h0; simp [h0, JUMD] at hjumd
                have hp2 := header_named h2c hdn
                refine Res.Part.bind ((readDesc_size d p2 dh.size).mapErr _) ?_
                rintro ⟨desc, p3⟩ h3
                dsimp only at h3 ⊢
                split
                · simp
                · refine Res.Part.bind (ihL depth _ p3) ?_
                  rintro ⟨cs, p4⟩ ⟨hc1, hc2⟩
                  dsimp only at hc1 hc2
                  simp only [part_ok, SuperSize, Box.QuirkFree, Box.size]
                  refine ⟨by omega, ?_⟩
                  rintro ⟨_, hq⟩
                  have := hc2 hq
                  omega
    · -- loop
      intro depth dest pos
      unfold loop
      refine Res.Part.bind' ((readHeader_part d pos).mapErr _) ?_
      rintro ⟨bh, p1⟩ heq h1c
      have hrh := mapErr_eq_ok heq
      dsimp only at h1c ⊢
      split
      · split
        · simp
        · simp only [part_ok, LoopSize, QuirkFreeList, sizeList]
          exact ⟨by omega, fun _ => by omega⟩
      · rename_i hn0
        have hp1 := header_named h1c hn0
        have hre := reread_loop d pos bh p1 hrh hn0
        rw [unread_ok p1 (by omega)]
        simp only [bind_ok]
        split
        · -- jumb
          refine Res.Part.bind (ihS (depth + 1) (p1 - 8)) ?_
          rintro ⟨b, p3⟩ ⟨hb1, hb2⟩
          dsimp only at hb1 hb2 ⊢
          refine addChild_size dest pos b p3 _ (by omega) (fun q => ?_) (ihL depth dest p3)
          have := hb2 q
          omega
        · split
          · -- uuid
            refine Res.Part.bind ((readUuid_size d (p1 - 8) bh.size (pos + 8) hre).mapErr _) ?_
            rintro ⟨⟨u, buf⟩, p3⟩ ⟨hk1, hk2⟩
            dsimp only at hk1 hk2 ⊢
            refine addChild_size dest pos _ p3 _ (by omega) (fun q => ?_) (ihL depth dest p3)
            simp only [Box.QuirkFree] at q
            have := hk2 q
            simp only [Box.size]
            omega
          · split
            · -- bfdb
              refine Res.Part.bind ((readBfdb_size d (p1 - 8) bh.size pos hre).mapErr _) ?_
              rintro ⟨⟨t, mt, fn⟩, p3⟩ ⟨hk1, hk2⟩
              dsimp only at hk1 hk2 ⊢
              refine addChild_size dest pos _ p3 _ (by omega) (fun _ => ?_) (ihL depth dest p3)
              simpa only [Box.size] using hk2
            · split
              · -- plain content box
                rename_i k hk
                refine Res.Part.bind ((readData_size d (p1 - 8) bh.size (pos + 8) hre).mapErr _) ?_
                rintro ⟨buf, p3⟩ hk1
                dsimp only at hk1 ⊢
                refine addChild_size dest pos _ p3 _ (by omega) (fun _ => ?_) (ihL depth dest p3)
                simp only [Box.size]
                omega
              · -- unknown box, skipped
                refine Res.Part.bind' ((readHeader_part d (p1 - 8)).mapErr _) ?_
                rintro ⟨h, q1⟩ heq2 _
                obtain ⟨_, hr⟩ := hre h q1 (mapErr_eq_ok heq2)
                dsimp only
                split
                · simp
                · rename_i hs
                  refine Res.Part.bind (hr hs) ?_
                  intro q2 hq2
                  split
                  · simp
                  · refine Res.Part.bind ((readToVec_part d q2 _).mapErr _) ?_
                    rintro ⟨_, q3⟩ ⟨hq3, _⟩
                    dsimp only at hq3 ⊢
                    refine (ihL depth dest q3).mono ?_
                    rintro ⟨cs, p4⟩ ⟨h1, h2⟩
                    dsimp only at h1 h2
                    refine ⟨by dsimp only; omega, fun q => ?_⟩
                    have := h2 q
                    dsimp only at this ⊢
                    omega

/-! ### the statements -/

/-- the accepted tree re-serialises to at most 9/8 of the bytes the reader consumed -/
theorem parse_size_bound (x : Bytes) (b : Box) (e : Nat) (h : parse x = .ok (b, e)) (hq : b.QuirkFree) :
    8 * b.size ≤ 9 * e := by
  have := ((parse_size_main x (x.length + 2)).1 0 0).of_eq_ok h
  simpa using this.2 hq

/-- an accepted input of up to 8/9 · 2^32 bytes re-serialises without `u32` truncation -/
theorem parse_size_lt_u32 (x : Bytes) (b : Box) (e : Nat) (h : parse x = .ok (b, e)) (hq : b.QuirkFree)
    (hx : x.length ≤ 3817748707) : b.size < 4294967296 := by
  have h1 := parse_size_bound x b e h hq
  have h2 : e ≤ x.length := ((parse_post x).of_eq_ok h).2.2.2.1
  omega

/-- the `bfdb` media type "a" without terminating NUL: read in 10 bytes, written in 11 -/
def wGrowX : Bytes :=
  be32 55 ++ be32 JUMB ++ serDesc ⟨List.replicate 16 1, 3, [113], none, none, none⟩
    ++ (be32 10 ++ be32 BFDB ++ [0, 97]) ++ (Box.leaf .bidb [1, 2]).ser

def wGrow : Box :=
  .super ⟨List.replicate 16 1, 3, [113], none, none, none⟩ [.bfdb 0 [97] none, .leaf .bidb [1, 2]]

theorem wGrow_accepted : parse wGrowX = .ok (wGrow, 55) := isOk_sound (by decide +kernel)

theorem wGrow_quirkFree : wGrow.QuirkFree := by
  simp [wGrow, Box.QuirkFree, QuirkFreeList]

theorem wGrow_size : wGrow.size = 56 := by decide +kernel

/-- the tighter bound `b.size ≤ e` is false -/
theorem not_parse_size_le : ¬ (∀ x b e, parse x = .ok (b, e) → b.QuirkFree → b.size ≤ e) := by
  intro h
  have := h _ _ _ wGrow_accepted wGrow_quirkFree
  rw [wGrow_size] at this
  omega

end C2pa.C18
