import C2paModel.Model.C30
/-
C30 — helper lemmas: escape/unescape, requote, attribute-list editing, padding lengths.
-/
namespace C2pa.C30

theorem unescGo_escChar (c : Char) (t : Str) :
    unescGo none (escChar c ++ t) = (unescGo none t).map (c :: ·) := by
  unfold escChar
  split
  · subst_vars; simp [eLt, unescGo, resolve, resolveNamed]
  · split
    · subst_vars; simp [eGt, unescGo, resolve, resolveNamed]
    · split
      · subst_vars; simp [eAmp, unescGo, resolve, resolveNamed]
      · split
        · subst_vars; simp [eApos, unescGo, resolve, resolveNamed]
        · split
          · subst_vars; simp [eQuot, unescGo, resolve, resolveNamed]
          · rename_i h1 h2 h3 h4 h5
            simp [unescGo, h3]

theorem unescGo_escape (s : Str) : unescGo none (escape s) = some s := by
  induction s with
  | nil => simp [escape, unescGo]
  | cons c cs ih => simp [escape, unescGo_escChar, ih]

theorem digitVal_quote (radix : Nat) : digitVal radix '"' = none := by
  simp [digitVal]

theorem parseDigits_quote (radix : Nat) (s : Str) (h : '"' ∈ s) :
    ∀ acc, parseDigits radix acc s = none := by
  induction s with
  | nil => cases h
  | cons c cs ih =>
    intro acc
    unfold parseDigits
    by_cases hc : c = '"'
    · subst hc; simp [digitVal_quote]
    · have hm : '"' ∈ cs := by
        rcases List.mem_cons.1 h with h | h
        · exact absurd h.symm hc
        · exact h
      cases hd : digitVal radix c with
      | none => simp
      | some d =>
        simp only
        split
        · exact ih hm _
        · rfl

theorem fromStrRadix_quote (radix : Nat) (s : Str) (h : '"' ∈ s) : fromStrRadix radix s = none := by
  unfold fromStrRadix
  cases s with
  | nil => rfl
  | cons c cs =>
    simp only
    split
    · rfl
    · exact parseDigits_quote radix _ h 0

theorem parseCode_quote (s : Str) (h : '"' ∈ s) : parseCode s = none := by
  unfold parseCode
  split
  · rename_i hex
    apply fromStrRadix_quote
    rcases List.mem_cons.1 h with h | h
    · exact absurd h (by decide)
    · exact h
  · exact fromStrRadix_quote 10 s h

theorem parseNumber_quote (s : Str) (h : '"' ∈ s) : parseNumber s = none := by
  unfold parseNumber
  rw [parseCode_quote s h]

theorem resolveNamed_quote (s : Str) (h : '"' ∈ s) : resolveNamed s = none := by
  unfold resolveNamed
  have h1 : s ≠ ['l', 't'] := by intro e; subst e; revert h; decide
  have h2 : s ≠ ['g', 't'] := by intro e; subst e; revert h; decide
  have h3 : s ≠ ['a', 'm', 'p'] := by intro e; subst e; revert h; decide
  have h4 : s ≠ ['a', 'p', 'o', 's'] := by intro e; subst e; revert h; decide
  have h5 : s ≠ ['q', 'u', 'o', 't'] := by intro e; subst e; revert h; decide
  simp [h1, h2, h3, h4, h5]

theorem resolve_quote (s : Str) (h : '"' ∈ s) : resolve s = none := by
  unfold resolve
  split
  · rename_i num
    have : '"' ∈ num := by
      rcases List.mem_cons.1 h with h | h
      · exact absurd h (by decide)
      · exact h
    simp [parseNumber_quote num this]
  · exact resolveNamed_quote s h

/-- inside a reference that already contains `"`, scanning fails whatever follows -/
theorem unescGo_some_quote (cs : Str) : ∀ acc : Str, '"' ∈ acc → unescGo (some acc) cs = none := by
  induction cs with
  | nil => intro acc _; rfl
  | cons c cs ih =>
    intro acc h
    unfold unescGo
    split
    · have : '"' ∈ acc.reverse := List.mem_reverse.2 h
      simp [resolve_quote _ this]
    · split
      · rfl
      · exact ih (c :: acc) (List.mem_cons_of_mem _ h)

theorem unescGo_eQuot (t : Str) : unescGo none (eQuot ++ t) = (unescGo none t).map ('"' :: ·) := by
  simp [eQuot, unescGo, resolve, resolveNamed]

theorem unescGo_requote (r : Str) :
    ∀ (st : Option Str) (s : Str), unescGo st r = some s → unescGo st (requote r) = some s := by
  induction r with
  | nil => intro st s h; simpa [requote] using h
  | cons c cs ih =>
    intro st s h
    cases st with
    | none =>
      by_cases hq : c = '"'
      · subst hq
        have h' : (unescGo none cs).map ('"' :: ·) = some s := by
          simpa [unescGo] using h
        cases hr : unescGo none cs with
        | none => simp [hr] at h'
        | some u =>
          simp only [requote, if_true]
          rw [unescGo_eQuot, ih none u hr]
          simpa [hr] using h'
      · simp only [requote, hq, if_false, List.singleton_append]
        by_cases ha : c = '&'
        · subst ha
          have h' : unescGo (some []) cs = some s := by simpa [unescGo] using h
          simpa [unescGo] using ih (some []) s h'
        · have h' : (unescGo none cs).map (c :: ·) = some s := by simpa [unescGo, ha] using h
          cases hr : unescGo none cs with
          | none => simp [hr] at h'
          | some u =>
            simp only [unescGo, ha, if_false]
            rw [ih none u hr]
            simpa [hr] using h'
    | some acc =>
      by_cases hq : c = '"'
      · subst hq
        have : unescGo (some ('"' :: acc)) cs = none := unescGo_some_quote cs _ (List.mem_cons_self ..)
        have h' : unescGo (some ('"' :: acc)) cs = some s := by simpa [unescGo] using h
        rw [this] at h'; cases h'
      · simp only [requote, hq, if_false, List.singleton_append]
        by_cases hs : c = ';'
        · subst hs
          cases hres : resolve acc.reverse with
          | none => simp [unescGo, hres] at h
          | some rr =>
            have h' : (unescGo none cs).map (rr ++ ·) = some s := by simpa [unescGo, hres] using h
            cases hr : unescGo none cs with
            | none => simp [hr] at h'
            | some u =>
              simp only [unescGo, if_true, hres]
              rw [ih none u hr]
              simpa [hr] using h'
        · by_cases ha : c = '&'
          · subst ha; simp [unescGo] at h
          · have h' : unescGo (some (c :: acc)) cs = some s := by simpa [unescGo, hs, ha] using h
            simpa [unescGo, hs, ha] using ih (some (c :: acc)) s h'

theorem unescape_requote (r s : Str) (h : unescape r = some s) : unescape (requote r) = some s :=
  unescGo_requote r none s h

theorem requote_of_no_quote (r : Str) (h : '"' ∉ r) : requote r = r := by
  induction r with
  | nil => rfl
  | cons c cs ih =>
    have hc : c ≠ '"' := fun e => h (e ▸ List.mem_cons_self ..)
    have hcs : '"' ∉ cs := fun m => h (List.mem_cons_of_mem _ m)
    simp [requote, hc, ih hcs]

theorem requote_append (a b : Str) : requote (a ++ b) = requote a ++ requote b := by
  induction a with
  | nil => rfl
  | cons c cs ih => simp [requote, ih]

theorem requote_no_quote (r : Str) : '"' ∉ requote r := by
  induction r with
  | nil => simp [requote]
  | cons c cs ih =>
    by_cases hc : c = '"'
    · subst hc; simp only [requote, if_true, List.mem_append, not_or]; exact ⟨by decide, ih⟩
    · simp only [requote, hc, if_false, List.mem_append, not_or]
      exact ⟨by simpa using fun e => hc e.symm, ih⟩

theorem requote_idem (r : Str) : requote (requote r) = requote r :=
  requote_of_no_quote _ (requote_no_quote r)

/-! ### attribute lists -/

def reqAttr (a : Attr) : Attr := { key := a.key, val := requote a.val }

theorem editAttr_key (k ev : Str) (a : Attr) : (editAttr k ev a).key = a.key := by
  unfold editAttr; split
  · rename_i h; exact h.symm
  · rfl

theorem editAttr_of_ne (k ev : Str) (a : Attr) (h : a.key ≠ k) : editAttr k ev a = reqAttr a := by
  simp [editAttr, h, reqAttr]

theorem editAttr_of_eq (k ev : Str) (a : Attr) (h : a.key = k) : editAttr k ev a = ⟨k, ev⟩ := by
  simp [editAttr, h]

theorem findAttr_append (k : Str) (as bs : List Attr) :
    findAttr k (as ++ bs) = (findAttr k as).or (findAttr k bs) := by
  induction as with
  | nil => simp [findAttr]
  | cons a as ih =>
    simp only [List.cons_append, findAttr]
    split
    · simp
    · exact ih

theorem findAttr_none_iff (k : Str) (as : List Attr) :
    findAttr k as = none ↔ as.any (fun a => a.key = k) = false := by
  induction as with
  | nil => simp [findAttr]
  | cons a as ih =>
    simp only [findAttr, List.any_cons]
    by_cases h : a.key = k
    · simp [h]
    · simp [h, ih]

theorem findAttr_map_edit_self (k ev : Str) (as : List Attr) :
    findAttr k (as.map (editAttr k ev)) =
      if as.any (fun a => a.key = k) then some ⟨k, ev⟩ else none := by
  induction as with
  | nil => simp [findAttr]
  | cons a as ih =>
    simp only [List.map_cons, findAttr, editAttr_key, List.any_cons]
    by_cases h : a.key = k
    · simp [h, editAttr_of_eq]
    · simp [h, ih]

theorem findAttr_editAttrs_self (k ev : Str) (as : List Attr) :
    findAttr k (editAttrs k ev as) = some ⟨k, ev⟩ := by
  unfold editAttrs
  split
  · rename_i h; rw [findAttr_map_edit_self]; simp [h]
  · rename_i h
    rw [findAttr_append, findAttr_map_edit_self]
    simp [h, findAttr]

theorem findAttr_map_edit_other (k ev k' : Str) (hk : k' ≠ k) (as : List Attr) :
    findAttr k' (as.map (editAttr k ev)) = (findAttr k' as).map reqAttr := by
  induction as with
  | nil => simp [findAttr]
  | cons a as ih =>
    simp only [List.map_cons, findAttr, editAttr_key]
    by_cases h : a.key = k'
    · have : a.key ≠ k := fun e => hk (h ▸ e)
      simp [h, editAttr_of_ne _ _ _ this]
    · simp [h, ih]

theorem findAttr_editAttrs_other (k ev k' : Str) (hk : k' ≠ k) (as : List Attr) :
    findAttr k' (editAttrs k ev as) = (findAttr k' as).map reqAttr := by
  unfold editAttrs
  split
  · exact findAttr_map_edit_other k ev k' hk as
  · rw [findAttr_append, findAttr_map_edit_other k ev k' hk as]
    have : findAttr k' [({ key := k, val := ev } : Attr)] = none := by
      simp only [findAttr]; rw [if_neg (fun e : k = k' => hk e.symm)]
    simp [this]

theorem filter_map_edit (k ev : Str) (as : List Attr) :
    (as.map (editAttr k ev)).filter (fun a => !decide (a.key = k)) =
      (as.filter (fun a => !decide (a.key = k))).map reqAttr := by
  induction as with
  | nil => rfl
  | cons a as ih =>
    simp only [List.map_cons, List.filter_cons, editAttr_key]
    by_cases h : a.key = k
    · simp [h, ih]
    · simp [h, ih, editAttr_of_ne _ _ _ h]

theorem filter_editAttrs (k ev : Str) (as : List Attr) :
    (editAttrs k ev as).filter (fun a => !decide (a.key = k)) =
      (as.filter (fun a => !decide (a.key = k))).map reqAttr := by
  unfold editAttrs
  split
  · exact filter_map_edit k ev as
  · rw [List.filter_append, filter_map_edit]; simp

theorem map_key_edit (k ev : Str) (as : List Attr) :
    (as.map (editAttr k ev)).map (·.key) = as.map (·.key) := by
  induction as with
  | nil => rfl
  | cons a as ih => simp [editAttr_key, ih]

theorem dupKeys_false_iff (as : List Attr) : dupKeys as = false ↔ (as.map (·.key)).Nodup := by
  induction as with
  | nil => simp [dupKeys]
  | cons a as ih =>
    simp only [dupKeys, Bool.or_eq_false_iff, List.map_cons, List.nodup_cons, ih]
    constructor
    · rintro ⟨h1, h2⟩
      refine ⟨?_, h2⟩
      intro hm
      obtain ⟨b, hb, hbk⟩ := List.mem_map.1 hm
      have : as.any (fun b => decide (b.key = a.key)) = true := List.any_eq_true.2 ⟨b, hb, by simpa using hbk⟩
      rw [h1] at this; cases this
    · rintro ⟨h1, h2⟩
      refine ⟨?_, h2⟩
      apply Bool.eq_false_iff.2
      intro ht
      obtain ⟨b, hb, hbk⟩ := List.any_eq_true.1 ht
      exact h1 (List.mem_map.2 ⟨b, hb, by simpa using hbk⟩)

theorem any_key_iff (k : Str) (as : List Attr) :
    as.any (fun a => decide (a.key = k)) = true ↔ k ∈ as.map (·.key) := by
  simp [List.any_eq_true, List.mem_map]

theorem dupKeys_editAttrs (k ev : Str) (as : List Attr) (h : dupKeys as = false) :
    dupKeys (editAttrs k ev as) = false := by
  rw [dupKeys_false_iff] at h ⊢
  unfold editAttrs
  split
  · rw [map_key_edit]; exact h
  · rename_i hn
    rw [List.map_append, map_key_edit]
    have hk : k ∉ as.map (·.key) := fun m => hn ((any_key_iff k as).2 m)
    simpa [List.nodup_append, h] using hk

theorem any_editAttrs (k ev : Str) (as : List Attr) :
    (editAttrs k ev as).any (fun a => decide (a.key = k)) = true := by
  have := findAttr_editAttrs_self k ev as
  cases h : (editAttrs k ev as).any (fun a => decide (a.key = k)) with
  | true => rfl
  | false => rw [(findAttr_none_iff k _).2 h] at this; cases this

theorem editAttr_idem (k ev : Str) (a : Attr) : editAttr k ev (editAttr k ev a) = editAttr k ev a := by
  by_cases h : a.key = k
  · simp [editAttr, h]
  · simp [editAttr, h, requote_idem]

theorem editAttrs_of_any (k ev : Str) (as : List Attr)
    (h : as.any (fun a => decide (a.key = k)) = true) : editAttrs k ev as = as.map (editAttr k ev) := by
  unfold editAttrs; rw [if_pos h]

theorem editAttrs_idem (k ev : Str) (as : List Attr) :
    editAttrs k ev (editAttrs k ev as) = editAttrs k ev as := by
  rw [editAttrs_of_any k ev _ (any_editAttrs k ev as)]
  unfold editAttrs
  split
  · simp [List.map_map, Function.comp_def, editAttr_idem]
  · have hlast : editAttr k ev ({ key := k, val := ev } : Attr) = { key := k, val := ev } := by
      simp [editAttr]
    simp [List.map_append, List.map_map, Function.comp_def, editAttr_idem, hlast]

/-! ### lengths and padding -/

theorem utf8Len_append (a b : Str) : utf8Len (a ++ b) = utf8Len a + utf8Len b := by
  induction a with
  | nil => simp [utf8Len]
  | cons c cs ih => simp [utf8Len, ih, Nat.add_assoc]

theorem utf8Len_replicate_space (n : Nat) : utf8Len (List.replicate n ' ') = n := by
  induction n with
  | zero => rfl
  | succ n ih =>
    have : Char.utf8Size ' ' = 1 := by decide
    simp [List.replicate_succ, utf8Len, ih, this, Nat.add_comm]

theorem utf8Len_padChunks (r : Nat) : utf8Len (padChunks r) = r := by
  induction r using Nat.strongRecOn with
  | _ r ih =>
    rw [padChunks]
    split
    · rename_i h; simp [h, utf8Len]
    · rename_i h
      simp only
      rw [utf8Len_append, utf8Len_replicate_space]
      split
      · rename_i h0; simp [utf8Len]; omega
      · rename_i h0
        have hnl : Char.utf8Size '\n' = 1 := by decide
        simp only [utf8Len, hnl]
        rw [ih (r - min r 99 - 1) (by omega)]
        omega

theorem utf8Len_padding (n : Nat) : utf8Len (padding n) = max n 1 := by
  have hnl : Char.utf8Size '\n' = 1 := by decide
  unfold padding
  split
  · rename_i h; simp [utf8Len, hnl]; omega
  · rename_i h
    simp only [utf8Len, utf8Len_append, utf8Len_padChunks, hnl]
    omega

theorem utf8Len_xmpEnd : utf8Len xmpEnd = 19 := by decide

theorem blank_padChunks (r : Nat) : ∀ c ∈ padChunks r, c = ' ' ∨ c = '\n' := by
  induction r using Nat.strongRecOn with
  | _ r ih =>
    rw [padChunks]
    split
    · intro c hc; cases hc
    · rename_i h
      intro c hc
      simp only [List.mem_append] at hc
      rcases hc with hc | hc
      · exact Or.inl (List.eq_of_mem_replicate hc)
      · split at hc
        · cases hc
        · rcases List.mem_cons.1 hc with hc | hc
          · exact Or.inr hc
          · exact ih _ (by omega) c hc

theorem blank_padding (n : Nat) : ∀ c ∈ padding n, c = ' ' ∨ c = '\n' := by
  unfold padding
  split
  · intro c hc; simp at hc; exact Or.inr hc
  · intro c hc
    simp only [List.mem_cons, List.mem_append, List.not_mem_nil, or_false] at hc
    rcases hc with hc | hc | hc
    · exact Or.inr hc
    · exact blank_padChunks _ c hc
    · exact Or.inr hc

theorem padding_max (n : Nat) : padding (max n 1) = padding n := by
  unfold padding
  by_cases h : n = 0
  · subst h; rfl
  · have : max n 1 = n := by omega
    rw [this]

end C2pa.C30
