import C2paModel.Lemmas.C34
/-
C34 — manifest label parts: well-formedness, Display as a `:`-join, one round-trip lemma per label shape.
-/
set_option linter.unusedSimpArgs false
namespace C2pa.C34


theorem norm_noSlash {s : Str} (h : '/' ∉ s) : ∃ o, toNormalizedUri s = some o ∧ '/' ∉ o := by
  have key : ∀ x ∈ splitOnC '=' s, '/' ∉ x := fun x hx hc => h (mem_of_mem_splitOnC hx hc)
  have fin : ∀ x, '/' ∉ x →
      ∃ o, (if (!x.isEmpty && (cManifestStore ++ ['/']).isPrefixOf x) = true then some ('/' :: x) else some x) = some o ∧ '/' ∉ o := by
    intro x hx
    have : (cManifestStore ++ ['/']).isPrefixOf x = false := by
      cases hp : (cManifestStore ++ ['/']).isPrefixOf x with
      | false => rfl
      | true => exact absurd (isPrefixOf_mem hp (by decide)) hx
    exact ⟨x, by simp [this], hx⟩
  unfold toNormalizedUri
  cases hs : splitOnC '=' s with
  | nil => exact absurd hs (splitOnC_ne_nil _ _)
  | cons a t =>
    rw [hs] at key
    cases t with
    | nil => simpa [idx] using fin a (key a (by simp))
    | cons b t' => simpa [idx] using fin b (key b (by simp))

theorem mlabel_noSlash {s : Str} (h : '/' ∉ s) : manifestLabelFromUri s = some none := by
  obtain ⟨o, ho, hs⟩ := norm_noSlash h
  simp [manifestLabelFromUri, ho, splitOnC_of_not_mem hs, lenGtAndEq]


/-- no `:` and no `/` -/
def clean (s : Str) : Bool := !s.contains ':' && !s.contains '/'

def optLt (o : Option Nat) : Bool :=
  match o with
  | none => true
  | some n => decide (n < usizeLimit)

/-- Well-formed parts: exactly what the label grammar can carry. -/
def WF (p : Parts) : Bool :=
  clean p.guid
  && (match p.cgi with | none => true | some v => clean v)
  && (if p.isV1 then p.version.isNone && p.reason.isNone
      else (match p.cgi with | none => true | some v => !v.isEmpty && !vendorBad v)
        && (p.reason.isNone || p.version.isSome) && optLt p.version && optLt p.reason)

theorem clean_iff {s : Str} : clean s = true ↔ ':' ∉ s ∧ '/' ∉ s := by
  simp [clean]

theorem showNat_isEmpty (n : Nat) : (showNat n).isEmpty = false := by
  cases h : showNat n with
  | nil => exact absurd h (showNat_ne_nil n)
  | cons _ _ => rfl

theorem colon_not_mem_showNat (n : Nat) : ':' ∉ showNat n := not_mem_showNat (by decide) n
theorem slash_not_mem_showNat (n : Nat) : '/' ∉ showNat n := not_mem_showNat (by decide) n
theorem us_not_mem_showNat (n : Nat) : '_' ∉ showNat n := not_mem_showNat (by decide) n

theorem split_ver (n : Nat) : splitOnC '_' (showNat n) = [showNat n] :=
  splitOnC_of_not_mem (us_not_mem_showNat n)

theorem split_ver_reason (n r : Nat) :
    splitOnC '_' (showNat n ++ '_' :: showNat r) = [showNat n, showNat r] := by
  rw [splitOnC_append_sep _ (us_not_mem_showNat n), split_ver]

/-! display as a join of `:`-free pieces -/
theorem disp_v1_none (g : Str) (ver rsn) :
    display ⟨g, true, none, ver, rsn⟩ = joinWith ':' [cUrn, cUuid, g] := by
  simp [display, joinWith, cUrn, cUuid]
theorem disp_v1_some (g v : Str) (ver rsn) :
    display ⟨g, true, some v, ver, rsn⟩ = joinWith ':' [v, cUrn, cUuid, g] := by
  simp [display, joinWith, cUrn, cUuid]
theorem disp_v2_nn (g : Str) (rsn) :
    display ⟨g, false, none, none, rsn⟩ = joinWith ':' [cUrn, cC2pa, g] := by
  simp [display, joinWith, cUrn, cC2pa]
theorem disp_v2_sn (g v : Str) (rsn) :
    display ⟨g, false, some v, none, rsn⟩ = joinWith ':' [cUrn, cC2pa, g, v] := by
  simp [display, joinWith, cUrn, cC2pa]
theorem disp_v2_nvn (g : Str) (n : Nat) :
    display ⟨g, false, none, some n, none⟩ = joinWith ':' [cUrn, cC2pa, g, [], showNat n] := by
  simp [display, joinWith, cUrn, cC2pa]
theorem disp_v2_nvr (g : Str) (n r : Nat) :
    display ⟨g, false, none, some n, some r⟩ = joinWith ':' [cUrn, cC2pa, g, [], showNat n ++ '_' :: showNat r] := by
  simp [display, joinWith, cUrn, cC2pa]
theorem disp_v2_svn (g v : Str) (n : Nat) :
    display ⟨g, false, some v, some n, none⟩ = joinWith ':' [cUrn, cC2pa, g, v, showNat n] := by
  simp [display, joinWith, cUrn, cC2pa]
theorem disp_v2_svr (g v : Str) (n r : Nat) :
    display ⟨g, false, some v, some n, some r⟩ = joinWith ':' [cUrn, cC2pa, g, v, showNat n ++ '_' :: showNat r] := by
  simp [display, joinWith, cUrn, cC2pa]

/-- the parser applied to a `:`-join of pieces none of which contains `:` or `/` -/
theorem parts_of_join {l : List Str} (hne : l ≠ []) (h : ∀ x ∈ l, ':' ∉ x ∧ '/' ∉ x) :
    manifestLabelFromUri (joinWith ':' l) = some none ∧ splitOnC ':' (joinWith ':' l) = l := by
  constructor
  · apply mlabel_noSlash
    intro hm
    rcases mem_joinWith hm with h1 | ⟨x, hx, hc⟩
    · exact absurd h1 (by decide)
    · exact (h x hx).2 hc
  · exact split_join ':' l hne (fun x hx => (h x hx).1)


abbrev Cl (x : Str) : Prop := ':' ∉ x ∧ '/' ∉ x
theorem cl_urn : Cl cUrn := by decide
theorem cl_uuid : Cl cUuid := by decide
theorem cl_c2pa : Cl cC2pa := by decide
theorem cl_nil : Cl [] := by decide
theorem cl_showNat (n : Nat) : Cl (showNat n) := ⟨colon_not_mem_showNat n, slash_not_mem_showNat n⟩
theorem cl_ver_reason (n r : Nat) : Cl (showNat n ++ '_' :: showNat r) := by
  have := cl_showNat n; have := cl_showNat r
  refine ⟨?_, ?_⟩ <;> simp [List.mem_append] <;> simp_all

theorem c2pa_ne_urn : cC2pa ≠ cUrn := by decide
theorem c2pa_ne_uuid : cC2pa ≠ cUuid := by decide
theorem uuid_ne_urn : cUuid ≠ cUrn := by decide

theorem rt_v1_none {g : Str} (hg : Cl g) :
    manifestLabelToParts (display ⟨g, true, none, none, none⟩) = some (some ⟨g, true, none, none, none⟩) := by
  rw [disp_v1_none]
  obtain ⟨h1, h2⟩ := parts_of_join (l := [cUrn, cUuid, g]) (by simp)
    (by intro x hx; simp at hx; rcases hx with rfl | rfl | rfl
        · exact cl_urn
        · exact cl_uuid
        · exact hg)
  simp [manifestLabelToParts, h1, h2, idx, parseVendor, parseVersion, split_ver_reason, split_ver,
    parseUsize_showNat, showNat_isEmpty, showNat_ne_nil, c2pa_ne_urn, c2pa_ne_uuid, uuid_ne_urn]

theorem rt_v1_some {g : Str} (hg : Cl g) {v : Str} (hv : Cl v) :
    manifestLabelToParts (display ⟨g, true, some v, none, none⟩) = some (some ⟨g, true, some v, none, none⟩) := by
  rw [disp_v1_some]
  obtain ⟨h1, h2⟩ := parts_of_join (l := [v, cUrn, cUuid, g]) (by simp)
    (by intro x hx; simp at hx; rcases hx with rfl | rfl | rfl | rfl
        · exact hv
        · exact cl_urn
        · exact cl_uuid
        · exact hg)
  simp [manifestLabelToParts, h1, h2, idx, parseVendor, parseVersion, split_ver_reason, split_ver,
    parseUsize_showNat, showNat_isEmpty, showNat_ne_nil, c2pa_ne_urn, c2pa_ne_uuid, uuid_ne_urn]

theorem rt_v2_nn {g : Str} (hg : Cl g) :
    manifestLabelToParts (display ⟨g, false, none, none, none⟩) = some (some ⟨g, false, none, none, none⟩) := by
  rw [disp_v2_nn]
  obtain ⟨h1, h2⟩ := parts_of_join (l := [cUrn, cC2pa, g]) (by simp)
    (by intro x hx; simp at hx; rcases hx with rfl | rfl | rfl
        · exact cl_urn
        · exact cl_c2pa
        · exact hg)
  simp [manifestLabelToParts, h1, h2, idx, parseVendor, parseVersion, split_ver_reason, split_ver,
    parseUsize_showNat, showNat_isEmpty, showNat_ne_nil, c2pa_ne_urn, c2pa_ne_uuid, uuid_ne_urn]

theorem rt_v2_sn {g : Str} (hg : Cl g) {v : Str} (hv : Cl v) (hve : v ≠ []) (hvb : vendorBad v = false) :
    manifestLabelToParts (display ⟨g, false, some v, none, none⟩) = some (some ⟨g, false, some v, none, none⟩) := by
  rw [disp_v2_sn]
  obtain ⟨h1, h2⟩ := parts_of_join (l := [cUrn, cC2pa, g, v]) (by simp)
    (by intro x hx; simp at hx; rcases hx with rfl | rfl | rfl | rfl
        · exact cl_urn
        · exact cl_c2pa
        · exact hg
        · exact hv)
  simp [manifestLabelToParts, h1, h2, idx, parseVendor, parseVersion, split_ver_reason, split_ver,
    parseUsize_showNat, showNat_isEmpty, showNat_ne_nil, c2pa_ne_urn, c2pa_ne_uuid, uuid_ne_urn, hve, hvb]

theorem rt_v2_nvn {g : Str} (hg : Cl g) {n : Nat} (hn : n < usizeLimit) :
    manifestLabelToParts (display ⟨g, false, none, some n, none⟩) = some (some ⟨g, false, none, some n, none⟩) := by
  rw [disp_v2_nvn]
  obtain ⟨h1, h2⟩ := parts_of_join (l := [cUrn, cC2pa, g, [], showNat n]) (by simp)
    (by intro x hx; simp at hx; rcases hx with rfl | rfl | rfl | rfl | rfl
        · exact cl_urn
        · exact cl_c2pa
        · exact hg
        · exact cl_nil
        · exact cl_showNat n)
  simp [manifestLabelToParts, h1, h2, idx, parseVendor, parseVersion, split_ver_reason, split_ver,
    parseUsize_showNat, showNat_isEmpty, showNat_ne_nil, c2pa_ne_urn, c2pa_ne_uuid, uuid_ne_urn, hn]

theorem rt_v2_nvr {g : Str} (hg : Cl g) {n : Nat} (hn : n < usizeLimit) {r : Nat} (hr : r < usizeLimit) :
    manifestLabelToParts (display ⟨g, false, none, some n, some r⟩) = some (some ⟨g, false, none, some n, some r⟩) := by
  rw [disp_v2_nvr]
  obtain ⟨h1, h2⟩ := parts_of_join (l := [cUrn, cC2pa, g, [], showNat n ++ '_' :: showNat r]) (by simp)
    (by intro x hx; simp at hx; rcases hx with rfl | rfl | rfl | rfl | rfl
        · exact cl_urn
        · exact cl_c2pa
        · exact hg
        · exact cl_nil
        · exact cl_ver_reason n r)
  simp [manifestLabelToParts, h1, h2, idx, parseVendor, parseVersion, split_ver_reason, split_ver,
    parseUsize_showNat, showNat_isEmpty, showNat_ne_nil, c2pa_ne_urn, c2pa_ne_uuid, uuid_ne_urn, hn, hr]

theorem rt_v2_svn {g : Str} (hg : Cl g) {v : Str} (hv : Cl v) (hve : v ≠ []) (hvb : vendorBad v = false) {n : Nat} (hn : n < usizeLimit) :
    manifestLabelToParts (display ⟨g, false, some v, some n, none⟩) = some (some ⟨g, false, some v, some n, none⟩) := by
  rw [disp_v2_svn]
  obtain ⟨h1, h2⟩ := parts_of_join (l := [cUrn, cC2pa, g, v, showNat n]) (by simp)
    (by intro x hx; simp at hx; rcases hx with rfl | rfl | rfl | rfl | rfl
        · exact cl_urn
        · exact cl_c2pa
        · exact hg
        · exact hv
        · exact cl_showNat n)
  simp [manifestLabelToParts, h1, h2, idx, parseVendor, parseVersion, split_ver_reason, split_ver,
    parseUsize_showNat, showNat_isEmpty, showNat_ne_nil, c2pa_ne_urn, c2pa_ne_uuid, uuid_ne_urn, hve, hvb, hn]

theorem rt_v2_svr {g : Str} (hg : Cl g) {v : Str} (hv : Cl v) (hve : v ≠ []) (hvb : vendorBad v = false) {n : Nat} (hn : n < usizeLimit) {r : Nat} (hr : r < usizeLimit) :
    manifestLabelToParts (display ⟨g, false, some v, some n, some r⟩) = some (some ⟨g, false, some v, some n, some r⟩) := by
  rw [disp_v2_svr]
  obtain ⟨h1, h2⟩ := parts_of_join (l := [cUrn, cC2pa, g, v, showNat n ++ '_' :: showNat r]) (by simp)
    (by intro x hx; simp at hx; rcases hx with rfl | rfl | rfl | rfl | rfl
        · exact cl_urn
        · exact cl_c2pa
        · exact hg
        · exact hv
        · exact cl_ver_reason n r)
  simp [manifestLabelToParts, h1, h2, idx, parseVendor, parseVersion, split_ver_reason, split_ver,
    parseUsize_showNat, showNat_isEmpty, showNat_ne_nil, c2pa_ne_urn, c2pa_ne_uuid, uuid_ne_urn, hve, hvb, hn, hr]


/-! ### what the vendor tests accept -/


/-- printable, non-space ASCII -/
def visible (c : Char) : Bool := 33 ≤ c.toNat && c.toNat ≤ 126

theorem utf8Size_visible (c : Char) (h : visible c = true) : c.utf8Size = 1 := by
  simp [visible] at h
  have h1 : c.val.toNat ≤ 127 := by have := h.2; rw [← Char.toNat_val] at this; omega
  simp [Char.utf8Size]
  intro h2
  exfalso
  rw [UInt32.lt_iff_toNat_lt] at h2
  simp at h2
  omega

theorem isWs_visible (c : Char) (h : visible c = true) : isWs c = false := by
  simp [visible] at h
  simp [isWs]
  omega

theorem utf8Len_visible : ∀ (v : Str), (∀ c ∈ v, visible c = true) → utf8Len v = v.length
  | [], _ => rfl
  | c :: cs, h => by
    simp [utf8Len, utf8Size_visible c (h c (by simp)), utf8Len_visible cs (fun d hd => h d (by simp [hd]))]
    omega

theorem wsTok_true_visible : ∀ (v : Str), (∀ c ∈ v, visible c = true) → wsTokAux true v = 0
  | [], _ => rfl
  | c :: cs, h => by
    simp [wsTokAux, isWs_visible c (h c (by simp)), wsTok_true_visible cs (fun d hd => h d (by simp [hd]))]

theorem isAscii_visible (v : Str) (h : ∀ c ∈ v, visible c = true) : isAscii v = true := by
  simp only [isAscii, List.all_eq_true, decide_eq_true_eq]
  intro c hc
  have := h c hc
  simp [visible] at this
  omega

/-- a vendor of 1..=32 printable non-space ASCII characters passes the three vendor tests -/
theorem vendorBad_visible {v : Str} (hne : v ≠ []) (hlen : v.length ≤ 32)
    (hv : ∀ c ∈ v, visible c = true) : vendorBad v = false := by
  have h1 := utf8Len_visible v hv
  have h3 := isAscii_visible v hv
  have h2 : wsTokenCount v = 1 := by
    cases v with
    | nil => exact absurd rfl hne
    | cons c cs =>
      simp [wsTokenCount, wsTokAux, isWs_visible c (hv c (by simp)),
        wsTok_true_visible cs (fun d hd => hv d (by simp [hd]))]
  simp [vendorBad, h1, h2, h3]
  omega

end C2pa.C34
