import C2paModel.Model.C29
namespace C2pa.C29

theorem splitSlash_ne_nil (p : Str) : splitSlash p ≠ [] := by
  induction p with
  | nil => simp [splitSlash]
  | cons c cs ih =>
    unfold splitSlash
    split
    · simp
    · split <;> simp

theorem splitSlash_noslash (p : Str) : ∀ s ∈ splitSlash p, 47 ∉ s := by
  induction p with
  | nil => simp [splitSlash]
  | cons c cs ih =>
    unfold splitSlash
    split
    · intro s hs
      simp at hs
      rcases hs with rfl | hs
      · simp
      · exact ih s hs
    · rename_i hc
      split
      · intro s hs; simp at hs; subst hs; simp; exact fun h => hc h.symm
      · rename_i s' ss heq
        intro s hs
        simp at hs
        rcases hs with rfl | hs
        · have := ih s' (by rw [heq]; simp)
          simp; exact ⟨fun h => hc h.symm, this⟩
        · exact ih s (by rw [heq]; simp [hs])

theorem splitSlash_sub (p : Str) : ∀ s ∈ splitSlash p, ∀ c ∈ s, c ∈ p := by
  induction p with
  | nil => simp [splitSlash]
  | cons c cs ih =>
    unfold splitSlash
    split
    · intro s hs x hx
      simp at hs
      rcases hs with rfl | hs
      · simp at hx
      · exact List.mem_cons_of_mem _ (ih s hs x hx)
    · split
      · intro s hs x hx; simp at hs; subst hs; simp at hx; simp [hx]
      · rename_i s' ss heq
        intro s hs x hx
        simp at hs
        rcases hs with rfl | hs
        · simp at hx
          rcases hx with rfl | hx
          · simp
          · exact List.mem_cons_of_mem _ (ih s' (by rw [heq]; simp) x hx)
        · exact List.mem_cons_of_mem _ (ih s (by rw [heq]; simp [hs]) x hx)

theorem splitSlash_cons_slash (cs : Str) : splitSlash (47 :: cs) = [] :: splitSlash cs := by
  rw [splitSlash]; simp

theorem splitSlash_cons_ne (c : Nat) (cs s : Str) (ss : Segs) (hc : c ≠ 47)
    (h : splitSlash cs = s :: ss) : splitSlash (c :: cs) = (c :: s) :: ss := by
  rw [splitSlash, if_neg hc, h]

theorem splitSlash_of_noslash (n : Str) (h : 47 ∉ n) : splitSlash n = [n] := by
  induction n with
  | nil => simp [splitSlash]
  | cons c cs ih =>
    simp at h
    exact splitSlash_cons_ne c cs cs [] (fun hc => h.1 hc.symm) (ih h.2)

theorem splitSlash_append_slash (n rest : Str) (h : 47 ∉ n) :
    splitSlash (n ++ 47 :: rest) = n :: splitSlash rest := by
  induction n with
  | nil => simp [splitSlash]
  | cons c cs ih =>
    simp at h
    exact splitSlash_cons_ne c _ cs _ (fun hc => h.1 hc.symm) (ih h.2)

theorem splitSlash_joinSlash (names : Segs) (hne : names ≠ []) (h : ∀ n ∈ names, 47 ∉ n) :
    splitSlash (joinSlash names) = names := by
  induction names with
  | nil => exact absurd rfl hne
  | cons n ns ih =>
    cases ns with
    | nil => simp [joinSlash]; exact splitSlash_of_noslash n (h n (by simp))
    | cons m ms =>
      show splitSlash (n ++ 47 :: joinSlash (m :: ms)) = _
      rw [splitSlash_append_slash _ _ (h n (by simp)), ih (by simp) (fun x hx => h x (by simp [hx]))]

theorem joinSlash_splitSlash (p : Str) : joinSlash (splitSlash p) = p := by
  induction p with
  | nil => simp [splitSlash, joinSlash]
  | cons c cs ih =>
    unfold splitSlash
    split
    · rename_i hc
      have hne := splitSlash_ne_nil cs
      cases h : splitSlash cs with
      | nil => exact absurd h hne
      | cons s ss => rw [h] at ih; subst hc; simp [joinSlash, ih]
    · split
      · rename_i heq; exact absurd heq (splitSlash_ne_nil cs)
      · rename_i s ss heq
        rw [heq] at ih
        cases ss with
        | nil => simp [joinSlash] at ih ⊢; exact ih
        | cons t ts => simp [joinSlash] at ih ⊢; exact ih

theorem rooted_splitSlash (p : Str) : rooted (splitSlash p) = isRooted p := by
  cases p with
  | nil => simp [splitSlash, rooted, isRooted]
  | cons c cs =>
    unfold splitSlash
    split
    · rename_i hc
      have hne := splitSlash_ne_nil cs
      cases h : splitSlash cs with
      | nil => exact absurd h hne
      | cons s ss => simp [rooted, isRooted, hc]
    · rename_i hc
      split
      · simp [rooted, isRooted, hc]
      · simp [rooted, isRooted, hc]

end C2pa.C29
