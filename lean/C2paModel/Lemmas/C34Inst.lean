import C2paModel.Lemmas.C34Uri
import C2paModel.Lemmas.C34Parts
/-
C34 — instance suffixes: `split("__")`, plain labels, ingredient-thumbnail labels.
-/
set_option linter.unusedSimpArgs false
namespace C2pa.C34


/-- no two adjacent underscores -/
def noDU : Str → Bool
  | a :: b :: rest => !(a == '_' && b == '_') && noDU (b :: rest)
  | _ => true

theorem splitDU_noDU : ∀ (l : Str), noDU l = true → splitDU l = [l]
  | [], _ => rfl
  | [a], _ => rfl
  | a :: b :: rest, h => by
    simp only [noDU, Bool.and_eq_true, Bool.not_eq_true', Bool.and_eq_false_iff, beq_eq_false_iff_ne] at h
    have ih := splitDU_noDU (b :: rest) h.2
    have hc : ¬(a = '_' ∧ b = '_') := by
      rintro ⟨rfl, rfl⟩; rcases h.1 with h1 | h1 <;> exact h1 rfl
    simp [splitDU, hc, ih, headCons]

theorem noDU_of_not_mem : ∀ (l : Str), '_' ∉ l → noDU l = true
  | [], _ => rfl
  | [a], _ => rfl
  | a :: b :: rest, h => by
    have ha : a ≠ '_' := fun e => h (by simp [e])
    have ih := noDU_of_not_mem (b :: rest) (fun e => h (List.mem_cons_of_mem _ e))
    simp [noDU, ha, ih]

theorem splitDU_of_not_mem {l : Str} (h : '_' ∉ l) : splitDU l = [l] :=
  splitDU_noDU l (noDU_of_not_mem l h)

theorem splitDU_append_du : ∀ (l r : Str), noDU l = true → l.getLast? ≠ some '_' →
    splitDU (l ++ '_' :: '_' :: r) = l :: splitDU r
  | [], r, _, _ => by simp [splitDU]
  | [a], r, _, hl => by
    have ha : a ≠ '_' := by simpa using hl
    simp [splitDU, ha, headCons]
  | a :: b :: rest, r, h, hl => by
    simp only [noDU, Bool.and_eq_true, Bool.not_eq_true', Bool.and_eq_false_iff, beq_eq_false_iff_ne] at h
    have hc : ¬(a = '_' ∧ b = '_') := by
      rintro ⟨rfl, rfl⟩; rcases h.1 with h1 | h1 <;> exact h1 rfl
    have ih := splitDU_append_du (b :: rest) r h.2 (by simpa [List.getLast?_cons_cons] using hl)
    simp only [List.cons_append] at ih ⊢
    simp [splitDU, hc, ih, headCons]

/-- a prefix without `_` of `l ++ '_' :: r` is a prefix of `l` -/
theorem isPrefixOf_of_append_us : ∀ (p l r : Str), '_' ∉ p → p.isPrefixOf (l ++ '_' :: r) = true →
    p.isPrefixOf l = true
  | [], _, _, _, _ => by simp
  | x :: xs, [], r, hp, h => by
    simp at h; exact absurd (List.mem_cons.mpr (Or.inl h.1.symm)) hp
  | x :: xs, y :: ys, r, hp, h => by
    simp at h ⊢
    exact ⟨h.1, by simpa using isPrefixOf_of_append_us xs ys r (fun e => hp (List.mem_cons_of_mem _ e)) (by simpa using h.2)⟩

theorem containsSub_append (pat a b : Str) (h : containsSub pat a = true) : containsSub pat (a ++ b) = true := by
  induction a with
  | nil =>
    simp [containsSub] at h; subst h
    cases b <;> simp [containsSub]
  | cons c cs ih =>
    simp only [containsSub, Bool.or_eq_true] at h
    simp only [List.cons_append, containsSub, Bool.or_eq_true]
    rcases h with h | h
    · left
      rw [List.isPrefixOf_iff_prefix] at h ⊢
      exact h.trans (List.prefix_append _ _)
    · right; exact ih h


theorem thumbnailType_ne_ing {l : Str} (h : cIngThumb.isPrefixOf l = false) : thumbnailType l ≠ cIngThumb := by
  unfold thumbnailType
  split
  · decide
  · simp [h]; decide

theorem thumbnailType_ing (x : Str) : thumbnailType (cIngThumb ++ x) = cIngThumb := by
  have h1 : cClaimThumb.isPrefixOf (cIngThumb ++ x) = false := by
    cases hh : cClaimThumb.isPrefixOf (cIngThumb ++ x) with
    | false => rfl
    | true =>
      rw [List.isPrefixOf_iff_prefix] at hh
      have h3 : cClaimThumb <+: cIngThumb :=
        List.prefix_of_prefix_length_le hh (List.prefix_append _ _) (by decide)
      rw [← List.isPrefixOf_iff_prefix] at h3
      exact absurd h3 (by decide)
  have h2 : cIngThumb.isPrefixOf (cIngThumb ++ x) = true := by
    rw [List.isPrefixOf_iff_prefix]; exact List.prefix_append _ _
  simp [thumbnailType, h1, h2]

/-- a plain (non ingredient-thumbnail) assertion label as the SDK writes them -/
def plainLabel (l : Str) : Bool :=
  !l.contains '/' && !l.contains '=' && noDU l && l.getLast? != some '_' && !cIngThumb.isPrefixOf l

theorem us_not_mem_ing : '_' ∉ cIngThumb := by decide

theorem plain_zero {l : Str} (h : plainLabel l = true) : labelAndInstance l = some (l, 0) := by
  simp [plainLabel] at h
  obtain ⟨⟨⟨⟨_, _⟩, hdu⟩, _⟩, hp⟩ := h
  have ht := thumbnailType_ne_ing hp
  simp [labelAndInstance, ht, splitDU_noDU l hdu, idx]

theorem plain_pos {l : Str} {n : Nat} (h : plainLabel l = true) (hn : n < usizeLimit) :
    labelAndInstance (l ++ '_' :: '_' :: showNat n) = some (l, n) := by
  simp [plainLabel] at h
  obtain ⟨⟨⟨⟨_, _⟩, hdu⟩, hlast⟩, hp⟩ := h
  have hp' : cIngThumb.isPrefixOf (l ++ '_' :: '_' :: showNat n) = false := by
    cases hh : cIngThumb.isPrefixOf (l ++ '_' :: '_' :: showNat n) with
    | false => rfl
    | true => rw [isPrefixOf_of_append_us _ _ _ us_not_mem_ing hh] at hp; exact absurd hp (by simp)
  have ht := thumbnailType_ne_ing hp'
  have hs : splitDU (l ++ '_' :: '_' :: showNat n) = [l, showNat n] := by
    rw [splitDU_append_du l _ hdu (by simpa using hlast), splitDU_of_not_mem (us_not_mem_showNat n)]
  simp [labelAndInstance, ht, hs, idx, parseUsize_showNat n hn]

theorem lwi_plain_zero (l : Str) : labelWithInstance l 0 = some l := by simp [labelWithInstance]

theorem lwi_plain_pos {l : Str} {n : Nat} (h : plainLabel l = true) (hn : n ≠ 0) :
    labelWithInstance l n = some (l ++ '_' :: '_' :: showNat n) := by
  simp [plainLabel] at h
  have ht := thumbnailType_ne_ing h.2
  simp [labelWithInstance, hn, ht]


/-! ingredient thumbnails -/
def cThumb : Str := "thumbnail".toList
def cIngredient : Str := "ingredient".toList

theorem cIngThumb_eq : cIngThumb = cC2pa ++ '.' :: (cThumb ++ '.' :: cIngredient) := by decide
theorem dot_not_mem_c2pa : '.' ∉ cC2pa := by decide
theorem dot_not_mem_thumb : '.' ∉ cThumb := by decide
theorem dot_not_mem_ingredient : '.' ∉ cIngredient := by decide
theorem contains_thumb : containsSub "thumbnail".toList cIngThumb = true := by decide
theorem contains_thumb' : containsSub ['t', 'h', 'u', 'm', 'b', 'n', 'a', 'i', 'l'] cIngThumb = true := by decide

theorem split_dot_ing {x : Str} (hx : '.' ∉ x) :
    splitOnC '.' (cIngThumb ++ x) = [cC2pa, cThumb, cIngredient ++ x] := by
  have h3 : '.' ∉ cIngredient ++ x := by simp [List.mem_append, dot_not_mem_ingredient, hx]
  rw [cIngThumb_eq]
  simp only [List.append_assoc, List.cons_append]
  rw [splitOnC_append_sep _ dot_not_mem_c2pa, splitOnC_append_sep _ dot_not_mem_thumb, splitOnC_of_not_mem h3]

theorem split_dot_ing_fmt {x f : Str} (hx : '.' ∉ x) (hf : '.' ∉ f) :
    splitOnC '.' (cIngThumb ++ (x ++ '.' :: f)) = [cC2pa, cThumb, cIngredient ++ x, f] := by
  have h3 : '.' ∉ cIngredient ++ x := by simp [List.mem_append, dot_not_mem_ingredient, hx]
  rw [cIngThumb_eq]
  simp only [List.append_assoc, List.cons_append]
  rw [splitOnC_append_sep _ dot_not_mem_c2pa, splitOnC_append_sep _ dot_not_mem_thumb,
    ← List.append_assoc, splitOnC_append_sep _ h3, splitOnC_of_not_mem hf]

theorem imageType_ing {x : Str} (hx : '.' ∉ x) : thumbnailImageType (cIngThumb ++ x) = some none := by
  simp [thumbnailImageType, split_dot_ing hx]

theorem imageType_ing_fmt {x f : Str} (hx : '.' ∉ x) (hf : '.' ∉ f) (hu : '_' ∉ f)
    (hl : f.map toAsciiLower = f) :
    thumbnailImageType (cIngThumb ++ (x ++ '.' :: f)) = some (some f) := by
  simp [thumbnailImageType, split_dot_ing_fmt hx hf, containsSub_append _ _ _ contains_thumb, containsSub_append _ _ _ contains_thumb', idx,
    splitOnC_of_not_mem hu, hl]

theorem noDU_ing : noDU cIngThumb = true := by decide
theorem last_ing : cIngThumb.getLast? ≠ some '_' := by decide

theorem instance_ing_none {y : Str} (hy : '_' ∉ y) : thumbnailInstance (cIngThumb ++ y) = some (some 0) := by
  have h : '_' ∉ cIngThumb ++ y := by simp [List.mem_append, us_not_mem_ing, hy]
  simp [thumbnailInstance, thumbnailType_ing, splitDU_of_not_mem h]

theorem instance_ing_n {n : Nat} (hn : n < usizeLimit) :
    thumbnailInstance (cIngThumb ++ '_' :: '_' :: showNat n) = some (some n) := by
  have hs : splitDU (cIngThumb ++ '_' :: '_' :: showNat n) = [cIngThumb, showNat n] := by
    rw [splitDU_append_du _ _ noDU_ing last_ing, splitDU_of_not_mem (us_not_mem_showNat n)]
  have hd : splitOnC '.' (showNat n) = [showNat n] := splitOnC_of_not_mem (not_mem_showNat (by decide) n)
  simp [thumbnailInstance, thumbnailType_ing, hs, idx, hd, parseUsize_showNat n hn]

theorem instance_ing_n_fmt {n : Nat} {f : Str} (hn : n < usizeLimit) (hu : '_' ∉ f) :
    thumbnailInstance (cIngThumb ++ '_' :: '_' :: (showNat n ++ '.' :: f)) = some (some n) := by
  have h2 : '_' ∉ showNat n ++ '.' :: f := by
    simp only [List.mem_append, List.mem_cons, not_or]
    exact ⟨us_not_mem_showNat n, by decide, hu⟩
  have hs : splitDU (cIngThumb ++ '_' :: '_' :: (showNat n ++ '.' :: f)) = [cIngThumb, showNat n ++ '.' :: f] := by
    rw [splitDU_append_du _ _ noDU_ing last_ing, splitDU_of_not_mem h2]
  have hd : splitOnC '.' (showNat n ++ '.' :: f) = showNat n :: splitOnC '.' f :=
    splitOnC_append_sep _ (not_mem_showNat (by decide) n)
  simp [thumbnailInstance, thumbnailType_ing, hs, idx, hd, parseUsize_showNat n hn]


/-- image-format suffix of an ingredient thumbnail label (`jpeg`, `png`, …) -/
def fmtOk (f : Str) : Bool :=
  !f.contains '_' && !f.contains '.' && !f.contains '/' && !f.contains '=' && f.map toAsciiLower == f

theorem fmtOk_iff {f : Str} : fmtOk f = true ↔
    (('_' ∉ f ∧ '.' ∉ f) ∧ '/' ∉ f ∧ '=' ∉ f) ∧ f.map toAsciiLower = f := by
  simp [fmtOk, and_assoc]

theorem dot_not_mem_usn (n : Nat) : '.' ∉ '_' :: '_' :: showNat n := by
  simp only [List.mem_cons, not_or]
  exact ⟨by decide, by decide, not_mem_showNat (by decide) n⟩

theorem ing_bare_zero : labelAndInstance cIngThumb = some (cIngThumb, 0) := by
  have h1 := instance_ing_none (y := []) (by simp)
  have h2 := imageType_ing (x := []) (by simp)
  have h3 := thumbnailType_ing []
  simp only [List.append_nil] at h1 h2 h3
  simp [labelAndInstance, h1, h2, h3]

theorem ing_bare_pos {n : Nat} (hn : n < usizeLimit) :
    labelAndInstance (cIngThumb ++ '_' :: '_' :: showNat n) = some (cIngThumb, n) := by
  simp [labelAndInstance, thumbnailType_ing, instance_ing_n hn, imageType_ing (dot_not_mem_usn n)]

theorem ing_fmt_zero {f : Str} (hf : fmtOk f = true) :
    labelAndInstance (cIngThumb ++ '.' :: f) = some (cIngThumb ++ '.' :: f, 0) := by
  rw [fmtOk_iff] at hf
  have h1 := instance_ing_none (y := '.' :: f) (by simp [hf.1.1.1])
  have h2 := imageType_ing_fmt (x := []) (f := f) (by simp) hf.1.1.2 hf.1.1.1 hf.2
  simp only [List.nil_append] at h2
  simp [labelAndInstance, thumbnailType_ing, h1, h2]

theorem ing_fmt_pos {f : Str} {n : Nat} (hf : fmtOk f = true) (hn : n < usizeLimit) :
    labelAndInstance (cIngThumb ++ '_' :: '_' :: (showNat n ++ '.' :: f)) = some (cIngThumb ++ '.' :: f, n) := by
  rw [fmtOk_iff] at hf
  have h1 := instance_ing_n_fmt (f := f) hn hf.1.1.1
  have h2 := imageType_ing_fmt (x := '_' :: '_' :: showNat n) (f := f) (dot_not_mem_usn n) hf.1.1.2 hf.1.1.1 hf.2
  simp only [List.cons_append] at h2
  simp [labelAndInstance, thumbnailType_ing, h1, h2]

theorem lwi_ing_bare_pos {n : Nat} (hn : n ≠ 0) :
    labelWithInstance cIngThumb n = some (cIngThumb ++ '_' :: '_' :: showNat n) := by
  have h2 := imageType_ing (x := []) (by simp)
  have h3 := thumbnailType_ing []
  simp only [List.append_nil] at h2 h3
  simp [labelWithInstance, hn, h2, h3]

theorem lwi_ing_fmt_pos {f : Str} {n : Nat} (hf : fmtOk f = true) (hn : n ≠ 0) :
    labelWithInstance (cIngThumb ++ '.' :: f) n = some (cIngThumb ++ '_' :: '_' :: (showNat n ++ '.' :: f)) := by
  rw [fmtOk_iff] at hf
  have h2 := imageType_ing_fmt (x := []) (f := f) (by simp) hf.1.1.2 hf.1.1.1 hf.2
  simp only [List.nil_append] at h2
  simp [labelWithInstance, hn, thumbnailType_ing, h2]


/-- ingredient thumbnail label: `c2pa.thumbnail.ingredient` or `c2pa.thumbnail.ingredient.<fmt>` -/
def ingLabel (l : Str) : Bool :=
  l == cIngThumb || ((cIngThumb ++ ['.']).isPrefixOf l && fmtOk (l.drop (cIngThumb.length + 1)))

/-- assertion labels whose instance suffix round-trips -/
def wfLabel (l : Str) : Bool := plainLabel l || ingLabel l

theorem ingLabel_cases {l : Str} (h : ingLabel l = true) :
    l = cIngThumb ∨ ∃ f, fmtOk f = true ∧ l = cIngThumb ++ '.' :: f := by
  simp only [ingLabel, Bool.or_eq_true, beq_iff_eq, Bool.and_eq_true] at h
  rcases h with h | ⟨hp, hf⟩
  · exact Or.inl h
  · right
    obtain ⟨t, rfl⟩ := List.isPrefixOf_iff_prefix.mp hp
    refine ⟨t, ?_, by simp⟩
    have : (cIngThumb ++ ['.'] ++ t).drop (cIngThumb.length + 1) = t := by
      have hl : (cIngThumb ++ ['.']).length = cIngThumb.length + 1 := by simp
      rw [← hl, List.drop_left]
    rwa [this] at hf

theorem okSeg_ing : okSeg cIngThumb := by decide

theorem okSeg_usn {l : Str} (h : okSeg l) (n : Nat) : okSeg (l ++ '_' :: '_' :: showNat n) := by
  constructor
  · simp only [List.mem_append, List.mem_cons, not_or]
    exact ⟨h.1, by decide, by decide, slash_not_mem_showNat n⟩
  · simp only [List.mem_append, List.mem_cons, not_or]
    exact ⟨h.2, by decide, by decide, not_mem_showNat (by decide) n⟩

theorem okSeg_dot {l f : Str} (h : okSeg l) (hf : '/' ∉ f ∧ '=' ∉ f) : okSeg (l ++ '.' :: f) := by
  constructor
  · simp only [List.mem_append, List.mem_cons, not_or]
    exact ⟨h.1, by decide, hf.1⟩
  · simp only [List.mem_append, List.mem_cons, not_or]
    exact ⟨h.2, by decide, hf.2⟩

/-- `label_with_instance` never panics on a well-formed label, its result is a legal URI
segment, and the label/instance reader gives back exactly `(l, n)`. -/
theorem instance_core {l : Str} {n : Nat} (h : wfLabel l = true) (hn : n < usizeLimit) :
    ∃ li, labelWithInstance l n = some li ∧ okSeg li ∧ labelAndInstance li = some (l, n) := by
  simp only [wfLabel, Bool.or_eq_true] at h
  rcases h with h | h
  · have hok : okSeg l := by simp [plainLabel] at h; exact ⟨h.1.1.1.1, h.1.1.1.2⟩
    by_cases h0 : n = 0
    · subst h0
      exact ⟨l, lwi_plain_zero l, hok, plain_zero h⟩
    · exact ⟨_, lwi_plain_pos h h0, okSeg_usn hok n, plain_pos h hn⟩
  · rcases ingLabel_cases h with rfl | ⟨f, hf, rfl⟩
    · by_cases h0 : n = 0
      · subst h0
        exact ⟨_, lwi_plain_zero _, okSeg_ing, ing_bare_zero⟩
      · exact ⟨_, lwi_ing_bare_pos h0, okSeg_usn okSeg_ing n, ing_bare_pos hn⟩
    · have hf' := fmtOk_iff.mp hf
      by_cases h0 : n = 0
      · subst h0
        exact ⟨_, lwi_plain_zero _, okSeg_dot okSeg_ing hf'.1.2, ing_fmt_zero hf⟩
      · refine ⟨_, lwi_ing_fmt_pos hf h0, ?_, ing_fmt_pos hf hn⟩
        have := okSeg_dot (okSeg_usn okSeg_ing n) hf'.1.2
        simpa using this

theorem link_abs {m box a : Str} (hm : okSeg m) (hb : okSeg box) (ha : okSeg a) :
    assertionLabelFromLink (absUri [m, box, a]) = labelAndInstance a := by
  obtain ⟨hn, hs⟩ := absUri_norm (okSegs_cons hm (okSegs_cons hb (okSegs_cons ha okSegs_nil)))
  simp [assertionLabelFromLink, hn, hs]

theorem link_rel {box a : Str} (hb : okSeg box) (ha : okSeg a) (hne : box ≠ cManifestStore) :
    assertionLabelFromLink (relUri [box, a]) = labelAndInstance a := by
  obtain ⟨hn, hs⟩ := relUri_norm hb ha hne
  simp [assertionLabelFromLink, hn, hs]

theorem addSlash_noSlash {a : Str} (h : '/' ∉ a) : addSlash a = a := by
  unfold addSlash
  split
  · next hh =>
    simp only [Bool.and_eq_true] at hh
    exact absurd (isPrefixOf_mem hh.2 (by decide)) h
  · rfl

theorem link_bare {a : Str} (ha : okSeg a) : assertionLabelFromLink a = labelAndInstance a := by
  simp [assertionLabelFromLink, norm_noEq ha.2, addSlash_noSlash ha.1, splitOnC_of_not_mem ha.1]

end C2pa.C34
