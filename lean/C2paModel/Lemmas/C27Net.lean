import C2paModel.Model.C27
/-
Lemmas about the address parsers and the host normalisation of Model/C27.lean:
bit-mask facts, the dotted-decimal rendering round trip, and the character set a successful
`IpAddr` parse consumes.
-/
namespace C2pa.C27

/-! ### bit masks as ranges -/

theorem mask_c0 : ∀ b, b < 256 → ((b &&& 0xc0 = 64) ↔ (64 ≤ b ∧ b ≤ 127)) := by decide +kernel

theorem mask_fe_byte : ∀ h, h < 256 → ((h &&& 0xfe = 0xfc) ↔ (252 ≤ h ∧ h ≤ 253)) := by
  decide +kernel

theorem and_high (s m : Nat) (k : Nat) (hm : m % 2 ^ k = 0) :
    s &&& m = (s / 2 ^ k &&& m / 2 ^ k) * 2 ^ k := by
  have h1 : (s &&& m) / 2 ^ k = s / 2 ^ k &&& m / 2 ^ k := Nat.and_div_two_pow ..
  have h2 : (s &&& m) % 2 ^ k = (s % 2 ^ k) &&& (m % 2 ^ k) := Nat.and_mod_two_pow ..
  rw [hm, Nat.and_zero] at h2
  have h3 := Nat.div_add_mod (s &&& m) (2 ^ k)
  rw [h1, h2] at h3
  rw [Nat.mul_comm] at h3
  omega

/-- `ff00::/8` -/
theorem mask_ff00 (s : Nat) (hs : s < 65536) : (s &&& 0xff00 = 0xff00) ↔ 0xff00 ≤ s := by
  have h := and_high s 0xff00 8 (by decide)
  have h4 : (0xff00 : Nat) / 2 ^ 8 = 2 ^ 8 - 1 := by decide
  rw [h4, Nat.and_two_pow_sub_one_eq_mod] at h
  rw [h]
  have : s / 2 ^ 8 < 2 ^ 8 := by omega
  rw [Nat.mod_eq_of_lt this]
  omega

/-- `fc00::/7` -/
theorem mask_fe00 (s : Nat) (hs : s < 65536) :
    (s &&& 0xfe00 = 0xfc00) ↔ (0xfc00 ≤ s ∧ s ≤ 0xfdff) := by
  have h := and_high s 0xfe00 8 (by decide)
  have h4 : (0xfe00 : Nat) / 2 ^ 8 = 0xfe := by decide
  rw [h4] at h
  rw [h]
  have h5 := mask_fe_byte (s / 2 ^ 8) (by omega)
  constructor
  · intro h6
    have : s / 2 ^ 8 &&& 254 = 252 := by omega
    have := h5.1 this
    omega
  · intro h6
    have : s / 2 ^ 8 &&& 254 = 252 := h5.2 (by omega)
    omega

/-- `fe80::/10` -/
theorem mask_ffc0 (s : Nat) (hs : s < 65536) :
    (s &&& 0xffc0 = 0xfe80) ↔ (0xfe80 ≤ s ∧ s ≤ 0xfebf) := by
  have h := and_high s 0xffc0 6 (by decide)
  have h4 : (0xffc0 : Nat) / 2 ^ 6 = 2 ^ 10 - 1 := by decide
  rw [h4, Nat.and_two_pow_sub_one_eq_mod] at h
  rw [h]
  have : s / 2 ^ 6 < 2 ^ 10 := by omega
  rw [Nat.mod_eq_of_lt this]
  omega

/-! ### dotted-decimal rendering and its parse -/

/-- Decimal digits of an octet, no leading zeros. -/
def renderDec (n : Nat) : Bytes :=
  if n < 10 then [48 + n]
  else if n < 100 then [48 + n / 10, 48 + n % 10]
  else [48 + n / 100, 48 + n / 10 % 10, 48 + n % 10]

/-- `a.b.c.d` -/
def dotted (a b c d : Nat) : Bytes :=
  renderDec a ++ 46 :: (renderDec b ++ 46 :: (renderDec c ++ 46 :: renderDec d))

theorem renderDec_digits : ∀ n, n < 256 → (renderDec n).all isDigit = true := by decide +kernel
theorem renderDec_val : ∀ n, n < 256 → dec3Val (renderDec n) = some n := by decide +kernel
theorem renderDec_ne_nil (n : Nat) : renderDec n ≠ [] := by
  unfold renderDec
  split
  · simp
  · split <;> simp

theorem takeWhile_run (p : Nat → Bool) (ds rest : Bytes) (hds : ds.all p = true)
    (hrest : rest = [] ∨ ∃ x t, rest = x :: t ∧ p x = false) :
    (ds ++ rest).takeWhile p = ds ∧ (ds ++ rest).dropWhile p = rest := by
  have hall : ∀ a ∈ ds, p a = true := by simpa [List.all_eq_true] using hds
  rw [List.takeWhile_append_of_pos hall, List.dropWhile_append_of_pos hall]
  rcases hrest with rfl | ⟨x, t, rfl, hx⟩
  · simp
  · simp [hx]

theorem readDec3_render (n : Nat) (hn : n < 256) (rest : Bytes)
    (hrest : rest = [] ∨ ∃ x t, rest = x :: t ∧ isDigit x = false) :
    readDec3 (renderDec n ++ rest) = some (n, rest) := by
  obtain ⟨h1, h2⟩ := takeWhile_run isDigit (renderDec n) rest (renderDec_digits n hn) hrest
  unfold readDec3
  rw [h1, h2, renderDec_val n hn]

theorem readV4_dotted (a b c d : Nat) (ha : a < 256) (hb : b < 256) (hc : c < 256) (hd : d < 256) :
    readV4 (dotted a b c d) = some ((a, b, c, d), []) := by
  have dot : ∀ t : Bytes, (46 :: t = [] ∨ ∃ x t', 46 :: t = x :: t' ∧ isDigit x = false) :=
    fun t => Or.inr ⟨46, t, rfl, by decide⟩
  unfold readV4 dotted
  simp only [readSep, Nat.lt_irrefl, if_false]
  rw [readDec3_render a ha _ (dot _)]
  simp only [show (1 : Nat) > 0 by decide, show (2 : Nat) > 0 by decide, show (3 : Nat) > 0 by decide,
    if_true, expect]
  rw [readDec3_render b hb _ (dot _)]
  simp only [expect, if_true]
  rw [readDec3_render c hc _ (dot _)]
  simp only [expect, if_true]
  have := readDec3_render d hd [] (Or.inl rfl)
  rw [List.append_nil] at this
  rw [this]

theorem parseIp_dotted (a b c d : Nat) (ha : a < 256) (hb : b < 256) (hc : c < 256) (hd : d < 256) :
    parseIp (dotted a b c d) = some (.v4 a b c d) := by
  unfold parseIp
  rw [readV4_dotted a b c d ha hb hc hd]
  rfl

/-! ### normalisation of clean strings -/

theorem lower_id (s : Bytes) (h : ∀ x ∈ s, ¬ (65 ≤ x ∧ x ≤ 90)) : lower s = s := by
  unfold lower
  induction s with
  | nil => rfl
  | cons y ys ih =>
    have hy := h y (List.mem_cons_self ..)
    simp only [List.map_cons, lowerByte, hy, if_false]
    rw [ih (fun x hx => h x (List.mem_cons_of_mem _ hx))]

theorem stripSuffix1_concat (c : Nat) (s : Bytes) : stripSuffix1 c (s ++ [c]) = some s := by
  simp [stripSuffix1]

theorem stripSuffix1_none (c : Nat) (s : Bytes) (h : s.getLast? ≠ some c) : stripSuffix1 c s = none := by
  simp [stripSuffix1, h]

/-- all bytes are digits or dots -/
def DigitDot (s : Bytes) : Prop := ∀ x ∈ s, isDigit x = true ∨ x = 46

theorem digit_of_all (s : Bytes) (h : s.all isDigit = true) : ∀ x ∈ s, isDigit x = true := by
  simpa [List.all_eq_true] using h

theorem dotted_digitDot (a b c d : Nat) (ha : a < 256) (hb : b < 256) (hc : c < 256) (hd : d < 256) :
    DigitDot (dotted a b c d) := by
  intro x hx
  unfold dotted at hx
  simp only [List.mem_append, List.mem_cons] at hx
  rcases hx with h | rfl | h | rfl | h | rfl | h
  · exact Or.inl (digit_of_all _ (renderDec_digits a ha) x h)
  · exact Or.inr rfl
  · exact Or.inl (digit_of_all _ (renderDec_digits b hb) x h)
  · exact Or.inr rfl
  · exact Or.inl (digit_of_all _ (renderDec_digits c hc) x h)
  · exact Or.inr rfl
  · exact Or.inl (digit_of_all _ (renderDec_digits d hd) x h)

theorem dotted_head (a b c d : Nat) (ha : a < 256) :
    ∃ x t, dotted a b c d = x :: t ∧ isDigit x = true := by
  have hne := renderDec_ne_nil a
  have hdig := digit_of_all _ (renderDec_digits a ha)
  unfold dotted
  cases hr : renderDec a with
  | nil => exact absurd hr hne
  | cons x t =>
    rw [hr] at hdig
    exact ⟨x, _, rfl, hdig x (List.mem_cons_self ..)⟩

theorem dotted_last (a b c d : Nat) (hd : d < 256) :
    ∃ x, (dotted a b c d).getLast? = some x ∧ isDigit x = true := by
  have hne := renderDec_ne_nil d
  have hdig := digit_of_all _ (renderDec_digits d hd)
  obtain ⟨ys, y, hy⟩ : ∃ ys y, renderDec d = ys ++ [y] := by
    refine ⟨(renderDec d).dropLast, (renderDec d).getLast hne, ?_⟩
    exact (List.dropLast_concat_getLast hne).symm
  refine ⟨y, ?_, hdig y (by rw [hy]; simp)⟩
  unfold dotted
  rw [hy]
  have : renderDec a ++ 46 :: (renderDec b ++ 46 :: (renderDec c ++ 46 :: (ys ++ [y]))) =
      (renderDec a ++ 46 :: (renderDec b ++ 46 :: (renderDec c ++ 46 :: ys))) ++ [y] := by simp
  rw [this, List.getLast?_concat]

theorem digit_not_upper (x : Nat) (h : isDigit x = true ∨ x = 46) : ¬ (65 ≤ x ∧ x ≤ 90) := by
  rcases h with h | rfl
  · simp only [isDigit, Bool.and_eq_true, decide_eq_true_eq] at h; omega
  · omega

theorem stripBrackets_other (x : Nat) (t : Bytes) (h : x ≠ 91) : stripBrackets (x :: t) = x :: t := by
  unfold stripBrackets
  split
  · rename_i heq; cases heq; exact absurd rfl h
  · rfl

theorem stripBrackets_bracketed (s : Bytes) : stripBrackets (91 :: (s ++ [93])) = s := by
  simp [stripBrackets, stripSuffix1_concat]

/-- A dotted-decimal literal is its own normal form. -/
theorem normalizeHost_dotted (a b c d : Nat) (ha : a < 256) (hb : b < 256) (hc : c < 256)
    (hd : d < 256) : normalizeHost (dotted a b c d) = dotted a b c d := by
  obtain ⟨x, t, hxt, hx⟩ := dotted_head a b c d ha
  obtain ⟨y, hy, hyd⟩ := dotted_last a b c d hd
  have hdd := dotted_digitDot a b c d ha hb hc hd
  have hx91 : x ≠ 91 := by
    intro e; subst e; simp [isDigit] at hx
  have hy46 : (dotted a b c d).getLast? ≠ some 46 := by
    rw [hy]; intro e
    have : y = 46 := by simpa using e
    subst this; simp [isDigit] at hyd
  have h1 : stripBrackets (dotted a b c d) = dotted a b c d := by
    rw [hxt]; exact stripBrackets_other x t hx91
  unfold normalizeHost
  simp only [h1, stripSuffix1_none 46 _ hy46, Option.getD_none]
  exact lower_id _ (fun z hz => digit_not_upper z (hdd z hz))

/-- … with one trailing dot. -/
theorem normalizeHost_dotted_dot (a b c d : Nat) (ha : a < 256) (hb : b < 256) (hc : c < 256)
    (hd : d < 256) : normalizeHost (dotted a b c d ++ [46]) = dotted a b c d := by
  obtain ⟨x, t, hxt, hx⟩ := dotted_head a b c d ha
  have hdd := dotted_digitDot a b c d ha hb hc hd
  have hx91 : x ≠ 91 := by
    intro e; subst e; simp [isDigit] at hx
  have h1 : stripBrackets (dotted a b c d ++ [46]) = dotted a b c d ++ [46] := by
    rw [hxt]; exact stripBrackets_other x (t ++ [46]) hx91
  unfold normalizeHost
  simp only [h1, stripSuffix1_concat, Option.getD_some]
  exact lower_id _ (fun z hz => digit_not_upper z (hdd z hz))

/-- … in brackets. -/
theorem normalizeHost_dotted_brackets (a b c d : Nat) (ha : a < 256) (hb : b < 256) (hc : c < 256)
    (hd : d < 256) : normalizeHost (91 :: (dotted a b c d ++ [93])) = dotted a b c d := by
  obtain ⟨y, hy, hyd⟩ := dotted_last a b c d hd
  have hdd := dotted_digitDot a b c d ha hb hc hd
  have hy46 : (dotted a b c d).getLast? ≠ some 46 := by
    rw [hy]; intro e
    have : y = 46 := by simpa using e
    subst this; simp [isDigit] at hyd
  unfold normalizeHost
  simp only [stripBrackets_bracketed, stripSuffix1_none 46 _ hy46, Option.getD_none]
  exact lower_id _ (fun z hz => digit_not_upper z (hdd z hz))

/-! ### what a successful `IpAddr` parse consumes -/

/-- bytes that can occur in a string `IpAddr::from_str` accepts -/
def ipChar (x : Nat) : Bool := isHexDigit x || x == 58 || x == 46

def Consumes {α : Type} (f : Bytes → Option (α × Bytes)) : Prop :=
  ∀ s v r, f s = some (v, r) → ∃ pre, s = pre ++ r ∧ ∀ x ∈ pre, ipChar x = true

theorem mem_takeWhile_imp (p : Nat → Bool) (l : Bytes) (x : Nat) (h : x ∈ l.takeWhile p) : p x = true := by
  have := @List.all_takeWhile _ p l
  rw [List.all_eq_true] at this
  exact this x h

theorem isDigit_ipChar (x : Nat) (h : isDigit x = true) : ipChar x = true := by
  simp only [isDigit, Bool.and_eq_true, decide_eq_true_eq] at h
  simp [ipChar, isHexDigit, h]

theorem isHexDigit_ipChar (x : Nat) (h : isHexDigit x = true) : ipChar x = true := by
  simp [ipChar, h]

theorem consumes_readDec3 : Consumes readDec3 := by
  intro s v r h
  unfold readDec3 at h
  cases hv : dec3Val (s.takeWhile isDigit) with
  | none => simp [hv] at h
  | some w =>
    simp only [hv, Option.some.injEq, Prod.mk.injEq] at h
    refine ⟨s.takeWhile isDigit, ?_, fun x hx => isDigit_ipChar x (mem_takeWhile_imp _ _ _ hx)⟩
    rw [← h.2]; exact List.takeWhile_append_dropWhile.symm

theorem consumes_readHex4 : Consumes readHex4 := by
  intro s v r h
  unfold readHex4 at h
  cases hv : hex4Val (s.takeWhile isHexDigit) with
  | none => simp [hv] at h
  | some w =>
    simp only [hv, Option.some.injEq, Prod.mk.injEq] at h
    refine ⟨s.takeWhile isHexDigit, ?_, fun x hx => isHexDigit_ipChar x (mem_takeWhile_imp _ _ _ hx)⟩
    rw [← h.2]; exact List.takeWhile_append_dropWhile.symm

theorem expect_some (c : Nat) (s r : Bytes) (h : expect c s = some r) : s = c :: r := by
  cases s with
  | nil => simp [expect] at h
  | cons b t =>
    simp only [expect] at h
    by_cases hb : b = c
    · simp only [hb, if_true, Option.some.injEq] at h; rw [hb, h]
    · simp [hb] at h

theorem consumes_readSep {α : Type} (sep i : Nat) (f : Bytes → Option (α × Bytes))
    (hsep : ipChar sep = true) (hf : Consumes f) : Consumes (readSep sep i f) := by
  intro s v r h
  unfold readSep at h
  by_cases hi : i > 0
  · simp only [hi, if_true] at h
    cases he : expect sep s with
    | none => simp [he] at h
    | some s' =>
      simp only [he] at h
      have hs := expect_some sep s s' he
      obtain ⟨pre, hpre, hok⟩ := hf s' v r h
      refine ⟨sep :: pre, by rw [hs, hpre]; rfl, ?_⟩
      intro x hx
      rcases List.mem_cons.1 hx with rfl | hx
      · exact hsep
      · exact hok x hx
  · simp only [hi, if_false] at h
    exact hf s v r h

theorem consumes_readV4 : Consumes readV4 := by
  intro s v r h
  unfold readV4 at h
  have hdot : ipChar 46 = true := by decide
  cases h0 : readSep 46 0 readDec3 s with
  | none => simp [h0] at h
  | some p0 =>
    obtain ⟨a, s1⟩ := p0
    simp only [h0] at h
    cases h1 : readSep 46 1 readDec3 s1 with
    | none => simp [h1] at h
    | some p1 =>
      obtain ⟨b, s2⟩ := p1
      simp only [h1] at h
      cases h2 : readSep 46 2 readDec3 s2 with
      | none => simp [h2] at h
      | some p2 =>
        obtain ⟨c, s3⟩ := p2
        simp only [h2] at h
        cases h3 : readSep 46 3 readDec3 s3 with
        | none => simp [h3] at h
        | some p3 =>
          obtain ⟨d, s4⟩ := p3
          simp only [h3, Option.some.injEq, Prod.mk.injEq] at h
          obtain ⟨q0, e0, k0⟩ := consumes_readSep 46 0 _ hdot consumes_readDec3 _ _ _ h0
          obtain ⟨q1, e1, k1⟩ := consumes_readSep 46 1 _ hdot consumes_readDec3 _ _ _ h1
          obtain ⟨q2, e2, k2⟩ := consumes_readSep 46 2 _ hdot consumes_readDec3 _ _ _ h2
          obtain ⟨q3, e3, k3⟩ := consumes_readSep 46 3 _ hdot consumes_readDec3 _ _ _ h3
          refine ⟨q0 ++ q1 ++ q2 ++ q3, ?_, ?_⟩
          · rw [e0, e1, e2, e3, ← h.2]; simp
          · intro x hx
            simp only [List.mem_append] at hx
            rcases hx with ((hx | hx) | hx) | hx
            · exact k0 x hx
            · exact k1 x hx
            · exact k2 x hx
            · exact k3 x hx

theorem consumes_readGroups (limit : Nat) :
    ∀ n i s gs f r, readGroups limit n i s = (gs, f, r) →
      ∃ pre, s = pre ++ r ∧ ∀ x ∈ pre, ipChar x = true := by
  have hcolon : ipChar 58 = true := by decide
  intro n
  induction n with
  | zero =>
    intro i s gs f r h
    simp only [readGroups, Prod.mk.injEq] at h
    exact ⟨[], by rw [← h.2.2]; rfl, fun x hx => by cases hx⟩
  | succ n ih =>
    intro i s gs f r h
    unfold readGroups at h
    cases hv : (if i + 1 < limit then readSep 58 i readV4 s else none) with
    | some p =>
      obtain ⟨⟨a, b, c, d⟩, s'⟩ := p
      simp only [hv, Prod.mk.injEq] at h
      have hv' : readSep 58 i readV4 s = some ((a, b, c, d), s') := by
        by_cases hl : i + 1 < limit
        · simpa [hl] using hv
        · simp [hl] at hv
      obtain ⟨pre, e, k⟩ := consumes_readSep 58 i _ hcolon consumes_readV4 _ _ _ hv'
      exact ⟨pre, by rw [← h.2.2]; exact e, k⟩
    | none =>
      simp only [hv] at h
      cases hg : readSep 58 i readHex4 s with
      | none =>
        simp only [hg, Prod.mk.injEq] at h
        exact ⟨[], by rw [← h.2.2]; rfl, fun x hx => by cases hx⟩
      | some p =>
        obtain ⟨g, s'⟩ := p
        simp only [hg] at h
        obtain ⟨pre, e, k⟩ := consumes_readSep 58 i _ hcolon consumes_readHex4 _ _ _ hg
        cases hrec : readGroups limit n (i + 1) s' with
        | mk gs' fr =>
          obtain ⟨f', r'⟩ := fr
          simp only [hrec, Prod.mk.injEq] at h
          obtain ⟨pre2, e2, k2⟩ := ih (i + 1) s' gs' f' r' hrec
          refine ⟨pre ++ pre2, ?_, ?_⟩
          · rw [e, e2, ← h.2.2]; simp
          · intro x hx
            rcases List.mem_append.1 hx with hx | hx
            · exact k x hx
            · exact k2 x hx

theorem consumes_readV6 : Consumes readV6 := by
  have hcolon : ipChar 58 = true := by decide
  intro s v r h
  unfold readV6 at h
  cases hh : readGroups 8 8 0 s with
  | mk head rest1 =>
    obtain ⟨hv4, s1⟩ := rest1
    obtain ⟨pre1, e1, k1⟩ := consumes_readGroups 8 8 0 s head hv4 s1 hh
    simp only [hh] at h
    by_cases h8 : head.length = 8
    · simp only [h8, if_true, Option.some.injEq, Prod.mk.injEq] at h
      exact ⟨pre1, by rw [← h.2]; exact e1, k1⟩
    · simp only [h8, if_false] at h
      cases hv4 with
      | true => simp at h
      | false =>
        simp only [Bool.false_eq_true, if_false] at h
        cases hx1 : expect 58 s1 with
        | none => simp [hx1] at h
        | some s1' =>
          simp only [hx1] at h
          cases hx2 : expect 58 s1' with
          | none => simp [hx2] at h
          | some s2 =>
            simp only [hx2] at h
            have es1 := expect_some 58 s1 s1' hx1
            have es2 := expect_some 58 s1' s2 hx2
            cases ht : readGroups (8 - (head.length + 1)) (8 - (head.length + 1)) 0 s2 with
            | mk tail rest2 =>
              obtain ⟨tv4, s3⟩ := rest2
              obtain ⟨pre2, e2, k2⟩ := consumes_readGroups _ _ 0 s2 tail tv4 s3 ht
              simp only [ht, Option.some.injEq, Prod.mk.injEq] at h
              refine ⟨pre1 ++ 58 :: 58 :: pre2, ?_, ?_⟩
              · rw [e1, es1, es2, e2, ← h.2]; simp
              · intro x hx
                simp only [List.mem_append, List.mem_cons] at hx
                rcases hx with hx | rfl | rfl | hx
                · exact k1 x hx
                · exact hcolon
                · exact hcolon
                · exact k2 x hx

/-- Every byte of a string that parses as an IP address is a hex digit, `:` or `.`. -/
theorem parseIp_chars (s : Bytes) (ip : Ip) (h : parseIp s = some ip) : ∀ x ∈ s, ipChar x = true := by
  unfold parseIp at h
  cases h4 : readV4 s with
  | some p =>
    obtain ⟨⟨a, b, c, d⟩, rest⟩ := p
    simp only [h4] at h
    obtain ⟨pre, e, k⟩ := consumes_readV4 s _ _ h4
    cases rest with
    | nil => rw [e]; simpa using k
    | cons y ys => simp at h
  | none =>
    simp only [h4] at h
    cases h6 : readV6 s with
    | none => simp [h6] at h
    | some p =>
      obtain ⟨g, rest⟩ := p
      simp only [h6] at h
      obtain ⟨pre, e, k⟩ := consumes_readV6 s _ _ h6
      cases rest with
      | nil => rw [e]; simpa using k
      | cons y ys => simp at h


/-! ### shape of what the address parsers return

`ipv6IsNonGlobal` reads its argument with `headD` and a list pattern, and the `::` filler of
`readV6` uses truncated subtraction; these lemmas show no default is ever reached: a parsed IPv6
address has exactly eight segments below 65536, a parsed IPv4 address four octets below 256. -/

theorem hexDigitVal_lt (d : Nat) (h : isHexDigit d = true) : hexDigitVal d < 16 := by
  simp only [isHexDigit, Bool.or_eq_true, Bool.and_eq_true, decide_eq_true_eq] at h
  unfold hexDigitVal
  by_cases h1 : 48 ≤ d ∧ d ≤ 57
  · rw [if_pos h1]; omega
  · rw [if_neg h1]
    by_cases h2 : 97 ≤ d ∧ d ≤ 102
    · rw [if_pos h2]; omega
    · rw [if_neg h2]; omega

theorem hex4Val_lt (ds : Bytes) (v : Nat) (hall : ∀ d ∈ ds, isHexDigit d = true)
    (h : hex4Val ds = some v) : v < 65536 := by
  unfold hex4Val at h
  by_cases h0 : ds.length = 0
  · simp [h0] at h
  · rw [if_neg h0] at h
    by_cases h4 : ds.length > 4
    · simp [h4] at h
    · rw [if_neg h4] at h
      have hv : v = digitsVal 16 ds := by simpa using h.symm
      subst hv
      rcases ds with _ | ⟨a, _ | ⟨b, _ | ⟨c, _ | ⟨d, _ | ⟨e, t⟩⟩⟩⟩⟩
      · simp at h0
      · have ha := hexDigitVal_lt a (hall a (by simp))
        simp only [digitsVal, List.foldl]; omega
      · have ha := hexDigitVal_lt a (hall a (by simp))
        have hb := hexDigitVal_lt b (hall b (by simp))
        simp only [digitsVal, List.foldl]; omega
      · have ha := hexDigitVal_lt a (hall a (by simp))
        have hb := hexDigitVal_lt b (hall b (by simp))
        have hc := hexDigitVal_lt c (hall c (by simp))
        simp only [digitsVal, List.foldl]; omega
      · have ha := hexDigitVal_lt a (hall a (by simp))
        have hb := hexDigitVal_lt b (hall b (by simp))
        have hc := hexDigitVal_lt c (hall c (by simp))
        have hd := hexDigitVal_lt d (hall d (by simp))
        simp only [digitsVal, List.foldl]; omega
      · simp at h4

theorem readHex4_lt (s : Bytes) (v : Nat) (r : Bytes) (h : readHex4 s = some (v, r)) : v < 65536 := by
  unfold readHex4 at h
  cases hv : hex4Val (s.takeWhile isHexDigit) with
  | none => simp [hv] at h
  | some w =>
    simp only [hv, Option.some.injEq, Prod.mk.injEq] at h
    rw [← h.1]
    exact hex4Val_lt _ w (fun d hd => mem_takeWhile_imp _ _ _ hd) hv

theorem dec3Val_le (ds : Bytes) (v : Nat) (h : dec3Val ds = some v) : v ≤ 255 := by
  unfold dec3Val at h
  by_cases h0 : ds.length = 0
  · simp [h0] at h
  · rw [if_neg h0] at h
    by_cases h3 : ds.length > 3
    · simp [h3] at h
    · rw [if_neg h3] at h
      by_cases hz : ds.head? = some 48 ∧ ds.length > 1
      · simp [hz] at h
      · rw [if_neg hz] at h
        by_cases hb : digitsVal 10 ds > 255
        · simp [hb] at h
        · rw [if_neg hb] at h
          have : v = digitsVal 10 ds := by simpa using h.symm
          omega

theorem readDec3_le (s : Bytes) (v : Nat) (r : Bytes) (h : readDec3 s = some (v, r)) : v ≤ 255 := by
  unfold readDec3 at h
  cases hv : dec3Val (s.takeWhile isDigit) with
  | none => simp [hv] at h
  | some w =>
    simp only [hv, Option.some.injEq, Prod.mk.injEq] at h
    rw [← h.1]; exact dec3Val_le _ w hv

theorem readSep_some {α : Type} (sep i : Nat) (f : Bytes → Option (α × Bytes)) (s : Bytes)
    (v : α) (r : Bytes) (h : readSep sep i f s = some (v, r)) : ∃ s', f s' = some (v, r) := by
  unfold readSep at h
  by_cases hi : i > 0
  · simp only [hi, if_true] at h
    cases he : expect sep s with
    | none => simp [he] at h
    | some s' => simp only [he] at h; exact ⟨s', h⟩
  · simp only [hi, if_false] at h; exact ⟨s, h⟩

theorem readV4_le (s : Bytes) (a b c d : Nat) (r : Bytes) (h : readV4 s = some ((a, b, c, d), r)) :
    a ≤ 255 ∧ b ≤ 255 ∧ c ≤ 255 ∧ d ≤ 255 := by
  unfold readV4 at h
  cases h0 : readSep 46 0 readDec3 s with
  | none => simp [h0] at h
  | some p0 =>
    obtain ⟨a', s1⟩ := p0
    simp only [h0] at h
    cases h1 : readSep 46 1 readDec3 s1 with
    | none => simp [h1] at h
    | some p1 =>
      obtain ⟨b', s2⟩ := p1
      simp only [h1] at h
      cases h2 : readSep 46 2 readDec3 s2 with
      | none => simp [h2] at h
      | some p2 =>
        obtain ⟨c', s3⟩ := p2
        simp only [h2] at h
        cases h3 : readSep 46 3 readDec3 s3 with
        | none => simp [h3] at h
        | some p3 =>
          obtain ⟨d', s4⟩ := p3
          simp only [h3, Option.some.injEq, Prod.mk.injEq] at h
          obtain ⟨⟨ea, eb, ec, ed⟩, _⟩ := h
          obtain ⟨_, k0⟩ := readSep_some _ _ _ _ _ _ h0
          obtain ⟨_, k1⟩ := readSep_some _ _ _ _ _ _ h1
          obtain ⟨_, k2⟩ := readSep_some _ _ _ _ _ _ h2
          obtain ⟨_, k3⟩ := readSep_some _ _ _ _ _ _ h3
          rw [← ea, ← eb, ← ec, ← ed]
          exact ⟨readDec3_le _ _ _ k0, readDec3_le _ _ _ k1, readDec3_le _ _ _ k2, readDec3_le _ _ _ k3⟩

/-- `read_groups` fills at most the slots it was given, each with a 16-bit value. -/
theorem readGroups_shape (limit : Nat) :
    ∀ n i s gs f r, n + i = limit → readGroups limit n i s = (gs, f, r) →
      gs.length ≤ n ∧ ∀ x ∈ gs, x < 65536 := by
  intro n
  induction n with
  | zero =>
    intro i s gs f r _ h
    simp only [readGroups, Prod.mk.injEq] at h
    rw [← h.1]; exact ⟨Nat.le_refl _, fun x hx => by cases hx⟩
  | succ n ih =>
    intro i s gs f r hlim h
    unfold readGroups at h
    cases hv : (if i + 1 < limit then readSep 58 i readV4 s else none) with
    | some p =>
      obtain ⟨⟨a, b, c, d⟩, s'⟩ := p
      simp only [hv, Prod.mk.injEq] at h
      have hl : i + 1 < limit := by
        by_cases hl : i + 1 < limit
        · exact hl
        · simp [hl] at hv
      have hv' : readSep 58 i readV4 s = some ((a, b, c, d), s') := by simpa [hl] using hv
      obtain ⟨s0, k⟩ := readSep_some _ _ _ _ _ _ hv'
      obtain ⟨ha, hb, hc, hd⟩ := readV4_le _ _ _ _ _ _ k
      rw [← h.1]
      refine ⟨by simp; omega, ?_⟩
      intro x hx
      simp only [List.mem_cons, List.not_mem_nil, or_false] at hx
      rcases hx with rfl | rfl <;> omega
    | none =>
      simp only [hv] at h
      cases hg : readSep 58 i readHex4 s with
      | none =>
        simp only [hg, Prod.mk.injEq] at h
        rw [← h.1]; exact ⟨Nat.zero_le _, fun x hx => by cases hx⟩
      | some p =>
        obtain ⟨g, s'⟩ := p
        simp only [hg] at h
        obtain ⟨s0, k⟩ := readSep_some _ _ _ _ _ _ hg
        have hgl := readHex4_lt _ _ _ k
        cases hrec : readGroups limit n (i + 1) s' with
        | mk gs' fr =>
          obtain ⟨f', r'⟩ := fr
          simp only [hrec, Prod.mk.injEq] at h
          obtain ⟨hlen, hall⟩ := ih (i + 1) s' gs' f' r' (by omega) hrec
          rw [← h.1]
          refine ⟨by simp; omega, ?_⟩
          intro x hx
          rcases List.mem_cons.1 hx with rfl | hx
          · exact hgl
          · exact hall x hx

/-- **`Ipv6Addr::from_str` (model) returns exactly eight segments, each below 65536.** -/
theorem readV6_shape (s : Bytes) (g : List Nat) (r : Bytes) (h : readV6 s = some (g, r)) :
    g.length = 8 ∧ ∀ x ∈ g, x < 65536 := by
  unfold readV6 at h
  cases hh : readGroups 8 8 0 s with
  | mk head rest1 =>
    obtain ⟨hv4, s1⟩ := rest1
    obtain ⟨hlen, hall⟩ := readGroups_shape 8 8 0 s head hv4 s1 rfl hh
    simp only [hh] at h
    by_cases h8 : head.length = 8
    · simp only [h8, if_true, Option.some.injEq, Prod.mk.injEq] at h
      rw [← h.1]; exact ⟨h8, hall⟩
    · simp only [h8, if_false] at h
      cases hv4 with
      | true => simp at h
      | false =>
        simp only [Bool.false_eq_true, if_false] at h
        cases hx1 : expect 58 s1 with
        | none => simp [hx1] at h
        | some s1' =>
          simp only [hx1] at h
          cases hx2 : expect 58 s1' with
          | none => simp [hx2] at h
          | some s2 =>
            simp only [hx2] at h
            cases ht : readGroups (8 - (head.length + 1)) (8 - (head.length + 1)) 0 s2 with
            | mk tail rest2 =>
              obtain ⟨tv4, s3⟩ := rest2
              have hshape : tail.length ≤ 8 - (head.length + 1) ∧ ∀ x ∈ tail, x < 65536 :=
                readGroups_shape (8 - (head.length + 1)) (8 - (head.length + 1)) 0 s2 tail tv4 s3 rfl ht
              obtain ⟨tlen, tall⟩ := hshape
              simp only [ht, Option.some.injEq, Prod.mk.injEq] at h
              rw [← h.1]
              refine ⟨by simp; omega, ?_⟩
              intro x hx
              simp only [List.mem_append, List.mem_replicate] at hx
              rcases hx with (hx | ⟨_, rfl⟩) | hx
              · exact hall x hx
              · omega
              · exact tall x hx

theorem parseIp_v6_shape (s : Bytes) (g : List Nat) (h : parseIp s = some (.v6 g)) :
    g.length = 8 ∧ ∀ x ∈ g, x < 65536 := by
  unfold parseIp at h
  cases h4 : readV4 s with
  | some p =>
    obtain ⟨⟨a, b, c, d⟩, rest⟩ := p
    simp only [h4] at h
    by_cases he : rest.isEmpty = true
    · simp [he] at h
    · simp [he] at h
  | none =>
    simp only [h4] at h
    cases h6 : readV6 s with
    | none => simp [h6] at h
    | some p =>
      obtain ⟨g', rest⟩ := p
      simp only [h6] at h
      by_cases he : rest.isEmpty = true
      · simp only [he, if_true, Option.some.injEq, Ip.v6.injEq] at h
        rw [← h]; exact readV6_shape s g' rest h6
      · simp [he] at h

theorem parseIp_v4_le (s : Bytes) (a b c d : Nat) (h : parseIp s = some (.v4 a b c d)) :
    a ≤ 255 ∧ b ≤ 255 ∧ c ≤ 255 ∧ d ≤ 255 := by
  unfold parseIp at h
  cases h4 : readV4 s with
  | some p =>
    obtain ⟨⟨a', b', c', d'⟩, rest⟩ := p
    simp only [h4] at h
    by_cases he : rest.isEmpty = true
    · simp only [he, if_true, Option.some.injEq, Ip.v4.injEq] at h
      obtain ⟨rfl, rfl, rfl, rfl⟩ := h
      exact readV4_le s _ _ _ _ rest h4
    · simp [he] at h
  | none =>
    simp only [h4] at h
    cases h6 : readV6 s with
    | none => simp [h6] at h
    | some p =>
      obtain ⟨g', rest⟩ := p
      simp only [h6] at h
      by_cases he : rest.isEmpty = true
      · simp [he] at h
      · simp [he] at h

/-- A list of length eight, spelled out. -/
theorem eight_of_length (g : List Nat) (h : g.length = 8) :
    ∃ s0 s1 s2 s3 s4 s5 s6 s7, g = [s0, s1, s2, s3, s4, s5, s6, s7] := by
  rcases g with _ | ⟨s0, _ | ⟨s1, _ | ⟨s2, _ | ⟨s3, _ | ⟨s4, _ | ⟨s5, _ | ⟨s6, _ | ⟨s7, _ | ⟨s8, t⟩⟩⟩⟩⟩⟩⟩⟩⟩ <;>
    simp at h
  exact ⟨s0, s1, s2, s3, s4, s5, s6, s7, rfl⟩

theorem parseIp_none_of_mem (s : Bytes) (x : Nat) (hx : x ∈ s) (hbad : ipChar x = false) :
    parseIp s = none := by
  cases h : parseIp s with
  | none => rfl
  | some ip =>
    have := parseIp_chars s ip h x hx
    rw [hbad] at this; cases this

end C2pa.C27
