import C2paModel.Lemmas.C29c
/-! C29 — write side, core: once the nearest existing ancestor `X` of the target is known to
resolve to `P`, and the next name is not there, `create_dir_all` + `write` only touch
locations below `P`. -/
namespace C2pa.C29

/-- every node has a directory as its parent -/
def FS.WF (fs : FS) : Prop := ∀ p n, fs.look (p ++ [n]) ≠ none → fs.look p = some .dir

theorem absent_below (fs : FS) (hwf : fs.WF) (E : PPath) (hE : fs.look E = none) :
    ∀ q, fs.look (E ++ q) = none := by
  intro q
  generalize hn : q.length = n
  induction n generalizing q with
  | zero =>
    have : q = [] := List.eq_nil_of_length_eq_zero hn
    subst this; simpa using hE
  | succ n ih =>
    rcases List.eq_nil_or_concat q with rfl | ⟨q', b, rfl⟩
    · simp at hn
    · simp only [List.concat_eq_append] at hn ⊢
      simp at hn
      have h1 := ih q' hn
      rcases hlook : fs.look (E ++ (q' ++ [b])) with _ | k
      · rfl
      · exfalso
        have := hwf (E ++ q') b (by rw [List.append_assoc, hlook]; simp)
        rw [h1] at this; cases this

theorem walk_absent_look (fs : FS) (fl : Bool) : ∀ (f : Nat) (cur : PPath) (X : List Str) d n tr g,
    walk fs fl f cur X = .absent d n tr g → fs.look (d ++ [n]) = none := by
  intro f
  induction f with
  | zero => intro cur X d n tr g h; cases X <;> simp [walk] at h
  | succ f ih =>
    intro cur X d n tr g h
    cases X with
    | nil => simp [walk] at h
    | cons s rest =>
      rw [walk] at h
      by_cases h1 : s = [] ∨ s = [46]
      · simp only [h1, if_true] at h; exact ih cur rest d n tr g h
      · simp only [h1, if_false] at h
        by_cases h2 : s = [46, 46]
        · simp only [h2, if_true] at h; exact ih _ rest d n tr g h
        · simp only [h2, if_false] at h
          cases hl : fs.look (cur ++ [s]) with
          | none =>
            rw [hl] at h; simp only at h
            split at h
            · simp at h; obtain ⟨rfl, rfl, _⟩ := h; exact hl
            · simp at h
          | some k' =>
            rw [hl] at h
            cases k' with
            | dir => exact ih _ rest d n tr g h
            | file c => simp only at h; split at h <;> simp at h
            | link t =>
              simp only at h
              split at h
              · simp at h
              · split at h
                · simp at h
                · exact ih _ _ d n tr g h

/-- below `E` the tree holds directories only -/
def OnlyDirsBelow (fs : FS) (E : PPath) : Prop :=
  ∀ q, fs.look (E ++ q) = none ∨ fs.look (E ++ q) = some .dir

theorem isSkip_normal {n : Str} (h : NormalName n) : ¬ (n = [] ∨ n = [46]) := by
  rintro (h1 | h1)
  · exact h.1 h1
  · exact h.2.1 h1

/-- walking normal names inside a region that holds directories only: the walk stays there,
and ends on a directory or just above a missing name -/
theorem walk_only_dirs (fs : FS) (fl : Bool) (E : PPath) (hod : OnlyDirsBelow fs E) :
    ∀ (names : List Str) (f : Nat) (cur : PPath), (∀ n ∈ names, NormalName n) →
      (∀ n, names.head? = some n → E <+: cur ++ [n]) →
      match walk fs fl f cur names with
      | .found p k _ => names = [] ∨ (k = .dir ∧ E <+: p)
      | .absent d n tr _ => tr = false ∧ E <+: d ++ [n]
      | .err _ => True := by
  intro names
  induction names with
  | nil => intro f cur _ _; simp [walk_nil]
  | cons s rest ih =>
    intro f cur hN hE
    cases f with
    | zero => simp [walk]
    | succ f =>
      have hs := hN s (by simp)
      have hpre : E <+: cur ++ [s] := hE s (by simp)
      rw [walk]
      simp only [isSkip_normal hs, if_false, hs.2.2.1]
      obtain ⟨q, hq⟩ := hpre
      have hrest : ∀ n ∈ rest, NormalName n := fun n hn => hN n (by simp [hn])
      rcases hod q with hl | hl
      · rw [← hq, hl]
        simp only
        cases rest with
        | nil => simp; exact ⟨q, hq⟩
        | cons r rs =>
          have hr := (hrest r (by simp)).1
          simp [hr]
      · rw [← hq, hl]
        simp only
        have := ih f (E ++ q) hrest (by
          intro n _
          exact List.prefix_append_of_prefix (List.prefix_append E q))
        cases rest with
        | nil => simp [walk_nil]
        | cons r rs =>
          revert this
          cases walk fs fl f (E ++ q) (r :: rs) with
          | found p k g => simp
          | absent d n tr g => simp
          | err e => simp

/-! ### the setting -/

/-- The situation after `resolve_within_root_for_write` succeeded, in physical terms. -/
structure Setting where
  fs : FS
  env : Env
  /-- the segments of the nearest ancestor of the target that exists -/
  X : Segs
  /-- the names below it, down to the target -/
  rem : List Str
  st : PPath
  P : PPath
  kP : Kind
  g : Nat
  hwf : fs.WF
  hrem : ∀ n ∈ rem, NormalName n
  hX : walk fs true env.fuel st X = .found P kP g
  /-- paths below `X` are proper paths starting where `X` starts -/
  hpath : ∀ r', r' <+: rem → (r' ≠ [] ∨ rem = []) →
    emptyPath (X ++ r') = false ∧ env.start (X ++ r') = st
  /-- the first name below `X` does not resolve and is not a symbolic link -/
  hun : ∀ r1, rem.head? = some r1 →
    (∀ q k h, walk fs true env.fuel st (X ++ [r1]) ≠ .found q k h) ∧
    (∀ q t h, walk fs false env.fuel st (X ++ [r1]) ≠ .found q (.link t) h)

namespace Setting
variable (S : Setting)

/-- the first location that does not exist yet -/
def E : PPath := S.P ++ S.rem.take 1

/-- `fs'` is `S.fs` plus directories below `E` -/
def Inv (fs' : FS) : Prop :=
  S.fs.le fs' ∧ ∀ p, fs'.look p ≠ S.fs.look p → S.E <+: p ∧ fs'.look p = some .dir

theorem inv_refl : S.Inv S.fs := ⟨FS.le_refl _, fun p h => absurd rfl h⟩

/-- a path strictly between `X` and the target (or the target) -/
def Fresh (a : Segs) : Prop := ∃ r', r' ≠ [] ∧ r' <+: S.rem ∧ a = S.X ++ r'

theorem look_E_none (r1 : Str) (rs : List Str) (hr : S.rem = r1 :: rs) (g' : Nat)
    (hk : S.kP = .dir) (hg : S.g = g' + 1) : S.fs.look (S.P ++ [r1]) = none := by
  obtain ⟨h1, h2⟩ := S.hun r1 (by simp [hr])
  have hN : NormalName r1 := S.hrem r1 (by simp [hr])
  have hw : ∀ fl, walk S.fs fl S.env.fuel S.st (S.X ++ [r1]) = walk S.fs fl (g' + 1) S.P [r1] := by
    intro fl
    rw [walk_append _ _ _ _ _ _ (by simp), S.hX, hk, hg]; rfl
  rcases hl : S.fs.look (S.P ++ [r1]) with _ | k
  · rfl
  · exfalso
    cases k with
    | dir =>
      apply h1 (S.P ++ [r1]) .dir g'
      rw [hw, walk]; simp [isSkip_normal hN, hN.2.2.1, hl, walk_nil]
    | file c =>
      apply h1 (S.P ++ [r1]) (.file c) g'
      rw [hw, walk]; simp [isSkip_normal hN, hN.2.2.1, hl]
    | link t =>
      apply h2 (S.P ++ [r1]) t g'
      rw [hw, walk]; simp [isSkip_normal hN, hN.2.2.1, hl]

theorem only_dirs (fs' : FS) (hinv : S.Inv fs') (r1 : Str) (rs : List Str)
    (hr : S.rem = r1 :: rs) (g' : Nat) (hk : S.kP = .dir) (hg : S.g = g' + 1) :
    OnlyDirsBelow fs' S.E := by
  intro q
  have hE : S.E = S.P ++ [r1] := by simp [E, hr]
  have hnone := absent_below S.fs S.hwf _ (S.look_E_none r1 rs hr g' hk hg) q
  by_cases hc : fs'.look (S.E ++ q) = S.fs.look (S.E ++ q)
  · left; rw [hc, hE]; exact hnone
  · right; exact (hinv.2 _ hc).2

/-- The walk of a fresh path in a tree satisfying the invariant. -/
theorem walk_fresh (fs' : FS) (hinv : S.Inv fs') (fl : Bool) (r' : List Str) (hne : r' ≠ [])
    (hpre : r' <+: S.rem) :
    match walk fs' fl S.env.fuel S.st (S.X ++ r') with
    | .found _ k _ => k = .dir
    | .absent d n tr _ => tr = false ∧ S.E <+: d ++ [n]
    | .err _ => True := by
  rw [walk_append _ _ _ _ _ _ hne, walk_mono _ _ hinv.1 _ _ _ _ _ _ _ S.hX]
  obtain ⟨r1, rs, hr⟩ : ∃ r1 rs, S.rem = r1 :: rs := by
    cases h : S.rem with
    | nil => rw [h] at hpre; exact absurd (List.prefix_nil.1 hpre) hne
    | cons a b => exact ⟨a, b, rfl⟩
  cases hk : S.kP with
  | file c => simp [Res.andThen]
  | link t => simp [Res.andThen]
  | dir =>
    simp only [Res.andThen]
    cases hg : S.g with
    | zero =>
      cases r' with
      | nil => exact absurd rfl hne
      | cons a b => simp [walk]
    | succ g' =>
      have hod := S.only_dirs fs' hinv r1 rs hr g' hk hg
      have hE : S.E = S.P ++ [r1] := by simp [E, hr]
      have hN : ∀ n ∈ r', NormalName n := fun n hn => S.hrem n (hpre.subset hn)
      have hhead : ∀ n, r'.head? = some n → S.E <+: S.P ++ [n] := by
        intro n hn
        cases r' with
        | nil => exact absurd rfl hne
        | cons a b =>
          simp at hn; subst hn
          rw [hr] at hpre
          have := (List.cons_prefix_cons.1 hpre).1
          subst this
          rw [hE]; exact List.prefix_refl _
      have := walk_only_dirs fs' fl S.E hod r' (g' + 1) S.P hN hhead
      revert this
      cases walk fs' fl (g' + 1) S.P r' with
      | found p k g => simp; intro h; rcases h with h | h; exact absurd h hne; exact h.1
      | absent d n tr g => simp
      | err e => simp

theorem walkP_fresh (fs' : FS) (fl : Bool) (r' : List Str) (hne : r' ≠ []) (hpre : r' <+: S.rem) :
    walkP fs' S.env fl (S.X ++ r') = walk fs' fl S.env.fuel S.st (S.X ++ r') := by
  obtain ⟨h1, h2⟩ := S.hpath r' hpre (Or.inl hne)
  simp [walkP, h1, h2]

/-- `mkdir` of a fresh path keeps the invariant -/
theorem mkdir_fresh (fs' : FS) (hinv : S.Inv fs') (a : Segs) (ha : S.Fresh a) (fs'' : FS)
    (h : mkdir fs' S.env a = .ok fs'') : S.Inv fs'' := by
  obtain ⟨r', hne, hpre, rfl⟩ := ha
  unfold mkdir at h
  rw [S.walkP_fresh fs' false r' hne hpre] at h
  have hw := S.walk_fresh fs' hinv false r' hne hpre
  have hlook := walk_absent_look fs' false S.env.fuel S.st (S.X ++ r')
  revert h hw hlook
  cases walk fs' false S.env.fuel S.st (S.X ++ r') with
  | found p k g => intro h; cases h
  | err e => intro h; cases h
  | absent d n tr g =>
    intro h hw hlook
    cases h
    have hnone := hlook d n tr g rfl
    obtain ⟨_, hE⟩ := hw
    constructor
    · intro p k hp
      rw [look_set]
      split
      · rename_i heq
        subst heq
        have := hinv.1 _ _ hp
        rw [hnone] at this; cases this
      · exact hinv.1 _ _ hp
    · intro p hp
      rw [look_set] at hp ⊢
      split
      · rename_i heq; subst heq; exact ⟨hE, rfl⟩
      · rename_i hneq
        simp only [hneq, if_false] at hp
        exact hinv.2 p hp

theorem inv_conf (fs' : FS) (hinv : S.Inv fs') : ∀ p, fs'.look p ≠ S.fs.look p → S.P <+: p := by
  intro p hp
  exact (List.prefix_append S.P _).trans (hinv.2 p hp).1

/-- `write` of the target in a tree satisfying the invariant only touches locations below `P` -/
theorem write_conf (fs' : FS) (hinv : S.Inv fs') (data : Str) (fs'' : FS)
    (h : writeFile fs' S.env (S.X ++ S.rem) data = .ok fs'') :
    ∀ p, fs''.look p ≠ S.fs.look p → S.P <+: p := by
  unfold writeFile at h
  by_cases hrem : S.rem = []
  · -- the target itself exists
    obtain ⟨h1, h2⟩ := S.hpath S.rem (List.prefix_refl _) (Or.inr hrem)
    have hw : walkP fs' S.env true (S.X ++ S.rem) = .found S.P S.kP S.g := by
      simp only [walkP, h1, h2]
      rw [hrem, List.append_nil]
      exact walk_mono _ _ hinv.1 _ _ _ _ _ _ _ S.hX
    rw [hw] at h
    cases hk : S.kP with
    | dir => rw [hk] at h; cases h
    | link t => rw [hk] at h; cases h
    | file c =>
      rw [hk] at h
      cases h
      intro p hp
      rw [look_set] at hp
      split at hp
      · rename_i heq; subst heq; exact List.prefix_refl _
      · exact S.inv_conf fs' hinv p hp
  · rw [S.walkP_fresh fs' true S.rem hrem (List.prefix_refl _)] at h
    have hw := S.walk_fresh fs' hinv true S.rem hrem (List.prefix_refl _)
    revert h hw
    cases walk fs' true S.env.fuel S.st (S.X ++ S.rem) with
    | err e => intro h; cases h
    | found p k g =>
      intro h hw
      simp only at hw
      subst hw
      cases h
    | absent d n tr g =>
      intro h hw
      obtain ⟨htr, hE⟩ := hw
      subst htr
      cases h
      intro p hp
      rw [look_set] at hp
      split at hp
      · rename_i heq; subst heq; exact (List.prefix_append S.P _).trans hE
      · exact S.inv_conf fs' hinv p hp

/-- what `mkdir` answers for a path that already resolves (or cannot be walked at all) -/
def StopRes : Res → Prop
  | .found _ _ _ => True
  | .err e => e ≠ .enoent
  | .absent _ _ _ _ => False

/-- `create_dir_all`'s first loop ends at this ancestor -/
def Stop (a : Segs) : Prop :=
  emptyPath a = true ∨ parentSegs a = none ∨ StopRes (walkP S.fs S.env false a)

theorem phase2_inv : ∀ (ds : List Segs) (fs' : FS), S.Inv fs' → (∀ d ∈ ds, S.Fresh d) →
    S.Inv (cdaPhase2 S.env fs' ds).2 := by
  intro ds
  induction ds with
  | nil => intro fs' h _; simpa [cdaPhase2] using h
  | cons d ds ih =>
    intro fs' hinv hF
    rw [cdaPhase2]
    cases hm : mkdir fs' S.env d with
    | ok fs'' =>
      simp only
      exact ih fs'' (S.mkdir_fresh fs' hinv d (hF d (by simp)) fs'' hm) (fun x hx => hF x (by simp [hx]))
    | error e =>
      simp only
      split
      · exact ih fs' hinv (fun x hx => hF x (by simp [hx]))
      · exact hinv

theorem phase1_inv : ∀ (pre rest unc : List Segs), (∀ a ∈ pre, S.Fresh a) →
    (rest = [] ∨ ∃ s tail, rest = s :: tail ∧ S.Stop s) → (∀ d ∈ unc, S.Fresh d) →
    S.Inv (cdaPhase1 S.env S.fs (pre ++ rest) unc).2 := by
  intro pre
  induction pre with
  | nil =>
    intro rest unc _ hrest hunc
    rcases hrest with rfl | ⟨s, tail, rfl, hs⟩
    · simp only [List.append_nil, cdaPhase1]
      exact S.phase2_inv unc S.fs S.inv_refl hunc
    · simp only [List.nil_append, cdaPhase1]
      split
      · exact S.phase2_inv unc S.fs S.inv_refl hunc
      · rename_i hguard
        have hres : StopRes (walkP S.fs S.env false s) := by
          rcases hs with h | h | h
          · exact absurd (Or.inl h) hguard
          · exact absurd (Or.inr h) hguard
          · exact h
        unfold mkdir
        revert hres
        cases walkP S.fs S.env false s with
        | absent d n tr g => intro h; exact absurd h (by simp [StopRes])
        | found p k g =>
          intro _
          simp only
          split
          · exact S.phase2_inv unc S.fs S.inv_refl hunc
          · exact S.inv_refl
        | err e =>
          intro h
          simp only [StopRes] at h
          cases e with
          | enoent => exact absurd rfl h
          | enotdir => simp; exact S.inv_refl
          | eloop => simp; exact S.inv_refl
          | eexist => simp only; split; exact S.phase2_inv unc S.fs S.inv_refl hunc; exact S.inv_refl
          | eisdir => simp; exact S.inv_refl
  | cons a pre ih =>
    intro rest unc hpre hrest hunc
    have ha := hpre a (by simp)
    have hpre' : ∀ x ∈ pre, S.Fresh x := fun x hx => hpre x (by simp [hx])
    simp only [List.cons_append, cdaPhase1]
    split
    · exact S.phase2_inv unc S.fs S.inv_refl hunc
    · cases hm : mkdir S.fs S.env a with
      | ok fs'' =>
        simp only
        exact S.phase2_inv unc fs'' (S.mkdir_fresh S.fs S.inv_refl a ha fs'' hm) hunc
      | error e =>
        cases e with
        | enoent =>
          simp only
          exact ih rest (a :: unc) hpre' hrest (by
            intro d hd; simp at hd; rcases hd with rfl | hd
            · exact ha
            · exact hunc d hd)
        | enotdir => simp; exact S.inv_refl
        | eloop => simp; exact S.inv_refl
        | eexist => simp only; split; exact S.phase2_inv unc S.fs S.inv_refl hunc; exact S.inv_refl
        | eisdir => simp; exact S.inv_refl

end Setting
end C2pa.C29

namespace C2pa.C29
namespace Setting
variable (S : Setting)

/-- `create_dir_all(parent)` + `write(target)`: every location that differs afterwards is
below `P`, provided the ancestors of the parent are fresh paths up to one at which the first
loop of `create_dir_all` stops. -/
theorem createAndWrite_conf (data : Str)
    (hdec : ∃ pre rest, ancestors ((parentSegs (S.X ++ S.rem)).getD [[]]) = pre ++ rest ∧
      (∀ a ∈ pre, S.Fresh a) ∧ (rest = [] ∨ ∃ s tail, rest = s :: tail ∧ S.Stop s)) :
    ∀ p, (createAndWrite S.fs S.env (S.X ++ S.rem) data).2.look p ≠ S.fs.look p → S.P <+: p := by
  obtain ⟨pre, rest, hanc, hpre, hrest⟩ := hdec
  have hcda : S.Inv (createDirAll S.fs S.env ((parentSegs (S.X ++ S.rem)).getD [[]])).2 := by
    unfold createDirAll
    split
    · exact S.inv_refl
    · rw [hanc]; exact S.phase1_inv pre rest [] hpre hrest (by simp)
  unfold createAndWrite
  revert hcda
  cases createDirAll S.fs S.env ((parentSegs (S.X ++ S.rem)).getD [[]]) with
  | mk r fs1 =>
    intro hcda
    simp only at hcda
    cases r with
    | error e => simp only; exact S.inv_conf fs1 hcda
    | ok u =>
      simp only
      cases hw : writeFile fs1 S.env (S.X ++ S.rem) data with
      | error e => simp only; exact S.inv_conf fs1 hcda
      | ok fs2 => simp only; exact S.write_conf fs1 hcda data fs2 hw

end Setting
end C2pa.C29
