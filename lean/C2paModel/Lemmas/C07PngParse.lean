import C2paModel.Lemmas.C07Png
/-
PNG, layer B: the chunk walker characterised as a parser.

`Png.chunks b = some ps` holds exactly when the file is
`sig ++ enc r₁ ++ … ++ enc rₙ ++ tail` for a list of raw chunk records `r₁ … rₙ` that is a
well-formed stream (`Stream`: every record has a 4-byte valid name, a 4-byte CRC field and
fewer than 2³² data bytes; the last record — and only the last — is IEND), and then `ps` are
the positions of these records (`place 8 rs`). Both directions are proved for every byte
list (`chunks_of_parsed`, `parsed_of_chunks`), which turns every statement about the
byte-splicing handler functions into a statement about lists of records.
-/
namespace C2pa.C07.Png

open C2pa.C07

/-! ### bytes -/

theorem split_at (b : Bytes) (pos : Nat) (h : pos ≤ b.length) :
    ∃ pre rest, b = pre ++ rest ∧ pre.length = pos :=
  ⟨b.take pos, b.drop pos, (List.take_append_drop pos b).symm, by simp; omega⟩

theorem split4 (b : Bytes) (pos : Nat) (h : pos + 4 ≤ b.length) :
    ∃ pre a0 a1 a2 a3 rest, b = pre ++ a0 :: a1 :: a2 :: a3 :: rest ∧ pre.length = pos := by
  obtain ⟨pre, rest, rfl, hl⟩ := split_at b pos (by omega)
  simp at h
  match rest, h with
  | a0 :: a1 :: a2 :: a3 :: rest, _ => exact ⟨pre, a0, a1, a2, a3, rest, rfl, hl⟩
  | [], h => simp at h; omega
  | [_], h => simp at h; omega
  | [_, _], h => simp at h; omega
  | [_, _, _], h => simp at h; omega

theorem rdBe32_be32 (pre rest : Bytes) (n : Nat) (h : n < 4294967296) :
    rdBe32 (pre ++ (be32 n ++ rest)) pre.length = n := by
  unfold rdBe32 be32
  simp [List.getD_eq_getElem?_getD]
  omega

theorem rdBe32_lt (b : Bytes) (pos : Nat) : rdBe32 b pos < 4294967296 := by
  unfold rdBe32
  have h0 := (b.getD pos 0).toNat_lt; have h1 := (b.getD (pos + 1) 0).toNat_lt
  have h2 := (b.getD (pos + 2) 0).toNat_lt; have h3 := (b.getD (pos + 3) 0).toNat_lt
  omega

theorem be32_rdBe32 (b : Bytes) (pos : Nat) (h : pos + 4 ≤ b.length) :
    be32 (rdBe32 b pos) = slice b pos 4 := by
  obtain ⟨pre, a0, a1, a2, a3, rest, rfl, rfl⟩ := split4 b pos h
  have h0 := a0.toNat_lt; have h1 := a1.toNat_lt; have h2 := a2.toNat_lt; have h3 := a3.toNat_lt
  have hs : slice (pre ++ a0 :: a1 :: a2 :: a3 :: rest) pre.length 4 = [a0, a1, a2, a3] := by
    simp [slice]
  have hr : rdBe32 (pre ++ a0 :: a1 :: a2 :: a3 :: rest) pre.length
      = a0.toNat * 16777216 + a1.toNat * 65536 + a2.toNat * 256 + a3.toNat := by
    unfold rdBe32
    simp [List.getD_eq_getElem?_getD]
  rw [hs, hr]
  unfold be32
  have e0 : (a0.toNat * 16777216 + a1.toNat * 65536 + a2.toNat * 256 + a3.toNat) / 16777216 % 256
      = a0.toNat := by omega
  have e1 : (a0.toNat * 16777216 + a1.toNat * 65536 + a2.toNat * 256 + a3.toNat) / 65536 % 256
      = a1.toNat := by omega
  have e2 : (a0.toNat * 16777216 + a1.toNat * 65536 + a2.toNat * 256 + a3.toNat) / 256 % 256
      = a2.toNat := by omega
  have e3 : (a0.toNat * 16777216 + a1.toNat * 65536 + a2.toNat * 256 + a3.toNat) % 256
      = a3.toNat := by omega
  rw [e0, e1, e2, e3]
  simp

theorem slice_length (b : Bytes) (k n : Nat) (h : k + n ≤ b.length) : (slice b k n).length = n := by
  simp [slice]; omega

theorem drop_split (b : Bytes) (k n : Nat) : b.drop k = slice b k n ++ b.drop (k + n) := by
  unfold slice
  rw [← List.drop_drop, List.take_append_drop]

/-- Splitting at a known prefix length. -/
theorem take_app (p q : Bytes) (k : Nat) (h : k = p.length) : (p ++ q).take k = p := by
  subst h; simp

theorem drop_app (p q : Bytes) (k : Nat) (h : k = p.length) : (p ++ q).drop k = q := by
  subst h; simp

theorem take_of_eq {b p q : Bytes} {k : Nat} (h : b = p ++ q) (hk : k = p.length) : b.take k = p :=
  (congrArg (List.take k) h).trans (take_app p q k hk)

theorem drop_of_eq {b p q : Bytes} {k : Nat} (h : b = p ++ q) (hk : k = p.length) : b.drop k = q :=
  (congrArg (List.drop k) h).trans (drop_app p q k hk)

theorem slice_app (p m q : Bytes) (k n : Nat) (hk : k = p.length) (hn : n = m.length) :
    slice (p ++ (m ++ q)) k n = m := by
  subst hk; subst hn; simp [slice]

/-! ### raw chunk records -/

/-- One chunk as it lies in the file: name, data, the 4 bytes in the CRC position (the
walker does not check them). -/
structure RC where
  name : Bytes
  data : Bytes
  crc : Bytes

def RC.enc (r : RC) : Bytes := be32 r.data.length ++ r.name ++ r.data ++ r.crc

structure RC.ok (r : RC) : Prop where
  name4 : r.name.length = 4
  crc4 : r.crc.length = 4
  small : r.data.length < 4294967296
  utf8 : nameOk r.name = true

def encAll (rs : List RC) : Bytes := rs.flatMap RC.enc

/-- Positions of the records when the first starts at `pos`. -/
def place : Nat → List RC → List Chunk
  | _, [] => []
  | pos, r :: rest => ⟨pos, r.data.length, r.name⟩ :: place (pos + (r.data.length + 12)) rest

/-- A well-formed chunk stream: records are `ok`, the stream ends with its first IEND. -/
def Stream : List RC → Prop
  | [] => False
  | r :: rest => r.ok ∧ ((r.name = IEND ∧ rest = []) ∨ (r.name ≠ IEND ∧ Stream rest))

theorem enc_length (r : RC) (h : r.ok) : r.enc.length = r.data.length + 12 := by
  simp [RC.enc, be32_length, h.name4, h.crc4]; omega

theorem encAll_nil : encAll [] = [] := rfl

theorem encAll_cons (r : RC) (rs : List RC) : encAll (r :: rs) = r.enc ++ encAll rs := by
  simp [encAll]

theorem encAll_append (xs ys : List RC) : encAll (xs ++ ys) = encAll xs ++ encAll ys := by
  simp [encAll]

theorem Stream.all_ok : ∀ {rs : List RC}, Stream rs → ∀ r ∈ rs, r.ok
  | [], h, _, _ => h.elim
  | r :: rest, h, x, hx => by
    rcases List.mem_cons.1 hx with rfl | hx
    · exact h.1
    · rcases h.2 with ⟨_, rfl⟩ | ⟨_, hs⟩
      · cases hx
      · exact Stream.all_ok hs x hx

theorem Stream.ne_nil : ∀ {rs : List RC}, Stream rs → rs ≠ []
  | [], h => h.elim
  | _ :: _, _ => by simp

/-- Each record takes at least 12 bytes, so fuel `|file| + 1` is always enough. -/
theorem length_le_encAll : ∀ (rs : List RC), (∀ r ∈ rs, r.ok) → rs.length ≤ (encAll rs).length
  | [], _ => by simp
  | r :: rest, h => by
    have := length_le_encAll rest (fun x hx => h x (List.mem_cons_of_mem _ hx))
    have := enc_length r (h r List.mem_cons_self)
    simp [encAll_cons]; omega

/-! ### one step of the walker -/

theorem walk_enc_step (pre rest : Bytes) (r : RC) (hr : r.ok) (fuel : Nat) :
    walk (pre ++ (r.enc ++ rest)) (fuel + 1) pre.length =
      if r.name == IEND then some [⟨pre.length, r.data.length, r.name⟩]
      else (walk (pre ++ (r.enc ++ rest)) fuel (pre.length + 12 + r.data.length)).map
        (⟨pre.length, r.data.length, r.name⟩ :: ·) := by
  have hlen : (pre ++ (r.enc ++ rest)).length = pre.length + (r.data.length + 12) + rest.length := by
    simp [enc_length r hr]; omega
  have hrd : rdBe32 (pre ++ (r.enc ++ rest)) pre.length = r.data.length := by
    have : r.enc ++ rest = be32 r.data.length ++ (r.name ++ r.data ++ r.crc ++ rest) := by
      simp [RC.enc, List.append_assoc]
    rw [this]; exact rdBe32_be32 _ _ _ hr.small
  have hname : slice (pre ++ (r.enc ++ rest)) (pre.length + 4) 4 = r.name := by
    have : pre ++ (r.enc ++ rest) = (pre ++ be32 r.data.length) ++ (r.name ++ (r.data ++ r.crc ++ rest)) := by
      simp [RC.enc, List.append_assoc]
    rw [this]
    exact slice_app _ _ _ _ _ (by simp [be32_length]) hr.name4.symm
  rw [walk]
  have h1 : ¬ pre.length + 8 > (pre ++ (r.enc ++ rest)).length := by omega
  rw [if_neg h1]
  simp only [hrd, hname]
  have h2 : ¬ pre.length + 8 + r.data.length + 4 > (pre ++ (r.enc ++ rest)).length := by omega
  rw [if_neg h2]
  simp [hr.utf8]

/-- The file around a chunk head that passed the walker's bound checks. -/
theorem chunk_at (b : Bytes) (pos : Nat) (h1 : pos + 8 ≤ b.length)
    (h2 : pos + 8 + rdBe32 b pos + 4 ≤ b.length) (h3 : nameOk (slice b (pos + 4) 4) = true) :
    ∃ r : RC, r.ok ∧ r.name = slice b (pos + 4) 4 ∧ r.data.length = rdBe32 b pos ∧
      b = b.take pos ++ (r.enc ++ b.drop (pos + 12 + rdBe32 b pos)) := by
  refine ⟨⟨slice b (pos + 4) 4, slice b (pos + 8) (rdBe32 b pos), slice b (pos + 8 + rdBe32 b pos) 4⟩,
    ⟨slice_length _ _ _ (by omega), slice_length _ _ _ (by omega), ?_, h3⟩, rfl,
    slice_length _ _ _ (by omega), ?_⟩
  · show (slice b (pos + 8) (rdBe32 b pos)).length < _
    rw [slice_length _ _ _ (by omega)]; exact rdBe32_lt b pos
  · show b = b.take pos ++ (RC.enc _ ++ _)
    unfold RC.enc
    simp only [slice_length b (pos + 8) (rdBe32 b pos) (by omega)]
    rw [be32_rdBe32 b pos (by omega)]
    have e1 := drop_split b pos 4
    have e2 := drop_split b (pos + 4) 4
    have e3 := drop_split b (pos + 8) (rdBe32 b pos)
    have e4 := drop_split b (pos + 8 + rdBe32 b pos) 4
    have e5 : pos + 8 + rdBe32 b pos + 4 = pos + 12 + rdBe32 b pos := by omega
    rw [e5] at e4
    have e6 : pos + 4 + 4 = pos + 8 := by omega
    rw [e6] at e2
    calc b = b.take pos ++ b.drop pos := (List.take_append_drop pos b).symm
      _ = _ := by rw [e1, e2, e3, e4]; simp [List.append_assoc]

/-! ### walker ⇄ stream -/

theorem walk_enc : ∀ (rs : List RC) (pre tail : Bytes) (fuel : Nat), Stream rs → rs.length ≤ fuel →
    walk (pre ++ (encAll rs ++ tail)) fuel pre.length = some (place pre.length rs)
  | [], _, _, _, h, _ => h.elim
  | r :: rest, pre, tail, fuel, h, hf => by
    obtain ⟨fuel, rfl⟩ : ∃ f, fuel = f + 1 := ⟨fuel - 1, by simp at hf; omega⟩
    have e : pre ++ (encAll (r :: rest) ++ tail) = pre ++ (r.enc ++ (encAll rest ++ tail)) := by
      simp [encAll_cons, List.append_assoc]
    rw [e, walk_enc_step pre _ r h.1 fuel]
    rcases h.2 with ⟨hn, rfl⟩ | ⟨hn, hs⟩
    · simp [hn, place]
    · have hne : (r.name == IEND) = false := by simpa using hn
      rw [hne]
      simp only [Bool.false_eq_true, if_false]
      have e2 : pre ++ (r.enc ++ (encAll rest ++ tail)) = (pre ++ r.enc) ++ (encAll rest ++ tail) := by
        simp [List.append_assoc]
      have e3 : pre.length + 12 + r.data.length = (pre ++ r.enc).length := by
        simp [enc_length r h.1]; omega
      rw [e2, e3, walk_enc rest (pre ++ r.enc) tail fuel hs (by simp at hf; omega)]
      simp [place, enc_length r h.1]

theorem stream_of_walk : ∀ (fuel : Nat) (b : Bytes) (pos : Nat) (ps : List Chunk),
    walk b fuel pos = some ps →
    ∃ rs tail, b = b.take pos ++ (encAll rs ++ tail) ∧ Stream rs ∧ ps = place pos rs
  | 0, _, _, _, h => by simp [walk] at h
  | fuel + 1, b, pos, ps, h => by
    rw [walk] at h
    by_cases h1 : pos + 8 > b.length
    · simp [h1] at h
    · simp only [h1, if_false] at h
      by_cases h2 : pos + 8 + rdBe32 b pos + 4 > b.length
      · simp [h2] at h
      · simp only [h2, if_false] at h
        by_cases h3 : nameOk (slice b (pos + 4) 4) = true
        · simp only [h3, Bool.not_true, Bool.false_eq_true, if_false] at h
          obtain ⟨r, hok, hname, hdl, hb⟩ := chunk_at b pos (by omega) (by omega) h3
          by_cases h4 : (slice b (pos + 4) 4 == IEND) = true
          · simp only [h4, if_true] at h
            injection h with h; subst h
            refine ⟨[r], b.drop (pos + 12 + rdBe32 b pos), ?_, ⟨hok, Or.inl ⟨?_, rfl⟩⟩, ?_⟩
            · have e : encAll [r] = r.enc := by simp [encAll]
              rw [e]; exact hb
            · rw [hname]; simpa using h4
            · simp [place, hname, hdl]
          · simp only [h4] at h
            cases hw : walk b fuel (pos + 12 + rdBe32 b pos) with
            | none => simp [hw] at h
            | some rest =>
              simp only [hw, Option.map_some] at h
              injection h with h; subst h
              obtain ⟨rs, tail, hb2, hs, hps⟩ := stream_of_walk fuel b _ rest hw
              have htake : b.take (pos + 12 + rdBe32 b pos) = b.take pos ++ r.enc := by
                have hl : pos + 12 + rdBe32 b pos = (b.take pos ++ r.enc).length := by
                  rw [List.length_append, List.length_take, enc_length r hok, hdl]; omega
                exact take_of_eq (hb.trans (List.append_assoc _ _ _).symm) hl
              refine ⟨r :: rs, tail, ?_, ⟨hok, Or.inr ⟨?_, hs⟩⟩, ?_⟩
              · calc b = b.take (pos + 12 + rdBe32 b pos) ++ (encAll rs ++ tail) := hb2
                  _ = (b.take pos ++ r.enc) ++ (encAll rs ++ tail) := by rw [htake]
                  _ = _ := by simp [encAll_cons, List.append_assoc]
              · rw [hname]; simpa using h4
              · have e : pos + 12 + rdBe32 b pos = pos + (r.data.length + 12) := by omega
                rw [hps, e]; simp [place, hname, hdl]
        · simp [h3] at h

/-! ### the parsed form of a file -/

/-- `b` is the signature, the well-formed chunk stream `rs`, and `tail` (bytes after IEND). -/
structure Parsed (b : Bytes) (rs : List RC) (tail : Bytes) : Prop where
  eq : b = sig ++ (encAll rs ++ tail)
  stream : Stream rs


theorem chunks_of_parsed {b : Bytes} {rs : List RC} {tail : Bytes} (h : Parsed b rs tail) :
    chunks b = some (place 8 rs) := by
  unfold chunks
  have ht : b.take 8 = sig := take_of_eq h.eq rfl
  have : (b.take 8 != sig) = false := by rw [ht]; simp
  rw [this]
  simp only [Bool.false_eq_true, if_false]
  have hf : rs.length ≤ b.length + 1 := by
    have := length_le_encAll rs (h.stream.all_ok)
    have e := congrArg List.length h.eq
    simp at e; omega
  have := walk_enc rs sig tail (b.length + 1) h.stream hf
  rw [sig_length] at this
  exact (congrArg (fun x => walk x (b.length + 1) 8) h.eq).trans this

theorem parsed_of_walk {b : Bytes} {ps : List Chunk} (h : walk b (b.length + 1) 8 = some ps)
    (ht : b.take 8 = sig) : ∃ rs tail, Parsed b rs tail ∧ ps = place 8 rs := by
  obtain ⟨rs, tail, hb, hst, hps⟩ := stream_of_walk _ b 8 ps h
  rw [ht] at hb
  exact ⟨rs, tail, ⟨hb, hst⟩, hps⟩

theorem parsed_of_chunks {b : Bytes} {ps : List Chunk} (h : chunks b = some ps) :
    ∃ rs tail, Parsed b rs tail ∧ ps = place 8 rs := by
  unfold chunks at h
  cases hs : (b.take 8 != sig) with
  | true => rw [hs, if_pos rfl] at h; cases h
  | false =>
    rw [hs, if_neg Bool.false_ne_true] at h
    exact parsed_of_walk h (bne_eq_false_iff_eq.1 hs)

/-- The parse is unique: `chunks` is a function of the bytes. -/
theorem chunks_iff (b : Bytes) (ps : List Chunk) :
    chunks b = some ps ↔ ∃ rs tail, Parsed b rs tail ∧ ps = place 8 rs :=
  ⟨parsed_of_chunks, fun ⟨_, _, hp, he⟩ => by rw [he]; exact chunks_of_parsed hp⟩

end C2pa.C07.Png
