import C2paModel.Lemmas.C29a
/-! C29 — `sanitize_archive_path`: what an accepted path looks like. -/
namespace C2pa.C29

/-- a `Component::Normal` name: non-empty, not `.`/`..`, no `/` -/
def NormalName (n : Str) : Prop := n ≠ [] ∧ n ≠ [46] ∧ n ≠ [46, 46] ∧ 47 ∉ n

def normalsOf : List Comp → List Str
  | [] => []
  | .normal n :: cs => n :: normalsOf cs
  | .root :: cs => normalsOf cs
  | .cur :: cs => normalsOf cs
  | .parent :: cs => normalsOf cs

def accJoin : Str → List Str → Str
  | acc, [] => acc
  | acc, n :: ns => accJoin (if acc = [] then n else acc ++ 47 :: n) ns

theorem sanLoop_spec : ∀ (cs : List Comp) (acc r : Str), sanLoop acc cs = some r →
    (∀ c ∈ cs, c = .cur ∨ ∃ n, c = .normal n) ∧ r = accJoin acc (normalsOf cs) := by
  intro cs
  induction cs with
  | nil => intro acc r h; simp [sanLoop] at h; simp [normalsOf, accJoin, h]
  | cons c cs ih =>
    intro acc r h
    cases c with
    | root => simp [sanLoop, sanStep] at h
    | parent => simp [sanLoop, sanStep] at h
    | cur =>
      simp only [sanLoop, sanStep] at h
      obtain ⟨h1, h2⟩ := ih acc r h
      refine ⟨?_, by simpa [normalsOf] using h2⟩
      intro c hc; simp at hc
      rcases hc with rfl | hc
      · exact Or.inl rfl
      · exact h1 c hc
    | normal n =>
      simp only [sanLoop, sanStep] at h
      obtain ⟨h1, h2⟩ := ih _ r h
      refine ⟨?_, by simpa [normalsOf, accJoin] using h2⟩
      intro c hc; simp at hc
      rcases hc with rfl | hc
      · exact Or.inr ⟨n, rfl⟩
      · exact h1 c hc

theorem accJoin_eq : ∀ (names : List Str) (acc : Str), (∀ n ∈ names, n ≠ []) →
    accJoin acc names =
      if acc = [] then joinSlash names
      else if names = [] then acc else acc ++ 47 :: joinSlash names := by
  intro names
  induction names with
  | nil => intro acc _; by_cases h : acc = [] <;> simp [accJoin, joinSlash, h]
  | cons n ns ih =>
    intro acc hne
    have hn : n ≠ [] := hne n (by simp)
    have hns : ∀ m ∈ ns, m ≠ [] := fun m hm => hne m (by simp [hm])
    rw [accJoin, ih _ hns]
    by_cases h : acc = []
    · simp only [h, if_true, if_neg hn]
      cases ns with
      | nil => simp [joinSlash]
      | cons m ms => simp [joinSlash]
    · simp only [h, if_false]
      have : acc ++ 47 :: n ≠ [] := by simp
      rw [if_neg this]
      cases ns with
      | nil => simp [joinSlash]
      | cons m ms => simp [joinSlash]

theorem single_normal {s n : Str} (h : single s = some (.normal n)) :
    s = n ∧ n ≠ [] ∧ n ≠ [46] ∧ n ≠ [46, 46] := by
  unfold single at h
  split at h
  · cases h
  · split at h
    · cases h
    · split at h
      · cases h
      · rename_i h1 h2 h3
        cases h
        exact ⟨rfl, h1, h2, h3⟩

theorem normalsOf_append (a b : List Comp) : normalsOf (a ++ b) = normalsOf a ++ normalsOf b := by
  induction a with
  | nil => rfl
  | cons c cs ih => cases c <;> simp [normalsOf, ih]

theorem normalsOf_filterMap_single (segs : Segs) :
    ∀ n ∈ normalsOf (segs.filterMap single), n ∈ segs ∧ n ≠ [] ∧ n ≠ [46] ∧ n ≠ [46, 46] := by
  induction segs with
  | nil => simp [normalsOf]
  | cons s ss ih =>
    intro n hn
    rw [List.filterMap_cons] at hn
    split at hn
    · obtain ⟨a, b⟩ := ih n hn
      exact ⟨List.mem_cons_of_mem _ a, b⟩
    · rename_i c hc
      cases c with
      | normal m =>
        simp [normalsOf] at hn
        rcases hn with rfl | hn
        · obtain ⟨e, r⟩ := single_normal hc
          subst e
          exact ⟨by simp, r⟩
        · obtain ⟨a, b⟩ := ih n hn
          exact ⟨List.mem_cons_of_mem _ a, b⟩
      | root => simp [normalsOf] at hn; obtain ⟨a, b⟩ := ih n hn; exact ⟨List.mem_cons_of_mem _ a, b⟩
      | cur => simp [normalsOf] at hn; obtain ⟨a, b⟩ := ih n hn; exact ⟨List.mem_cons_of_mem _ a, b⟩
      | parent => simp [normalsOf] at hn; obtain ⟨a, b⟩ := ih n hn; exact ⟨List.mem_cons_of_mem _ a, b⟩

theorem normalsOf_components (p : Str) :
    ∀ n ∈ normalsOf (components p), NormalName n ∧ ∀ c ∈ n, c ∈ p := by
  intro n hn
  unfold components componentsSegs at hn
  simp only [normalsOf_append] at hn
  have hhd : ∀ (b1 b2 : Bool), normalsOf (if b1 = true then [Comp.root] else if b2 = true then [Comp.cur] else []) = [] := by
    intro b1 b2; cases b1 <;> cases b2 <;> simp [normalsOf]
  have : n ∈ normalsOf ((splitSlash p).filterMap single) := by
    rcases List.mem_append.1 hn with h | h
    · exfalso
      revert h
      split
      · simp [normalsOf]
      · split <;> simp [normalsOf]
    · exact h
  obtain ⟨hmem, h1, h2, h3⟩ := normalsOf_filterMap_single _ n this
  exact ⟨⟨h1, h2, h3, splitSlash_noslash p n hmem⟩, splitSlash_sub p n hmem⟩

theorem filterMap_single_normals (names : Segs) (h : ∀ n ∈ names, NormalName n) :
    names.filterMap single = names.map Comp.normal := by
  induction names with
  | nil => rfl
  | cons n ns ih =>
    obtain ⟨h1, h2, h3, _⟩ := h n (by simp)
    rw [List.filterMap_cons]
    have : single n = some (.normal n) := by simp [single, h1, h2, h3]
    rw [this, ih (fun m hm => h m (by simp [hm]))]
    rfl

theorem joinSlash_ne_nil (names : Segs) (hne : names ≠ []) (h : ∀ n ∈ names, n ≠ []) :
    joinSlash names ≠ [] := by
  cases names with
  | nil => exact absurd rfl hne
  | cons n ns =>
    have hn := h n (by simp)
    cases ns with
    | nil => simpa [joinSlash] using hn
    | cons m ms => simp [joinSlash, hn]

theorem components_of_normals (names : Segs) (hne : names ≠ []) (h : ∀ n ∈ names, NormalName n) :
    components (joinSlash names) = names.map Comp.normal := by
  unfold components componentsSegs
  rw [splitSlash_joinSlash names hne (fun n hn => (h n hn).2.2.2)]
  cases names with
  | nil => exact absurd rfl hne
  | cons n ns =>
    obtain ⟨h1, h2, _, _⟩ := h n (by simp)
    have hr : rooted (n :: ns) = false := by
      cases n with
      | nil => exact absurd rfl h1
      | cons c cs => cases ns <;> simp [rooted]
    rw [hr, filterMap_single_normals _ h]
    simp [h2]

/-- What `sanitize_archive_path` lets through: a `/`-joined, non-empty list of normal names
(none of them `.`, `..`, empty, or containing `/` or `\`). -/
theorem sanitize_shape (p s : Str) (h : sanitize p = .ok s) :
    ∃ names : Segs, names ≠ [] ∧ (∀ n ∈ names, NormalName n ∧ 92 ∉ n) ∧ s = joinSlash names ∧
      splitSlash s = names ∧ components s = names.map Comp.normal := by
  unfold sanitize at h
  split at h
  · cases h
  · split at h
    · cases h
    · rename_i hbs
      split at h
      · cases h
      · rename_i r hr
        split at h
        · cases h
        · rename_i hne
          cases h
          obtain ⟨_, hacc⟩ := sanLoop_spec _ _ _ hr
          have hall := normalsOf_components p
          have hnn : ∀ n ∈ normalsOf (components p), n ≠ [] := fun n hn => (hall n hn).1.1
          rw [accJoin_eq _ _ hnn] at hacc
          simp only [if_true] at hacc
          have hnames : normalsOf (components p) ≠ [] := by
            intro he; rw [he] at hacc; simp [joinSlash] at hacc; exact hne hacc
          have hN : ∀ n ∈ normalsOf (components p), NormalName n := fun n hn => (hall n hn).1
          refine ⟨normalsOf (components p), hnames, ?_, hacc, ?_, ?_⟩
          · intro n hn
            exact ⟨hN n hn, fun h92 => hbs ((hall n hn).2 92 h92)⟩
          · rw [hacc]; exact splitSlash_joinSlash _ hnames (fun n hn => (hN n hn).2.2.2)
          · rw [hacc]; exact components_of_normals _ hnames hN

end C2pa.C29
