import C2paModel.Lemmas.C07Png
/-
Layer-B lemmas for the byte-exact PNG box map `Png.boxMap` (model of `PngIO::get_box_map`):
the per-chunk box function, the chunk list of a parsed file tiles `[8, finOf ps)` inside the
file, which boxes are flagged C2PA / excluded, and the relation with the specification-side
segment list `Png.segs`. Used by the `png_boxmap_*` theorems of `Props/C12.lean`.
-/
namespace C2pa.C07.Png
open C2pa.C07

/-- The per-chunk box function of `boxMap`. -/
def boxOf (has : Bool) (c : Chunk) : List Box :=
  if c.name == caBX then [⟨"C2PA", c.start, c.length + 12, true, false⟩]
  else
    let bm : Box := ⟨nameStr c.name, c.start, c.length + 12, false, false⟩
    if !has && c.name == IHDR then [bm, ⟨"C2PA", c.fin, 0, true, true⟩] else [bm]

theorem boxMap_eq (b : Bytes) (ps : List Chunk) (hc : chunks b = some ps) :
    boxMap b = some (⟨"PNGh", 0, 8, false, false⟩ ::
      ps.flatMap (boxOf (ps.any (·.name == caBX)))) := by
  unfold boxMap; rw [hc]; rfl

theorem chunks_of_boxMap (b : Bytes) (l : List Box) (h : boxMap b = some l) :
    ∃ ps, chunks b = some ps := by
  unfold boxMap at h
  cases hc : chunks b with
  | none => rw [hc] at h; simp at h
  | some ps => exact ⟨ps, rfl⟩


theorem chunks_walk (b : Bytes) (ps : List Chunk) (hc : chunks b = some ps) :
    b.take 8 = sig ∧ 8 ≤ b.length ∧ walk b (b.length + 1) 8 = some ps := by
  unfold chunks at hc
  by_cases hs : (b.take 8 != sig) = true
  · rw [if_pos hs] at hc; simp at hc
  · rw [if_neg hs] at hc
    have e : b.take 8 = sig := by simpa using hs
    refine ⟨e, ?_, hc⟩
    have := congrArg List.length e
    rw [List.length_take, sig_length] at this
    omega

theorem chunksTile_le (b : Bytes) : ∀ (ps : List Chunk) (pos fin : Nat),
    ChunksTile b pos ps fin → pos ≤ fin ∧ (ps ≠ [] → pos + 12 ≤ fin)
  | [], pos, fin, h => by
    have : pos = fin := h
    subst this; simp
  | c :: rest, pos, fin, h => by
    obtain ⟨h1, _, h3⟩ := h
    have := (chunksTile_le b rest _ _ h3).1
    simp only [Chunk.fin] at this
    constructor
    · omega
    · intro _; omega

theorem finOf_cons_cons (c d : Chunk) (r : List Chunk) : finOf (c :: d :: r) = finOf (d :: r) := by
  simp [finOf, List.getLast?_cons_cons]

theorem finOf_of_tile (b : Bytes) : ∀ (ps : List Chunk) (pos fin : Nat),
    ChunksTile b pos ps fin → ps ≠ [] → finOf ps = fin
  | [], _, _, _, hne => absurd rfl hne
  | [c], pos, fin, h, _ => by
    obtain ⟨_, _, h3⟩ := h
    have : c.fin = fin := h3
    simpa [finOf] using this
  | c :: d :: r, pos, fin, h, _ => by
    obtain ⟨_, _, h3⟩ := h
    rw [finOf_cons_cons]
    exact finOf_of_tile b (d :: r) _ _ h3 (by simp)

/-- The chunk list of a parsed file tiles `[8, finOf ps)` inside the file. -/
theorem chunks_tile (b : Bytes) (ps : List Chunk) (hc : chunks b = some ps) :
    ChunksTile b 8 ps (finOf ps) ∧ 8 + 12 ≤ finOf ps ∧ finOf ps ≤ b.length ∧ ps ≠ [] ∧
      8 ≤ b.length := by
  obtain ⟨_, h8, hw⟩ := chunks_walk b ps hc
  obtain ⟨fin, ht, hf, hne⟩ := walk_tiles b _ _ _ hw
  have e := finOf_of_tile b ps 8 fin ht hne
  rw [e]
  exact ⟨ht, (chunksTile_le b ps 8 fin ht).2 hne, hf, hne, h8⟩

theorem mem_chunks_inside (b : Bytes) : ∀ (ps : List Chunk) (pos fin : Nat),
    ChunksTile b pos ps fin → ∀ c ∈ ps, c.fin ≤ b.length
  | [], _, _, _, c, hc => by simp at hc
  | d :: r, pos, fin, h, c, hc => by
    obtain ⟨_, h2, h3⟩ := h
    rcases List.mem_cons.1 hc with rfl | hc
    · exact h2
    · exact mem_chunks_inside b r _ _ h3 c hc

/-! ### which boxes are flagged, and the specification-side segment of a chunk -/

theorem any_caBX_false {ps : List Chunk} (h : ps.any (·.name == caBX) = false) :
    ∀ c ∈ ps, c.name ≠ caBX := by
  intro c hc he
  have : ps.any (·.name == caBX) = true := List.any_eq_true.2 ⟨c, hc, by simp [he]⟩
  rw [h] at this; cases this

theorem any_caBX_true {ps : List Chunk} {c : Chunk} (hc : c ∈ ps) (he : c.name = caBX) :
    ps.any (·.name == caBX) = true := List.any_eq_true.2 ⟨c, hc, by simp [he]⟩

theorem boxOf_caBX (has : Bool) (c : Chunk) (h : c.name = caBX) :
    boxOf has c = [⟨"C2PA", c.start, c.length + 12, true, false⟩] := by
  simp [boxOf, h]

/-- A box of chunk `c` flagged C2PA is the box of a caBX chunk or the placeholder after IHDR. -/
theorem mem_boxOf_cai {has : Bool} {c : Chunk} {x : Box} (hx : x ∈ boxOf has c)
    (hcai : x.cai = true) :
    (c.name = caBX ∧ x = ⟨"C2PA", c.start, c.length + 12, true, false⟩) ∨
    (has = false ∧ c.name = IHDR ∧ x = ⟨"C2PA", c.fin, 0, true, true⟩) := by
  unfold boxOf at hx
  by_cases h1 : (c.name == caBX) = true
  · rw [if_pos h1] at hx
    exact Or.inl ⟨by simpa using h1, by simpa using hx⟩
  · rw [if_neg h1] at hx
    by_cases h2 : (!has && c.name == IHDR) = true
    · simp only [h2, if_true] at hx
      rcases List.mem_cons.1 hx with rfl | hx
      · cases hcai
      · have hx : x = ⟨"C2PA", c.fin, 0, true, true⟩ := by simpa using hx
        simp only [Bool.and_eq_true, Bool.not_eq_true', beq_iff_eq] at h2
        exact Or.inr ⟨h2.1, h2.2, hx⟩
    · simp only [h2] at hx
      have hx : x = ⟨nameStr c.name, c.start, c.length + 12, false, false⟩ := by simpa using hx
      subst hx; cases hcai

/-- The only excluded box is the zero-length C2PA placeholder. -/
theorem mem_boxOf_excl {has : Bool} {c : Chunk} {x : Box} (hx : x ∈ boxOf has c)
    (he : x.excl = true) : x.len = 0 ∧ x.cai = true := by
  unfold boxOf at hx
  by_cases h1 : (c.name == caBX) = true
  · rw [if_pos h1] at hx
    have hx : x = ⟨"C2PA", c.start, c.length + 12, true, false⟩ := by simpa using hx
    subst hx; cases he
  · rw [if_neg h1] at hx
    by_cases h2 : (!has && c.name == IHDR) = true
    · simp only [h2, if_true] at hx
      rcases List.mem_cons.1 hx with rfl | hx
      · cases he
      · have hx : x = ⟨"C2PA", c.fin, 0, true, true⟩ := by simpa using hx
        subst hx; exact ⟨rfl, rfl⟩
    · simp only [h2] at hx
      have hx : x = ⟨nameStr c.name, c.start, c.length + 12, false, false⟩ := by simpa using hx
      subst hx; cases he

/-- Without the placeholder, a chunk has exactly one box, named as its layer-A segment. -/
theorem filter_boxOf (has : Bool) (c : Chunk) :
    (boxOf has c).filter (fun x => !x.excl) =
      [⟨tagOf c.name, c.start, c.length + 12, c.name == caBX, false⟩] := by
  unfold boxOf tagOf
  by_cases h1 : (c.name == caBX) = true
  · simp [h1]
  · by_cases h2 : (!has && c.name == IHDR) = true
    · simp only [h1, h2, if_true]; simp [List.filter]
    · simp only [h1, h2]; simp [List.filter]

theorem isM_chunkSeg (b : Bytes) (c : Chunk) : isM (chunkSeg b c) = (c.name == caBX) := by
  unfold isM chunkSeg kindOf
  by_cases h1 : (c.name == caBX) = true
  · simp [h1]
  · by_cases h2 : (c.name == iTXt) = true
    · simp only [h1, h2]; simp
    · simp only [h1, h2]; simp

theorem length_chunkSeg (b : Bytes) (c : Chunk) (h : c.fin ≤ b.length) :
    (chunkSeg b c).raw.length = c.length + 12 := by
  simp only [chunkSeg, slice, List.length_take, List.length_drop, Chunk.fin] at *
  omega

end C2pa.C07.Png

namespace C2pa.C07

theorem boxesFrom_append (base : Nat) (l₁ l₂ : List Seg) :
    boxesFrom base (l₁ ++ l₂) = boxesFrom base l₁ ++ boxesFrom (base + (ser l₁).length) l₂ := by
  induction l₁ generalizing base with
  | nil => simp [boxesFrom, ser]
  | cons s r ih =>
    simp only [List.cons_append, boxesFrom, ih, ser_cons, List.length_append, Nat.add_assoc]

end C2pa.C07
