import C2paModel.Lemmas.C18Base
/-
C18 — evaluation of the individual readers on the bytes the writer produced
(`d.drop pos = <written form> ++ rest`).
-/
namespace C2pa.C18

theorem le_of_drop {d : Bytes} {pos : Nat} {a rest : Bytes} (h : d.drop pos = a ++ rest)
    (hp : pos ≤ d.length) : pos + a.length ≤ d.length := by
  have := avail_of_drop h
  simp at this
  omega

theorem readHeader_at {d : Bytes} {pos n t : Nat} {rest : Bytes}
    (h : d.drop pos = be32 n ++ (be32 t ++ rest)) (hn : n < 4294967296) (ht : t < 4294967296)
    (h1 : n ≠ 1) : readHeader d pos = .ok (⟨t, n⟩, pos + 8) := by
  have hav := avail_of_drop h
  simp at hav
  have h2 : d.drop (pos + 4) = be32 t ++ rest := by
    have := drop_add h; simpa using this
  have s1 : slice d pos 4 = be32 n := by
    have := slice_of_drop h; simpa using this
  have s2 : slice d (pos + 4) 4 = be32 t := by
    have := slice_of_drop h2; simpa using this
  unfold readHeader
  simp only [s1, s2, be_be32 n hn, be_be32 t ht]
  rw [if_neg (by omega), if_neg (by omega), if_neg h1]

theorem readToVec_at {d : Bytes} {pos : Nat} {s rest : Bytes} (h : d.drop pos = s ++ rest)
    (hp : pos ≤ d.length) (hL : d.length < 2 ^ 64) :
    readToVec d pos s.length = .ok (s, pos + s.length) := by
  have := le_of_drop h hp
  unfold readToVec
  rw [if_neg (by omega), if_neg (by omega), slice_of_drop h]

theorem readExact_at {d : Bytes} {pos : Nat} {s rest : Bytes} (h : d.drop pos = s ++ rest)
    (hp : pos ≤ d.length) : readExact d pos s.length = .ok (s, pos + s.length) := by
  have := le_of_drop h hp
  unfold readExact
  rw [if_neg (by omega), slice_of_drop h]

theorem readByte_at {d : Bytes} {pos : Nat} {b : UInt8} {rest : Bytes} (h : d.drop pos = b :: rest) :
    readByte d pos = .ok (b, pos + 1) := by
  unfold readByte; rw [h]

theorem usub_ok (a b : Nat) (h : b ≤ a) : usub a b = .ok (a - b) := by
  unfold usub; simp; omega

/-- a plain content box written by `write_box` reads back -/
theorem readData_at {d : Bytes} {pos t : Nat} {data rest : Bytes}
    (h : d.drop pos = be32 (8 + data.length) ++ (be32 t ++ (data ++ rest)))
    (hp : pos ≤ d.length) (hL : d.length < 2 ^ 64) (hs : 8 + data.length < 4294967296)
    (ht : t < 4294967296) :
    readData d pos (8 + data.length) = .ok (data, pos + (8 + data.length)) := by
  have hh := readHeader_at h hs ht (by omega)
  have h2 : d.drop (pos + 8) = data ++ rest := by
    have := drop_add (a := be32 (8 + data.length) ++ be32 t) (rest := data ++ rest)
      (by simpa using h)
    simpa using this
  have hp8 : pos + 8 ≤ d.length := by
    have := le_of_drop (a := be32 (8 + data.length) ++ be32 t) (rest := data ++ rest)
      (by simpa using h) hp
    simpa using this
  unfold readData
  rw [hh]
  simp only [mapErr_ok, bind_ok]
  rw [if_neg (by omega)]
  simp only [reseek, bne_self_eq_false, Bool.false_eq_true, if_false, bind_ok]
  rw [if_neg (by omega), show 8 + data.length - 8 = data.length by omega, readToVec_at h2 hp8 hL]
  congr 2; omega


/-- drop the first `k` bytes of a known prefix -/
theorem drop_pref {d : Bytes} {pos : Nat} (a : Bytes) {rest : Bytes} {k : Nat}
    (h : d.drop pos = a ++ rest) (hk : k = a.length) : d.drop (pos + k) = rest := by
  subst hk; exact drop_add h

theorem le_pref {d : Bytes} {pos : Nat} (a : Bytes) {rest : Bytes} {k : Nat}
    (h : d.drop pos = a ++ rest) (hp : pos ≤ d.length) (hk : k = a.length) : pos + k ≤ d.length := by
  subst hk; exact le_of_drop h hp

theorem readUuid_at {d : Bytes} {pos : Nat} {u data rest : Bytes}
    (h : d.drop pos = be32 (8 + (16 + data.length)) ++ (be32 UUID ++ (u ++ (data ++ rest))))
    (hu : u.length = 16)
    (hp : pos ≤ d.length) (hL : d.length < 2 ^ 64) (hs : 8 + (16 + data.length) < 4294967296) :
    readUuid d pos (8 + (16 + data.length)) = .ok ((u, data), pos + (8 + (16 + data.length))) := by
  have hh := readHeader_at h hs (by decide) (by omega)
  have h2 : d.drop (pos + 8) = u ++ (data ++ rest) :=
    drop_pref (be32 (8 + (16 + data.length)) ++ be32 UUID) (by simpa using h) (by simp)
  have hp8 : pos + 8 ≤ d.length :=
    le_pref (be32 (8 + (16 + data.length)) ++ be32 UUID) (rest := u ++ (data ++ rest)) (by simpa using h) hp (by simp)
  have h3 : d.drop (pos + 8 + 16) = data ++ rest := drop_pref u h2 hu.symm
  have hp24 : pos + 8 + 16 ≤ d.length := le_pref u h2 hp8 hu.symm
  unfold readUuid
  rw [hh]
  simp only [mapErr_ok, bind_ok]
  rw [if_neg (by omega)]
  simp only [reseek, bne_self_eq_false, Bool.false_eq_true, if_false, bind_ok]
  have e1 := readExact_at h2 hp8
  rw [hu] at e1
  rw [e1]
  simp only [bind_ok]
  rw [if_neg (by omega), show 8 + (16 + data.length) - 24 = data.length by omega, readToVec_at h3 hp24 hL]
  simp only [bind_ok]
  congr 2; omega

theorem findIdx_nul (m : Bytes) (h : (0 : UInt8) ∉ m) :
    (m ++ [0]).findIdx? (· = 0) = some m.length := by
  induction m with
  | nil => simp
  | cons a m ih =>
    have ha : a ≠ 0 := fun e => h (by simp [e])
    have hm : (0 : UInt8) ∉ m := fun e => h (by simp [e])
    simp [List.findIdx?_cons, ha, ih hm]

theorem splitMedia_written (t : UInt8) (m : Bytes) (hq : ¬ (t = 1 ∧ (0 : UInt8) ∈ m ∧ utf8Valid m = true))
    (hne : strNonEmpty m = true) :
    splitMedia t (m ++ [0]) = .ok (if t = 1 then (m, some [0]) else (m, none)) := by
  have hv : utf8Valid m = true := by
    simp [strNonEmpty] at hne; exact hne.2
  unfold splitMedia
  by_cases ht : t = 1
  · have h0 : (0 : UInt8) ∉ m := fun h => hq ⟨ht, h, hv⟩
    simp only [ht, if_true, findIdx_nul m h0]
    rw [usub_ok _ 1 (by simp)]
    simp
  · simp [ht]

theorem splitMedia_empty (t : UInt8) : splitMedia t [] = .ok ([], none) := by
  unfold splitMedia
  split <;> simp

theorem readBfdb_at {d : Bytes} {pos : Nat} {t : UInt8} {m rest : Bytes}
    (h : d.drop pos = be32 (8 + (bfdbPayload t m).length) ++ (be32 BFDB ++ (bfdbPayload t m ++ rest)))
    (hq : ¬ (t = 1 ∧ (0 : UInt8) ∈ m ∧ utf8Valid m = true))
    (hp : pos ≤ d.length) (hL : d.length < 2 ^ 64) (hs : 8 + (bfdbPayload t m).length < 4294967296) :
    ∃ mt fn, readBfdb d pos (8 + (bfdbPayload t m).length)
        = .ok ((t, mt, fn), pos + (8 + (bfdbPayload t m).length)) ∧ normBfdb t m = .bfdb t mt fn := by
  have hplen : 1 ≤ (bfdbPayload t m).length := by simp [bfdbPayload]
  have hh := readHeader_at h hs (by decide) (by omega)
  have h2 : d.drop (pos + 8) = bfdbPayload t m ++ rest :=
    drop_pref (be32 (8 + (bfdbPayload t m).length) ++ be32 BFDB) (by simpa using h) (by simp)
  have hp8 : pos + 8 ≤ d.length :=
    le_pref (be32 (8 + (bfdbPayload t m).length) ++ be32 BFDB) (rest := bfdbPayload t m ++ rest)
      (by simpa using h) hp (by simp)
  -- payload = t :: tail
  obtain ⟨tail, htail, hnorm⟩ : ∃ tail, bfdbPayload t m = [t] ++ tail ∧
      ∃ mt fn, splitMedia t tail = .ok (mt, fn) ∧ normBfdb t m = .bfdb t mt fn := by
    by_cases hne : strNonEmpty m = true
    · refine ⟨m ++ [0], by simp [bfdbPayload, hne], ?_⟩
      rw [splitMedia_written t m hq hne]
      by_cases ht : t = 1
      · exact ⟨m, some [0], by simp [ht], by simp [normBfdb, hne, ht]⟩
      · exact ⟨m, none, by simp [ht], by simp [normBfdb, hne, ht]⟩
    · refine ⟨[], by simp [bfdbPayload, hne], [], none, splitMedia_empty t, by simp [normBfdb, hne]⟩
  obtain ⟨mt, fn, hsplit, hnorm⟩ := hnorm
  refine ⟨mt, fn, ?_, hnorm⟩
  rw [htail] at h2
  have h3 : d.drop (pos + 8 + 1) = tail ++ rest := drop_pref [t] (by simpa using h2) (by simp)
  have hp9 : pos + 8 + 1 ≤ d.length := le_pref [t] (rest := tail ++ rest) (by simpa using h2) hp8 (by simp)
  have hlen : (bfdbPayload t m).length = 1 + tail.length := by rw [htail]; simp; omega
  unfold readBfdb
  rw [if_neg (by omega), hh]
  simp only [mapErr_ok, bind_ok]
  rw [if_neg (by omega)]
  simp only [reseek, bne_self_eq_false, Bool.false_eq_true, if_false, bind_ok]
  rw [readByte_at (b := t) (rest := tail ++ rest) (by simpa using h2)]
  simp only [bind_ok]
  rw [usub_ok _ 8 (by omega)]
  simp only [Res.bind]
  rw [usub_ok _ 1 (by omega), show 8 + (bfdbPayload t m).length - 8 - 1 = tail.length by omega]
  simp only [bind_ok]
  rw [readToVec_at h3 hp9 hL]
  simp only [bind_ok, hsplit]
  congr 2; omega



theorem readLabel_at : ∀ (label : Bytes) (more : Bytes) (bl : Nat), (0 : UInt8) ∉ label →
    8 + label.length < bl →
    readLabel (label ++ (0 :: more)) bl = .ok (label, bl - label.length - 1) := by
  intro label
  induction label with
  | nil =>
    intro more bl _ hbl
    unfold readLabel
    rw [if_neg (by omega)]
    simp only [List.nil_append]
    rw [usub_ok bl 1 (by omega)]
    simp
  | cons a l ih =>
    intro more bl h0 hbl
    have ha : a ≠ 0 := fun e => h0 (by simp [e])
    have hl : (0 : UInt8) ∉ l := fun e => h0 (by simp [e])
    simp only [List.length_cons] at hbl
    unfold readLabel
    rw [if_neg (by omega)]
    simp only [List.cons_append]
    rw [usub_ok bl 1 (by omega)]
    simp only [bind_ok]
    rw [if_neg ha, ih more (bl - 1) hl (by omega)]
    simp only [bind_ok, List.length_cons]
    congr 2; omega

def idBytes (boxId : Option Nat) : Bytes := match boxId with | some x => be32 x | none => []
def saltBytes (salt : Option Bytes) : Bytes := match salt with | some s => serSalt s | none => []

theorem readBoxId_at {d : Bytes} {togs : UInt8} {p bl : Nat} {boxId : Option Nat} {rest : Bytes}
    (hi1 : boxId.isSome = true ↔ togs &&& 0x04 = 0x04) (hi2 : ∀ x, boxId = some x → x < 4294967296)
    (h : d.drop p = idBytes boxId ++ rest) (hp : p ≤ d.length) (hbl : 4 ≤ bl) :
    readBoxId d togs p bl = .ok (boxId, bl - (idBytes boxId).length, p + (idBytes boxId).length) := by
  unfold readBoxId
  cases boxId with
  | none =>
    have : ¬ (togs &&& 0x04 = 0x04) := by simpa using hi1
    rw [if_neg this]; simp [idBytes]
  | some x =>
    have : togs &&& 0x04 = 0x04 := by simpa using hi1
    rw [if_pos this]
    simp only [idBytes] at h ⊢
    have e := readExact_at h hp
    simp only [be32_length] at e
    rw [e]
    simp only [bind_ok]
    rw [usub_ok bl 4 hbl]
    simp only [bind_ok, be_be32 x (hi2 x rfl), be32_length]

theorem readSig_at {d : Bytes} {togs : UInt8} {p bl : Nat} {sig : Option Bytes} {rest : Bytes}
    (hs1 : sig.isSome = true ↔ togs &&& 0x08 = 0x08) (hs2 : ∀ s, sig = some s → s.length = 32)
    (h : d.drop p = optBytes sig ++ rest) (hp : p ≤ d.length) (hbl : (optBytes sig).length ≤ bl) :
    readSig d togs p bl = .ok (sig, bl - (optBytes sig).length, p + (optBytes sig).length) := by
  unfold readSig
  cases sig with
  | none =>
    have : ¬ (togs &&& 0x08 = 0x08) := by simpa using hs1
    rw [if_neg this]; simp [optBytes]
  | some s =>
    have : togs &&& 0x08 = 0x08 := by simpa using hs1
    rw [if_pos this]
    simp only [optBytes] at h hbl ⊢
    have hl := hs2 s rfl
    have e := readExact_at h hp
    rw [hl] at e hbl
    rw [e]
    simp only [bind_ok]
    rw [if_neg (by omega), hl]

theorem readSalt_at {d : Bytes} {togs : UInt8} {p bl : Nat} {salt : Option Bytes} {rest : Bytes}
    (ha1 : salt.isSome = true ↔ togs &&& 0x10 = 0x10)
    (h : d.drop p = saltBytes salt ++ rest) (hp : p ≤ d.length) (hL : d.length < 2 ^ 64)
    (hsz : (saltBytes salt).length < 4294967296)
    (hbl : bl = 8 + (saltBytes salt).length) :
    readSalt d togs p bl = .ok (salt, 8, p + (saltBytes salt).length) := by
  unfold readSalt
  cases salt with
  | none =>
    have : ¬ (togs &&& 0x10 = 0x10) := by simpa using ha1
    rw [if_neg this]; simp [saltBytes] at hbl ⊢; exact hbl
  | some s =>
    have : togs &&& 0x10 = 0x10 := by simpa using ha1
    rw [if_pos this]
    simp only [saltBytes, serSalt] at h hbl hsz ⊢
    simp only [List.length_append, be32_length] at hbl hsz ⊢
    have h' : d.drop p = be32 (8 + s.length) ++ (be32 C2SH ++ (s ++ rest)) := by simpa using h
    have hh := readHeader_at h' (by omega) (by decide) (by omega)
    have h2 : d.drop (p + 8) = s ++ rest :=
      drop_pref (be32 (8 + s.length) ++ be32 C2SH) (by simpa using h') (by simp)
    have hp8 : p + 8 ≤ d.length :=
      le_pref (be32 (8 + s.length) ++ be32 C2SH) (rest := s ++ rest) (by simpa using h') hp (by simp)
    rw [hh]
    simp only [mapErr_ok, bind_ok]
    rw [if_neg (by omega)]
    have hc : (decide (bl < 8) || bl - 8 != 8 + s.length) = false := by
      simp; omega
    simp only [hc, reseek, Bool.false_eq_true, if_false, bind_ok]
    rw [if_neg (by simp), if_neg (by omega), show 8 + s.length - 8 = s.length by omega,
      readToVec_at h2 hp8 hL]
    simp only [bind_ok]
    rw [if_neg (by omega)]
    have e1 : bl - (8 + s.length) = 8 := by omega
    have e2 : p + 8 + s.length = p + (4 + 4 + s.length) := by omega
    rw [e1, e2]



theorem descPayload_eq (d : Desc) (hne : strNonEmpty d.label = true) :
    descPayload d = d.uuid ++ ([d.toggles] ++ ((d.label ++ [0]) ++ (idBytes d.boxId ++
      (optBytes d.sig ++ saltBytes d.salt)))) := by
  obtain ⟨u, t, l, i, s, a⟩ := d
  cases i <;> cases a <;> simp_all [descPayload, idBytes, saltBytes]

theorem readDesc_at {d : Bytes} {p : Nat} {desc : Desc} {rest : Bytes}
    (hv : desc.Valid) (h : d.drop p = descPayload desc ++ rest) (hp : p ≤ d.length)
    (hL : d.length < 2 ^ 64) (hs : 8 + (descPayload desc).length < 4294967296) :
    readDesc d p (8 + (descPayload desc).length) = .ok (desc, p + (descPayload desc).length) := by
  obtain ⟨uuid, togs, label, boxId, sig, salt⟩ := desc
  obtain ⟨⟨hu, ht3, hl0, hi1, hi2, hs1, hs2, ha1⟩, hne⟩ := hv
  dsimp only at hu ht3 hl0 hi1 hi2 hs1 hs2 ha1 hne
  have hdp := descPayload_eq ⟨uuid, togs, label, boxId, sig, salt⟩ hne
  dsimp only at hdp
  generalize hn : descPayload ⟨uuid, togs, label, boxId, sig, salt⟩ = dp at *
  have hlen : dp.length = 16 + (1 + ((label.length + 1) + ((idBytes boxId).length +
      ((optBytes sig).length + (saltBytes salt).length)))) := by
    rw [hdp]; simp [hu]; omega
  rw [hdp] at h
  -- positions
  have h16 : d.drop (p + 16) = [togs] ++ ((label ++ [0]) ++ (idBytes boxId ++ (optBytes sig ++ saltBytes salt)) ++ rest) :=
    drop_pref uuid (by simpa using h) hu.symm
  have hp16 : p + 16 ≤ d.length := le_pref uuid (by simpa using h) hp hu.symm
  have h17 : d.drop (p + 16 + 1) = label ++ (0 :: ((idBytes boxId ++ (optBytes sig ++ saltBytes salt)) ++ rest)) := by
    have := drop_pref [togs] h16 (k := 1) (by simp)
    simpa using this
  have hp17 : p + 16 + 1 ≤ d.length := le_pref [togs] h16 hp16 (k := 1) (by simp)
  have hl1 : d.drop (p + 16 + 1 + label.length + 1) = idBytes boxId ++ ((optBytes sig ++ saltBytes salt) ++ rest) := by
    have := drop_pref (label ++ [0]) (rest := (idBytes boxId ++ (optBytes sig ++ saltBytes salt)) ++ rest)
      (by simpa using h17) (k := label.length + 1) (by simp)
    simpa [Nat.add_assoc] using this
  have hpl : p + 16 + 1 + label.length + 1 ≤ d.length := by
    have := le_pref (label ++ [0]) (rest := (idBytes boxId ++ (optBytes sig ++ saltBytes salt)) ++ rest)
      (by simpa using h17) hp17 (k := label.length + 1) (by simp)
    omega
  have hi : d.drop (p + 16 + 1 + label.length + 1 + (idBytes boxId).length) = optBytes sig ++ (saltBytes salt ++ rest) := by
    have := drop_pref (idBytes boxId) hl1 rfl
    simpa using this
  have hpi : p + 16 + 1 + label.length + 1 + (idBytes boxId).length ≤ d.length := le_pref (idBytes boxId) hl1 hpl rfl
  have hsg : d.drop (p + 16 + 1 + label.length + 1 + (idBytes boxId).length + (optBytes sig).length) = saltBytes salt ++ rest :=
    drop_pref (optBytes sig) hi rfl
  have hps : p + 16 + 1 + label.length + 1 + (idBytes boxId).length + (optBytes sig).length ≤ d.length :=
    le_pref (optBytes sig) hi hpi rfl
  have hav : d.length - p = dp.length + rest.length := by
    have := avail_of_drop h; rw [this, ← hdp]; simp
  unfold readDesc
  rw [if_neg (by omega)]
  have hk : min 16 (d.length - p) = 16 := by omega
  simp only [hk]
  rw [if_neg (by omega), usub_ok _ 16 (by omega)]
  simp only [bind_ok]
  rw [readByte_at (b := togs) (by simpa using h16)]
  simp only [bind_ok]
  rw [usub_ok _ 1 (by omega)]
  simp only [bind_ok]
  rw [if_neg (show ¬ (togs &&& 3 ≠ 3) from fun hc => hc ht3)]
  rw [h17, readLabel_at label _ _ hl0 (by omega)]
  simp only [bind_ok]
  rw [readBoxId_at hi1 hi2 hl1 hpl (by omega)]
  simp only [bind_ok]
  rw [readSig_at hs1 hs2 hi hpi (by omega)]
  simp only [bind_ok]
  rw [readSalt_at ha1 hsg hps hL (by omega) (by omega)]
  simp only [bind_ok]
  have hsl : slice d p 16 = uuid := by
    have := slice_of_drop (a := uuid) (by simpa using h); rwa [hu] at this
  rw [if_neg (by simp), hsl]
  congr 2
  omega


end C2pa.C18
