import C2paModel.Lemmas.C18Base
/-
C18 — Boolean equality on trees and results, used to evaluate concrete witnesses in the kernel.
-/
namespace C2pa.C18

mutual
/-- Boolean equality of trees (the derive handler does not cover nested inductives) -/
def Box.beq : Box → Box → Bool
  | .super d cs, .super d' cs' => decide (d = d') && beqList cs cs'
  | .leaf k x, .leaf k' x' => decide (k = k') && decide (x = x')
  | .uuid u x, .uuid u' x' => decide (u = u') && decide (x = x')
  | .bfdb t m f, .bfdb t' m' f' => decide (t = t') && decide (m = m') && decide (f = f')
  | _, _ => false
def beqList : List Box → List Box → Bool
  | [], [] => true
  | a :: as, b :: bs => a.beq b && beqList as bs
  | _, _ => false
end

mutual
theorem Box.beq_sound : (a b : Box) → a.beq b = true → a = b
  | .super d cs, .super d' cs', h => by
    simp [Box.beq] at h
    rw [h.1, beqList_sound cs cs' h.2]
  | .leaf k x, .leaf k' x', h => by simp [Box.beq] at h; rw [h.1, h.2]
  | .uuid u x, .uuid u' x', h => by simp [Box.beq] at h; rw [h.1, h.2]
  | .bfdb t m f, .bfdb t' m' f', h => by simp [Box.beq] at h; rw [h.1.1, h.1.2, h.2]
  | .super _ _, .leaf _ _, h => by simp [Box.beq] at h
  | .super _ _, .uuid _ _, h => by simp [Box.beq] at h
  | .super _ _, .bfdb _ _ _, h => by simp [Box.beq] at h
  | .leaf _ _, .super _ _, h => by simp [Box.beq] at h
  | .leaf _ _, .uuid _ _, h => by simp [Box.beq] at h
  | .leaf _ _, .bfdb _ _ _, h => by simp [Box.beq] at h
  | .uuid _ _, .super _ _, h => by simp [Box.beq] at h
  | .uuid _ _, .leaf _ _, h => by simp [Box.beq] at h
  | .uuid _ _, .bfdb _ _ _, h => by simp [Box.beq] at h
  | .bfdb _ _ _, .super _ _, h => by simp [Box.beq] at h
  | .bfdb _ _ _, .leaf _ _, h => by simp [Box.beq] at h
  | .bfdb _ _ _, .uuid _ _, h => by simp [Box.beq] at h
theorem beqList_sound : (as bs : List Box) → beqList as bs = true → as = bs
  | [], [], _ => rfl
  | a :: as, b :: bs, h => by
    simp [beqList] at h
    rw [a.beq_sound b h.1, beqList_sound as bs h.2]
  | [], _ :: _, h => by simp [beqList] at h
  | _ :: _, [], h => by simp [beqList] at h
end

/-- `r` is `ok (b, e)` -/
def isOk (r : Res (Box × Nat)) (b : Box) (e : Nat) : Bool :=
  match r with
  | .ok (b', e') => b'.beq b && e' == e
  | _ => false

theorem isOk_sound {r : Res (Box × Nat)} {b : Box} {e : Nat} (h : isOk r b e = true) : r = .ok (b, e) := by
  unfold isOk at h
  split at h
  · simp at h; rw [Box.beq_sound _ _ h.1, h.2]
  · cases h

def isErr (r : Res (Box × Nat)) (er : Err) : Bool :=
  match r with
  | .err e => e == er
  | _ => false

theorem isErr_sound {r : Res (Box × Nat)} {er : Err} (h : isErr r er = true) : r = .err er := by
  unfold isErr at h
  split at h
  · simp at h; rw [h]
  · cases h

end C2pa.C18
