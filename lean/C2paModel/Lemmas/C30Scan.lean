import C2paModel.Lemmas.C30
import C2paModel.Model.C30Scan
/-
C30 — lemmas about the text-level reader/scanner (`Model/C30Scan.lean`): what it does with
a rendered rdf:Description tag (any layout: white space, `=` spacing, either quote) and
with the markup in front of it.
-/
namespace C2pa.C30

/-! ### escaping never emits a quote or an angle bracket -/

theorem escChar_no_specials (c : Char) :
    ∀ x ∈ escChar c, x ≠ '"' ∧ x ≠ '<' ∧ x ≠ '>' ∧ x ≠ '\'' := by
  unfold escChar
  split
  · decide
  · split
    · decide
    · split
      · decide
      · split
        · decide
        · split
          · decide
          · rename_i h1 h2 h3 h4 h5
            intro x hx
            simp only [List.mem_singleton] at hx
            subst hx
            exact ⟨h5, h1, h2, h4⟩

/-! ### small list scanners -/

def AllWs (w : Str) : Prop := ∀ c ∈ w, isWs c = true

instance (w : Str) : Decidable (AllWs w) := by unfold AllWs; infer_instance

theorem dropWs_allWs_append (w t : Str) (hw : AllWs w) : dropWs (w ++ t) = dropWs t := by
  induction w with
  | nil => rfl
  | cons c cs ih =>
    have hc : isWs c = true := hw c (List.mem_cons_self ..)
    have := ih (fun x hx => hw x (List.mem_cons_of_mem _ hx))
    simp [dropWs, hc, this]

theorem dropWs_allWs (w : Str) (hw : AllWs w) : dropWs w = [] := by
  have := dropWs_allWs_append w [] hw
  simpa [dropWs] using this

theorem dropWs_cons_of_not_ws (c : Char) (r : Str) (h : isWs c = false) : dropWs (c :: r) = c :: r := by
  simp [dropWs, h]

theorem breakOn_append (p : Char → Bool) (a : Str) (c : Char) (r : Str)
    (ha : ∀ x ∈ a, p x = false) (hc : p c = true) : breakOn p (a ++ c :: r) = (a, c :: r) := by
  induction a with
  | nil => simp [breakOn, hc]
  | cons x xs ih =>
    have hx : p x = false := ha x (List.mem_cons_self ..)
    have := ih (fun y hy => ha y (List.mem_cons_of_mem _ hy))
    simp [breakOn, hx, this]

theorem breakOn_all (p : Char → Bool) (a : Str) (ha : ∀ x ∈ a, p x = false) : breakOn p a = (a, []) := by
  induction a with
  | nil => rfl
  | cons x xs ih =>
    have hx : p x = false := ha x (List.mem_cons_self ..)
    have := ih (fun y hy => ha y (List.mem_cons_of_mem _ hy))
    simp [breakOn, hx, this]

/-! ### the quote automaton -/

/-- run of `ElementParser` over a text that must not close the tag: `none` when a `>` is
met outside quotes, else the final state -/
def qrun : Q → Str → Option Q
  | q, [] => some q
  | q, c :: cs => if q = .out ∧ c = '>' then none else qrun (qstep q c) cs

theorem elemEnd_of_qrun (s : Str) : ∀ q, qrun q s = some .out →
    ∀ rest, elemEnd q (s ++ '>' :: rest) = some (s, rest) := by
  induction s with
  | nil =>
    intro q h rest
    simp only [qrun, Option.some.injEq] at h
    subst h
    simp [elemEnd]
  | cons c cs ih =>
    intro q h rest
    simp only [qrun] at h
    split at h
    · cases h
    · rename_i hc
      simp only [List.cons_append, elemEnd, if_neg hc]
      rw [ih _ h rest]

theorem qrun_append (a b : Str) : ∀ q, qrun q (a ++ b) = (qrun q a).bind (fun q' => qrun q' b) := by
  induction a with
  | nil => intro q; simp [qrun]
  | cons c cs ih =>
    intro q
    simp only [List.cons_append, qrun]
    split
    · rfl
    · exact ih _

/-- a character that leaves the automaton outside quotes -/
def plainChar (c : Char) : Bool := c != '>' && c != '"' && c != '\''

theorem qrun_out_plain (s : Str) (h : ∀ c ∈ s, plainChar c = true) : qrun .out s = some .out := by
  induction s with
  | nil => rfl
  | cons c cs ih =>
    have hc := h c (List.mem_cons_self ..)
    simp only [plainChar, Bool.and_eq_true, bne_iff_ne, ne_eq] at hc
    obtain ⟨⟨h1, h2⟩, h3⟩ := hc
    have hq : qstep .out c = .out := by simp [qstep, h2, h3]
    simp only [qrun, h1, and_false, if_false, hq]
    exact ih (fun x hx => h x (List.mem_cons_of_mem _ hx))

theorem qrun_dq (s : Str) (h : '"' ∉ s) : qrun .dq s = some .dq := by
  induction s with
  | nil => rfl
  | cons c cs ih =>
    have hc : c ≠ '"' := fun e => h (e ▸ List.mem_cons_self ..)
    have hq : qstep .dq c = .dq := by simp [qstep, hc]
    have : ¬(Q.dq = Q.out ∧ c = '>') := by simp
    simp only [qrun, if_neg this, hq]
    exact ih (fun m => h (List.mem_cons_of_mem _ m))

theorem qrun_sq (s : Str) (h : '\'' ∉ s) : qrun .sq s = some .sq := by
  induction s with
  | nil => rfl
  | cons c cs ih =>
    have hc : c ≠ '\'' := fun e => h (e ▸ List.mem_cons_self ..)
    have hq : qstep .sq c = .sq := by simp [qstep, hc]
    have : ¬(Q.sq = Q.out ∧ c = '>') := by simp
    simp only [qrun, if_neg this, hq]
    exact ih (fun m => h (List.mem_cons_of_mem _ m))

theorem plain_of_ws (c : Char) (h : isWs c = true) : plainChar c = true := by
  simp only [isWs, Bool.or_eq_true, beq_iff_eq] at h
  rcases h with ((h | h) | h) | h <;> subst h <;> decide

theorem qrun_out_ws (w : Str) (hw : AllWs w) : qrun .out w = some .out :=
  qrun_out_plain w (fun c hc => plain_of_ws c (hw c hc))

/-- a quoted value: from `out` through the opening quote, the value, the closing quote -/
theorem qrun_quoted (q : Char) (v : Str) (hq : q = '"' ∨ q = '\'') (hv : q ∉ v) :
    qrun .out (q :: (v ++ [q])) = some .out := by
  rcases hq with rfl | rfl
  · have h1 : qstep .out '"' = .dq := by decide
    simp only [qrun, h1]
    rw [qrun_append, qrun_dq v hv]
    decide
  · have h1 : qstep .out '\'' = .sq := by decide
    simp only [qrun, h1]
    rw [qrun_append, qrun_sq v hv]
    decide

/-! ### keys and layouts -/

def keyCharOk (c : Char) : Bool :=
  !isWs c && c != '=' && c != '>' && c != '"' && c != '\''

/-- an attribute name the writer can put between a blank and `=`: not empty, no white
space, none of `= > " '` -/
def KeyOk (k : Str) : Prop := k ≠ [] ∧ ∀ c ∈ k, keyCharOk c = true

instance (k : Str) : Decidable (KeyOk k) := by unfold KeyOk; infer_instance

theorem keyCharOk_spec (c : Char) (h : keyCharOk c = true) :
    isWs c = false ∧ c ≠ '=' ∧ plainChar c = true := by
  simp only [keyCharOk, Bool.and_eq_true, Bool.not_eq_true', bne_iff_ne, ne_eq] at h
  obtain ⟨⟨⟨⟨h1, h2⟩, h3⟩, h4⟩, h5⟩ := h
  exact ⟨h1, h2, by simp [plainChar, h3, h4, h5]⟩

/-- how one attribute is laid out in a tag: white space before the name (at least one),
around `=`, and the quote character -/
structure Lay where
  pre : Str
  mid1 : Str
  mid2 : Str
  q : Char
  deriving DecidableEq, Repr

/-- the writer's layout: one blank, no space around `=`, double quotes -/
def Lay.std : Lay := ⟨[' '], [], [], '"'⟩

def LayOk (a : Attr) (l : Lay) : Prop :=
  l.pre ≠ [] ∧ AllWs l.pre ∧ AllWs l.mid1 ∧ AllWs l.mid2 ∧ (l.q = '"' ∨ l.q = '\'') ∧ l.q ∉ a.val

instance (a : Attr) (l : Lay) : Decidable (LayOk a l) := by unfold LayOk; infer_instance

def renderAttrL (a : Attr) (l : Lay) : Str :=
  l.pre ++ (a.key ++ (l.mid1 ++ '=' :: (l.mid2 ++ l.q :: (a.val ++ [l.q]))))

def renderAttrsL : List (Attr × Lay) → Str
  | [] => []
  | al :: als => renderAttrL al.1 al.2 ++ renderAttrsL als

/-- the tag content after `<`: name, attributes, white space, `/` for an empty element -/
def descContentL (als : List (Attr × Lay)) (tw : Str) (empty : Bool) : Str :=
  rdfDescription ++ (renderAttrsL als ++ tw) ++ (if empty then ['/'] else [])

/-- an rdf:Description start/empty tag in free layout -/
def renderDescL (als : List (Attr × Lay)) (tw : Str) (empty : Bool) : Str :=
  '<' :: (descContentL als tw empty ++ ['>'])

theorem renderAttrL_std (a : Attr) : renderAttrL a Lay.std = renderAttr a := by
  simp [renderAttrL, Lay.std, renderAttr]

theorem renderAttrsL_std (as : List Attr) : renderAttrsL (as.map fun a => (a, Lay.std)) = renderAttrs as := by
  induction as with
  | nil => rfl
  | cons a as ih => simp [renderAttrsL, renderAttrs, renderAttrL_std, ih]

theorem renderDescL_std (d : Desc) :
    renderDescL (d.attrs.map fun a => (a, Lay.std)) [] d.empty = renderDesc d := by
  simp only [renderDescL, descContentL, renderAttrsL_std, renderDesc, List.append_nil]
  cases d.empty <;> simp

theorem layOk_std (a : Attr) (h : '"' ∉ a.val) : LayOk a Lay.std := by
  refine ⟨by decide, by decide, by decide, by decide, Or.inl rfl, h⟩

/-! ### the attribute iterator on a rendered attribute -/

theorem keyEnd_mid (m X : Str) (hm : AllWs m) : keyEnd (m ++ '=' :: X) = .eq ('=' :: X) := by
  cases m with
  | nil => simp [keyEnd]
  | cons w ws =>
    have hw : isWs w = true := hm w (List.mem_cons_self ..)
    have hne : w ≠ '=' := by
      intro e; subst e; revert hw; decide
    have hws : AllWs ws := fun x hx => hm x (List.mem_cons_of_mem _ hx)
    have hd : dropWs (ws ++ '=' :: X) = '=' :: X := by
      rw [dropWs_allWs_append ws _ hws]; exact dropWs_cons_of_not_ws _ _ (by decide)
    simp [keyEnd, hne, hd]

theorem head_mid (m X : Str) (hm : AllWs m) :
    ∃ c r, m ++ '=' :: X = c :: r ∧ ((c == '=' || isWs c) = true) := by
  cases m with
  | nil => exact ⟨'=', X, rfl, by decide⟩
  | cons w ws =>
    exact ⟨w, ws ++ '=' :: X, rfl, by simp [hm w (List.mem_cons_self ..)]⟩

theorem attrNext_renderAttrL (keys : List Str) (a : Attr) (l : Lay) (rest : Str)
    (hk : KeyOk a.key) (hl : LayOk a l) (hn : a.key ∉ keys) :
    attrNext keys (.next (renderAttrL a l ++ rest)) = some (.ok a, a.key :: keys, .next rest) := by
  obtain ⟨hpre0, hpre, hm1, hm2, hq, hqv⟩ := hl
  obtain ⟨hk0, hkc⟩ := hk
  obtain ⟨kc, kt, hkey⟩ : ∃ kc kt, a.key = kc :: kt := by
    cases hkk : a.key with
    | nil => exact absurd hkk hk0
    | cons c t => exact ⟨c, t, rfl⟩
  have hkc' : isWs kc = false := (keyCharOk_spec kc (hkc kc (by rw [hkey]; exact List.mem_cons_self ..))).1
  have hkt : ∀ x ∈ kt, (x == '=' || isWs x) = false := by
    intro x hx
    have := keyCharOk_spec x (hkc x (by rw [hkey]; exact List.mem_cons_of_mem _ hx))
    simp [this.1, this.2.1]
  -- the text after the key
  let X : Str := l.mid2 ++ l.q :: (a.val ++ l.q :: rest)
  have hs : renderAttrL a l ++ rest = l.pre ++ (kc :: (kt ++ (l.mid1 ++ '=' :: X))) := by
    simp [renderAttrL, hkey, X]
  have hdrop : dropWs (renderAttrL a l ++ rest) = kc :: (kt ++ (l.mid1 ++ '=' :: X)) := by
    rw [hs, dropWs_allWs_append _ _ hpre]; exact dropWs_cons_of_not_ws _ _ hkc'
  obtain ⟨c0, r0, hc0, hp0⟩ := head_mid l.mid1 X hm1
  have hbreak : breakOn (fun x => x == '=' || isWs x) (kt ++ (l.mid1 ++ '=' :: X)) =
      (kt, l.mid1 ++ '=' :: X) := by
    rw [hc0]; exact breakOn_append _ kt c0 r0 hkt hp0
  have hqws : isWs l.q = false := by rcases hq with h | h <;> rw [h] <;> decide
  have hX : dropWs X = l.q :: (a.val ++ l.q :: rest) := by
    show dropWs (l.mid2 ++ l.q :: (a.val ++ l.q :: rest)) = _
    rw [dropWs_allWs_append _ _ hm2]; exact dropWs_cons_of_not_ws _ _ hqws
  have hval : breakOn (fun x => x == l.q) (a.val ++ l.q :: rest) = (a.val, l.q :: rest) := by
    apply breakOn_append
    · intro x hx
      have : x ≠ l.q := fun e => hqv (e ▸ hx)
      simpa using this
    · simp
  have hnk : (kc :: kt) ∉ keys := by rw [← hkey]; exact hn
  unfold attrNext
  simp only [recover, hdrop, hbreak, keyEnd_mid l.mid1 X hm1, List.tail_cons, hX, hq, if_true,
    hval, if_neg hnk]
  cases a with
  | mk key val => simp only at hkey; subst hkey; rfl

/-- the iterator over rendered attributes followed by white space yields exactly them -/
theorem attrsAll_render (als : List (Attr × Lay)) (tw : Str) (htw : AllWs tw) :
    ∀ (n : Nat) (keys : List Str),
    (∀ al ∈ als, KeyOk al.1.key ∧ LayOk al.1 al.2) →
    ((als.map (·.1.key)).Nodup) → (∀ al ∈ als, al.1.key ∉ keys) →
    attrsAll (als.length + 1 + n) keys (.next (renderAttrsL als ++ tw)) = als.map (fun al => .ok al.1) := by
  induction als with
  | nil =>
    intro n keys _ _ _
    have : attrNext keys (.next tw) = none := by
      unfold attrNext
      simp [recover, dropWs_allWs tw htw]
    simp only [List.length_nil, renderAttrsL, List.nil_append, List.map_nil]
    rw [show 0 + 1 + n = n + 1 by omega]
    simp [attrsAll, this]
  | cons al als ih =>
    intro n keys hok hnd hnk
    have hal := hok al (List.mem_cons_self ..)
    have hstep := attrNext_renderAttrL keys al.1 al.2 (renderAttrsL als ++ tw) hal.1 hal.2
      (hnk al (List.mem_cons_self ..))
    simp only [List.map_cons, List.nodup_cons] at hnd
    have hnk' : ∀ b ∈ als, b.1.key ∉ al.1.key :: keys := by
      intro b hb hm
      rcases List.mem_cons.1 hm with h | h
      · exact hnd.1 (List.mem_map.2 ⟨b, hb, h⟩)
      · exact hnk b (List.mem_cons_of_mem _ hb) h
    have := ih n (al.1.key :: keys) (fun b hb => hok b (List.mem_cons_of_mem _ hb)) hnd.2 hnk'
    simp only [List.length_cons, renderAttrsL, List.append_assoc, List.map_cons]
    rw [show als.length + 1 + 1 + n = (als.length + 1 + n) + 1 by omega]
    simp only [attrsAll, hstep, this]

theorem length_renderAttrsL (als : List (Attr × Lay)) (h : ∀ al ∈ als, LayOk al.1 al.2) :
    als.length ≤ (renderAttrsL als).length := by
  induction als with
  | nil => simp
  | cons al als ih =>
    have h1 := (h al (List.mem_cons_self ..)).1
    have : 1 ≤ al.2.pre.length := by
      cases hp : al.2.pre with
      | nil => exact absurd hp h1
      | cons c t => simp
    have := ih (fun b hb => h b (List.mem_cons_of_mem _ hb))
    simp only [renderAttrsL, renderAttrL, List.length_cons, List.length_append]
    omega

theorem attrsOf_render (als : List (Attr × Lay)) (tw : Str) (htw : AllWs tw)
    (hok : ∀ al ∈ als, KeyOk al.1.key ∧ LayOk al.1 al.2) (hnd : (als.map (·.1.key)).Nodup) :
    attrsOf (renderAttrsL als ++ tw) = als.map (fun al => .ok al.1) := by
  have hl := length_renderAttrsL als (fun al h => (hok al h).2)
  obtain ⟨n, hn⟩ : ∃ n, (renderAttrsL als ++ tw).length + 1 = als.length + 1 + n :=
    ⟨(renderAttrsL als ++ tw).length - als.length, by simp only [List.length_append]; omega⟩
  unfold attrsOf
  rw [hn]
  exact attrsAll_render als tw htw n [] hok hnd (fun _ _ h => by cases h)

theorem strictAttrs_ok (as : List Attr) : strictAttrs (as.map .ok) = some as := by
  induction as with
  | nil => rfl
  | cons a as ih => simp [strictAttrs, ih]

theorem findAttrTxt_ok (k : Str) (as : List Attr) :
    findAttrTxt k (as.map .ok) = (findAttr k as).map (·.val) := by
  induction as with
  | nil => rfl
  | cons a as ih =>
    simp only [List.map_cons, findAttrTxt, findAttr]
    split <;> simp [ih]

/-! ### `emit_start` on the rendered tag -/

theorem endsSlash_snoc (a : Str) (c : Char) : endsSlash (a ++ [c]) = (c == '/') := by
  induction a with
  | nil => rfl
  | cons x xs ih =>
    cases xs with
    | nil => simp [endsSlash]
    | cons y ys => simpa [endsSlash] using ih

/-- the last character of the text between the name and the end of a non-empty tag -/
theorem renderAttrsL_tw_last (als : List (Attr × Lay)) (tw : Str) (htw : AllWs tw)
    (hok : ∀ al ∈ als, LayOk al.1 al.2) :
    endsSlash (rdfDescription ++ (renderAttrsL als ++ tw)) = false := by
  -- the text is `x ++ [c]` with `c` a letter, a quote or white space
  have key : ∃ x c, rdfDescription ++ (renderAttrsL als ++ tw) = x ++ [c] ∧ c ≠ '/' := by
    rcases List.eq_nil_or_concat tw with htw0 | ⟨tw', c, htw'⟩
    · subst htw0
      induction als with
      | nil => exact ⟨"rdf:Descriptio".toList, 'n', by decide, by decide⟩
      | cons al als ih =>
        have hq := (hok al (List.mem_cons_self ..)).2.2.2.2.1
        cases als with
        | nil =>
          refine ⟨rdfDescription ++ (al.2.pre ++ (al.1.key ++ (al.2.mid1 ++ '=' :: (al.2.mid2 ++ al.2.q :: al.1.val)))),
            al.2.q, by simp [renderAttrsL, renderAttrL], ?_⟩
          rcases hq with h | h <;> rw [h] <;> decide
        | cons b bs =>
          obtain ⟨x, c, hx, hc⟩ := ih (fun b' hb' => hok b' (List.mem_cons_of_mem _ hb'))
          -- strip the name again and put the first attribute in front
          have hx' : renderAttrsL (b :: bs) ++ [] = (x ++ [c]).drop rdfDescription.length := by
            rw [← hx]; simp
          have hlen : rdfDescription.length ≤ x.length := by
            have := congrArg List.length hx
            simp only [List.length_append, List.length_cons, List.length_nil] at this
            have h2 : 1 ≤ (renderAttrsL (b :: bs)).length := by
              have := length_renderAttrsL (b :: bs) (fun b' hb' => hok b' (List.mem_cons_of_mem _ hb'))
              simp only [List.length_cons] at this
              omega
            omega
          refine ⟨rdfDescription ++ (renderAttrL al.1 al.2 ++ x.drop rdfDescription.length), c, ?_, hc⟩
          have : renderAttrsL (b :: bs) = x.drop rdfDescription.length ++ [c] := by
            have := hx'
            rw [List.append_nil, List.drop_append_of_le_length hlen] at this
            exact this
          simp only [List.append_nil] at this ⊢
          rw [renderAttrsL, this]
          simp
    · subst htw'
      have hc : isWs c = true := htw c (by simp)
      refine ⟨rdfDescription ++ (renderAttrsL als ++ tw'), c, by simp, ?_⟩
      intro e; subst e; revert hc; decide
  obtain ⟨x, c, hx, hc⟩ := key
  rw [hx, endsSlash_snoc]
  simpa using hc

theorem breakOn_name (als : List (Attr × Lay)) (tw : Str) (htw : AllWs tw)
    (hok : ∀ al ∈ als, LayOk al.1 al.2) :
    breakOn isWs (rdfDescription ++ (renderAttrsL als ++ tw)) = (rdfDescription, renderAttrsL als ++ tw) := by
  have hname : ∀ x ∈ rdfDescription, isWs x = false := by decide
  -- what follows the name is empty or starts with white space
  have : renderAttrsL als ++ tw = [] ∨ ∃ c r, renderAttrsL als ++ tw = c :: r ∧ isWs c = true := by
    cases als with
    | nil =>
      cases tw with
      | nil => exact Or.inl rfl
      | cons c r => exact Or.inr ⟨c, r, rfl, htw c (List.mem_cons_self ..)⟩
    | cons al als =>
      obtain ⟨h0, hws, _⟩ := hok al (List.mem_cons_self ..)
      cases hp : al.2.pre with
      | nil => exact absurd hp h0
      | cons c t =>
        refine Or.inr ⟨c, _, by simp only [renderAttrsL, renderAttrL, hp, List.cons_append]; rfl, ?_⟩
        exact hws c (by rw [hp]; exact List.mem_cons_self ..)
  rcases this with h | ⟨c, r, h, hc⟩
  · rw [h, List.append_nil]; exact breakOn_all _ _ hname
  · rw [h]; exact breakOn_append _ _ c r hname hc

theorem splitTag_descContentL (als : List (Attr × Lay)) (tw : Str) (empty : Bool) (htw : AllWs tw)
    (hok : ∀ al ∈ als, LayOk al.1 al.2) :
    splitTag (descContentL als tw empty) =
      { name := rdfDescription, attrs := renderAttrsL als ++ tw, empty := empty } := by
  unfold splitTag descContentL
  cases empty with
  | false =>
    simp only [Bool.false_eq_true, if_false, List.append_nil, renderAttrsL_tw_last als tw htw hok,
      breakOn_name als tw htw hok]
  | true =>
    simp only [if_true, endsSlash_snoc, beq_self_eq_true, List.dropLast_concat,
      breakOn_name als tw htw hok]

theorem qrun_renderAttrL (a : Attr) (l : Lay) (hk : KeyOk a.key) (hl : LayOk a l) :
    qrun .out (renderAttrL a l) = some .out := by
  obtain ⟨_, hpre, hm1, hm2, hq, hqv⟩ := hl
  have hkey : qrun .out a.key = some .out :=
    qrun_out_plain _ (fun c hc => (keyCharOk_spec c (hk.2 c hc)).2.2)
  have heq : qrun .out ['='] = some .out := by decide
  unfold renderAttrL
  rw [qrun_append, qrun_out_ws _ hpre, Option.bind_some, qrun_append, hkey, Option.bind_some,
    qrun_append, qrun_out_ws _ hm1, Option.bind_some]
  rw [show ('=' :: (l.mid2 ++ l.q :: (a.val ++ [l.q]))) = ['='] ++ (l.mid2 ++ l.q :: (a.val ++ [l.q])) by rfl]
  rw [qrun_append, heq, Option.bind_some, qrun_append, qrun_out_ws _ hm2, Option.bind_some]
  exact qrun_quoted l.q a.val hq hqv

theorem qrun_renderAttrsL (als : List (Attr × Lay)) (hok : ∀ al ∈ als, KeyOk al.1.key ∧ LayOk al.1 al.2) :
    qrun .out (renderAttrsL als) = some .out := by
  induction als with
  | nil => rfl
  | cons al als ih =>
    have h := hok al (List.mem_cons_self ..)
    rw [renderAttrsL, qrun_append, qrun_renderAttrL _ _ h.1 h.2, Option.bind_some]
    exact ih (fun b hb => hok b (List.mem_cons_of_mem _ hb))

theorem qrun_descContentL (als : List (Attr × Lay)) (tw : Str) (empty : Bool) (htw : AllWs tw)
    (hok : ∀ al ∈ als, KeyOk al.1.key ∧ LayOk al.1 al.2) :
    qrun .out (descContentL als tw empty) = some .out := by
  have hname : qrun .out rdfDescription = some .out := by decide
  unfold descContentL
  rw [qrun_append, qrun_append, hname, Option.bind_some, qrun_append, qrun_renderAttrsL als hok,
    Option.bind_some, qrun_out_ws tw htw, Option.bind_some]
  cases empty <;> decide

/-- **The element reading of `add_xmp_key` inverts rendering**, for every layout (white
space before each name, around `=`, either quote character, white space before the end),
every value that does not contain its own quote character (it may contain `>`, `<`, the
other quote), every well-formed and pairwise different names, whatever text follows. -/
theorem scanDesc_renderDescL (als : List (Attr × Lay)) (tw : Str) (empty : Bool) (rest : Str)
    (htw : AllWs tw) (hok : ∀ al ∈ als, KeyOk al.1.key ∧ LayOk al.1 al.2)
    (hnd : (als.map (·.1.key)).Nodup) :
    scanDesc (renderDescL als tw empty ++ rest) =
      some ({ attrs := als.map (·.1), empty := empty }, rest) := by
  have hok2 : ∀ al ∈ als, LayOk al.1 al.2 := fun al h => (hok al h).2
  have h1 : renderDescL als tw empty ++ rest = '<' :: (descContentL als tw empty ++ '>' :: rest) := by
    simp [renderDescL]
  rw [h1]
  simp only [scanDesc, elemEnd_of_qrun _ _ (qrun_descContentL als tw empty htw hok) rest,
    splitTag_descContentL als tw empty htw hok2, if_true, attrsOf_render als tw htw hok hnd]
  have : (als.map fun al => ARes.ok al.1) = (als.map (·.1)).map ARes.ok := by simp
  rw [this, strictAttrs_ok]

/-! ### the reader on the markup in front of the element -/

/-- one piece of markup, by its kind and free content -/
inductive Markup where
  | comment (b : Str)
  | cdata (b : Str)
  | pi (b : Str)
  | etag (n : Str)
  | tag (c : Str)
  deriving DecidableEq, Repr

/-- the text after `<` -/
def Markup.body : Markup → Str
  | .comment b => '!' :: '-' :: '-' :: (b ++ ['-', '-', '>'])
  | .cdata b => '!' :: '[' :: 'C' :: 'D' :: 'A' :: 'T' :: 'A' :: '[' :: (b ++ [']', ']', '>'])
  | .pi b => '?' :: (b ++ ['?', '>'])
  | .etag n => '/' :: (n ++ ['>'])
  | .tag c => c ++ ['>']

def Markup.render (m : Markup) : Str := '<' :: m.body

def tagHeadOk : Str → Bool
  | [] => false
  | h :: _ => h != '!' && h != '/' && h != '?'

/-- Markup the theorems let stand in front of the first rdf:Description: comments, CDATA
sections, processing instructions (among them `<?xpacket begin…?>` and the XML declaration)
without `>` in their content, end tags, and start/empty tags with balanced quotes (no `>`
outside quotes) whose name is neither rdf:Description nor the key looked for. -/
def Markup.Ok (k : Str) : Markup → Prop
  | .comment b => '>' ∉ b
  | .cdata b => '>' ∉ b
  | .pi b => '>' ∉ b
  | .etag n => qrun .out n = some .out
  | .tag c => tagHeadOk c = true ∧ qrun .out c = some .out ∧
      (splitTag c).name ≠ rdfDescription ∧ (splitTag c).name ≠ k

instance (k : Str) (m : Markup) : Decidable (m.Ok k) := by
  cases m <;> (unfold Markup.Ok; infer_instance)

/-- events `extract_xmp_key` passes over -/
def evSkip (k : Str) : Ev → Prop
  | .other => True
  | .illFormed => True
  | .endTag _ => True
  | .elem t => t.name ≠ rdfDescription ∧ t.name ≠ k
  | _ => False

theorem extractStep_skip (k : Str) (stk : List Str) (s : Str) (ev : Ev) (stk' : List Str) (X : Str)
    (h : readEvent true stk s = (ev, stk', some X)) (hs : evSkip k ev) :
    extractStep k stk s = .cont stk' X := by
  unfold extractStep
  rw [h]
  cases ev with
  | elem t => simp only [evSkip] at hs; simp [hs.1, hs.2, contOrEnd]
  | endTag n => simp [contOrEnd]
  | other => simp [contOrEnd]
  | illFormed => simp [contOrEnd]
  | fatal => exact absurd hs (by simp [evSkip])
  | eof => exact absurd hs (by simp [evSkip])
  | unmodelled => exact absurd hs (by simp [evSkip])

theorem commentEnd_body (b X : Str) (hb : '>' ∉ b) : ∀ i p2 p1, 4 ≤ i →
    commentEnd i p2 p1 (b ++ '-' :: '-' :: '>' :: X) = some X := by
  induction b with
  | nil =>
    intro i p2 p1 hi
    have h5 : 5 < i + 1 + 1 := by omega
    simp [commentEnd, h5]
  | cons c cs ih =>
    intro i p2 p1 hi
    have hc : c ≠ '>' := fun e => hb (e ▸ List.mem_cons_self ..)
    simp only [List.cons_append, commentEnd, hc, false_and, if_false]
    exact ih (fun m => hb (List.mem_cons_of_mem _ m)) _ _ _ (by omega)

theorem cdataEnd_body (b X : Str) (hb : '>' ∉ b) : ∀ p2 p1,
    cdataEnd p2 p1 (b ++ ']' :: ']' :: '>' :: X) = some X := by
  induction b with
  | nil => intro p2 p1; simp [cdataEnd]
  | cons c cs ih =>
    intro p2 p1
    have hc : c ≠ '>' := fun e => hb (e ▸ List.mem_cons_self ..)
    simp only [List.cons_append, cdataEnd, hc, false_and, if_false]
    exact ih (fun m => hb (List.mem_cons_of_mem _ m)) _ _

theorem piEnd_body (b X : Str) (hb : '>' ∉ b) : ∀ n p1,
    piEnd n p1 (b ++ '?' :: '>' :: X) = some (n + b.length + 2, X) := by
  induction b with
  | nil => intro n p1; simp [piEnd]
  | cons c cs ih =>
    intro n p1
    have hc : c ≠ '>' := fun e => hb (e ▸ List.mem_cons_self ..)
    simp only [List.cons_append, piEnd, hc, false_and, if_false, List.length_cons]
    rw [ih (fun m => hb (List.mem_cons_of_mem _ m))]
    congr 2; omega

theorem readMarkup_tag (stk : List Str) (c : Str) (hh : tagHeadOk c = true)
    (hq : qrun .out c = some .out) (X : Str) :
    readMarkup stk (c ++ '>' :: X) =
      (.elem (splitTag c), (if (splitTag c).empty then stk else (splitTag c).name :: stk), some X) := by
  cases c with
  | nil => simp [tagHeadOk] at hh
  | cons h t =>
    simp only [tagHeadOk, Bool.and_eq_true, bne_iff_ne, ne_eq] at hh
    obtain ⟨⟨h1, h2⟩, h3⟩ := hh
    have := elemEnd_of_qrun (h :: t) .out hq X
    simp only [List.cons_append] at this ⊢
    simp only [readMarkup, if_neg h1, if_neg h2, if_neg h3, this]

theorem readMarkup_ok (k : Str) (stk : List Str) (m : Markup) (X : Str) (hm : m.Ok k) :
    ∃ ev stk', readMarkup stk (m.body ++ X) = (ev, stk', some X) ∧ evSkip k ev := by
  cases m with
  | comment b =>
    refine ⟨.other, stk, ?_, trivial⟩
    have h := commentEnd_body b X hm 4 '-' '-' (by omega)
    simp [Markup.body, readMarkup, commentEnd, h]
  | cdata b =>
    refine ⟨.other, stk, ?_, trivial⟩
    have hb : '>' ∉ ['C', 'D', 'A', 'T', 'A', '['] ++ b := by
      intro hmem
      rcases List.mem_append.1 hmem with h | h
      · revert h; decide
      · exact hm h
    have h := cdataEnd_body (['C', 'D', 'A', 'T', 'A', '['] ++ b) X hb '!' '['
    simp only [List.cons_append, List.nil_append, List.append_assoc] at h
    simp [Markup.body, readMarkup, h, List.isPrefixOf]
  | pi b =>
    refine ⟨.other, stk, ?_, trivial⟩
    have h := piEnd_body b X hm 2 '?'
    have h3 : 3 < 2 + b.length + 2 := by omega
    simp [Markup.body, readMarkup, h, h3]
  | etag n =>
    have h := elemEnd_of_qrun n .out hm X
    cases stk with
    | nil =>
      refine ⟨.illFormed, [], ?_, trivial⟩
      simp [Markup.body, readMarkup, h, emitEnd]
    | cons top stk' =>
      by_cases hn : trimEndWs n = top
      · refine ⟨.endTag (trimEndWs n), stk', ?_, trivial⟩
        simp [Markup.body, readMarkup, h, emitEnd, hn]
      · refine ⟨.illFormed, stk', ?_, trivial⟩
        simp [Markup.body, readMarkup, h, emitEnd, hn]
  | tag c =>
    obtain ⟨hh, hq, hn1, hn2⟩ := hm
    refine ⟨.elem (splitTag c), (if (splitTag c).empty then stk else (splitTag c).name :: stk), ?_, ?_⟩
    · simp only [Markup.body, List.append_assoc, List.cons_append, List.nil_append]
      exact readMarkup_tag stk c hh hq X
    · exact ⟨hn1, hn2⟩

/-! ### white space and text in front of markup -/

def leadOk (l : Str) : Prop := ∀ c ∈ l, c ≠ '<' ∧ c ≠ '&'

instance (l : Str) : Decidable (leadOk l) := by unfold leadOk; infer_instance

theorem dropWs_append_nonws (a : Str) (c : Char) (r : Str) (hc : isWs c = false) :
    dropWs (a ++ c :: r) = dropWs a ++ c :: r := by
  induction a with
  | nil => simp [dropWs, hc]
  | cons x xs ih =>
    by_cases hx : isWs x = true
    · simp [dropWs, hx, ih]
    · simp [dropWs, hx]

theorem mem_dropWs (a : Str) (x : Char) (h : x ∈ dropWs a) : x ∈ a := by
  induction a with
  | nil => simp [dropWs] at h
  | cons y ys ih =>
    by_cases hy : isWs y = true
    · simp only [dropWs, hy, if_true] at h; exact List.mem_cons_of_mem _ (ih h)
    · simp only [dropWs, hy] at h; exact h

theorem length_dropWs (a : Str) : (dropWs a).length ≤ a.length := by
  induction a with
  | nil => simp [dropWs]
  | cons y ys ih =>
    by_cases hy : isWs y = true
    · simp only [dropWs, hy, if_true, List.length_cons]; omega
    · simp [dropWs, hy]

theorem readEvent_lt (trim : Bool) (stk : List Str) (Y : Str) :
    readEvent trim stk ('<' :: Y) = readMarkup stk Y := by
  have : dropWs ('<' :: Y) = '<' :: Y := dropWs_cons_of_not_ws _ _ (by decide)
  cases trim <;> simp [readEvent, this]

theorem readEvent_lead_ws (stk : List Str) (lead Y : Str) (h : dropWs lead = []) :
    readEvent true stk (lead ++ '<' :: Y) = readMarkup stk Y := by
  have : dropWs (lead ++ '<' :: Y) = '<' :: Y := by
    rw [dropWs_append_nonws _ _ _ (by decide), h]; rfl
  simp [readEvent, this]

theorem readEvent_lead_text (stk : List Str) (lead Y : Str) (c : Char) (r : Str)
    (h : dropWs lead = c :: r) (hl : leadOk lead) :
    readEvent true stk (lead ++ '<' :: Y) = (.other, stk, some ('<' :: Y)) := by
  have hd : dropWs (lead ++ '<' :: Y) = c :: (r ++ '<' :: Y) := by
    rw [dropWs_append_nonws _ _ _ (by decide), h]; rfl
  have hc := hl c (mem_dropWs lead c (by rw [h]; exact List.mem_cons_self ..))
  have hr : ∀ x ∈ r, (x == '<' || x == '&') = false := by
    intro x hx
    have := hl x (mem_dropWs lead x (by rw [h]; exact List.mem_cons_of_mem _ hx))
    simp [this.1, this.2]
  have hb : breakOn (fun x => x == '<' || x == '&') (r ++ '<' :: Y) = (r, '<' :: Y) :=
    breakOn_append _ r '<' Y hr (by decide)
  simp [readEvent, hd, hc.1, hc.2, hb]

/-! ### the main loop -/

theorem extractLoop_cont (k : Str) (stk : List Str) (s : Str) (stk' : List Str) (s' : Str)
    (h : extractStep k stk s = .cont stk' s') (hl : s'.length < s.length) :
    extractLoop k stk s = extractLoop k stk' s' := by
  rw [extractLoop]
  simp [h, hl]

theorem extractLoop_found (k : Str) (stk : List Str) (s v : Str)
    (h : extractStep k stk s = .found v) : extractLoop k stk s = .found v := by
  rw [extractLoop]
  simp [h]

structure Item where
  /-- white space / text in front of the markup (no `<`, no `&`) -/
  lead : Str
  m : Markup
  deriving DecidableEq, Repr

def Item.render (it : Item) : Str := it.lead ++ it.m.render

def Item.Ok (k : Str) (it : Item) : Prop := leadOk it.lead ∧ it.m.Ok k

instance (k : Str) (it : Item) : Decidable (it.Ok k) := by unfold Item.Ok; infer_instance

def renderItems : List Item → Str
  | [] => []
  | it :: its => it.render ++ renderItems its

theorem extractLoop_markup (k : Str) (stk : List Str) (m : Markup) (X : Str) (hm : m.Ok k) :
    ∃ stk', extractLoop k stk (m.render ++ X) = extractLoop k stk' X := by
  obtain ⟨ev, stk', hre, hs⟩ := readMarkup_ok k stk m X hm
  refine ⟨stk', extractLoop_cont k stk _ stk' X (extractStep_skip k stk _ ev stk' X ?_ hs) ?_⟩
  · simp only [Markup.render, List.cons_append]; rw [readEvent_lt]; exact hre
  · simp [Markup.render]; omega

theorem extractLoop_item (k : Str) (stk : List Str) (it : Item) (X : Str) (h : it.Ok k) :
    ∃ stk', extractLoop k stk (it.render ++ X) = extractLoop k stk' X := by
  obtain ⟨hl, hm⟩ := h
  have hform : it.render ++ X = it.lead ++ '<' :: (it.m.body ++ X) := by
    simp [Item.render, Markup.render]
  cases hd : dropWs it.lead with
  | nil =>
    obtain ⟨ev, stk', hre, hs⟩ := readMarkup_ok k stk it.m X hm
    refine ⟨stk', ?_⟩
    rw [hform]
    refine extractLoop_cont k stk _ stk' X (extractStep_skip k stk _ ev stk' X ?_ hs) (by simp; omega)
    rw [readEvent_lead_ws stk _ _ hd]; exact hre
  | cons c r =>
    obtain ⟨stk', h2⟩ := extractLoop_markup k stk it.m X hm
    refine ⟨stk', ?_⟩
    rw [hform]
    have hlen : 1 ≤ it.lead.length := by
      have := length_dropWs it.lead
      rw [hd] at this; simp at this; omega
    rw [extractLoop_cont k stk _ stk ('<' :: (it.m.body ++ X))
      (extractStep_skip k stk _ .other stk _ (readEvent_lead_text stk _ _ c r hd hl) trivial)
      (by simp; omega)]
    simpa [Markup.render] using h2

theorem extractLoop_items (k : Str) (items : List Item) (hok : ∀ it ∈ items, it.Ok k) (Z : Str) :
    ∀ stk, ∃ stk', extractLoop k stk (renderItems items ++ Z) = extractLoop k stk' Z := by
  induction items with
  | nil => intro stk; exact ⟨stk, rfl⟩
  | cons it its ih =>
    intro stk
    obtain ⟨stk1, h1⟩ := extractLoop_item k stk it (renderItems its ++ Z) (hok it (List.mem_cons_self ..))
    obtain ⟨stk2, h2⟩ := ih (fun x hx => hok x (List.mem_cons_of_mem _ hx)) stk1
    exact ⟨stk2, by simp only [renderItems, List.append_assoc]; rw [h1, h2]⟩

/-- one turn of the loop on the element itself -/
theorem extractStep_desc (k : Str) (stk : List Str) (als : List (Attr × Lay)) (tw : Str)
    (empty : Bool) (rest : Str) (a : Attr)
    (htw : AllWs tw) (hok : ∀ al ∈ als, KeyOk al.1.key ∧ LayOk al.1 al.2)
    (hnd : (als.map (·.1.key)).Nodup) (hf : findAttr k (als.map (·.1)) = some a) :
    extractStep k stk (renderDescL als tw empty ++ rest) = .found (unescapeLenient a.val) := by
  have hok2 : ∀ al ∈ als, LayOk al.1 al.2 := fun al h => (hok al h).2
  have h1 : renderDescL als tw empty ++ rest = '<' :: (descContentL als tw empty ++ '>' :: rest) := by
    simp [renderDescL]
  have hhead : tagHeadOk (descContentL als tw empty) = true := by
    simp [descContentL, rdfDescription, tagHeadOk]
  have hre := readMarkup_tag stk (descContentL als tw empty) hhead
    (qrun_descContentL als tw empty htw hok) rest
  have hattrs : findAttrTxt k (attrsOf (renderAttrsL als ++ tw)) = some a.val := by
    rw [attrsOf_render als tw htw hok hnd]
    have : (als.map fun al => ARes.ok al.1) = (als.map (·.1)).map ARes.ok := by simp
    rw [this, findAttrTxt_ok, hf]; rfl
  unfold extractStep
  rw [h1, readEvent_lt, hre]
  simp [splitTag_descContentL als tw empty htw hok2, hattrs]

theorem extractLoop_desc (k : Str) (stk : List Str) (lead : Str) (als : List (Attr × Lay)) (tw : Str)
    (empty : Bool) (rest : Str) (a : Attr) (hl : leadOk lead)
    (htw : AllWs tw) (hok : ∀ al ∈ als, KeyOk al.1.key ∧ LayOk al.1 al.2)
    (hnd : (als.map (·.1.key)).Nodup) (hf : findAttr k (als.map (·.1)) = some a) :
    extractLoop k stk (lead ++ (renderDescL als tw empty ++ rest)) = .found (unescapeLenient a.val) := by
  have hstep := fun stk => extractStep_desc k stk als tw empty rest a htw hok hnd hf
  have hform : renderDescL als tw empty ++ rest = '<' :: (descContentL als tw empty ++ '>' :: rest) := by
    simp [renderDescL]
  cases hd : dropWs lead with
  | nil =>
    apply extractLoop_found
    -- the same event as without the white space
    have h0 := hstep stk
    unfold extractStep at h0 ⊢
    rw [hform] at h0 ⊢
    rw [readEvent_lead_ws stk _ _ hd]
    rw [readEvent_lt] at h0
    exact h0
  | cons c r =>
    have hlen : 1 ≤ lead.length := by
      have := length_dropWs lead
      rw [hd] at this; simp at this; omega
    rw [hform]
    rw [extractLoop_cont k stk _ stk ('<' :: (descContentL als tw empty ++ '>' :: rest))
      (extractStep_skip k stk _ .other stk _ (readEvent_lead_text stk _ _ c r hd hl) trivial)
      (by simp; omega)]
    rw [← hform]
    exact extractLoop_found k stk _ _ (hstep stk)

/-- `remove_utf8_bom` takes at most a byte-order mark off the first piece of text -/
theorem stripBom_pre (k : Str) (items : List Item) (lead Z : Str)
    (hok : ∀ it ∈ items, it.Ok k) (hl : leadOk lead) :
    ∃ items' lead', (∀ it ∈ items', it.Ok k) ∧ leadOk lead' ∧
      stripBom (renderItems items ++ (lead ++ '<' :: Z)) = renderItems items' ++ (lead' ++ '<' :: Z) := by
  have hlt : ('<' : Char) ≠ Char.ofNat 0xFEFF := by decide
  cases items with
  | nil =>
    cases lead with
    | nil => exact ⟨[], [], hok, hl, by simp [renderItems, stripBom, hlt]⟩
    | cons c l =>
      by_cases hc : c = Char.ofNat 0xFEFF
      · exact ⟨[], l, hok, fun x hx => hl x (List.mem_cons_of_mem _ hx), by simp [renderItems, stripBom, hc]⟩
      · exact ⟨[], c :: l, hok, hl, by simp [renderItems, stripBom, hc]⟩
  | cons it its =>
    have hit := hok it (List.mem_cons_self ..)
    cases hlead : it.lead with
    | nil =>
      refine ⟨it :: its, lead, hok, hl, ?_⟩
      simp [renderItems, Item.render, Markup.render, hlead, stripBom, hlt]
    | cons c l =>
      by_cases hc : c = Char.ofNat 0xFEFF
      · refine ⟨⟨l, it.m⟩ :: its, lead, ?_, hl, ?_⟩
        · intro x hx
          rcases List.mem_cons.1 hx with h | h
          · subst h
            exact ⟨fun y hy => hit.1 y (by rw [hlead]; exact List.mem_cons_of_mem _ hy), hit.2⟩
          · exact hok x (List.mem_cons_of_mem _ h)
        · simp [renderItems, Item.render, hlead, stripBom, hc]
      · refine ⟨it :: its, lead, hok, hl, ?_⟩
        simp [renderItems, Item.render, hlead, stripBom, hc]

/-- **`extract_xmp_key` on a text**: markup items in front, then (after white space or
text) an rdf:Description tag in any layout that has the key: the value returned is the
unescaped raw value of the first attribute with that key, whatever follows the tag. -/
theorem extractTxt_desc (k : Str) (items : List Item) (lead : Str) (als : List (Attr × Lay))
    (tw : Str) (empty : Bool) (rest : Str) (a : Attr)
    (hitems : ∀ it ∈ items, it.Ok k) (hl : leadOk lead)
    (htw : AllWs tw) (hok : ∀ al ∈ als, KeyOk al.1.key ∧ LayOk al.1 al.2)
    (hnd : (als.map (·.1.key)).Nodup) (hf : findAttr k (als.map (·.1)) = some a) :
    extractTxt k (renderItems items ++ (lead ++ (renderDescL als tw empty ++ rest))) =
      .found (unescapeLenient a.val) := by
  have hform : renderDescL als tw empty ++ rest = '<' :: (descContentL als tw empty ++ '>' :: rest) := by
    simp [renderDescL]
  unfold extractTxt
  rw [hform]
  obtain ⟨items', lead', hok', hl', hs⟩ := stripBom_pre k items lead _ hitems hl
  rw [hs, ← hform]
  obtain ⟨stk', h1⟩ := extractLoop_items k items' hok' (lead' ++ (renderDescL als tw empty ++ rest)) []
  rw [h1]
  exact extractLoop_desc k stk' lead' als tw empty rest a hl' htw hok hnd hf

end C2pa.C30
