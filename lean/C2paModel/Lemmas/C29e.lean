import C2paModel.Lemmas.C29d
/-! C29 — write side, glue: from what `resolve_within_root_for_write` checked to the setting of
`Lemmas/C29d`. -/
namespace C2pa.C29

theorem isSkip_false_of_normal {n : Str} (h : NormalName n) : isSkip n = false := by
  simp [isSkip, h.1, h.2.1]

theorem dropSkips_cons_normal {n : Str} (h : NormalName n) (l : List Str) :
    dropSkips (n :: l) = n :: l := by
  simp [dropSkips, isSkip_false_of_normal h]

theorem rooted_cons_append (s0 : Str) (Q' Y : List Str) (hY : Y ≠ []) :
    rooted (s0 :: (Q' ++ Y)) = decide (s0 = []) := by
  cases h : Q' ++ Y with
  | nil => simp at h; exact absurd h.2 hY
  | cons a b => cases s0 <;> simp [rooted]

/-- `parent` of a path ending in two normal names drops the last one -/
theorem parentSegs_snoc2 (Y : Segs) (a b : Str) (hY : Y ≠ []) (ha : NormalName a)
    (hb : NormalName b) : parentSegs (Y ++ [a, b]) = some (Y ++ [a]) := by
  cases Y with
  | nil => exact absurd rfl hY
  | cons s0 Y' =>
    simp only [List.cons_append, parentSegs]
    have : (Y' ++ [a, b]).reverse = b :: a :: Y'.reverse := by simp
    rw [this, dropSkips_cons_normal hb]
    simp only
    rw [dropSkips_cons_normal ha]
    simp

/-- what `parent` makes of `Q/n`: `Q` without its trailing `/`s and `/.`s -/
def A0 (s0 : Str) (Q' : List Str) : Segs :=
  let keep := (dropSkips Q'.reverse).reverse
  if keep = [] then (if s0 = [] then [[], []] else [s0]) else s0 :: keep

theorem parentSegs_snoc1 (s0 : Str) (Q' : List Str) (n : Str) (hn : NormalName n) :
    parentSegs (s0 :: Q' ++ [n]) = some (A0 s0 Q') := by
  simp only [List.cons_append, parentSegs]
  have : (Q' ++ [n]).reverse = n :: Q'.reverse := by simp
  rw [this, dropSkips_cons_normal hn]
  simp only [A0]
  have hr := rooted_cons_append s0 Q' [n] (by simp)
  by_cases h : (dropSkips Q'.reverse).reverse = []
  · simp only [h, if_true]
    by_cases h0 : s0 = []
    · subst h0; simp at hr; simp [hr]
    · simp [h0, hr]
  · simp [h]

theorem dropSkips_spec : ∀ l : List Str, ∃ sk, l = sk ++ dropSkips l ∧ ∀ s ∈ sk, isSkip s = true := by
  intro l
  induction l with
  | nil => exact ⟨[], rfl, by simp⟩
  | cons a l ih =>
    rw [dropSkips]
    by_cases h : isSkip a = true
    · obtain ⟨sk, h1, h2⟩ := ih
      refine ⟨a :: sk, by simp [h, ← h1], ?_⟩
      intro s hs; simp at hs
      rcases hs with rfl | hs
      · exact h
      · exact h2 s hs
    · exact ⟨[], by simp [h], by simp⟩

/-- `Q'` is what `A0` keeps of it plus skippable segments -/
theorem keep_spec (Q' : List Str) :
    ∃ sk, Q' = (dropSkips Q'.reverse).reverse ++ sk ∧ ∀ s ∈ sk, isSkip s = true := by
  obtain ⟨sk, h1, h2⟩ := dropSkips_spec Q'.reverse
  refine ⟨sk.reverse, ?_, fun s hs => h2 s (by simpa using hs)⟩
  have := congrArg List.reverse h1
  simpa using this

theorem walk_append_found (fs : FS) (fl : Bool) (f : Nat) (cur : PPath) (A B : List Str)
    (hB : B ≠ []) (p : PPath) (k : Kind) (g : Nat)
    (h : walk fs fl f cur (A ++ B) = .found p k g) :
    ∃ p' g', walk fs true f cur A = .found p' .dir g' ∧ walk fs fl g' p' B = .found p k g := by
  rw [walk_append _ _ _ _ _ _ hB] at h
  revert h
  cases walk fs true f cur A with
  | err e => simp [Res.andThen]
  | absent d n tr g' => simp only [Res.andThen]; split <;> simp
  | found p' k' g' =>
    cases k' with
    | dir => intro h; exact ⟨p', g', rfl, h⟩
    | file c => simp [Res.andThen]
    | link t => simp [Res.andThen]

theorem stopRes_of_found (fs : FS) (f : Nat) (cur : PPath) (A : List Str) (p : PPath) (k : Kind)
    (g : Nat) (h : walk fs true f cur A = .found p k g) :
    Setting.StopRes (walk fs false f cur A) := by
  rcases walk_nofollow fs f cur A with h1 | ⟨q, t, g', h1⟩
  · rw [h1, h]; trivial
  · rw [h1]; trivial

/-- a path of at least two segments is a proper path, starting at `/` iff its first segment
is empty -/
theorem path_wf (env : Env) (s0 : Str) (Q' Y : List Str) (hY : Q' ++ Y ≠ []) :
    emptyPath (s0 :: (Q' ++ Y)) = false ∧
      env.start (s0 :: (Q' ++ Y)) = if s0 = [] then [] else env.cwd := by
  cases h : Q' ++ Y with
  | nil => exact absurd h hY
  | cons a b =>
    constructor
    · simp [emptyPath]
    · cases s0 <;> simp [Env.start, rooted]

end C2pa.C29

namespace C2pa.C29

def StopAt (fs : FS) (env : Env) (a : Segs) : Prop :=
  emptyPath a = true ∨ parentSegs a = none ∨ Setting.StopRes (walkP fs env false a)

/-- the configured base directory resolves to the directory `Bp`, really inside the root `R` -/
structure BaseCtx where
  fs : FS
  env : Env
  s0 : Str
  Q' : List Str
  Bp : PPath
  gQ : Nat
  R : PPath
  root : Segs
  hwf : fs.WF
  hQ : walk fs true env.fuel (if s0 = [] then [] else env.cwd) (s0 :: Q') = .found Bp .dir gQ
  hroot : canon fs env root = some R
  hin : R <+: Bp

namespace BaseCtx
variable (B : BaseCtx)

def st : PPath := if B.s0 = [] then [] else B.env.cwd
def Q : Segs := B.s0 :: B.Q'

theorem walkP_eq (fl : Bool) (Y : List Str) (hY : B.Q' ++ Y ≠ []) :
    walkP B.fs B.env fl (B.s0 :: (B.Q' ++ Y)) = walk B.fs fl B.env.fuel B.st (B.s0 :: (B.Q' ++ Y)) := by
  obtain ⟨h1, h2⟩ := path_wf B.env B.s0 B.Q' Y hY
  simp [walkP, h1, h2, st]

/-- `create_dir_all` stops at what `parent` makes of `base/n` -/
theorem stop_A0 : StopAt B.fs B.env (A0 B.s0 B.Q') := by
  obtain ⟨sk, hsk, hskip⟩ := keep_spec B.Q'
  unfold A0
  simp only
  by_cases hk : (dropSkips B.Q'.reverse).reverse = []
  · simp only [hk, if_true]
    by_cases h0 : B.s0 = []
    · simp only [h0, if_true]
      right; left
      simp [parentSegs, dropSkips, isSkip, rooted]
    · simp only [h0, if_false]
      right; right
      have hw : walkP B.fs B.env false [B.s0] = walk B.fs false B.env.fuel B.env.cwd [B.s0] := by
        have : rooted [B.s0] = false := by cases B.s0 <;> simp [rooted]
        simp [walkP, emptyPath, h0, Env.start, this]
      rw [hw]
      have hQ := B.hQ
      rw [hsk, hk] at hQ
      simp only [h0, if_false, List.nil_append] at hQ
      by_cases hs : sk = []
      · subst hs; exact stopRes_of_found _ _ _ _ _ _ _ hQ
      · obtain ⟨p', g', h1, _⟩ := walk_append_found B.fs true _ _ [B.s0] sk hs _ _ _ hQ
        exact stopRes_of_found _ _ _ _ _ _ _ h1
  · simp only [hk, if_false]
    right; right
    have hw := B.walkP_eq false [] (by
      intro h; simp at h; rw [h] at hk; simp [dropSkips] at hk)
    have hQ := B.hQ
    obtain ⟨ne1, ne2⟩ : ∃ a b, (dropSkips B.Q'.reverse).reverse = a :: b := by
      cases h : (dropSkips B.Q'.reverse).reverse with
      | nil => exact absurd h hk
      | cons a b => exact ⟨a, b, rfl⟩
    have hw2 : walkP B.fs B.env false (B.s0 :: (dropSkips B.Q'.reverse).reverse) =
        walk B.fs false B.env.fuel B.st (B.s0 :: (dropSkips B.Q'.reverse).reverse) := by
      obtain ⟨h1, h2⟩ := path_wf B.env B.s0 (dropSkips B.Q'.reverse).reverse [] (by simpa using hk)
      simp only [List.append_nil] at h1 h2
      simp [walkP, h1, h2, st]
    rw [hw2]
    rw [hsk] at hQ
    by_cases hs : sk = []
    · subst hs
      simp only [List.append_nil] at hQ
      exact stopRes_of_found _ _ _ _ _ _ _ hQ
    · have : B.s0 :: ((dropSkips B.Q'.reverse).reverse ++ sk) =
          (B.s0 :: (dropSkips B.Q'.reverse).reverse) ++ sk := by simp
      rw [this] at hQ
      obtain ⟨p', g', h1, _⟩ := walk_append_found B.fs true _ _ _ sk hs _ _ _ hQ
      exact stopRes_of_found _ _ _ _ _ _ _ h1

/-- a path that does not resolve and is not itself a symbolic link -/
def Unres (a : Segs) : Prop := canon B.fs B.env a = none ∧ isSymlinkP B.fs B.env a = false

/-- what the ancestor loop of `resolve_within_root_for_write` established, for the target
`Q ++ rn.reverse` (names in reverse order) -/
def Chk : List Str → Prop
  | [] => True
  | r :: rn =>
    (∃ P, canon B.fs B.env (B.Q ++ (r :: rn).reverse) = some P ∧ B.R <+: P) ∨
      (B.Unres (B.Q ++ (r :: rn).reverse) ∧ Chk rn)

theorem parent_rn (r a : Str) (rn : List Str) (hr : NormalName r) (ha : NormalName a) :
    parentSegs (B.Q ++ (r :: a :: rn).reverse) = some (B.Q ++ (a :: rn).reverse) := by
  have : B.Q ++ (r :: a :: rn).reverse = (B.Q ++ rn.reverse) ++ [a, r] := by simp
  rw [this, parentSegs_snoc2 _ a r (by simp [Q]) ha hr]
  simp

theorem check_spec (joined : Segs) : ∀ (rn : List Str) (n : Nat), rn.length ≤ n →
    (∀ x ∈ rn, NormalName x) →
    checkAncestors B.fs B.env B.root joined (ancF n (B.Q ++ rn.reverse)) = .ok () → B.Chk rn := by
  intro rn
  induction rn with
  | nil => intro n _ _ _; trivial
  | cons r rn ih =>
    intro n hn hN h
    cases n with
    | zero => simp at hn
    | succ n =>
      rw [ancF, checkAncestors] at h
      cases hc : canon B.fs B.env (B.Q ++ (r :: rn).reverse) with
      | some c =>
        rw [hc, B.hroot] at h
        simp only at h
        left
        refine ⟨c, hc, ?_⟩
        by_cases hp : B.R.isPrefixOf c = true
        · exact List.isPrefixOf_iff_prefix.1 hp
        · simp [hp] at h
      | none =>
        rw [hc] at h
        simp only at h
        right
        cases hs : isSymlinkP B.fs B.env (B.Q ++ (r :: rn).reverse) with
        | true => rw [hs] at h; simp at h
        | false =>
          rw [hs] at h
          simp only [Bool.false_eq_true, if_false] at h
          refine ⟨⟨hc, hs⟩, ?_⟩
          cases rn with
          | nil => trivial
          | cons a rn' =>
            rw [B.parent_rn r a rn' (hN r (by simp)) (hN a (by simp))] at h
            exact ih n (by simpa using hn) (fun x hx => hN x (by simp [hx])) h

/-- Split the names at the nearest ancestor that resolves. -/
theorem chk_split : ∀ (rn rem : List Str), B.Chk rn →
    (∀ r1, rem.head? = some r1 → B.Unres (B.Q ++ rn.reverse ++ [r1])) →
    ∃ done rem' P kP g, rn.reverse ++ rem = done ++ rem' ∧
      walk B.fs true B.env.fuel B.st (B.Q ++ done) = .found P kP g ∧ B.R <+: P ∧
      (rem' = [] → rem = [] ∧ done = rn.reverse) ∧
      (∀ r1, rem'.head? = some r1 → B.Unres (B.Q ++ done ++ [r1])) := by
  intro rn
  induction rn with
  | nil =>
    intro rem _ hun
    refine ⟨[], rem, B.Bp, .dir, B.gQ, by simp, ?_, B.hin, by simp, by simpa using hun⟩
    simpa [Q, st] using B.hQ
  | cons r rn ih =>
    intro rem hchk hun
    rcases hchk with ⟨P, hc, hR⟩ | ⟨hU, hchk⟩
    · unfold canon at hc
      have hne : B.Q' ++ (r :: rn).reverse ≠ [] := by simp
      have hw := B.walkP_eq true (r :: rn).reverse hne
      have hQe : B.Q ++ (r :: rn).reverse = B.s0 :: (B.Q' ++ (r :: rn).reverse) := by simp [Q]
      rw [hQe, hw] at hc
      revert hc
      cases hres : walk B.fs true B.env.fuel B.st (B.s0 :: (B.Q' ++ (r :: rn).reverse)) with
      | found q k g =>
        intro hc
        simp at hc; subst hc
        exact ⟨(r :: rn).reverse, rem, q, k, g, rfl, by rw [hQe]; exact hres, hR,
          fun h => ⟨h, rfl⟩, hun⟩
      | absent d n tr g => intro hc; simp at hc
      | err e => intro hc; simp at hc
    · have := ih (r :: rem) hchk (by
        intro r1 h1
        simp at h1; subst h1
        simpa using hU)
      obtain ⟨done, rem', P, kP, g, h1, h2, h3, h4, h5⟩ := this
      refine ⟨done, rem', P, kP, g, by simpa using h1, h2, h3, ?_, h5⟩
      intro he
      have := (h4 he).1
      cases this

end BaseCtx
end C2pa.C29

namespace C2pa.C29

theorem ancestors_cons (p : Segs) : ∃ tail, ancestors p = p :: tail := by
  unfold ancestors
  exact ⟨_, by rw [ancF]⟩

theorem list_snoc_cases (l : List Str) : l = [] ∨ ∃ init last, l = init ++ [last] := by
  rcases List.eq_nil_or_concat l with h | ⟨a, b, h⟩
  · exact Or.inl h
  · exact Or.inr ⟨a, b, by simpa using h⟩

namespace Setting
variable (S : Setting)

/-- the ancestors of a fresh path: fresh paths, then the one `create_dir_all` stops at -/
theorem anc_dec (hX0 : S.X ≠ []) (r1 : Str) (hr : S.rem.head? = some r1) (Xp : Segs)
    (hp : parentSegs (S.X ++ [r1]) = some Xp) (hs : S.Stop Xp) :
    ∀ (rr : List Str) (n : Nat), rr ≠ [] → rr.reverse <+: S.rem →
      ∃ pre rest, ancF n (S.X ++ rr.reverse) = pre ++ rest ∧ (∀ a ∈ pre, S.Fresh a) ∧
        (rest = [] ∨ ∃ s tail, rest = s :: tail ∧ S.Stop s) := by
  intro rr
  induction rr with
  | nil => intro n h; exact absurd rfl h
  | cons r rr ih =>
    intro n _ hpre
    cases n with
    | zero => exact ⟨[], [], by simp [ancF], by simp, Or.inl rfl⟩
    | succ n =>
      have hfresh : S.Fresh (S.X ++ (r :: rr).reverse) := ⟨(r :: rr).reverse, by simp, hpre, rfl⟩
      cases rr with
      | nil =>
        -- the first name below X
        have hr1 : r = r1 := by
          cases hrem : S.rem with
          | nil => rw [hrem] at hr; simp at hr
          | cons a b =>
            rw [hrem] at hr hpre
            simp at hr hpre
            exact hpre.trans hr
        subst hr1
        rw [ancF]
        simp only [List.reverse_cons, List.reverse_nil, List.nil_append, hp]
        refine ⟨[S.X ++ [r]], ancF n Xp, by simp, ?_, ?_⟩
        · intro a ha; simp at ha; subst ha; simpa using hfresh
        · cases n with
          | zero => left; simp [ancF]
          | succ n => right; exact ⟨Xp, _, by rw [ancF], hs⟩
      | cons a rr' =>
        have hNr : NormalName r := S.hrem r (hpre.subset (by simp))
        have hNa : NormalName a := S.hrem a (hpre.subset (by simp))
        have heq : S.X ++ (r :: a :: rr').reverse = (S.X ++ rr'.reverse) ++ [a, r] := by simp
        have hpar : parentSegs (S.X ++ (r :: a :: rr').reverse) = some (S.X ++ (a :: rr').reverse) := by
          rw [heq, parentSegs_snoc2 _ a r (by simp [hX0]) hNa hNr]; simp
        have hpre' : (a :: rr').reverse <+: S.rem := by
          refine List.IsPrefix.trans ?_ hpre
          simp only [List.reverse_cons]
          exact List.prefix_append _ _
        obtain ⟨pre, rest, h1, h2, h3⟩ := ih n (by simp) hpre'
        rw [ancF, hpar]
        simp only
        refine ⟨(S.X ++ (r :: a :: rr').reverse) :: pre, rest, by rw [h1]; rfl, ?_, h3⟩
        intro x hx; simp only [List.mem_cons] at hx
        rcases hx with rfl | hx
        · exact hfresh
        · exact h2 x hx

/-- the decomposition `createAndWrite_conf` asks for, when the target does not exist yet -/
theorem hdec_rem (hX0 : S.X ≠ []) (r1 : Str) (hr : S.rem.head? = some r1) (Xp : Segs)
    (hp : parentSegs (S.X ++ [r1]) = some Xp) (hs : S.Stop Xp) :
    ∃ pre rest, ancestors ((parentSegs (S.X ++ S.rem)).getD [[]]) = pre ++ rest ∧
      (∀ a ∈ pre, S.Fresh a) ∧ (rest = [] ∨ ∃ s tail, rest = s :: tail ∧ S.Stop s) := by
  rcases list_snoc_cases S.rem with hnil | ⟨init, l, hil⟩
  · rw [hnil] at hr; simp at hr
  · rcases list_snoc_cases init with hinit | ⟨init', a, hia⟩
    · -- rem = [l]
      subst hinit
      have : l = r1 := by rw [hil] at hr; simpa using hr
      subst this
      rw [hil]
      simp only [List.nil_append, hp, Option.getD_some]
      obtain ⟨tail, ht⟩ := ancestors_cons Xp
      exact ⟨[], Xp :: tail, by simp [ht], by simp, Or.inr ⟨Xp, tail, rfl, hs⟩⟩
    · have hNl : NormalName l := S.hrem l (by rw [hil]; simp)
      have hNa : NormalName a := S.hrem a (by rw [hil, hia]; simp)
      have heq : S.X ++ S.rem = (S.X ++ init') ++ [a, l] := by rw [hil, hia]; simp
      have hpar : parentSegs (S.X ++ S.rem) = some (S.X ++ init) := by
        rw [heq, parentSegs_snoc2 _ a l (by simp [hX0]) hNa hNl, hia]; simp
      rw [hpar]
      simp only [Option.getD_some]
      have hne : init.reverse ≠ [] := by rw [hia]; simp
      have := S.anc_dec hX0 r1 hr Xp hp hs init.reverse ((S.X ++ init).length + 2) hne (by
        rw [List.reverse_reverse, hil]; exact List.prefix_append _ _)
      simpa [ancestors] using this

end Setting

namespace BaseCtx
variable (B : BaseCtx)

theorem unres_walk (Y : List Str) (hY : B.Q' ++ Y ≠ []) (h : B.Unres (B.Q ++ Y)) :
    (∀ q k g, walk B.fs true B.env.fuel B.st (B.Q ++ Y) ≠ .found q k g) ∧
    (∀ q t g, walk B.fs false B.env.fuel B.st (B.Q ++ Y) ≠ .found q (.link t) g) := by
  have hQe : B.Q ++ Y = B.s0 :: (B.Q' ++ Y) := by simp [Q]
  obtain ⟨h1, h2⟩ := h
  unfold canon at h1
  unfold isSymlinkP at h2
  rw [hQe, B.walkP_eq _ Y hY] at h1 h2
  rw [hQe]
  constructor
  · intro q k g hw; rw [hw] at h1; simp at h1
  · intro q t g hw; rw [hw] at h2; simp at h2

/-- **Core of `write_confined`.** With the base directory resolving to a directory really
inside the root, and the ancestor loop of `resolve_within_root_for_write` passed for
`base/n₁/…/nₖ`, `create_dir_all(parent)` + `write` change nothing outside the real root. -/
theorem add_core (names : List Str) (hne : names ≠ []) (hN : ∀ n ∈ names, NormalName n)
    (hchk : checkAncestors B.fs B.env B.root (B.Q ++ names) (ancestors (B.Q ++ names)) = .ok ())
    (data : Str) :
    ∀ p, (createAndWrite B.fs B.env (B.Q ++ names) data).2.look p ≠ B.fs.look p → B.R <+: p := by
  have hChk : B.Chk names.reverse := by
    apply B.check_spec (B.Q ++ names) names.reverse ((B.Q ++ names).length + 2)
    · simp; omega
    · intro x hx; exact hN x (by simpa using hx)
    · simpa [ancestors] using hchk
  obtain ⟨done, rem, P, kP, g, hsplit, hX, hR, hlast, hun⟩ :=
    B.chk_split names.reverse [] hChk (by simp)
  simp only [List.reverse_reverse, List.append_nil] at hsplit hlast
  have hNd : ∀ n ∈ done, NormalName n := fun n hn => hN n (by rw [hsplit]; simp [hn])
  have hNr : ∀ n ∈ rem, NormalName n := fun n hn => hN n (by rw [hsplit]; simp [hn])
  let S : Setting :=
    { fs := B.fs, env := B.env, X := B.Q ++ done, rem := rem, st := B.st, P := P, kP := kP, g := g
      hwf := B.hwf, hrem := hNr, hX := hX
      hpath := by
        intro r' _ hor
        have hQe : B.Q ++ done ++ r' = B.s0 :: (B.Q' ++ (done ++ r')) := by simp [Q]
        rw [hQe]
        have hne' : B.Q' ++ (done ++ r') ≠ [] := by
          rcases hor with h | h
          · simp [h]
          · have := (hlast h).2; rw [this]; simp [hne]
        simpa [st] using path_wf B.env B.s0 B.Q' (done ++ r') hne'
      hun := by
        intro r1 hr1
        have := B.unres_walk (done ++ [r1]) (by simp) (by simpa using hun r1 hr1)
        simpa using this }
  have hpathEq : B.Q ++ names = S.X ++ S.rem := by simp [S, hsplit]
  have hconf : ∀ p, (createAndWrite B.fs B.env (B.Q ++ names) data).2.look p ≠ B.fs.look p →
      P <+: p := by
    rw [hpathEq]
    apply S.createAndWrite_conf data
    have hX0 : S.X ≠ [] := by simp [S, Q]
    cases hrem : rem with
    | nil =>
      -- the target itself resolves
      have hdn : done = names := (hlast hrem).2
      rcases list_snoc_cases names with h | ⟨init, l, hil⟩
      · exact absurd h hne
      · have hNl : NormalName l := hN l (by rw [hil]; simp)
        show ∃ pre rest, ancestors ((parentSegs (B.Q ++ done ++ rem)).getD [[]]) = pre ++ rest ∧ _
        rw [hrem, hdn, List.append_nil]
        rcases list_snoc_cases init with hinit | ⟨init', a, hia⟩
        · subst hinit
          simp only [List.nil_append] at hil
          have : B.Q ++ names = B.s0 :: B.Q' ++ [l] := by rw [hil]; simp [Q]
          rw [this, parentSegs_snoc1 _ _ _ hNl]
          simp only [Option.getD_some]
          obtain ⟨tail, ht⟩ := ancestors_cons (A0 B.s0 B.Q')
          exact ⟨[], _ :: tail, by simp [ht], by simp, Or.inr ⟨_, tail, rfl, B.stop_A0⟩⟩
        · have hNa : NormalName a := hN a (by rw [hil, hia]; simp)
          have heq : B.Q ++ names = (B.Q ++ init') ++ [a, l] := by rw [hil, hia]; simp
          rw [heq, parentSegs_snoc2 _ a l (by simp [Q]) hNa hNl]
          simp only [Option.getD_some]
          obtain ⟨tail, ht⟩ := ancestors_cons (B.Q ++ init' ++ [a])
          refine ⟨[], (B.Q ++ init' ++ [a]) :: tail, by rw [ht]; rfl, by simp,
            Or.inr ⟨_, tail, rfl, ?_⟩⟩
          right; right
          have hQe : B.Q ++ init' ++ [a] = B.s0 :: (B.Q' ++ (init' ++ [a])) := by simp [Q]
          show Setting.StopRes (walkP B.fs B.env false (B.Q ++ init' ++ [a]))
          rw [hQe, B.walkP_eq false (init' ++ [a]) (by simp)]
          have hX' := hX
          rw [hdn, hil, hia] at hX'
          have : B.Q ++ (init' ++ [a] ++ [l]) = (B.s0 :: (B.Q' ++ (init' ++ [a]))) ++ [l] := by
            simp [Q]
          rw [this] at hX'
          obtain ⟨p', g', h1, _⟩ := walk_append_found B.fs true _ _ _ [l] (by simp) _ _ _ hX'
          exact stopRes_of_found _ _ _ _ _ _ _ h1
    | cons r1 rs =>
      have hr : S.rem.head? = some r1 := by simp [S, hrem]
      have hNr1 : NormalName r1 := hNr r1 (by simp [hrem])
      have key : ∃ Xp, parentSegs (S.X ++ [r1]) = some Xp ∧ S.Stop Xp := by
        rcases list_snoc_cases done with hd | ⟨d', dl, hd⟩
        · refine ⟨A0 B.s0 B.Q', ?_, B.stop_A0⟩
          have : S.X ++ [r1] = B.s0 :: B.Q' ++ [r1] := by simp [S, hd, Q]
          rw [this, parentSegs_snoc1 _ _ _ hNr1]
        · have hNdl : NormalName dl := hNd dl (by rw [hd]; simp)
          refine ⟨B.Q ++ done, ?_, ?_⟩
          · have : S.X ++ [r1] = (B.Q ++ d') ++ [dl, r1] := by simp [S, hd]
            rw [this, parentSegs_snoc2 _ dl r1 (by simp [Q]) hNdl hNr1, hd]; simp
          · right; right
            have hQe : B.Q ++ done = B.s0 :: (B.Q' ++ done) := by simp [Q]
            show Setting.StopRes (walkP B.fs B.env false (B.Q ++ done))
            rw [hQe, B.walkP_eq false done (by rw [hd]; simp)]
            rw [hQe] at hX
            exact stopRes_of_found _ _ _ _ _ _ _ hX
      obtain ⟨Xp, hp, hs⟩ := key
      have := S.hdec_rem hX0 r1 hr Xp hp hs
      simpa [S, hrem] using this
  intro p hp
  exact hR.trans (hconf p hp)

end BaseCtx
end C2pa.C29
