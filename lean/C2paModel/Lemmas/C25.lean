import C2paModel.Model.C25
/-
C25 — helper lemmas: association-list facts for `lookup`/`upsert`, well-formedness
(unique keys, as in every `serde_json::Map`), an induction principle for `Json`, and the
key-by-key characterisation of the `mergeFields` loop.
-/
namespace C2pa.C25

def keys (kvs : Fields) : List String := kvs.map Prod.fst

@[simp] theorem keys_nil : keys [] = [] := rfl
@[simp] theorem keys_cons (k : String) (v : Json) (rest : Fields) :
    keys ((k, v) :: rest) = k :: keys rest := rfl

/-! ### induction over `Json` -/

theorem Json.induct {P : Json → Prop}
    (hnull : P .null) (hbool : ∀ b, P (.bool b)) (hnum : ∀ r, P (.num r)) (hstr : ∀ s, P (.str s))
    (harr : ∀ xs, (∀ x ∈ xs, P x) → P (.arr xs))
    (hobj : ∀ kvs : Fields, (∀ kv ∈ kvs, P kv.2) → P (.obj kvs)) : ∀ j, P j := by
  intro j
  refine Json.rec (motive_1 := P) (motive_2 := fun xs => ∀ x ∈ xs, P x)
    (motive_3 := fun kvs => ∀ kv ∈ kvs, P kv.2) (motive_4 := fun kv => P kv.2)
    hnull hbool hnum hstr harr hobj ?_ ?_ ?_ ?_ ?_ j
  · intro x hx; cases hx
  · intro h t ih1 ih2 x hx
    cases hx with
    | head => exact ih1
    | tail _ hm => exact ih2 x hm
  · intro kv hkv; cases hkv
  · intro h t ih1 ih2 kv hkv
    cases hkv with
    | head => exact ih1
    | tail _ hm => exact ih2 kv hm
  · intro k v ih; exact ih

/-! ### well-formedness: unique keys, hereditarily -/

mutual
def WF : Json → Prop
  | .arr xs => WFList xs
  | .obj kvs => (keys kvs).Nodup ∧ WFFields kvs
  | _ => True
def WFList : List Json → Prop
  | [] => True
  | x :: xs => WF x ∧ WFList xs
def WFFields : Fields → Prop
  | [] => True
  | (_, v) :: rest => WF v ∧ WFFields rest
end

theorem WFFields_iff (kvs : Fields) : WFFields kvs ↔ ∀ kv ∈ kvs, WF kv.2 := by
  induction kvs with
  | nil => simp [WFFields]
  | cons h t ih =>
    obtain ⟨k, v⟩ := h
    simp [WFFields, ih]

theorem WF_obj (kvs : Fields) : WF (.obj kvs) ↔ (keys kvs).Nodup ∧ ∀ kv ∈ kvs, WF kv.2 := by
  rw [WF, WFFields_iff]

/-! ### lookup / upsert -/

theorem lookup_eq_none_iff (k : String) (kvs : Fields) : lookup k kvs = none ↔ k ∉ keys kvs := by
  induction kvs with
  | nil => simp [lookup]
  | cons h t ih =>
    obtain ⟨k', v⟩ := h
    by_cases hk : k' = k
    · simp [lookup, hk]
    · have : ¬ k = k' := fun e => hk e.symm
      simp [lookup, hk, ih, this]

theorem lookup_isSome_iff (k : String) (kvs : Fields) : (lookup k kvs).isSome ↔ k ∈ keys kvs := by
  cases h : lookup k kvs with
  | none => simp [(lookup_eq_none_iff k kvs).1 h]
  | some v =>
    have : ¬ (k ∉ keys kvs) := fun hn => by
      rw [(lookup_eq_none_iff k kvs).2 hn] at h; cases h
    simp; exact Classical.not_not.1 this

theorem lookup_mem {k : String} {kvs : Fields} {v : Json} (h : lookup k kvs = some v) :
    (k, v) ∈ kvs := by
  induction kvs with
  | nil => simp [lookup] at h
  | cons hd t ih =>
    obtain ⟨k', v'⟩ := hd
    by_cases hk : k' = k
    · simp [lookup, hk] at h; subst hk; subst h; exact List.mem_cons_self
    · simp [lookup, hk] at h; exact List.mem_cons_of_mem _ (ih h)

theorem mem_keys_of_mem {k : String} {v : Json} {kvs : Fields} (h : (k, v) ∈ kvs) : k ∈ keys kvs :=
  List.mem_map.2 ⟨(k, v), h, rfl⟩

/-- with unique keys, membership determines the lookup -/
theorem lookup_of_mem {k : String} {v : Json} {kvs : Fields} (hnd : (keys kvs).Nodup)
    (h : (k, v) ∈ kvs) : lookup k kvs = some v := by
  induction kvs with
  | nil => cases h
  | cons hd t ih =>
    obtain ⟨k', v'⟩ := hd
    simp only [keys_cons, List.nodup_cons] at hnd
    cases h with
    | head => simp [lookup]
    | tail _ hm =>
      have hne : k' ≠ k := fun e => hnd.1 (e ▸ mem_keys_of_mem hm)
      simp [lookup, hne, ih hnd.2 hm]

theorem lookup_upsert_self (k : String) (v : Json) (kvs : Fields) :
    lookup k (upsert k v kvs) = some v := by
  induction kvs with
  | nil => simp [upsert, lookup]
  | cons h t ih =>
    obtain ⟨k', v'⟩ := h
    by_cases hk : k' = k
    · simp [upsert, lookup, hk]
    · simp [upsert, lookup, hk, ih]

theorem lookup_upsert_ne {k k' : String} (v : Json) (kvs : Fields) (hne : k' ≠ k) :
    lookup k' (upsert k v kvs) = lookup k' kvs := by
  induction kvs with
  | nil => simp [upsert, lookup, hne.symm]
  | cons h t ih =>
    obtain ⟨k'', v''⟩ := h
    by_cases hk : k'' = k
    · subst hk
      have : ¬ k'' = k' := fun e => hne e.symm
      simp [upsert, lookup, this]
    · by_cases hk' : k'' = k'
      · subst hk'
        simp [upsert, lookup, hk]
      · simp [upsert, lookup, hk, hk', ih]

/-- re-inserting the value a key already has changes nothing -/
theorem upsert_of_lookup {k : String} {v : Json} {kvs : Fields} (h : lookup k kvs = some v) :
    upsert k v kvs = kvs := by
  induction kvs with
  | nil => simp [lookup] at h
  | cons hd t ih =>
    obtain ⟨k', v'⟩ := hd
    by_cases hk : k' = k
    · simp [lookup, hk] at h; simp [upsert, hk, h]
    · simp [lookup, hk] at h; simp [upsert, hk, ih h]

theorem keys_upsert_of_mem {k : String} (v : Json) {kvs : Fields} (h : k ∈ keys kvs) :
    keys (upsert k v kvs) = keys kvs := by
  induction kvs with
  | nil => cases h
  | cons hd t ih =>
    obtain ⟨k', v'⟩ := hd
    by_cases hk : k' = k
    · simp [upsert, hk]
    · have : k ∈ keys t := by
        simp only [keys_cons, List.mem_cons] at h
        rcases h with h | h
        · exact absurd h.symm hk
        · exact h
      simp [upsert, hk, ih this]

theorem keys_upsert_of_not_mem {k : String} (v : Json) {kvs : Fields} (h : k ∉ keys kvs) :
    keys (upsert k v kvs) = keys kvs ++ [k] := by
  induction kvs with
  | nil => simp [upsert]
  | cons hd t ih =>
    obtain ⟨k', v'⟩ := hd
    simp only [keys_cons, List.mem_cons, not_or] at h
    have hk : ¬ k' = k := fun e => h.1 e.symm
    simp [upsert, hk, ih h.2]

theorem mem_keys_upsert (k k' : String) (v : Json) (kvs : Fields) :
    k' ∈ keys (upsert k v kvs) ↔ k' ∈ keys kvs ∨ k' = k := by
  by_cases h : k ∈ keys kvs
  · rw [keys_upsert_of_mem v h]
    constructor
    · exact Or.inl
    · rintro (h' | h')
      · exact h'
      · exact h' ▸ h
  · rw [keys_upsert_of_not_mem v h]; simp

theorem nodup_keys_upsert (k : String) (v : Json) {kvs : Fields} (h : (keys kvs).Nodup) :
    (keys (upsert k v kvs)).Nodup := by
  by_cases hm : k ∈ keys kvs
  · rw [keys_upsert_of_mem v hm]; exact h
  · rw [keys_upsert_of_not_mem v hm]
    exact List.nodup_append.2 ⟨h, by simp, by
      intro a ha b hb
      simp only [List.mem_singleton] at hb
      subst hb; intro e; subst e; exact hm ha⟩

/-- values in an upserted list are old values or the new one -/
theorem mem_upsert {k : String} {v : Json} {kvs : Fields} {kv : String × Json}
    (h : kv ∈ upsert k v kvs) : kv ∈ kvs ∨ kv.2 = v := by
  induction kvs with
  | nil => simp [upsert] at h; right; rw [h]
  | cons hd t ih =>
    obtain ⟨k', v'⟩ := hd
    by_cases hk : k' = k
    · simp [upsert, hk] at h
      rcases h with h | h
      · right; rw [h]
      · left; exact List.mem_cons_of_mem _ h
    · simp [upsert, hk] at h
      rcases h with h | h
      · left; rw [h]; exact List.mem_cons_self
      · rcases ih h with h' | h'
        · left; exact List.mem_cons_of_mem _ h'
        · right; exact h'

/-! ### the merge loop, key by key -/

theorem mergeDepth_not_obj_right (t o : Json) (d : Nat) (h : ∀ okvs, o ≠ .obj okvs) :
    mergeDepth t o d = o :=
  mergeDepth.eq_2 t o d (fun _ okvs _ ho => h okvs ho)

theorem mergeDepth_not_obj_left (t o : Json) (d : Nat) (h : ∀ tkvs, t ≠ .obj tkvs) :
    mergeDepth t o d = o :=
  mergeDepth.eq_2 t o d (fun tkvs _ ht _ => h tkvs ht)

theorem mergeDepth_null_left (o : Json) (d : Nat) : mergeDepth .null o d = o :=
  mergeDepth_not_obj_left _ _ _ (fun _ h => by cases h)

theorem mergeDepth_obj_lt (tkvs okvs : Fields) (d : Nat) (hd : d < mergeMaxDepth) :
    mergeDepth (.obj tkvs) (.obj okvs) d = .obj (mergeFields tkvs okvs d) := by
  rw [mergeDepth.eq_1, if_pos hd]

theorem mergeDepth_obj_ge (tkvs okvs : Fields) (d : Nat) (hd : ¬ d < mergeMaxDepth) :
    mergeDepth (.obj tkvs) (.obj okvs) d = .obj okvs := by
  rw [mergeDepth.eq_1, if_neg hd]

/-- Value of key `k` after the loop: untouched when the overlay has no `k`, otherwise the
merge of the old value (or `Null`, as `entry(k).or_insert(Null)`) with the overlay's value. -/
theorem lookup_mergeFields (tkvs okvs : Fields) (d : Nat) (k : String)
    (hnd : (keys okvs).Nodup) :
    lookup k (mergeFields tkvs okvs d) =
      match lookup k okvs with
      | none => lookup k tkvs
      | some ov => some (mergeDepth ((lookup k tkvs).getD .null) ov (d + 1)) := by
  induction okvs generalizing tkvs with
  | nil => simp [mergeFields, lookup]
  | cons hd t ih =>
    obtain ⟨k0, ov0⟩ := hd
    simp only [keys_cons, List.nodup_cons] at hnd
    rw [mergeFields.eq_2, ih _ hnd.2]
    by_cases hk : k0 = k
    · subst hk
      have hn : lookup k0 t = none := (lookup_eq_none_iff _ _).2 hnd.1
      simp [lookup, hn, lookup_upsert_self]
    · have hne : k ≠ k0 := fun e => hk e.symm
      simp [lookup, hk, lookup_upsert_ne _ _ hne]

theorem mem_keys_mergeFields (tkvs okvs : Fields) (d : Nat) (k : String) :
    k ∈ keys (mergeFields tkvs okvs d) ↔ k ∈ keys tkvs ∨ k ∈ keys okvs := by
  induction okvs generalizing tkvs with
  | nil => simp [mergeFields]
  | cons hd t ih =>
    obtain ⟨k0, ov0⟩ := hd
    rw [mergeFields.eq_2, ih, mem_keys_upsert]
    simp only [keys_cons, List.mem_cons]
    constructor
    · rintro ((h | h) | h)
      · exact Or.inl h
      · exact Or.inr (Or.inl h)
      · exact Or.inr (Or.inr h)
    · rintro (h | h | h)
      · exact Or.inl (Or.inl h)
      · exact Or.inl (Or.inr h)
      · exact Or.inr h

theorem nodup_keys_mergeFields (tkvs okvs : Fields) (d : Nat) (h : (keys tkvs).Nodup) :
    (keys (mergeFields tkvs okvs d)).Nodup := by
  induction okvs generalizing tkvs with
  | nil => simpa [mergeFields] using h
  | cons hd t ih =>
    obtain ⟨k0, ov0⟩ := hd
    rw [mergeFields.eq_2]
    exact ih _ (nodup_keys_upsert _ _ h)

/-- insertion order: the target's keys in their order, then the overlay's new keys in theirs -/
theorem keys_mergeFields (tkvs okvs : Fields) (d : Nat) (hnd : (keys okvs).Nodup) :
    keys (mergeFields tkvs okvs d) = keys tkvs ++ (keys okvs).filter (fun k => decide (k ∉ keys tkvs)) := by
  induction okvs generalizing tkvs with
  | nil => simp [mergeFields]
  | cons hd t ih =>
    obtain ⟨k0, ov0⟩ := hd
    simp only [keys_cons, List.nodup_cons] at hnd
    rw [mergeFields.eq_2, ih _ hnd.2]
    by_cases hm : k0 ∈ keys tkvs
    · rw [keys_upsert_of_mem _ hm]
      simp [hm]
    · rw [keys_upsert_of_not_mem _ hm]
      simp only [keys_cons, List.filter_cons, hm, not_false_eq_true, decide_true, if_true,
        List.append_assoc, List.singleton_append]
      congr 2
      apply List.filter_congr
      intro x hx
      have hne : x ≠ k0 := fun e => hnd.1 (e ▸ hx)
      simp [hne]

/-- the loop leaves a target alone that already holds, for every overlay key, a value the
overlay's value merges into without change -/
theorem mergeFields_fix (r os : Fields) (d : Nat)
    (h : ∀ kv ∈ os, ∃ x, lookup kv.1 r = some x ∧ mergeDepth x kv.2 (d + 1) = x) :
    mergeFields r os d = r := by
  induction os with
  | nil => simp [mergeFields]
  | cons hd t ih =>
    obtain ⟨k0, ov0⟩ := hd
    obtain ⟨x, hx1, hx2⟩ := h (k0, ov0) List.mem_cons_self
    rw [mergeFields.eq_2, hx1]
    simp only [Option.getD_some, hx2, upsert_of_lookup hx1]
    exact ih (fun kv hkv => h kv (List.mem_cons_of_mem _ hkv))

end C2pa.C25
