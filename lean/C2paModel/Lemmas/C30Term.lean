import C2paModel.Lemmas.C30Scan
/-
C30 — the reader model always consumes text: every `read_event` that leaves the reader in a
state other than `Done` returns a strictly shorter remaining text. Hence the run-time guards
in `readToEnd` / `extractLoop` (`Model/C30Scan.lean`) are dead code: the functions satisfy
their guard-free recursion equations (`readToEnd_eq`, `extractLoop_eq`) and `extractLoop`
never answers `guard`.
-/
namespace C2pa.C30

theorem breakOn_length (p : Char → Bool) (s : Str) : (breakOn p s).2.length ≤ s.length := by
  induction s with
  | nil => simp [breakOn]
  | cons c cs ih =>
    simp only [breakOn]
    split
    · simp
    · simp only [List.length_cons]; omega

theorem elemEnd_length (s : Str) : ∀ q a b, elemEnd q s = some (a, b) → b.length < s.length := by
  induction s with
  | nil => intro q a b h; simp [elemEnd] at h
  | cons c cs ih =>
    intro q a b h
    simp only [elemEnd] at h
    split at h
    · simp only [Option.some.injEq, Prod.mk.injEq] at h; obtain ⟨_, rfl⟩ := h; simp
    · split at h
      · cases h
      · rename_i a' b' heq
        simp only [Option.some.injEq, Prod.mk.injEq] at h
        obtain ⟨_, rfl⟩ := h
        have := ih _ _ _ heq
        simp only [List.length_cons]; omega

theorem commentEnd_length (s : Str) : ∀ i p2 p1 r, commentEnd i p2 p1 s = some r → r.length < s.length := by
  induction s with
  | nil => intro i p2 p1 r h; simp [commentEnd] at h
  | cons c cs ih =>
    intro i p2 p1 r h
    simp only [commentEnd] at h
    split at h
    · simp only [Option.some.injEq] at h; subst h; simp
    · have := ih _ _ _ _ h; simp only [List.length_cons]; omega

theorem cdataEnd_length (s : Str) : ∀ p2 p1 r, cdataEnd p2 p1 s = some r → r.length < s.length := by
  induction s with
  | nil => intro p2 p1 r h; simp [cdataEnd] at h
  | cons c cs ih =>
    intro p2 p1 r h
    simp only [cdataEnd] at h
    split at h
    · simp only [Option.some.injEq] at h; subst h; simp
    · have := ih _ _ _ h; simp only [List.length_cons]; omega

theorem piEnd_length (s : Str) : ∀ n p1 m r, piEnd n p1 s = some (m, r) → r.length < s.length := by
  induction s with
  | nil => intro n p1 m r h; simp [piEnd] at h
  | cons c cs ih =>
    intro n p1 m r h
    simp only [piEnd] at h
    split at h
    · simp only [Option.some.injEq, Prod.mk.injEq] at h; obtain ⟨_, rfl⟩ := h; simp
    · have := ih _ _ _ _ h; simp only [List.length_cons]; omega

theorem readRef_length (stk : List Str) (r : Str) (ev : Ev) (stk' : List Str) (r' : Str)
    (h : readRef stk r = (ev, stk', some r')) : r'.length ≤ r.length := by
  unfold readRef at h
  have hb := breakOn_length (fun x => x == ';' || x == '&' || x == '<') r
  split at h
  · cases h
  · rename_i x t heq
    rw [heq] at hb
    split at h
    · simp only [Prod.mk.injEq, Option.some.injEq] at h; obtain ⟨_, _, rfl⟩ := h
      simp only [List.length_cons] at hb; omega
    · simp only [Prod.mk.injEq, Option.some.injEq] at h; obtain ⟨_, _, rfl⟩ := h
      exact hb

theorem readMarkup_length (stk : List Str) (s : Str) (ev : Ev) (stk' : List Str) (r : Str)
    (h : readMarkup stk s = (ev, stk', some r)) : r.length ≤ s.length := by
  unfold readMarkup at h
  split at h
  · cases h
  · rename_i c t
    split at h
    · -- '!'
      split at h
      · cases h
      · rename_i b r1
        split at h
        · split at h
          · cases h
          · rename_i rest hce
            have := commentEnd_length _ _ _ _ _ hce
            split at h
            · simp only [Prod.mk.injEq, Option.some.injEq] at h; obtain ⟨_, _, rfl⟩ := h
              simp only [List.length_cons] at this ⊢; omega
            · cases h
        · split at h
          · split at h
            · cases h
            · rename_i rest hce
              have := cdataEnd_length _ _ _ _ hce
              split at h
              · simp only [Prod.mk.injEq, Option.some.injEq] at h; obtain ⟨_, _, rfl⟩ := h
                simp only [List.length_cons]; omega
              · cases h
          · split at h <;> cases h
    · split at h
      · -- '/'
        split at h
        · cases h
        · rename_i content rest hee
          have := elemEnd_length _ _ _ _ hee
          simp only [Prod.mk.injEq, Option.some.injEq] at h; obtain ⟨_, _, rfl⟩ := h
          simp only [List.length_cons]; omega
      · split at h
        · -- '?'
          split at h
          · cases h
          · rename_i n rest hpe
            have := piEnd_length _ _ _ _ _ hpe
            split at h
            · simp only [Prod.mk.injEq, Option.some.injEq] at h; obtain ⟨_, _, rfl⟩ := h
              simp only [List.length_cons]; omega
            · cases h
        · split at h
          · cases h
          · rename_i content rest hee
            have := elemEnd_length _ _ _ _ hee
            simp only [Prod.mk.injEq, Option.some.injEq] at h; obtain ⟨_, _, rfl⟩ := h
            omega

theorem readEvent_length (trim : Bool) (stk : List Str) (s : Str) (ev : Ev) (stk' : List Str) (r : Str)
    (h : readEvent trim stk s = (ev, stk', some r)) : r.length < s.length := by
  unfold readEvent at h
  have hlen : (if trim = true then dropWs s else s).length ≤ s.length := by
    split
    · exact length_dropWs s
    · exact Nat.le_refl _
  split at h
  · cases h
  · rename_i c t heq
    rw [heq] at hlen
    simp only [List.length_cons] at hlen
    split at h
    · have := readMarkup_length _ _ _ _ _ h; omega
    · split at h
      · have := readRef_length _ _ _ _ _ h; omega
      · have hb := breakOn_length (fun x => x == '<' || x == '&') t
        split at h
        · cases h
        · rename_i r' hne
          simp only [Prod.mk.injEq, Option.some.injEq] at h; obtain ⟨_, _, rfl⟩ := h
          omega


theorem readToEnd_length : ∀ (n : Nat) (s : Str), s.length = n → ∀ name depth stk ev e stk' r,
    readToEnd name depth stk s = (ev, e, stk', some r) → r.length < s.length := by
  intro n
  induction n using Nat.strongRecOn with
  | _ n ih =>
    intro s hs name depth stk ev e stk' r h
    rw [readToEnd] at h
    split at h
    · rename_i t stk1 s1 hre
      have hl := readEvent_length _ _ _ _ _ _ hre
      rw [dif_pos hl] at h
      have := ih s1.length (by omega) s1 rfl _ _ _ _ _ _ _ h
      omega
    · rename_i nm stk1 s1 hre
      have hl := readEvent_length _ _ _ _ _ _ hre
      split at h
      · simp only [Prod.mk.injEq, Option.some.injEq] at h
        obtain ⟨_, _, _, rfl⟩ := h
        exact hl
      · try rw [dif_pos hl] at h
        have := ih s1.length (by omega) s1 rfl _ _ _ _ _ _ _ h
        omega
    · rename_i stk1 s1 hre
      have hl := readEvent_length _ _ _ _ _ _ hre
      rw [dif_pos hl] at h
      have := ih s1.length (by omega) s1 rfl _ _ _ _ _ _ _ h
      omega
    · simp only [Prod.mk.injEq] at h; obtain ⟨_, _, _, h4⟩ := h; cases h4
    · rename_i ev1 stk1 st _ _ _ _ hre
      simp only [Prod.mk.injEq] at h
      obtain ⟨_, _, _, rfl⟩ := h
      exact readEvent_length _ _ _ _ _ _ hre

theorem contOrEnd_cont (stk : List Str) (st : Option Str) (stk' : List Str) (s' : Str)
    (h : contOrEnd stk st = .cont stk' s') : st = some s' := by
  cases st with
  | none => simp [contOrEnd] at h
  | some x => simp only [contOrEnd, Act.cont.injEq] at h; rw [h.2]

theorem extractStep_length (k : Str) (stk : List Str) (s : Str) (stk' : List Str) (s' : Str)
    (h : extractStep k stk s = .cont stk' s') : s'.length < s.length := by
  unfold extractStep at h
  split at h
  · rename_i t stk1 st hre
    split at h
    · split at h
      · cases h
      · have := contOrEnd_cont _ _ _ _ h; subst this
        exact readEvent_length _ _ _ _ _ _ hre
    · split at h
      · split at h
        · cases h
        · rename_i s1
          have hl := readEvent_length _ _ _ _ _ _ hre
          split at h
          · cases h
          · cases h
          · rename_i ev2 stk2 st2 hrt
            have := contOrEnd_cont _ _ _ _ h; subst this
            have := readToEnd_length _ s1 rfl _ _ _ _ _ _ _ hrt
            omega
      · have := contOrEnd_cont _ _ _ _ h; subst this
        exact readEvent_length _ _ _ _ _ _ hre
  · cases h
  · cases h
  · rename_i ev1 stk1 st _ _ _ hre
    have := contOrEnd_cont _ _ _ _ h; subst this
    exact readEvent_length _ _ _ _ _ _ hre

/-- the guard of `extractLoop` is dead code -/
theorem extractLoop_eq (k : Str) (stk : List Str) (s : Str) :
    extractLoop k stk s =
      match extractStep k stk s with
      | .found v => .found v
      | .notFound => .notFound
      | .unmodelled => .unmodelled
      | .cont stk' s' => extractLoop k stk' s' := by
  rw [extractLoop]
  cases h : extractStep k stk s with
  | found v => simp
  | notFound => simp
  | unmodelled => simp
  | cont stk' s' => simp [extractStep_length k stk s stk' s' h]

theorem extractLoop_ne_guard : ∀ (n : Nat) (k : Str) (stk : List Str) (s : Str), s.length = n →
    extractLoop k stk s ≠ .guard := by
  intro n
  induction n using Nat.strongRecOn with
  | _ n ih =>
    intro k stk s hs
    rw [extractLoop_eq]
    split
    · simp
    · simp
    · simp
    · rename_i stk' s' h
      exact ih s'.length (by have := extractStep_length k stk s stk' s' h; omega) k stk' s' rfl


/-- the guards of `readToEnd` are dead code -/
theorem readToEnd_eq (name : Str) (depth : Nat) (stk : List Str) (s : Str) :
    readToEnd name depth stk s =
      match readEvent false stk s with
      | (.elem t, stk', some s') =>
        readToEnd name (if !t.empty ∧ t.name = name then depth + 1 else depth) stk' s'
      | (.endTag n, stk', some s') =>
        if n = name ∧ depth = 0 then (.endTag n, some s, stk', some s')
        else readToEnd name (if n = name then depth - 1 else depth) stk' s'
      | (.other, stk', some s') => readToEnd name depth stk' s'
      | (.other, stk', none) => (.eof, none, stk', none)
      | (ev, stk', st) => (ev, none, stk', st) := by
  rw [readToEnd]
  rcases h : readEvent false stk s with ⟨ev, stk', st⟩
  cases st with
  | none => cases ev <;> simp
  | some s' =>
    have hl := readEvent_length _ _ _ _ _ _ h
    cases ev <;> simp [hl]

end C2pa.C30
