import C2paModel.Lemmas.C03Base
/-
C03 — the prefix ++ framed manifest ++ suffix container obeys the handler laws.
-/
namespace C2pa.C03
open C2pa

/-! ### the prefix ++ framed manifest ++ suffix container obeys the laws -/

theorem split_finalExcl (s : Split) (a : Asset) (j : List UInt8) (hw : 0 < (s.wrap j).length) :
    finalExcl (s.embed a j) = some [⟨(s.pre j.length).length, (s.wrap j).length⟩] := by
  unfold finalExcl exclusionsOf Split.embed scan
  simp only [C13.stableSort, List.foldl_cons, List.foldl_nil, C13.insertAfter, scanStep]
  simp only [List.length_append]
  simp
  refine ⟨by omega, ?_⟩
  intro h
  rw [h] at hw
  simp at hw

theorem getElem?_mid (p w w' q : List UInt8) (hw : w'.length = w.length) (x : Nat)
    (hx : x < p.length ∨ p.length + w.length ≤ x) :
    (p ++ w' ++ q)[x]? = (p ++ w ++ q)[x]? := by
  rcases hx with hx | hx
  · rw [List.append_assoc, List.append_assoc, List.getElem?_append_left hx,
      List.getElem?_append_left hx]
  · rw [List.getElem?_append_right (by simp; omega), List.getElem?_append_right (by simp; omega)]
    simp [hw]

theorem split_laws {jm : DHash → List UInt8 → List UInt8} {H : List UInt8 → List UInt8}
    {sg : DHash → List UInt8} {ph : List UInt8} (s : Split) (src : Asset) (n0 : Nat)
    (hw : ∀ j, j.length = n0 → 0 < (s.wrap j).length)
    (hwl : ∀ j j', j.length = n0 → j'.length = n0 → (s.wrap j').length = (s.wrap j).length) :
    Laws ⟨s.embed, jm, H, sg, ph⟩ src n0 := by
  constructor
  · intro j hj
    refine ⟨_, split_finalExcl s src j (hw j hj), by simp, ?_⟩
    intro r hr
    simp only [List.mem_singleton] at hr
    subst hr
    simp [Split.embed]
  · intro j hj
    have := hw j hj
    simp only [Split.embed, List.length_append]
    omega
  · intro j j' ex hj hj' hex
    rw [split_finalExcl s src j (hw j hj)] at hex
    injection hex with hex
    subst hex
    have hwe := hwl j j' hj hj'
    constructor
    · simp [Split.embed, hj, hj', hwe]
    · intro x hx
      simp only [Split.embed, hj, hj']
      apply getElem?_mid _ _ _ _ hwe
      simp only [C13.included, C13.excluded, toHR, List.map_cons, List.map_nil, List.any_cons,
        List.any_nil, Bool.or_false, Bool.and_eq_true, decide_eq_true_eq, Bool.not_eq_true',
        Option.isNone_none, Bool.true_and, Bool.and_eq_false_iff, bne_eq_false_iff_eq,
        decide_eq_false_iff_not, hj] at hx
      omega

/-- **The 10 bytes of padding suffice**: the CBOR head of the region length grows by at most 8
bytes, which leaves 2 bytes for the head of the region start (0 when the start is unchanged, as
with every handler that probes the location where it later writes). -/
theorem split_fits (algLen n at0 at1 probe W : Nat) (hat : C15.hdr at1 ≤ C15.hdr at0 + 2) :
    ({ excl := [⟨at1, W⟩], algLen := algLen, hash := List.replicate n 0, pad := 0, pad2 := none } : DHash).size
      ≤ ({ excl := [⟨at0, probe⟩], algLen := algLen, hash := List.replicate n 0, pad := 10, pad2 := none } : DHash).size := by
  unfold DHash.size DHash.c15 C15.dhSize
  simp only [List.isEmpty_cons, Bool.false_eq_true, if_false, C15.exclSize, C15.rangeSize,
    List.map_cons, List.map_nil, List.sum_cons, List.sum_nil, C15.optField, C15.str,
    List.length_replicate, List.length_cons, List.length_nil]
  have h1 := C15.hdr_pos W
  have h2 := C15.hdr_le W
  have h3 := C15.hdr_pos probe
  have h4 : C15.hdr 10 = 1 := by decide
  have h5 : C15.hdr 0 = 1 := by decide
  omega

theorem split_source_excl (bytes : List UInt8) (at_ probe : Nat) (hprobe : 0 < probe) :
    exclusionsOf (Split.source bytes at_ probe).bytes.length (Split.source bytes at_ probe).locs false
      = some [⟨at_, probe⟩] := by
  unfold exclusionsOf Split.source scan
  simp only [C13.stableSort, List.foldl_cons, List.foldl_nil, C13.insertAfter, scanStep]
  simp
  omega

end C2pa.C03
