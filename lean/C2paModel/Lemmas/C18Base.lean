import C2paModel.Model.C18
/-
C18 — shared lemmas: the `Res` monad (evaluation and a Hoare-style postcondition calculus),
big-endian encode/decode, data-at-position facts, tree predicates.
-/
namespace C2pa.C18

/-! ### `Res` -/

@[simp] theorem bind_ok {α β : Type} (a : α) (f : α → Res β) : (Res.ok a >>= f) = f a := rfl
@[simp] theorem bind_err {α β : Type} (e : Err) (f : α → Res β) : ((Res.err e : Res α) >>= f) = .err e := rfl
@[simp] theorem bind_panic {α β : Type} (f : α → Res β) : ((Res.panic : Res α) >>= f) = .panic := rfl
@[simp] theorem bind_oof {α β : Type} (f : α → Res β) : ((Res.oof : Res α) >>= f) = .oof := rfl
@[simp] theorem pure_eq {α : Type} (a : α) : (pure a : Res α) = .ok a := rfl
@[simp] theorem mapErr_ok {α : Type} (a : α) (e : Err) : (Res.ok a).mapErr e = .ok a := rfl
@[simp] theorem mapErr_err {α : Type} (e' e : Err) : ((Res.err e' : Res α)).mapErr e = .err e := rfl
@[simp] theorem mapErr_panic {α : Type} (e : Err) : ((Res.panic : Res α)).mapErr e = .panic := rfl
@[simp] theorem mapErr_oof {α : Type} (e : Err) : ((Res.oof : Res α)).mapErr e = .oof := rfl

/-- `r` is neither `panic` nor `oof`, and an `ok` value satisfies `Q`. -/
def Res.Post {α : Type} (r : Res α) (Q : α → Prop) : Prop :=
  match r with
  | .ok a => Q a
  | .err _ => True
  | .panic => False
  | .oof => False

@[simp] theorem post_ok {α : Type} (a : α) (Q : α → Prop) : (Res.ok a).Post Q ↔ Q a := Iff.rfl
@[simp] theorem post_err {α : Type} (e : Err) (Q : α → Prop) : (Res.err e : Res α).Post Q ↔ True := Iff.rfl
@[simp] theorem post_panic {α : Type} (Q : α → Prop) : (Res.panic : Res α).Post Q ↔ False := Iff.rfl
@[simp] theorem post_oof {α : Type} (Q : α → Prop) : (Res.oof : Res α).Post Q ↔ False := Iff.rfl

theorem Res.Post.bind {α β : Type} {x : Res α} {f : α → Res β} {P : α → Prop} {Q : β → Prop}
    (hx : x.Post P) (hf : ∀ a, P a → (f a).Post Q) : (x >>= f).Post Q := by
  cases x with
  | ok a => exact hf a hx
  | err e => trivial
  | panic => exact hx
  | oof => exact hx

/-- like `bind`, the continuation also learns which value was returned -/
theorem Res.Post.bind' {α β : Type} {x : Res α} {f : α → Res β} {P : α → Prop} {Q : β → Prop}
    (hx : x.Post P) (hf : ∀ a, x = .ok a → P a → (f a).Post Q) : (x >>= f).Post Q := by
  cases x with
  | ok a => exact hf a rfl hx
  | err e => trivial
  | panic => exact hx
  | oof => exact hx

theorem mapErr_eq_ok {α : Type} {x : Res α} {e : Err} {a : α} (h : x.mapErr e = .ok a) : x = .ok a := by
  cases x <;> simp_all [Res.mapErr]

theorem bind_eq_ok {α β : Type} {x : Res α} {f : α → Res β} {b : β} (h : (x >>= f) = .ok b) :
    ∃ a, x = .ok a ∧ f a = .ok b := by
  cases x with
  | ok a => exact ⟨a, rfl, h⟩
  | err e => cases h
  | panic => cases h
  | oof => cases h

theorem Res.Post.mono {α : Type} {x : Res α} {P Q : α → Prop}
    (hx : x.Post P) (h : ∀ a, P a → Q a) : x.Post Q := by
  cases x with
  | ok a => exact h a hx
  | err e => trivial
  | panic => exact hx
  | oof => exact hx

theorem Res.Post.mapErr {α : Type} {x : Res α} {P : α → Prop} (e : Err)
    (hx : x.Post P) : (x.mapErr e).Post P := by
  cases x <;> first | exact hx | trivial

theorem Res.Post.and {α : Type} {x : Res α} {P Q : α → Prop}
    (h1 : x.Post P) (h2 : x.Post Q) : x.Post (fun a => P a ∧ Q a) := by
  cases x with
  | ok a => exact ⟨h1, h2⟩
  | err e => trivial
  | panic => exact h1
  | oof => exact h1

theorem Res.Post.of_eq_ok {α : Type} {x : Res α} {P : α → Prop} {a : α}
    (hx : x.Post P) (h : x = .ok a) : P a := by
  subst h; exact hx

/-! ### big-endian -/

theorem be_be32 (n : Nat) (h : n < 4294967296) : be (be32 n) = n := by
  simp [be, be32]
  omega

@[simp] theorem be32_length (n : Nat) : (be32 n).length = 4 := rfl

theorem be_lt (bs : Bytes) : be bs < 256 ^ bs.length := by
  unfold be
  suffices h : ∀ (l : Bytes) (a : Nat) (k : Nat), a < 256 ^ k →
      l.foldl (fun a b => a * 256 + b.toNat) a < 256 ^ (k + l.length) by
    have := h bs 0 0 (by simp)
    simpa using this
  intro l
  induction l with
  | nil => intro a k h; simpa using h
  | cons b l ih =>
    intro a k h
    simp only [List.foldl_cons, List.length_cons]
    have hb : b.toNat < 256 := by
      have := UInt8.toNat_lt b; simpa using this
    have h2 : a * 256 + b.toNat < 256 ^ (k + 1) := by
      rw [Nat.pow_succ]
      have : a + 1 ≤ 256 ^ k := h
      calc a * 256 + b.toNat < a * 256 + 256 := by omega
        _ = (a + 1) * 256 := by rw [Nat.add_mul]
        _ ≤ 256 ^ k * 256 := Nat.mul_le_mul_right _ this
    have := ih (a * 256 + b.toNat) (k + 1) h2
    rw [show k + (l.length + 1) = k + 1 + l.length by omega]
    exact this

/-! ### data at a position

All facts are phrased with `d.drop pos = s ++ rest`. -/

theorem drop_add {d : Bytes} {pos : Nat} {a rest : Bytes} (h : d.drop pos = a ++ rest) :
    d.drop (pos + a.length) = rest := by
  rw [← List.drop_drop, h, List.drop_left]

theorem slice_of_drop {d : Bytes} {pos : Nat} {a rest : Bytes} (h : d.drop pos = a ++ rest) :
    slice d pos a.length = a := by
  unfold slice; rw [h, List.take_left]

theorem avail_of_drop {d : Bytes} {pos : Nat} {x : Bytes} (h : d.drop pos = x) :
    d.length - pos = x.length := by
  rw [← h, List.length_drop]

@[simp] theorem slice_length (d : Bytes) (pos n : Nat) : (slice d pos n).length = min n (d.length - pos) := by
  simp [slice]

/-! ### tree predicates -/

/-- what `read_desc_box` guarantees -/
def Desc.Valid0 (d : Desc) : Prop :=
  d.uuid.length = 16 ∧ d.toggles &&& 0x03 = 0x03 ∧ (0 : UInt8) ∉ d.label ∧
  (d.boxId.isSome = true ↔ d.toggles &&& 0x04 = 0x04) ∧ (∀ x, d.boxId = some x → x < 4294967296) ∧
  (d.sig.isSome = true ↔ d.toggles &&& 0x08 = 0x08) ∧ (∀ s, d.sig = some s → s.length = 32) ∧
  (d.salt.isSome = true ↔ d.toggles &&& 0x10 = 0x10)

/-- … plus the label check of `read_super_box_impl` -/
def Desc.Valid (d : Desc) : Prop := d.Valid0 ∧ strNonEmpty d.label = true

mutual
/-- structural invariants of everything the reader returns -/
def Box.Valid : Box → Prop
  | .super d cs => d.Valid ∧ ValidList cs
  | .leaf _ _ => True
  | .uuid u _ => u.length = 16
  | .bfdb _ _ _ => True
def ValidList : List Box → Prop
  | [] => True
  | b :: bs => b.Valid ∧ ValidList bs
end

mutual
/-- nesting depth of super boxes -/
def Box.height : Box → Nat
  | .super _ cs => 1 + heightList cs
  | .leaf _ _ => 0
  | .uuid _ _ => 0
  | .bfdb _ _ _ => 0
def heightList : List Box → Nat
  | [] => 0
  | b :: bs => max b.height (heightList bs)
end

mutual
/-- none of the three shapes whose re-serialisation does not read back to the same bytes:
a super box without content boxes, a `uuid` box without data, a `bfdb` box with toggles = 1
whose (valid UTF-8) media type contains a NUL. -/
def Box.QuirkFree : Box → Prop
  | .super _ cs => cs ≠ [] ∧ QuirkFreeList cs
  | .leaf _ _ => True
  | .uuid _ data => data ≠ []
  | .bfdb t m _ => ¬ (t = 1 ∧ (0 : UInt8) ∈ m ∧ utf8Valid m = true)
def QuirkFreeList : List Box → Prop
  | [] => True
  | b :: bs => b.QuirkFree ∧ QuirkFreeList bs
end

/-- what reading the written form of a `bfdb` box gives back (the file name is not written; a
media type that is not a non-empty `str` is not written either) -/
def normBfdb (t : UInt8) (m : Bytes) : Box :=
  if strNonEmpty m then (if t = 1 then .bfdb 1 m (some [0]) else .bfdb t m none)
  else .bfdb t [] none

mutual
def Box.norm : Box → Box
  | .super d cs => .super d (normList cs)
  | .leaf k data => .leaf k data
  | .uuid u data => .uuid u data
  | .bfdb t m _ => normBfdb t m
def normList : List Box → List Box
  | [] => []
  | b :: bs => b.norm :: normList bs
end

end C2pa.C18
