import C2paModel.Model.C13
/-
C13 — the hashing loop: whatever the chunk size, a successful run absorbs exactly the bytes of
the pieces, in order, and the progress callback sees (1,T),(2,T),… .
-/
namespace C2pa.C13

/-- the callback sequence (1,T),(2,T),…,(n,T) -/
def ticks (total n : Nat) : List (Nat × Nat) := (List.range n).map fun i => (i + 1, total)

theorem ticks_succ (T n : Nat) : ticks T (n + 1) = ticks T n ++ [(n + 1, T)] := by
  simp [ticks, List.range_succ]

theorem ticks_length (T n : Nat) : (ticks T n).length = n := by simp [ticks]

/-- bytes a piece contributes to the hasher -/
def pieceBytes (data : List UInt8) (p : Piece) : List UInt8 :=
  if p.marker then be64 p.lo else (data.drop p.lo).take (p.hi + 1 - p.lo)

/-- `(len as usize).div_ceil(buf)` -/
def ceilDiv (a b : Nat) : Nat := (a + (b - 1)) / b

theorem ceilDiv_zero (b : Nat) (hb : 0 < b) : ceilDiv 0 b = 0 := by
  unfold ceilDiv; simp; omega

theorem ceilDiv_step (a b : Nat) (hb : 0 < b) (ha : a ≠ 0) :
    ceilDiv a b = 1 + ceilDiv (a - min a b) b := by
  unfold ceilDiv
  by_cases h : a ≤ b
  · have h1 : min a b = a := Nat.min_eq_left h
    rw [h1, Nat.sub_self, Nat.zero_add]
    have h2 : (b - 1) / b = 0 := Nat.div_eq_of_lt (by omega)
    have h3 : (a + (b - 1)) / b = 1 := by
      have : a + (b - 1) = (a - 1) + b := by omega
      rw [this, Nat.add_div_right _ hb, Nat.div_eq_of_lt (by omega)]
    rw [h2, h3]
  · have h1 : min a b = b := Nat.min_eq_right (by omega)
    rw [h1]
    have : a + (b - 1) = (a - b + (b - 1)) + b := by omega
    rw [this, Nat.add_div_right _ hb]; omega

theorem take_drop_append {α : Type} (l : List α) (p n m : Nat) :
    (l.drop p).take n ++ (l.drop (p + n)).take m = (l.drop p).take (n + m) := by
  rw [List.take_add, List.drop_drop]

/-! ### `tick` -/

theorem tick_ok {T : Nat} {c : Option Nat} {st st' : St} (h : tick T c st = .ok st') :
    st'.absorbed = st.absorbed ∧ st'.step = st.step + 1 ∧
      st'.prog = st.prog ++ [(st.step + 1, T)] ∧ st.step + 1 ≤ u32Max ∧
      c ≠ some (st.prog.length + 1) := by
  unfold tick at h
  by_cases h1 : st.step + 1 > u32Max
  · simp [h1] at h
  · simp only [h1, if_false] at h
    by_cases h2 : c = some (st.prog ++ [(st.step + 1, T)]).length
    · simp [h2] at h
    · simp only [h2, if_false, Except.ok.injEq] at h
      subst h
      refine ⟨rfl, rfl, rfl, by omega, ?_⟩
      simpa using h2

theorem tick_error {T : Nat} {c : Option Nat} {st : St} {o : Stop} (h : tick T c st = .error o) :
    (o = .panic .counter ∧ st.step + 1 > u32Max) ∨
      (o = .err .cancelled (st.prog ++ [(st.step + 1, T)]) ∧ c = some (st.prog.length + 1)) := by
  unfold tick at h
  by_cases h1 : st.step + 1 > u32Max
  · simp [h1] at h; exact Or.inl ⟨h.symm, h1⟩
  · simp only [h1, if_false] at h
    by_cases h2 : c = some (st.prog ++ [(st.step + 1, T)]).length
    · simp only [h2, if_true, Except.error.injEq] at h
      right; refine ⟨h.symm, ?_⟩; simpa using h2
    · have h2' : ¬ c = some (st.prog.length + 1) := by simpa using h2
      simp [h2'] at h

theorem tick_none {T : Nat} {st : St} (h : st.step + 1 ≤ u32Max) :
    tick T none st = .ok { st with step := st.step + 1, prog := st.prog ++ [(st.step + 1, T)] } := by
  unfold tick
  have : ¬ st.step + 1 > u32Max := by omega
  simp [this]

/-- progress invariant: the callback has seen exactly (1,T)…(step,T) -/
def ProgInv (T : Nat) (st : St) : Prop := st.prog = ticks T st.step

theorem tick_inv {T : Nat} {c : Option Nat} {st st' : St} (h : tick T c st = .ok st')
    (hi : ProgInv T st) : ProgInv T st' := by
  obtain ⟨_, h2, h3, _, _⟩ := tick_ok h
  unfold ProgInv at *
  rw [h3, h2, ticks_succ, hi]

/-! ### a successful run absorbs the bytes of the pieces -/

theorem readExact_some {data : List UInt8} {pos n : Nat} {c : List UInt8}
    (h : readExact data pos n = some c) : c = (data.drop pos).take n ∧ pos + n ≤ data.length ∧ c.length = n := by
  unfold readExact at h
  by_cases h1 : pos + n ≤ data.length
  · simp only [h1, if_true, Option.some.injEq] at h
    subst h
    refine ⟨rfl, h1, ?_⟩
    simp; omega
  · simp [h1] at h

theorem chunkLoop_ok {data : List UInt8} {buf T : Nat} {c : Option Nat} :
    ∀ (fuel pos : Nat) (chunk : List UInt8) (left : Nat) (st st' : St),
      chunkLoop data buf T c fuel pos chunk left st = .ok st' →
      st'.absorbed = st.absorbed ++ chunk ++ (data.drop pos).take (left - chunk.length) ∧
      (ProgInv T st → ProgInv T st') ∧ st.step ≤ st'.step := by
  intro fuel
  induction fuel with
  | zero => intro pos chunk left st st' h; simp [chunkLoop] at h
  | succ fuel ih =>
    intro pos chunk left st st' h
    unfold chunkLoop at h
    by_cases h1 : left < chunk.length
    · simp [h1] at h
    · simp only [h1, if_false] at h
      by_cases h2 : left - chunk.length = 0
      · simp only [h2, if_true, Except.ok.injEq] at h
        subst h
        refine ⟨by simp [h2], fun h0 => by simpa [ProgInv] using h0, Nat.le_refl _⟩
      · simp only [h2, if_false] at h
        cases hr : readExact data pos (min (left - chunk.length) buf) with
        | none => simp [hr] at h
        | some next =>
          simp only [hr] at h
          cases ht : tick T c { st with absorbed := st.absorbed ++ chunk } with
          | error o => simp [ht] at h
          | ok st2 =>
            simp only [ht] at h
            obtain ⟨ha, hi, hs⟩ := ih _ _ _ _ _ h
            obtain ⟨hn, _, hl⟩ := readExact_some hr
            obtain ⟨t1, t2, _, _, _⟩ := tick_ok ht
            refine ⟨?_, ?_, ?_⟩
            · rw [ha, t1, hl, hn]
              simp only [List.append_assoc]
              rw [take_drop_append]
              congr 3
              have := Nat.min_le_left (left - chunk.length) buf
              omega
            · intro h0
              exact hi (tick_inv ht (by simpa [ProgInv] using h0))
            · simp only at t2; omega

theorem runPiece_ok {data : List UInt8} {buf T : Nat} {c : Option Nat} {p : Piece} {st st' : St}
    (h : runPiece data buf T c p st = .ok st') :
    st'.absorbed = st.absorbed ++ pieceBytes data p ∧ (ProgInv T st → ProgInv T st') ∧
      st.step < st'.step := by
  unfold runPiece at h
  cases ht : tick T c st with
  | error o => simp [ht] at h
  | ok st1 =>
    simp only [ht] at h
    obtain ⟨t1, t2, _, _, _⟩ := tick_ok ht
    by_cases h1 : p.hi < p.lo
    · simp [h1] at h
    · simp only [h1, if_false] at h
      by_cases h2 : p.hi - p.lo + 1 > u64Max
      · simp [h2] at h
      · simp only [h2, if_false] at h
        by_cases hm : p.marker = true
        · simp only [hm, if_true, Except.ok.injEq] at h
          subst h
          refine ⟨by simp [pieceBytes, hm, t1], fun h0 => ?_, by simp; omega⟩
          have := tick_inv ht h0
          simpa [ProgInv] using this
        · simp only [hm] at h
          cases hr : readExact data p.lo (min (p.hi - p.lo + 1) buf) with
          | none => simp [hr] at h
          | some chunk =>
            simp only [hr] at h
            obtain ⟨ha, hi, hs⟩ := chunkLoop_ok _ _ _ _ _ _ h
            obtain ⟨hn, _, hl⟩ := readExact_some hr
            refine ⟨?_, fun h0 => hi (tick_inv ht h0), by omega⟩
            rw [ha, t1, hl, hn]
            simp only [List.append_assoc, pieceBytes, hm]
            rw [take_drop_append]
            congr 3
            have := Nat.min_le_left (p.hi - p.lo + 1) buf
            omega

theorem runPieces_ok {data : List UInt8} {buf T : Nat} {c : Option Nat} :
    ∀ (ps : List Piece) (st st' : St), runPieces data buf T c ps st = .ok st' →
      st'.absorbed = st.absorbed ++ ps.flatMap (pieceBytes data) ∧
      (ProgInv T st → ProgInv T st') ∧ st.step + ps.length ≤ st'.step := by
  intro ps
  induction ps with
  | nil => intro st st' h; simp [runPieces] at h; subst h; simp
  | cons p ps ih =>
    intro st st' h
    unfold runPieces at h
    cases hp : runPiece data buf T c p st with
    | error o => simp [hp] at h
    | ok st1 =>
      simp only [hp] at h
      obtain ⟨a1, i1, s1⟩ := runPiece_ok hp
      obtain ⟨a2, i2, s2⟩ := ih _ _ h
      refine ⟨by rw [a2, a1]; simp, fun h0 => i2 (i1 h0), by simp; omega⟩

end C2pa.C13
