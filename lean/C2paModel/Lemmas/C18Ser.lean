import C2paModel.Lemmas.C18At
/-
C18 — reading back what the writer wrote: `superBox` / `loop` evaluated on `ser` of a valid,
quirk-free tree by mutual structural induction over the tree.
-/
namespace C2pa.C18

/-- fourcc written in the header of a box -/
def Box.tag : Box → Nat
  | .super _ _ => JUMB
  | .leaf k _ => k.fourcc
  | .uuid _ _ => UUID
  | .bfdb _ _ _ => BFDB

/-- what follows the 8-byte header -/
def Box.body : Box → Bytes
  | .super d cs => serDesc d ++ serList cs
  | .leaf _ data => data
  | .uuid u data => uuidPayload u data
  | .bfdb t m _ => bfdbPayload t m

theorem Box.ser_eq (b : Box) : b.ser = be32 b.size ++ (be32 b.tag ++ b.body) := by
  cases b <;> simp [Box.ser, Box.size, Box.tag, Box.body]

theorem Box.size_ge (b : Box) : 8 ≤ b.size := by
  cases b <;> simp [Box.size] <;> omega

theorem sizeList_pos : ∀ (cs : List Box), cs ≠ [] → 8 ≤ sizeList cs
  | [], h => absurd rfl h
  | b :: bs, _ => by
    have := b.size_ge
    simp [sizeList]; omega

mutual
theorem Box.ser_length : (b : Box) → b.Valid → b.QuirkFree → b.ser.length = b.size
  | .super d cs, hv, h => by
    have := serList_length cs hv.2 h.2
    simp [Box.ser, Box.size, serDesc, this]; omega
  | .leaf _ _, _, _ => by simp [Box.ser, Box.size]; omega
  | .uuid u data, hv, h => by
    have h1 : data ≠ [] := h
    have h2 : u.length = 16 := hv
    simp [Box.ser, Box.size, uuidPayload, h1, h2]; omega
  | .bfdb _ _ _, _, _ => by simp [Box.ser, Box.size]; omega
theorem serList_length : (cs : List Box) → ValidList cs → QuirkFreeList cs →
    (serList cs).length = sizeList cs
  | [], _, _ => rfl
  | b :: bs, hv, h => by
    simp [serList, sizeList, b.ser_length hv.1 h.1, serList_length bs hv.2 h.2]
end

theorem kind_fourcc_lt (k : Kind) : k.fourcc < 4294967296 := by cases k <;> decide
theorem kindOf_fourcc (k : Kind) : kindOf? k.fourcc = some k := by cases k <;> decide
theorem kind_ne (k : Kind) : k.fourcc ≠ 0 ∧ k.fourcc ≠ JUMB ∧ k.fourcc ≠ UUID ∧ k.fourcc ≠ BFDB := by
  cases k <;> decide

theorem afterChild_last (p : Nat) : afterChild p p = .ok false := by
  unfold afterChild; simp
theorem afterChild_more {dest p : Nat} (h : p < dest) : afterChild dest p = .ok true := by
  unfold afterChild
  rw [if_neg (by omega), if_neg (by omega)]

/-- the step after a child: stop exactly at `dest` or go on with the remaining children -/
theorem addChild_eval (dest p3 : Nat) (b' : Box) (rest : List Box) (k : Unit → Res (List Box × Nat))
    (hdest : dest = p3 + sizeList rest)
    (hk : rest ≠ [] → k () = .ok (normList rest, dest)) :
    addChild dest b' p3 k = .ok (b' :: normList rest, dest) := by
  unfold addChild
  cases rest with
  | nil =>
    simp [sizeList] at hdest
    subst hdest
    simp [afterChild_last, normList]
  | cons c cs =>
    have := sizeList_pos (c :: cs) (by simp)
    rw [afterChild_more (by omega)]
    simp only [bind_ok, if_true, hk (by simp)]

/-- conditions under which `superBox` is evaluated on a written tree -/
structure Ctx (d : Bytes) (pos : Nat) (written post : Bytes) (size fuel : Nat) : Prop where
  at_ : d.drop pos = written ++ post
  le : pos ≤ d.length
  small : d.length < 2 ^ 64
  size32 : size < 4294967296

def SuperOK (b : Box) : Prop :=
  match b with
  | .super desc cs => ∀ (fuel : Nat) (d : Bytes) (depth pos : Nat) (post : Bytes),
      d.drop pos = (Box.super desc cs).ser ++ post → pos ≤ d.length → d.length < 2 ^ 64 →
      (Box.super desc cs).size < 4294967296 → depth + (Box.super desc cs).height ≤ 32 →
      (Box.super desc cs).size < 8 * fuel →
      superBox fuel d depth pos = .ok ((Box.super desc cs).norm, pos + (Box.super desc cs).size)
  | _ => True

def LoopOK (cs : List Box) : Prop :=
  cs ≠ [] → ∀ (fuel : Nat) (d : Bytes) (depth pos : Nat) (post : Bytes),
    d.drop pos = serList cs ++ post → pos ≤ d.length → d.length < 2 ^ 64 →
    sizeList cs < 4294967296 → depth + 1 + heightList cs ≤ 32 →
    sizeList cs + 8 < 8 * fuel →
    loop fuel d depth (pos + sizeList cs) pos = .ok (normList cs, pos + sizeList cs)

/-- `superBox` on a written super box, given the loop result for its children -/
theorem super_step (desc : Desc) (cs : List Box) (hv : desc.Valid) (hne : cs ≠ [])
    (hvl : ValidList cs) (hql : QuirkFreeList cs) (hloop : LoopOK cs) : SuperOK (.super desc cs) := by
  intro fuel d depth pos post hat hle hsmall hsz hdepth hfuel
  have hsize : (Box.super desc cs).size = 8 + (8 + (descPayload desc).length) + sizeList cs := by
    simp [Box.size]
  have hcs := sizeList_pos cs hne
  cases fuel with
  | zero => omega
  | succ f =>
    have hat' : d.drop pos = be32 (Box.super desc cs).size ++ (be32 JUMB ++
        (be32 (8 + (descPayload desc).length) ++ (be32 JUMD ++ (descPayload desc ++ (serList cs ++ post))))) := by
      rw [hat, Box.ser_eq]; simp [Box.tag, Box.body, serDesc]
    have hh1 := readHeader_at hat' hsz (by decide) (by omega)
    have hat8 : d.drop (pos + 8) = be32 (8 + (descPayload desc).length) ++ (be32 JUMD ++
        (descPayload desc ++ (serList cs ++ post))) :=
      drop_pref (be32 (Box.super desc cs).size ++ be32 JUMB) (by simpa using hat') (by simp)
    have hle8 : pos + 8 ≤ d.length :=
      le_pref (be32 (Box.super desc cs).size ++ be32 JUMB) (by simpa using hat') hle (by simp)
    have hh2 := readHeader_at hat8 (by omega) (by decide) (by omega)
    have hat16 : d.drop (pos + 8 + 8) = descPayload desc ++ (serList cs ++ post) :=
      drop_pref (be32 (8 + (descPayload desc).length) ++ be32 JUMD) (by simpa using hat8) (by simp)
    have hle16 : pos + 8 + 8 ≤ d.length :=
      le_pref (be32 (8 + (descPayload desc).length) ++ be32 JUMD) (by simpa using hat8) hle8 (by simp)
    have hdesc := readDesc_at hv hat16 hle16 hsmall (by omega)
    have hat3 : d.drop (pos + 8 + 8 + (descPayload desc).length) = serList cs ++ post :=
      drop_pref (descPayload desc) hat16 rfl
    have hle3 : pos + 8 + 8 + (descPayload desc).length ≤ d.length :=
      le_pref (descPayload desc) hat16 hle16 rfl
    have htot : pos + (Box.super desc cs).size ≤ d.length := by
      have := avail_of_drop hat3
      simp [serList_length cs hvl hql] at this
      omega
    have hheight : (Box.super desc cs).height = 1 + heightList cs := by simp [Box.height]
    have hl := hloop hne f d depth (pos + 8 + 8 + (descPayload desc).length) post hat3 hle3 hsmall
      (by omega) (by omega) (by omega)
    have hdest : pos + 8 + 8 + (descPayload desc).length + sizeList cs = pos + (Box.super desc cs).size := by
      omega
    rw [hdest] at hl
    unfold superBox
    rw [if_neg (by simp [MAX_JUMB_DEPTH]; omega), hh1]
    simp only [mapErr_ok, bind_ok]
    rw [if_neg (by decide), if_neg (by simp), if_neg (by omega), hh2]
    simp only [mapErr_ok, bind_ok]
    rw [if_neg (by simp), hdesc]
    simp only [mapErr_ok, bind_ok]
    rw [if_neg (by simp [hv.2]), hl]
    simp [Box.norm]


theorem tag_lt (b : Box) : b.tag < 4294967296 := by
  cases b <;> simp [Box.tag, kind_fourcc_lt] <;> decide

theorem tag_ne_zero (b : Box) : b.tag ≠ 0 := by
  cases b with
  | leaf k _ => exact (kind_ne k).1
  | _ => simp [Box.tag] <;> decide

theorem unread_ok' (p : Nat) : unread (p + 8) = .ok p := by
  unfold unread; simp

/-- one iteration of the loop on a written child followed by the remaining written children -/
theorem loop_step (b : Box) (rest : List Box) (hvb : b.Valid) (hqb : b.QuirkFree)
    (hb : SuperOK b) (hr : LoopOK rest) : LoopOK (b :: rest) := by
  intro _ fuel d depth pos post hat hle hsmall hsz hdepth hfuel
  have hsl : sizeList (b :: rest) = b.size + sizeList rest := by simp [sizeList]
  have hhl : heightList (b :: rest) = max b.height (heightList rest) := by simp [heightList]
  have hb8 := b.size_ge
  cases fuel with
  | zero => omega
  | succ f =>
    have hlenb := b.ser_length hvb hqb
    have hat0 : d.drop pos = b.ser ++ (serList rest ++ post) := by
      rw [hat]; simp [serList]
    have hat' : d.drop pos = be32 b.size ++ (be32 b.tag ++ (b.body ++ (serList rest ++ post))) := by
      rw [hat0, Box.ser_eq]; simp
    have hh := readHeader_at hat' (by omega) (tag_lt b) (by omega)
    have hat3 : d.drop (pos + b.size) = serList rest ++ post := drop_pref b.ser hat0 hlenb.symm
    have hle3 : pos + b.size ≤ d.length := le_pref b.ser hat0 hle hlenb.symm
    -- the rest of the loop, when there is a rest
    have hk : rest ≠ [] →
        loop f d depth (pos + sizeList (b :: rest)) (pos + b.size) =
          .ok (normList rest, pos + sizeList (b :: rest)) := by
      intro hne
      have := hr hne f d depth (pos + b.size) post hat3 hle3 hsmall (by omega) (by omega) (by omega)
      rw [show pos + b.size + sizeList rest = pos + sizeList (b :: rest) by omega] at this
      exact this
    have hadd : ∀ b' : Box, addChild (pos + sizeList (b :: rest)) b' (pos + b.size)
        (fun _ => loop f d depth (pos + sizeList (b :: rest)) (pos + b.size)) =
        .ok (b' :: normList rest, pos + sizeList (b :: rest)) :=
      fun b' => addChild_eval _ _ b' rest _ (by omega) hk
    unfold loop
    rw [hh]
    simp only [mapErr_ok, bind_ok]
    rw [if_neg (tag_ne_zero b), unread_ok']
    simp only [bind_ok]
    cases b with
    | super desc cs =>
      have hsb := hb f d (depth + 1) pos (serList rest ++ post) hat0 hle hsmall (by omega)
        (by omega) (by omega)
      rw [if_pos (show (Box.super desc cs).tag = JUMB from rfl), hsb]
      simp only [bind_ok]
      rw [hadd]
      simp [normList]
    | leaf k data =>
      have hsz' : (Box.leaf k data).size = 8 + data.length := by simp [Box.size]
      have hrd := readData_at (t := k.fourcc) (data := data) (rest := serList rest ++ post)
        (by simpa [Box.size, Box.tag, Box.body] using hat') hle hsmall (by omega) (kind_fourcc_lt k)
      rw [if_neg (show ¬ (Box.leaf k data).tag = JUMB from (kind_ne k).2.1),
        if_neg (show ¬ (Box.leaf k data).tag = UUID from (kind_ne k).2.2.1),
        if_neg (show ¬ (Box.leaf k data).tag = BFDB from (kind_ne k).2.2.2)]
      simp only [show kindOf? (Box.leaf k data).tag = some k from kindOf_fourcc k, hsz', hrd,
        mapErr_ok, bind_ok]
      rw [← hsz', hadd]
      simp [normList, Box.norm]
    | uuid u data =>
      have hsz' : (Box.uuid u data).size = 8 + (16 + data.length) := by simp [Box.size]
      have hne : data ≠ [] := hqb
      have hu : u.length = 16 := hvb
      have hrd := readUuid_at (u := u) (data := data) (rest := serList rest ++ post)
        (by simpa [Box.size, Box.tag, Box.body, uuidPayload, hne] using hat') hu hle hsmall (by omega)
      rw [if_neg (show ¬ (Box.uuid u data).tag = JUMB from (by decide : UUID ≠ JUMB)),
        if_pos (show (Box.uuid u data).tag = UUID from rfl)]
      simp only [hsz', hrd, mapErr_ok, bind_ok]
      rw [← hsz', hadd]
      simp [normList, Box.norm]
    | bfdb t m fn =>
      have hsz' : (Box.bfdb t m fn).size = 8 + (bfdbPayload t m).length := by simp [Box.size]
      obtain ⟨mt, fn', hrd, hnorm⟩ := readBfdb_at (t := t) (m := m) (rest := serList rest ++ post)
        (by simpa [Box.size, Box.tag, Box.body] using hat') hqb hle hsmall (by omega)
      rw [if_neg (show ¬ (Box.bfdb t m fn).tag = JUMB from (by decide : BFDB ≠ JUMB)),
        if_neg (show ¬ (Box.bfdb t m fn).tag = UUID from (by decide : BFDB ≠ UUID)),
        if_pos (show (Box.bfdb t m fn).tag = BFDB from rfl)]
      simp only [hsz', hrd, mapErr_ok, bind_ok]
      rw [← hsz', hadd]
      simp [normList, Box.norm, hnorm]


mutual
theorem superOK : (b : Box) → b.Valid → b.QuirkFree → SuperOK b
  | .super desc cs, hv, hq => super_step desc cs hv.1 hq.1 hv.2 hq.2 (loopOK cs hv.2 hq.2)
  | .leaf _ _, _, _ => trivial
  | .uuid _ _, _, _ => trivial
  | .bfdb _ _ _, _, _ => trivial
theorem loopOK : (cs : List Box) → ValidList cs → QuirkFreeList cs → LoopOK cs
  | [], _, _ => fun h => absurd rfl h
  | b :: rest, hv, hq => loop_step b rest hv.1 hq.1 (superOK b hv.1 hq.1) (loopOK rest hv.2 hq.2)
end

/-! ### `norm` changes nothing the writer looks at -/

theorem normBfdb_payload (t : UInt8) (m : Bytes) :
    ∃ t' m' fn', normBfdb t m = .bfdb t' m' fn' ∧ bfdbPayload t' m' = bfdbPayload t m := by
  unfold normBfdb
  by_cases h : strNonEmpty m = true
  · by_cases ht : t = 1
    · subst ht; exact ⟨1, m, some [0], by simp [h], rfl⟩
    · exact ⟨t, m, none, by simp [h, ht], rfl⟩
  · refine ⟨t, [], none, by simp [h], ?_⟩
    have h' : strNonEmpty m = false := by simpa using h
    have h0 : strNonEmpty ([] : Bytes) = false := by simp [strNonEmpty]
    simp [bfdbPayload, h', h0]

mutual
theorem Box.norm_size : (b : Box) → b.norm.size = b.size
  | .super d cs => by simp [Box.norm, Box.size, normList_size cs]
  | .leaf _ _ => rfl
  | .uuid _ _ => rfl
  | .bfdb t m _ => by
    obtain ⟨t', m', fn', h1, h2⟩ := normBfdb_payload t m
    simp [Box.norm, h1, Box.size, h2]
theorem normList_size : (cs : List Box) → sizeList (normList cs) = sizeList cs
  | [] => rfl
  | b :: bs => by simp [normList, sizeList, b.norm_size, normList_size bs]
end

mutual
theorem Box.norm_ser : (b : Box) → b.norm.ser = b.ser
  | .super d cs => by simp [Box.norm, Box.ser, normList_size cs, normList_ser cs]
  | .leaf _ _ => rfl
  | .uuid _ _ => rfl
  | .bfdb t m _ => by
    obtain ⟨t', m', fn', h1, h2⟩ := normBfdb_payload t m
    simp [Box.norm, h1, Box.ser, h2]
theorem normList_ser : (cs : List Box) → serList (normList cs) = serList cs
  | [] => rfl
  | b :: bs => by simp [normList, serList, b.norm_ser, normList_ser bs]
end

end C2pa.C18
