import C2paModel.Model.C27
/-
Invariant rules for the redirect-follower loop of Model/C27.lean, for an arbitrary layer
`inner` below it. Used by Props/C26.lean (allow-list layer) and Props/C27.lean.
-/
namespace C2pa.C27

/-- A layer below the redirect follower either hands the request to the transport (the request
is appended to the trace) or does not (trace unchanged). -/
def InnerOK (inner : Inner) : Prop :=
  ∀ hop req st, (inner hop req st).1.trace = st.trace ++ [req] ∨ (inner hop req st).1.trace = st.trace

theorem bare_innerOK (t : Transport) : InnerOK (bare t) := by
  intro hop req st; left; rfl

/-- State invariants preserved by the layer below are preserved by the whole loop. -/
theorem loop_preserves (inner : Inner) (join : JoinFn) (a : Bool) (P : St → Prop)
    (hinner : ∀ hop req st, P st → P (inner hop req st).1) :
    ∀ fuel hop req st, P st → P (redirectLoop inner join a fuel hop req st).1 := by
  intro fuel
  induction fuel with
  | zero => intro hop req st h; simpa [redirectLoop] using h
  | succ n ih =>
    intro hop req st h
    have h1 := hinner hop req st h
    unfold redirectLoop
    cases hi : inner hop req st with
    | mk st' res =>
      rw [hi] at h1
      cases res with
      | error e => simpa using h1
      | ok resp =>
        simp only
        cases hr : redirectTarget join a hop req.uri resp with
        | error e => simpa using h1
        | ok o =>
          cases o with
          | none => simpa using h1
          | some target => exact ih _ _ _ h1

theorem mem_tail_append_singleton {α : Type} (l : List α) (x r : α)
    (h : r ∈ (l ++ [x]).tail) : r ∈ l.tail ∨ (l ≠ [] ∧ r = x) := by
  cases l with
  | nil => simp at h
  | cons y ys =>
    simp only [List.cons_append, List.tail_cons, List.mem_append, List.mem_singleton] at h
    rcases h with h | h
    · left; simpa using h
    · right; exact ⟨by simp, h⟩

/-- Every request that reaches the transport *after the first one* satisfies `C`, provided every
request built for a redirect target does. -/
theorem loop_hops (inner : Inner) (join : JoinFn) (a : Bool) (C : Request → Prop)
    (hin : InnerOK inner)
    (hC : ∀ hop (req : Request) resp t,
      redirectTarget join a hop req.uri resp = .ok (some t) → C (buildRedirected req t)) :
    ∀ fuel hop req st, (st.trace = [] ∨ C req) → (∀ r ∈ st.trace.tail, C r) →
      ∀ r ∈ (redirectLoop inner join a fuel hop req st).1.trace.tail, C r := by
  intro fuel
  induction fuel with
  | zero => intro hop req st _ h; simpa [redirectLoop] using h
  | succ n ih =>
    intro hop req st h0 h
    -- the state after the layer below still satisfies the tail invariant
    have hst' : ∀ r ∈ (inner hop req st).1.trace.tail, C r := by
      intro r hr
      rcases hin hop req st with e | e
      · rw [e] at hr
        rcases mem_tail_append_singleton _ _ _ hr with h1 | ⟨hne, rfl⟩
        · exact h r h1
        · rcases h0 with h0 | h0
          · exact absurd h0 hne
          · exact h0
      · rw [e] at hr; exact h r hr
    unfold redirectLoop
    cases hi : inner hop req st with
    | mk st' res =>
      rw [hi] at hst'
      cases res with
      | error e => simpa using hst'
      | ok resp =>
        simp only
        cases hr : redirectTarget join a hop req.uri resp with
        | error e => simpa using hst'
        | ok o =>
          cases o with
          | none => simpa using hst'
          | some target => exact ih _ _ _ (Or.inr (hC hop req resp target hr)) hst'

/-- The transport is called at most once per loop iteration. -/
theorem loop_trace_length (inner : Inner) (join : JoinFn) (a : Bool) (hin : InnerOK inner) :
    ∀ fuel hop req st,
      (redirectLoop inner join a fuel hop req st).1.trace.length ≤ st.trace.length + fuel := by
  intro fuel
  induction fuel with
  | zero => intro hop req st; simp [redirectLoop]
  | succ n ih =>
    intro hop req st
    have hlen : (inner hop req st).1.trace.length ≤ st.trace.length + 1 := by
      rcases hin hop req st with e | e <;> rw [e] <;> simp
    unfold redirectLoop
    cases hi : inner hop req st with
    | mk st' res =>
      rw [hi] at hlen
      have hlen' : st'.trace.length ≤ st.trace.length + 1 := hlen
      cases res with
      | error e => simp only; omega
      | ok resp =>
        simp only
        cases hr : redirectTarget join a hop req.uri resp with
        | error e => simp only; omega
        | ok o =>
          cases o with
          | none => simp only; omega
          | some target =>
            have := ih (hop + 1) (buildRedirected req target) st'
            simp only; omega

/-- With redirects disabled the loop body runs once: the result is the layer's error, the
response itself (not a redirect) or `RedirectDisallowed`. -/
theorem loop_disabled (inner : Inner) (join : JoinFn) (n hop : Nat) (req : Request) (st : St) :
    redirectLoop inner join false (n + 1) hop req st =
      match inner hop req st with
      | (st', .error e) => (st', .error e)
      | (st', .ok resp) =>
        match redirectLocation resp with
        | none => (st', .ok resp)
        | some _ => (st', .error .redirectDisallowed) := by
  unfold redirectLoop
  cases hi : inner hop req st with
  | mk st' res =>
    cases res with
    | error e => rfl
    | ok resp =>
      simp only [redirectTarget]
      cases redirectLocation resp <;> simp

end C2pa.C27
