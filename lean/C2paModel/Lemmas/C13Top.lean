import C2paModel.Lemmas.C13Build
/-
C13 — `hashModel` taken apart: what each kind of result implies, what the builder returns.
-/
namespace C2pa.C13

theorem Stop.out_ne_ok (s : Stop) (a : List UInt8) (p : List (Nat × Nat)) : s.out ≠ .ok a p := by
  cases s <;> simp [Stop.out]

/-- the three stages of a run -/
inductive Stage (alg : String) (data : List UInt8) (hr : Option (List HashRange)) (isExcl : Bool)
    (buf : Nat) (c : Option Nat) : Outcome → Prop
  | unsupported : supported alg = false → Stage alg data hr isExcl buf c (.err .unsupported [])
  | nodata : supported alg = true → data.length < 1 → Stage alg data hr isExcl buf c (.err .nodata [])
  | build (s : Stop) : supported alg = true → 1 ≤ data.length →
      buildPieces data.length hr isExcl = .error s → Stage alg data hr isExcl buf c s.out
  | total (ps : List Piece) (s : Stop) : supported alg = true → 1 ≤ data.length →
      buildPieces data.length hr isExcl = .ok ps → totalOf buf ps 0 = .error s →
      Stage alg data hr isExcl buf c s.out
  | run (ps : List Piece) (T : Nat) (s : Stop) : supported alg = true → 1 ≤ data.length →
      buildPieces data.length hr isExcl = .ok ps → totalOf buf ps 0 = .ok T →
      runPieces data buf T c ps {} = .error s → Stage alg data hr isExcl buf c s.out
  | done (ps : List Piece) (T : Nat) (st : St) : supported alg = true → 1 ≤ data.length →
      buildPieces data.length hr isExcl = .ok ps → totalOf buf ps 0 = .ok T →
      runPieces data buf T c ps {} = .ok st → Stage alg data hr isExcl buf c (.ok st.absorbed st.prog)

theorem hashModel_stage (alg : String) (data : List UInt8) (hr : Option (List HashRange))
    (isExcl : Bool) (buf : Nat) (c : Option Nat) :
    Stage alg data hr isExcl buf c (hashModel alg data hr isExcl buf c) := by
  unfold hashModel
  by_cases h1 : supported alg = true
  · simp only [h1, Bool.not_true, Bool.false_eq_true, if_false]
    by_cases h2 : data.length < 1
    · simp only [h2, if_true]; exact Stage.nodata h1 h2
    · simp only [h2, if_false]
      have h2' : 1 ≤ data.length := by omega
      cases hb : buildPieces data.length hr isExcl with
      | error s => exact Stage.build s h1 h2' hb
      | ok ps =>
        simp only
        cases ht : totalOf buf ps 0 with
        | error s => exact Stage.total ps s h1 h2' hb ht
        | ok T =>
          simp only
          cases hrun : runPieces data buf T c ps {} with
          | error s => exact Stage.run ps T s h1 h2' hb ht hrun
          | ok st => exact Stage.done ps T st h1 h2' hb ht hrun
  · have h1' : supported alg = false := by simpa using h1
    simp only [h1', Bool.not_false, if_true]
    exact Stage.unsupported h1'

theorem hashModel_ok_inv {alg : String} {data : List UInt8} {hr : Option (List HashRange)}
    {isExcl : Bool} {buf : Nat} {c : Option Nat} {abs : List UInt8} {prog : List (Nat × Nat)}
    (h : hashModel alg data hr isExcl buf c = .ok abs prog) :
    supported alg = true ∧ 1 ≤ data.length ∧
      ∃ ps T st, buildPieces data.length hr isExcl = .ok ps ∧ totalOf buf ps 0 = .ok T ∧
        runPieces data buf T c ps {} = .ok st ∧ abs = st.absorbed ∧ prog = st.prog := by
  have hs := hashModel_stage alg data hr isExcl buf c
  have key : ∀ o, Stage alg data hr isExcl buf c o → o = .ok abs prog →
      supported alg = true ∧ 1 ≤ data.length ∧
      ∃ ps T st, buildPieces data.length hr isExcl = .ok ps ∧ totalOf buf ps 0 = .ok T ∧
        runPieces data buf T c ps {} = .ok st ∧ abs = st.absorbed ∧ prog = st.prog := by
    intro o hs
    cases hs with
    | unsupported _ => intro heq; cases heq
    | nodata _ _ => intro heq; cases heq
    | build s _ _ _ => intro heq; exact absurd heq (Stop.out_ne_ok s abs prog)
    | total ps s _ _ _ _ => intro heq; exact absurd heq (Stop.out_ne_ok s abs prog)
    | run ps T s _ _ _ _ _ => intro heq; exact absurd heq (Stop.out_ne_ok s abs prog)
    | done ps T st h1 h2 hb ht hr =>
      intro heq
      simp only [Outcome.ok.injEq] at heq
      exact ⟨h1, h2, ps, T, st, hb, ht, hr, heq.1.symm, heq.2.symm⟩
  exact key _ hs h

/-! ### the builder -/

theorem buildPieces_error {n : Nat} {hr : Option (List HashRange)} {isExcl : Bool} {s : Stop}
    (h : buildPieces n hr isExcl = .error s) : s = .err .badparam [] := by
  unfold buildPieces at h
  cases hr with
  | none => simp at h
  | some l =>
    cases l with
    | nil => simp at h
    | cons a t =>
      simp only at h
      cases hm : maxEnd (stableSort HashRange.start (a :: t)) 0 with
      | none => simp [hm] at h; exact h.symm
      | some e =>
        simp only [hm] at h
        by_cases hlt : n < e
        · simp [hlt] at h; exact h.symm
        · simp only [hlt, if_false] at h
          cases isExcl with
          | true =>
            simp only [if_true] at h
            cases he : exclLoop (stableSort HashRange.start (a :: t)) [(0, n - 1)] [] with
            | error e' =>
              simp only [he, Except.error.injEq] at h
              rw [exclLoop_error _ _ _ _ he] at h; exact h.symm
            | ok r => simp [he] at h
          | false =>
            simp only [Bool.false_eq_true, if_false] at h
            exact inclLoop_error _ _ h

/-- the builder accepts only when every entry ends inside the data -/
theorem buildPieces_ok_within {n : Nat} {l : List HashRange} {isExcl : Bool} {ps : List Piece}
    (h : buildPieces n (some l) isExcl = .ok ps) : ∀ x ∈ l, x.start + x.length ≤ n := by
  unfold buildPieces at h
  cases l with
  | nil => intro x hx; cases hx
  | cons a t =>
    simp only at h
    cases hm : maxEnd (stableSort HashRange.start (a :: t)) 0 with
    | none => simp [hm] at h
    | some e =>
      simp only [hm] at h
      by_cases hlt : n < e
      · simp [hlt] at h
      · intro x hx
        have := (maxEnd_some _ _ _ hm).2 x ((mem_stableSort _ _ _).2 hx)
        omega

theorem buildPieces_of_within {n : Nat} (l : List HashRange) (isExcl : Bool) (hn : n ≤ u64Max)
    (hall : ∀ x ∈ l, x.start + x.length ≤ n) : ∃ ps, buildPieces n (some l) isExcl = .ok ps := by
  unfold buildPieces
  cases l with
  | nil => exact ⟨_, rfl⟩
  | cons a t =>
    simp only
    have hall' : ∀ x ∈ stableSort HashRange.start (a :: t), x.start + x.length ≤ n :=
      fun x hx => hall x ((mem_stableSort _ _ _).1 hx)
    obtain ⟨e, he, hle⟩ := maxEnd_bound _ 0 n (Nat.zero_le _) hn hall'
    rw [he]
    simp only
    have : ¬ n < e := by omega
    simp only [this, if_false]
    cases isExcl with
    | true =>
      simp only [if_true]
      obtain ⟨r, hr⟩ := exclLoop_ok (stableSort HashRange.start (a :: t)) [(0, n - 1)] []
        (fun x hx => by have := hall' x hx; omega)
      rw [hr]; exact ⟨_, rfl⟩
    | false =>
      simp only [Bool.false_eq_true, if_false]
      exact inclLoop_ok _ (fun x hx => by have := hall' x hx; omega)

/-- every piece the builder returns is well-formed -/
theorem buildPieces_pieceOK {data : List UInt8} {hr : Option (List HashRange)} {isExcl : Bool}
    {ps : List Piece} (h1 : 1 ≤ data.length) (hn : data.length ≤ u64Max)
    (h : buildPieces data.length hr isExcl = .ok ps) : ∀ p ∈ ps, PieceOK data p := by
  have hdefault : ∀ p ∈ [(⟨0, data.length - 1, false⟩ : Piece)], PieceOK data p := by
    intro p hp
    simp only [List.mem_singleton] at hp
    subst hp
    unfold PieceOK
    refine ⟨?_, ?_, ?_, ?_⟩
    · exact Nat.zero_le _
    · show data.length - 1 - 0 + 1 ≤ u64Max; omega
    · intro h; cases h
    · right; show data.length - 1 < data.length; omega
  cases hr with
  | none =>
    simp only [buildPieces, Except.ok.injEq] at h
    subst h; exact hdefault
  | some l =>
    have hwithin := buildPieces_ok_within h
    unfold buildPieces at h
    cases l with
    | nil =>
      simp only [Except.ok.injEq] at h
      subst h; exact hdefault
    | cons a t =>
      simp only at h
      cases hm : maxEnd (stableSort HashRange.start (a :: t)) 0 with
      | none => simp [hm] at h
      | some e =>
        simp only [hm] at h
        by_cases hlt : data.length < e
        · simp [hlt] at h
        · simp only [hlt, if_false] at h
          cases isExcl with
          | true =>
            simp only [if_true] at h
            cases he : exclLoop (stableSort HashRange.start (a :: t)) [(0, data.length - 1)] [] with
            | error e' => simp [he] at h
            | ok r =>
              obtain ⟨rs, ms⟩ := r
              simp only [he, Except.ok.injEq] at h
              subst h
              have := (exclPieces_spec data (a :: t) _ (stableSort_perm _ _) h1 rs ms he).2
              exact WF_pieceOK data rfl hn _ 0 this
          | false =>
            simp only [Bool.false_eq_true, if_false] at h
            exact inclLoop_pieces data _ ps h
              (fun x hx => hwithin x ((mem_stableSort _ _ _).1 hx)) hn

end C2pa.C13
