import C2paModel.Props.C04
/-
C19 ∘ C04 — once a non-tolerated failure has been added to a `ValidationResults` value it stays
there under every further `add_status` (any kind, any uri), so the state is `Invalid` whatever
else is logged before or after.
-/
namespace C2pa.C04

/-- some failure code of the results (active manifest or an ingredient delta) is not tolerated -/
def Bad (r : Results) : Prop :=
  (∃ a, r.active = some a ∧ ∃ f ∈ a.failure, tolerated f = false) ∨
  (∃ d ∈ deltasOf r, ∃ f ∈ d.codes.failure, tolerated f = false)

theorem bad_invalid (r : Results) (h : Bad r) : state r = .invalid := by
  rw [state_invalid_iff]
  rintro ⟨a, ha, _, _, hfa, hfd⟩
  rcases h with ⟨a', ha', f, hf, ht⟩ | ⟨d, hd, f, hf, ht⟩
  · rw [ha] at ha'; cases ha'
    rw [hfa f hf] at ht; cases ht
  · rw [hfd d hd f hf] at ht; cases ht

theorem add_failure_mono (c : Codes) (s : Status) (f : Code) (h : f ∈ c.failure) :
    f ∈ (c.add s).failure := by
  unfold Codes.add
  cases s.kind <;> simp [h]

theorem addToFirst_mono (u : List Char) (s : Status) :
    ∀ (ds ds' : List Delta), addToFirst u s ds = some ds' →
      ∀ d ∈ ds, ∃ d' ∈ ds', ∀ f ∈ d.codes.failure, f ∈ d'.codes.failure := by
  intro ds
  induction ds with
  | nil => intro ds' h; simp [addToFirst] at h
  | cons d ds ih =>
    intro ds' h x hx
    unfold addToFirst at h
    by_cases hu : (d.uri == u) = true
    · simp only [hu, if_true, Option.some.injEq] at h
      subst h
      rcases List.mem_cons.1 hx with rfl | hx
      · exact ⟨_, List.mem_cons_self .., fun f hf => add_failure_mono _ s f hf⟩
      · exact ⟨x, List.mem_cons_of_mem _ hx, fun f hf => hf⟩
    · cases hrec : addToFirst u s ds with
      | none => simp [hu, hrec] at h
      | some ds'' =>
        simp [hu, hrec] at h
        subst h
        rcases List.mem_cons.1 hx with rfl | hx
        · exact ⟨x, List.mem_cons_self .., fun f hf => hf⟩
        · obtain ⟨y, hy, hxy⟩ := ih ds'' hrec x hx
          exact ⟨y, List.mem_cons_of_mem _ hy, hxy⟩

/-- `Bad` is preserved by every `add_status`. -/
theorem bad_addStatus (r : Results) (s : Status) (h : Bad r) : Bad (addStatus r s) := by
  cases hu : s.uri with
  | none =>
    have hr' : addStatus r s = { r with active := some ((r.active.getD {}).add s) } := by
      unfold addStatus; rw [hu]
    rw [hr']
    rcases h with ⟨a, ha, f, hf, ht⟩ | ⟨d, hd, f, hf, ht⟩
    · left
      refine ⟨_, rfl, f, ?_, ht⟩
      rw [ha]; exact add_failure_mono a s f hf
    · right; exact ⟨d, hd, f, hf, ht⟩
  | some u =>
    cases hadd : addToFirst u s (deltasOf r) with
    | some ds' =>
      have hr' : addStatus r s = { r with deltas := some ds' } := by
        unfold addStatus; rw [hu]; simp only [hadd]
      rw [hr']
      rcases h with ⟨a, ha, f, hf, ht⟩ | ⟨d, hd, f, hf, ht⟩
      · left; exact ⟨a, ha, f, hf, ht⟩
      · right
        obtain ⟨d', hd', hsub⟩ := addToFirst_mono u s _ _ hadd d hd
        exact ⟨d', hd', f, hsub f hf, ht⟩
    | none =>
      have hr' : addStatus r s =
          { r with deltas := some (deltasOf r ++ [{ uri := u, codes := ({} : Codes).add s }]) } := by
        unfold addStatus; rw [hu]; simp only [hadd]
      rw [hr']
      rcases h with ⟨a, ha, f, hf, ht⟩ | ⟨d, hd, f, hf, ht⟩
      · left; exact ⟨a, ha, f, hf, ht⟩
      · right
        refine ⟨d, ?_, f, hf, ht⟩
        simp [deltasOf, List.mem_append]; left; exact hd

theorem bad_of_add_failure (r : Results) (s : Status) (hk : s.kind = .failure)
    (ht : tolerated s.code = false) : Bad (addStatus r s) := by
  obtain ⟨_, _, h3⟩ := addStatus_failure_spec r s hk
  rcases h3 with ⟨a, ha, hc⟩ | ⟨d, hd, hc⟩
  · exact Or.inl ⟨a, ha, s.code, hc, ht⟩
  · exact Or.inr ⟨d, hd, s.code, hc, ht⟩

theorem bad_foldl (ss : List Status) : ∀ r, Bad r → Bad (ss.foldl addStatus r) := by
  induction ss with
  | nil => intro r h; exact h
  | cons s ss ih => intro r h; exact ih _ (bad_addStatus r s h)

/-- **A non-tolerated failure anywhere in a status sequence gives `Invalid`.** -/
theorem nontolerated_failure_in_sequence_invalid (r : Results) (ss : List Status) (s : Status)
    (hs : s ∈ ss) (hk : s.kind = .failure) (ht : tolerated s.code = false) :
    state (ss.foldl addStatus r) = .invalid := by
  obtain ⟨pre, post, rfl⟩ := List.append_of_mem hs
  rw [List.foldl_append, List.foldl_cons]
  exact bad_invalid _ (bad_foldl post _ (bad_of_add_failure _ s hk ht))

def cManifestMissing : Code := "ingredient.manifest.missing".toList

theorem manifestMissing_not_tolerated : tolerated cManifestMissing = false := by decide

end C2pa.C04
