import C2paModel.Lemmas.C13Run
/-
C13 — position-wise reading of a list of pieces.

`atPos data L x` is what a piece list contributes *at stream position x*: one big-endian offset
per marker piece at `x`, then the data byte at `x` if some data piece covers `x`. For a piece
list that is ordered and non-interleaving (`WF`), concatenating the bytes of the pieces in list
order is the same as concatenating `atPos` over the positions 0,1,2,… (`flatMap_pieceBytes_eq`).
`atPos` does not depend on the order of the list, which is how the final `sort_by` is handled.
-/
namespace C2pa.C13

def byteAt (data : List UInt8) (x : Nat) : List UInt8 := (data[x]?).toList

def Piece.covers (p : Piece) (x : Nat) : Bool := !p.marker && p.lo ≤ x && x ≤ p.hi

def dataCover (L : List Piece) (x : Nat) : Bool := L.any (·.covers x)

def markerCount (L : List Piece) (x : Nat) : Nat := L.countP fun p => p.marker && p.lo == x

def atPos (data : List UInt8) (L : List Piece) (x : Nat) : List UInt8 :=
  (List.replicate (markerCount L x) (be64 x)).flatten ++ (if dataCover L x then byteAt data x else [])

/-- ordered by `lo`, every piece inside `[k, N)`, nothing starts inside a data piece, a marker
piece precedes the data piece that starts at the same position -/
def WF (N : Nat) : Nat → List Piece → Prop
  | _, [] => True
  | k, p :: ps =>
    k ≤ p.lo ∧ p.lo ≤ p.hi ∧ p.hi < N ∧
      (if p.marker then p.hi = p.lo ∧ WF N p.lo ps else WF N (p.hi + 1) ps)

theorem flatMap_congr' {α β : Type} (l : List α) (f g : α → List β) (h : ∀ a ∈ l, f a = g a) :
    l.flatMap f = l.flatMap g := by
  induction l with
  | nil => rfl
  | cons a as ih =>
    simp only [List.flatMap_cons]
    rw [h a (List.mem_cons_self ..), ih (fun b hb => h b (List.mem_cons_of_mem _ hb))]

theorem range'_split (a n m : Nat) (h : m ≤ n) :
    List.range' a n = List.range' a m ++ List.range' (a + m) (n - m) := by
  have e : n = m + (n - m) := by omega
  conv => lhs; rw [e]
  rw [← List.range'_append_1]

theorem flatMap_nil' {α β : Type} (l : List α) (f : α → List β) (h : ∀ a ∈ l, f a = []) :
    l.flatMap f = [] := by
  rw [flatMap_congr' l f (fun _ => []) h]; simp

/-- reading `n` bytes at `a` = the bytes at positions `a, a+1, …, a+n-1` -/
theorem flatMap_byteAt (data : List UInt8) (n a : Nat) :
    (List.range' a n).flatMap (byteAt data) = (data.drop a).take n := by
  induction n generalizing a with
  | zero => simp
  | succ n ih =>
    rw [List.range'_succ, List.flatMap_cons, ih]
    by_cases h : a < data.length
    · rw [List.drop_eq_getElem_cons h, List.take_succ_cons]
      simp [byteAt, h]
    · have h1 : data.length ≤ a := by omega
      rw [List.drop_eq_nil_of_le h1, List.drop_eq_nil_of_le (by omega)]
      simp [byteAt, h1]

theorem WF_below {N : Nat} : ∀ (L : List Piece) (k x : Nat), WF N k L → x < k →
    markerCount L x = 0 ∧ dataCover L x = false := by
  intro L
  induction L with
  | nil => intro k x _ _; simp [markerCount, dataCover]
  | cons p ps ih =>
    intro k x h hx
    obtain ⟨h1, h2, h3, h4⟩ := h
    have hrec : markerCount ps x = 0 ∧ dataCover ps x = false := by
      by_cases hm : p.marker = true
      · simp only [hm, if_true] at h4
        exact ih p.lo x h4.2 (by omega)
      · simp only [hm] at h4
        exact ih (p.hi + 1) x h4 (by omega)
    have hne : ¬ p.lo = x := by omega
    have hc : p.covers x = false := by
      simp only [Piece.covers, Bool.and_eq_false_iff, decide_eq_false_iff_not]
      left; right; omega
    refine ⟨?_, ?_⟩
    · simp only [markerCount, List.countP_cons] at *
      simp [hrec.1, hne]
    · simp only [dataCover, List.any_cons] at *
      simp [hrec.2, hc]

theorem atPos_nil (data : List UInt8) (x : Nat) : atPos data [] x = [] := by
  simp [atPos, markerCount, dataCover]

theorem atPos_below {N : Nat} (data : List UInt8) (L : List Piece) (k x : Nat) (h : WF N k L)
    (hx : x < k) : atPos data L x = [] := by
  obtain ⟨h1, h2⟩ := WF_below L k x h hx
  simp [atPos, h1, h2]

theorem WF_mono {N : Nat} (L : List Piece) (k k' : Nat) (h : WF N k L) (hk : k' ≤ k) : WF N k' L := by
  cases L with
  | nil => trivial
  | cons p ps =>
    obtain ⟨h1, h2⟩ := h
    exact ⟨by omega, h2⟩

theorem WF_le {N : Nat} (L : List Piece) (k : Nat) (h : WF N k L) (hL : L ≠ []) : k < N := by
  cases L with
  | nil => exact absurd rfl hL
  | cons p ps => obtain ⟨h1, h2, h3, _⟩ := h; omega

/-- **Bytes of an ordered piece list = position-wise reading.** -/
theorem flatMap_pieceBytes_eq {N : Nat} (data : List UInt8) :
    ∀ (L : List Piece) (k : Nat), WF N k L →
      L.flatMap (pieceBytes data) = (List.range' k (N - k)).flatMap (atPos data L) := by
  intro L
  induction L with
  | nil =>
    intro k _
    rw [flatMap_nil' _ _ (fun x _ => atPos_nil data x)]; rfl
  | cons p ps ih =>
    intro k h
    have hwf := h
    obtain ⟨h1, h2, h3, h4⟩ := h
    -- positions k … p.lo-1 contribute nothing
    have hsplit : List.range' k (N - k) = List.range' k (p.lo - k) ++ List.range' p.lo (N - p.lo) := by
      have := range'_split k (N - k) (p.lo - k) (by omega)
      have e1 : k + (p.lo - k) = p.lo := by omega
      have e2 : N - k - (p.lo - k) = N - p.lo := by omega
      rw [e1, e2] at this; exact this
    have hwf' : WF N p.lo (p :: ps) := ⟨Nat.le_refl _, hwf.2⟩
    have hlow : (List.range' k (p.lo - k)).flatMap (atPos data (p :: ps)) = [] := by
      apply flatMap_nil'
      intro x hx
      have : x < p.lo := by
        have := (List.mem_range'_1.1 hx).2; omega
      exact atPos_below data (p :: ps) p.lo x hwf' this
    rw [hsplit, List.flatMap_append, hlow, List.nil_append, List.flatMap_cons]
    by_cases hm : p.marker = true
    · simp only [hm, if_true] at h4
      obtain ⟨h5, h6⟩ := h4
      rw [ih p.lo h6]
      -- N - p.lo = 1 + (N - p.lo - 1)
      have hN : N - p.lo = (N - p.lo - 1) + 1 := by omega
      rw [hN, List.range'_succ, List.flatMap_cons, List.flatMap_cons]
      have hat : atPos data (p :: ps) p.lo = be64 p.lo ++ atPos data ps p.lo := by
        simp [atPos, markerCount, dataCover, Piece.covers, hm, List.countP_cons, List.replicate_succ]
      have hrest : (List.range' (p.lo + 1) (N - p.lo - 1)).flatMap (atPos data (p :: ps)) =
          (List.range' (p.lo + 1) (N - p.lo - 1)).flatMap (atPos data ps) := by
        apply flatMap_congr'
        intro x hx
        have hx1 : p.lo + 1 ≤ x := (List.mem_range'_1.1 hx).1
        have hne : ¬ p.lo = x := by omega
        simp [atPos, markerCount, dataCover, Piece.covers, hm, List.countP_cons, hne]
      rw [hat, hrest]
      simp [pieceBytes, hm]
    · simp only [hm] at h4
      have hmf : p.marker = false := by simpa using hm
      rw [ih (p.hi + 1) h4]
      have hN : N - p.lo = (p.hi + 1 - p.lo) + (N - (p.hi + 1)) := by omega
      have hsplit2 : List.range' p.lo (N - p.lo) =
          List.range' p.lo (p.hi + 1 - p.lo) ++ List.range' (p.hi + 1) (N - (p.hi + 1)) := by
        have := range'_split p.lo (N - p.lo) (p.hi + 1 - p.lo) (by omega)
        have e1 : p.lo + (p.hi + 1 - p.lo) = p.hi + 1 := by omega
        have e2 : N - p.lo - (p.hi + 1 - p.lo) = N - (p.hi + 1) := by omega
        rw [e1, e2] at this; exact this
      rw [hsplit2, List.flatMap_append]
      have hfirst : (List.range' p.lo (p.hi + 1 - p.lo)).flatMap (atPos data (p :: ps)) =
          (List.range' p.lo (p.hi + 1 - p.lo)).flatMap (byteAt data) := by
        apply flatMap_congr'
        intro x hx
        have hx1 := List.mem_range'_1.1 hx
        obtain ⟨q1, q2⟩ := WF_below ps (p.hi + 1) x h4 (by omega)
        have hc : p.covers x = true := by
          simp only [Piece.covers, hmf, Bool.not_false, Bool.true_and, Bool.and_eq_true, decide_eq_true_eq]
          omega
        have m0 : markerCount (p :: ps) x = 0 := by
          unfold markerCount at *; rw [List.countP_cons]; simp [hmf, q1]
        have c1 : dataCover (p :: ps) x = true := by
          unfold dataCover; rw [List.any_cons, hc]; rfl
        simp [atPos, m0, c1]
      have hsecond : (List.range' (p.hi + 1) (N - (p.hi + 1))).flatMap (atPos data (p :: ps)) =
          (List.range' (p.hi + 1) (N - (p.hi + 1))).flatMap (atPos data ps) := by
        apply flatMap_congr'
        intro x hx
        have hx1 := (List.mem_range'_1.1 hx).1
        have hc : p.covers x = false := by
          simp only [Piece.covers, Bool.and_eq_false_iff, decide_eq_false_iff_not]
          right; omega
        simp [atPos, markerCount, dataCover, List.countP_cons, hmf, hc]
      rw [hfirst, hsecond, flatMap_byteAt]
      simp [pieceBytes, hmf]

end C2pa.C13
