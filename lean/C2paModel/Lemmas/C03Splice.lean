import C2paModel.Lemmas.C03Split
/-
C03 — the splice handler (removes the region the asset reports, writes the framed payload in
its place; `Splice.embed` really reads its asset argument) obeys the handler laws.
-/
namespace C2pa.C03
open C2pa

theorem splice_region_embed (s : Splice) (a : Asset) (j : List UInt8) :
    s.region (s.embed a j) = ((s.region a).1, (s.wrap j).length) := by
  simp [Splice.region, Splice.embed]

theorem splice_finalExcl (s : Splice) (a : Asset) (j : List UInt8) (hw : 0 < (s.wrap j).length)
    (ho : (s.region a).1 ≤ a.bytes.length) :
    finalExcl (s.embed a j) = some [⟨(s.region a).1, (s.wrap j).length⟩] := by
  unfold finalExcl exclusionsOf Splice.embed scan
  simp only [C13.stableSort, List.foldl_cons, List.foldl_nil, C13.insertAfter, scanStep]
  simp only [List.length_append, List.length_take, List.length_drop]
  simp
  exact ⟨by omega, hw, by omega⟩

/-- re-embedding replaces: the second write sees the region the first one reported -/
theorem splice_embed_embed (s : Splice) (a : Asset) (j j' : List UInt8)
    (ho : (s.region a).1 ≤ a.bytes.length) :
    (s.embed (s.embed a j) j').bytes =
      a.bytes.take (s.region a).1 ++ s.wrap j' ++ a.bytes.drop ((s.region a).1 + (s.region a).2) := by
  have hlen : (a.bytes.take (s.region a).1).length = (s.region a).1 := by
    rw [List.length_take]; omega
  show (s.embed a j).bytes.take (s.region (s.embed a j)).1 ++ s.wrap j' ++
      (s.embed a j).bytes.drop ((s.region (s.embed a j)).1 + (s.region (s.embed a j)).2) = _
  rw [splice_region_embed]
  simp only [Splice.embed]
  have h1 : (a.bytes.take (s.region a).1 ++ s.wrap j ++ a.bytes.drop ((s.region a).1 + (s.region a).2)).take
      (s.region a).1 = a.bytes.take (s.region a).1 := by
    rw [List.append_assoc, List.take_append_of_le_length (by omega)]
    rw [List.take_of_length_le (by omega)]
  have h2 : (a.bytes.take (s.region a).1 ++ s.wrap j ++ a.bytes.drop ((s.region a).1 + (s.region a).2)).drop
      ((s.region a).1 + (s.wrap j).length) = a.bytes.drop ((s.region a).1 + (s.region a).2) := by
    have : (s.region a).1 + (s.wrap j).length = (a.bytes.take (s.region a).1 ++ s.wrap j).length := by
      rw [List.length_append, hlen]
    rw [this, List.drop_left]
  rw [h1, h2]

theorem splice_laws {jm : DHash → List UInt8 → List UInt8} {H : List UInt8 → List UInt8}
    {sg : DHash → List UInt8} {ph : List UInt8} (s : Splice) (src : Asset) (n0 : Nat)
    (ho : (s.region src).1 ≤ src.bytes.length)
    (hw : ∀ j, j.length = n0 → 0 < (s.wrap j).length)
    (hwl : ∀ j j', j.length = n0 → j'.length = n0 → (s.wrap j').length = (s.wrap j).length) :
    Laws ⟨s.embed, jm, H, sg, ph⟩ src n0 := by
  have hlen : (src.bytes.take (s.region src).1).length = (s.region src).1 := by
    rw [List.length_take]; omega
  constructor
  · intro j hj
    refine ⟨_, splice_finalExcl s src j (hw j hj) ho, by simp, ?_⟩
    intro r hr
    simp only [List.mem_singleton] at hr
    subst hr
    simp only [Splice.embed, List.length_append, hlen]
    omega
  · intro j hj
    have := hw j hj
    simp only [Splice.embed, List.length_append]
    omega
  · intro j j' ex hj hj' hex
    rw [splice_finalExcl s src j (hw j hj) ho] at hex
    injection hex with hex
    subst hex
    have hwe := hwl j j' hj hj'
    have hb : (s.embed (s.embed src j) j').bytes = _ := splice_embed_embed s src j j' ho
    constructor
    · rw [hb]
      simp only [Splice.embed, List.length_append, hwe]
    · intro x hx
      rw [hb]
      show _ = (src.bytes.take (s.region src).1 ++ s.wrap j ++
        src.bytes.drop ((s.region src).1 + (s.region src).2))[x]?
      apply getElem?_mid _ _ _ _ hwe
      rw [hlen]
      simp only [C13.included, C13.excluded, toHR, List.map_cons, List.map_nil, List.any_cons,
        List.any_nil, Bool.or_false, Bool.and_eq_true, decide_eq_true_eq, Bool.not_eq_true',
        Option.isNone_none, Bool.true_and, Bool.and_eq_false_iff, bne_eq_false_iff_eq,
        decide_eq_false_iff_not] at hx
      omega

theorem splice_source_region (s : Splice) (bytes : List UInt8) (at_ probe : Nat) :
    s.region (Split.source bytes at_ probe) = (at_, probe) := by
  simp [Splice.region, Split.source]

end C2pa.C03
