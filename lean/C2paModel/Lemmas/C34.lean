import C2paModel.Model.C34
/-
C34 — helper lemmas: splitting/joining, decimal print/parse, URI normal forms.
-/
namespace C2pa.C34


/-! splitOnC basics -/
theorem splitOnC_ne_nil (sep : Char) (s : Str) : splitOnC sep s ≠ [] := by
  induction s with
  | nil => simp [splitOnC]
  | cons c cs ih =>
    simp only [splitOnC]
    split
    · simp
    · cases h : splitOnC sep cs <;> simp [headCons]

theorem splitOnC_length_pos (sep : Char) (s : Str) : 0 < (splitOnC sep s).length :=
  List.length_pos_iff.mpr (splitOnC_ne_nil sep s)

theorem splitOnC_of_not_mem {sep : Char} {s : Str} (h : sep ∉ s) : splitOnC sep s = [s] := by
  induction s with
  | nil => rfl
  | cons c cs ih =>
    have hc : c ≠ sep := fun e => h (by simp [e])
    have hcs : sep ∉ cs := fun e => h (by simp [e])
    simp [splitOnC, hc, ih hcs, headCons]

theorem splitOnC_append_sep {sep : Char} {a : Str} (b : Str) (h : sep ∉ a) :
    splitOnC sep (a ++ sep :: b) = a :: splitOnC sep b := by
  induction a with
  | nil => simp [splitOnC]
  | cons c cs ih =>
    have hc : c ≠ sep := fun e => h (by simp [e])
    have hcs : sep ∉ cs := fun e => h (by simp [e])
    simp [splitOnC, hc, ih hcs, headCons]

/-- `split` then `join` gives the string back (for every string). -/
theorem join_split (sep : Char) (s : Str) : joinWith sep (splitOnC sep s) = s := by
  induction s with
  | nil => rfl
  | cons c cs ih =>
    simp only [splitOnC]
    split
    · next h =>
      subst h
      cases hs : splitOnC c cs with
      | nil => exact absurd hs (splitOnC_ne_nil _ _)
      | cons x xs => rw [hs] at ih; simp [joinWith, ih]
    · cases hs : splitOnC sep cs with
      | nil => exact absurd hs (splitOnC_ne_nil _ _)
      | cons x xs =>
        rw [hs] at ih
        cases xs with
        | nil => simp [headCons, joinWith] at ih ⊢; exact ih
        | cons y ys => simp [headCons, joinWith] at ih ⊢; exact ih

/-- `join` then `split` gives the pieces back when no piece contains the separator. -/
theorem split_join (sep : Char) : ∀ (l : List Str), l ≠ [] → (∀ x ∈ l, sep ∉ x) →
    splitOnC sep (joinWith sep l) = l
  | [], h, _ => absurd rfl h
  | [a], _, h => by simpa [joinWith] using splitOnC_of_not_mem (h a (by simp))
  | a :: b :: rest, _, h => by
    have ha : sep ∉ a := h a (by simp)
    have ih := split_join sep (b :: rest) (by simp) (fun x hx => h x (by simp [hx]))
    simp [joinWith, splitOnC_append_sep _ ha, ih]

theorem mem_of_mem_splitOnC {sep : Char} {s x : Str} {c : Char} (hx : x ∈ splitOnC sep s) (hc : c ∈ x) : c ∈ s := by
  induction s generalizing x with
  | nil => simp [splitOnC] at hx; subst hx; simp at hc
  | cons d ds ih =>
    simp only [splitOnC] at hx
    split at hx
    · rcases List.mem_cons.mp hx with rfl | hx
      · simp at hc
      · exact List.mem_cons_of_mem _ (ih hx hc)
    · cases hs : splitOnC sep ds with
      | nil => exact absurd hs (splitOnC_ne_nil _ _)
      | cons y ys =>
        rw [hs] at hx ih
        simp [headCons] at hx
        rcases hx with rfl | hx
        · rcases List.mem_cons.mp hc with rfl | hc
          · simp
          · exact List.mem_cons_of_mem _ (ih (by simp) hc)
        · exact List.mem_cons_of_mem _ (ih (by simp [hx]) hc)

theorem sep_not_mem_of_mem_splitOnC {sep : Char} {s x : Str} (hx : x ∈ splitOnC sep s) : sep ∉ x := by
  induction s generalizing x with
  | nil => simp [splitOnC] at hx; subst hx; simp
  | cons d ds ih =>
    simp only [splitOnC] at hx
    split at hx
    · rcases List.mem_cons.mp hx with rfl | hx
      · simp
      · exact ih hx
    · next hne =>
      cases hs : splitOnC sep ds with
      | nil => exact absurd hs (splitOnC_ne_nil _ _)
      | cons y ys =>
        rw [hs] at hx ih
        simp [headCons] at hx
        rcases hx with rfl | hx
        · intro hm
          rcases List.mem_cons.mp hm with rfl | hm
          · exact hne rfl
          · exact ih (by simp) hm
        · exact ih (by simp [hx])


/-! ### decimal numbers -/


def isDigit (c : Char) : Bool := decide ('0' ≤ c ∧ c ≤ '9')

theorem digitVal_digitChar : ∀ d, d < 10 → digitVal? (digitChar d) = some d := by decide

theorem isDigit_digitChar : ∀ d, d < 10 → isDigit (digitChar d) = true := by decide

theorem digitsVal_append_single (a : Str) (c : Char) (acc : Nat) :
    digitsVal (a ++ [c]) acc = (digitsVal a acc).bind (fun v => (digitVal? c).map (fun d => v * 10 + d)) := by
  induction a generalizing acc with
  | nil => simp [digitsVal]; cases digitVal? c <;> simp
  | cons x xs ih =>
    simp only [List.cons_append, digitsVal]
    cases digitVal? x with
    | none => simp
    | some d => simp [ih]

theorem digitsVal_showNatF (f n : Nat) (h : n < f) : digitsVal (showNatF f n) 0 = some n := by
  induction f generalizing n with
  | zero => omega
  | succ f ih =>
    simp only [showNatF]
    split
    · next hn => simp [digitsVal, digitVal_digitChar n hn]
    · next hn =>
      have h1 : n / 10 < f := by omega
      rw [digitsVal_append_single, ih _ h1]
      simp [digitVal_digitChar (n % 10) (by omega)]
      omega

theorem showNatF_all_digits (f n : Nat) : ∀ c ∈ showNatF f n, isDigit c = true := by
  induction f generalizing n with
  | zero => simp [showNatF]
  | succ f ih =>
    simp only [showNatF]
    split
    · next hn => simp [isDigit_digitChar n hn]
    · intro c hc
      rcases List.mem_append.mp hc with hc | hc
      · exact ih _ c hc
      · simp at hc; subst hc; exact isDigit_digitChar _ (by omega)

theorem showNatF_ne_nil (f n : Nat) (h : n < f) : showNatF f n ≠ [] := by
  cases f with
  | zero => omega
  | succ f =>
    simp only [showNatF]
    split <;> simp

theorem showNat_all_digits (n : Nat) : ∀ c ∈ showNat n, isDigit c = true := showNatF_all_digits _ _
theorem showNat_ne_nil (n : Nat) : showNat n ≠ [] := showNatF_ne_nil _ _ (by omega)

theorem not_mem_showNat {c : Char} (hc : isDigit c = false) (n : Nat) : c ∉ showNat n := by
  intro h; have := showNat_all_digits n c h; simp [hc] at this

theorem parseUsize_showNat (n : Nat) (h : n < usizeLimit) : parseUsize (showNat n) = some n := by
  have hne := showNat_ne_nil n
  have hd := showNat_all_digits n
  have hv : digitsVal (showNat n) 0 = some n := digitsVal_showNatF _ _ (by omega)
  unfold parseUsize
  cases hs : showNat n with
  | nil => exact absurd hs hne
  | cons c r =>
    have hcd : isDigit c = true := hd c (by simp [hs])
    have hc : c ≠ '+' := by rintro rfl; revert hcd; decide
    rw [hs] at hv
    simp [hc, hv, h]


/-! ### URI normal forms -/

theorem mem_joinWith {sep c : Char} : ∀ {l : List Str}, c ∈ joinWith sep l → c = sep ∨ ∃ x ∈ l, c ∈ x
  | [], h => by simp [joinWith] at h
  | [a], h => by simp [joinWith] at h; exact Or.inr ⟨a, by simp, h⟩
  | a :: b :: rest, h => by
    simp only [joinWith, List.mem_append, List.mem_cons] at h
    rcases h with h | h | h
    · exact Or.inr ⟨a, by simp, h⟩
    · exact Or.inl h
    · rcases mem_joinWith h with h | ⟨x, hx, hc⟩
      · exact Or.inl h
      · exact Or.inr ⟨x, by simp at hx ⊢; exact Or.inr hx, hc⟩

theorem isPrefixOf_mem {p s : Str} (h : p.isPrefixOf s = true) {c : Char} (hc : c ∈ p) : c ∈ s := by
  obtain ⟨t, rfl⟩ := List.isPrefixOf_iff_prefix.mp h
  simp [hc]

/-- normal form of a string without `=` -/
def addSlash (r : Str) : Str :=
  if !r.isEmpty && (cManifestStore ++ ['/']).isPrefixOf r then '/' :: r else r

theorem norm_noEq {r : Str} (h : '=' ∉ r) : toNormalizedUri r = some (addSlash r) := by
  simp [toNormalizedUri, splitOnC_of_not_mem h, idx, addSlash]
  split <;> rfl

theorem eq_not_mem_prefix : '=' ∉ cJumbfPrefix := by decide

theorem norm_prefixed {r : Str} (h : '=' ∉ r) :
    toNormalizedUri (cJumbfPrefix ++ '=' :: r) = some (addSlash r) := by
  simp [toNormalizedUri, splitOnC_append_sep _ eq_not_mem_prefix, splitOnC_of_not_mem h, idx, addSlash]
  split <;> rfl

theorem addSlash_slash (r : Str) : addSlash ('/' :: r) = '/' :: r := by
  simp [addSlash, cManifestStore]


end C2pa.C34
