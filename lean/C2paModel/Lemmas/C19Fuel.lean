import C2paModel.Lemmas.C19Gcrm
/-
C19 — fuel lemmas for `gcrm`: path restoration, fuel monotonicity, the two termination
measures (remaining depth, unvisited claims).
-/
namespace C2pa.C19

theorem gLoop_ok_path (s : Store) (stop : Bool) (u : Nat) (rec : Nat → GSt → Out × GSt)
    (hrec : ∀ v st, (rec v st).1 = .ok → (rec v st).2.path = st.path) :
    ∀ (ings : List Ing) (st : GSt), (gLoop rec s stop u ings st).1 = .ok →
      (gLoop rec s stop u ings st).2.path = st.path := by
  intro ings
  induction ings with
  | nil => intro st _; rfl
  | cons i is ih =>
    intro st
    rw [gLoop_cons]
    cases ht : i.target with
    | none => exact ih (gSkip st)
    | some v =>
      simp only
      by_cases hv : v < s.length
      · simp only [hv, if_true]
        by_cases hc : v ∈ st.path
        · simp [hc]
        · simp only [hc, if_false]
          by_cases hok : (rec v (gPre st u v)).1 = .ok
          · simp only [hok, if_true]
            intro h
            rw [ih _ h, hrec _ _ hok]
            rfl
          · simp only [hok]
            intro h; exact absurd h hok
      · simp only [hv]
        cases stop with
        | true => simp
        | false =>
          simp only [Bool.false_eq_true, if_false]
          intro h
          rw [ih _ h]
          rfl

/-- A call that returns `Ok` leaves `claim_label_path` as it found it. -/
theorem gcrm_ok_path (s : Store) (stop : Bool) (lim : Nat) :
    ∀ (n u : Nat) (st : GSt), (gcrm lim s stop n u st).1 = .ok →
      (gcrm lim s stop n u st).2.path = st.path := by
  intro n
  induction n with
  | zero => intro u st h; simp [gcrm_zero] at h
  | succ n ih =>
    intro u st
    rw [gcrm_succ]
    by_cases hl : lim ≤ st.path.length
    · simp [hl]
    · simp only [hl, if_false]
      by_cases hm : u ∈ st.map
      · simp [hm]
      · simp only [hm, if_false]
        cases hs : s[u]? with
        | none => simp
        | some c =>
          simp only
          by_cases hok : (gLoop (gcrm lim s stop n) s stop u c.ings (gPush st u)).1 = .ok
          · simp only [hok, if_true]
            intro _
            have := gLoop_ok_path s stop u (gcrm lim s stop n) ih c.ings (gPush st u) hok
            simp only [gPop, this]
            rfl
          · simp only [hok]
            intro h; exact absurd h hok

theorem gLoop_fuel_mono (s : Store) (stop : Bool) (u : Nat) (rec rec' : Nat → GSt → Out × GSt)
    (hrec : ∀ v st, (rec v st).1 ≠ .outOfFuel → rec' v st = rec v st) :
    ∀ (ings : List Ing) (st : GSt), (gLoop rec s stop u ings st).1 ≠ .outOfFuel →
      gLoop rec' s stop u ings st = gLoop rec s stop u ings st := by
  intro ings
  induction ings with
  | nil => intro st _; rfl
  | cons i is ih =>
    intro st
    rw [gLoop_cons, gLoop_cons]
    cases ht : i.target with
    | none => exact ih (gSkip st)
    | some v =>
      simp only
      by_cases hv : v < s.length
      · simp only [hv, if_true]
        by_cases hc : v ∈ st.path
        · simp [hc]
        · simp only [hc, if_false]
          by_cases hok : (rec v (gPre st u v)).1 = .ok
          · have e := hrec v (gPre st u v) (by rw [hok]; decide)
            simp only [hok, if_true, e]
            exact ih _
          · simp only [hok]
            intro h
            have e := hrec v (gPre st u v) h
            simp only [e, hok, if_false]
      · simp only [hv]
        cases stop with
        | true => simp
        | false =>
          simp only [Bool.false_eq_true, if_false]
          exact ih _

/-- More fuel never changes a result that was not `outOfFuel`. -/
theorem gcrm_fuel_succ (s : Store) (stop : Bool) (lim : Nat) :
    ∀ (n u : Nat) (st : GSt), (gcrm lim s stop n u st).1 ≠ .outOfFuel →
      gcrm lim s stop (n + 1) u st = gcrm lim s stop n u st := by
  intro n
  induction n with
  | zero => intro u st h; simp [gcrm_zero] at h
  | succ n ih =>
    intro u st
    rw [gcrm_succ lim s stop (n + 1), gcrm_succ lim s stop n]
    by_cases hl : lim ≤ st.path.length
    · simp [hl]
    · simp only [hl, if_false]
      by_cases hm : u ∈ st.map
      · simp [hm]
      · simp only [hm, if_false]
        cases hs : s[u]? with
        | none => simp
        | some c =>
          simp only
          intro h
          have hne : (gLoop (gcrm lim s stop n) s stop u c.ings (gPush st u)).1 ≠ .outOfFuel := by
            by_cases hok : (gLoop (gcrm lim s stop n) s stop u c.ings (gPush st u)).1 = .ok
            · rw [hok]; decide
            · simpa [hok] using h
          rw [gLoop_fuel_mono s stop u (gcrm lim s stop n) (gcrm lim s stop (n + 1)) ih c.ings _ hne]

theorem gcrm_fuel_le (s : Store) (stop : Bool) (lim : Nat) (n u : Nat) (st : GSt)
    (h : (gcrm lim s stop n u st).1 ≠ .outOfFuel) :
    ∀ k, gcrm lim s stop (n + k) u st = gcrm lim s stop n u st := by
  intro k
  induction k with
  | zero => rfl
  | succ k ih =>
    have : (gcrm lim s stop (n + k) u st).1 ≠ .outOfFuel := by rw [ih]; exact h
    rw [← Nat.add_assoc, gcrm_fuel_succ s stop lim (n + k) u st this, ih]

/-! #### measure 1: remaining depth -/

theorem gLoop_fuel_depth (s : Store) (stop : Bool) (u : Nat) (rec : Nat → GSt → Out × GSt)
    (P : List Nat)
    (hrec : ∀ v st, st.path = P → (rec v st).1 ≠ .outOfFuel ∧
      ((rec v st).1 = .ok → (rec v st).2.path = P)) :
    ∀ (ings : List Ing) (st : GSt), st.path = P →
      (gLoop rec s stop u ings st).1 ≠ .outOfFuel := by
  intro ings
  induction ings with
  | nil => intro st _; simp [gLoop_nil]
  | cons i is ih =>
    intro st hP
    rw [gLoop_cons]
    cases ht : i.target with
    | none => exact ih (gSkip st) hP
    | some v =>
      simp only
      by_cases hv : v < s.length
      · simp only [hv, if_true]
        by_cases hc : v ∈ st.path
        · simp [hc]
        · simp only [hc, if_false]
          obtain ⟨r1, r2⟩ := hrec v (gPre st u v) hP
          by_cases hok : (rec v (gPre st u v)).1 = .ok
          · simp only [hok, if_true]
            exact ih _ (r2 hok)
          · simp only [hok]
            exact r1
      · simp only [hv]
        cases stop with
        | true => simp
        | false =>
          simp only [Bool.false_eq_true, if_false]
          exact ih _ hP

/-- Fuel `lim + 1 - depth` suffices: the recursion is never deeper than the limit. -/
theorem gcrm_fuel_depth (s : Store) (stop : Bool) (lim : Nat) :
    ∀ (n u : Nat) (st : GSt), st.path.length ≤ lim → lim + 1 ≤ st.path.length + n →
      (gcrm lim s stop n u st).1 ≠ .outOfFuel := by
  intro n
  induction n with
  | zero => intro u st h1 h2; omega
  | succ n ih =>
    intro u st h1 h2
    rw [gcrm_succ]
    by_cases hl : lim ≤ st.path.length
    · simp [hl]
    · simp only [hl, if_false]
      by_cases hm : u ∈ st.map
      · simp [hm]
      · simp only [hm, if_false]
        cases hs : s[u]? with
        | none => simp
        | some c =>
          simp only
          have hloop := gLoop_fuel_depth s stop u (gcrm lim s stop n) (u :: st.path)
            (fun v st' hP => ⟨ih v st' (by rw [hP, List.length_cons]; omega)
                (by rw [hP, List.length_cons]; omega),
              fun hok => by rw [gcrm_ok_path s stop lim n v st' hok, hP]⟩)
            c.ings (gPush st u) rfl
          by_cases hok : (gLoop (gcrm lim s stop n) s stop u c.ings (gPush st u)).1 = .ok
          · simp [hok]
          · simp only [hok]
            exact hloop

/-! #### measure 2: unvisited claims -/

theorem gLoop_fuel_unv (s : Store) (stop : Bool) (lim u m : Nat) (rec : Nat → GSt → Out × GSt)
    (hsafe : ∀ v st, GW s lim st → v ∉ st.path → v < s.length →
      GStep s lim 0 st (rec v st).2 ∧ GOut s stop lim (rec v st).1)
    (hrec : ∀ v st, GW s lim st → v ∉ st.path → v < s.length → m ≤ st.map.length →
      (rec v st).1 ≠ .outOfFuel) :
    ∀ (ings : List Ing) (st : GSt), GW s lim st → m ≤ st.map.length →
      (gLoop rec s stop u ings st).1 ≠ .outOfFuel := by
  intro ings
  induction ings with
  | nil => intro st _ _; simp [gLoop_nil]
  | cons i is ih =>
    intro st h hm
    rw [gLoop_cons]
    cases ht : i.target with
    | none => exact ih (gSkip st) h.skip.gw hm
    | some v =>
      simp only
      by_cases hv : v < s.length
      · simp only [hv, if_true]
        by_cases hc : v ∈ st.path
        · simp [hc]
        · simp only [hc, if_false]
          have hnot : v ∉ (gPre st u v).path := hc
          have hpre := h.pre u v
          obtain ⟨r1, _⟩ := hsafe v (gPre st u v) hpre.gw hnot hv
          have hne := hrec v (gPre st u v) hpre.gw hnot hv hm
          by_cases hok : (rec v (gPre st u v)).1 = .ok
          · simp only [hok, if_true]
            apply ih _ r1.gw
            obtain ⟨new, e⟩ := r1.mapg
            rw [e, List.length_append]
            have : (gPre st u v).map = st.map := rfl
            rw [this]; omega
          · simp only [hok]
            exact hne
      · simp only [hv]
        cases stop with
        | true => simp
        | false =>
          simp only [Bool.false_eq_true, if_false]
          exact ih _ (h.miss v).gw hm

/-- Fuel `|V| - |memo| + 1` suffices. -/
theorem gcrm_fuel_unv (s : Store) (stop : Bool) (lim : Nat) :
    ∀ (n u : Nat) (st : GSt), GW s lim st → u ∉ st.path → u < s.length →
      s.length + 1 ≤ st.map.length + n → (gcrm lim s stop n u st).1 ≠ .outOfFuel := by
  intro n
  induction n with
  | zero =>
    intro u st h _ _ hn
    have := nodup_length_le s.length st.map h.mnd h.mlt
    omega
  | succ n ih =>
    intro u st h hp hu hn
    rw [gcrm_succ]
    by_cases hl : lim ≤ st.path.length
    · simp [hl]
    · simp only [hl, if_false]
      by_cases hm : u ∈ st.map
      · simp [hm]
      · simp only [hm, if_false]
        have hm' : u ∉ st.map := hm
        have hsome : s[u]? = some s[u] := List.getElem?_eq_getElem hu
        rw [hsome]
        simp only
        have hpush := h.push u hu hp hm' hl
        have hloop := gLoop_fuel_unv s stop lim u (st.map.length + 1) (gcrm lim s stop n)
          (gcrm_safe s stop lim n)
          (fun v st' hw hv1 hv2 hlen => ih v st' hw hv1 hv2 (by omega))
          s[u].ings (gPush st u) hpush (by simp [gPush])
        by_cases hok : (gLoop (gcrm lim s stop n) s stop u s[u].ings (gPush st u)).1 = .ok
        · simp [hok]
        · simp only [hok]
          exact hloop

end C2pa.C19
