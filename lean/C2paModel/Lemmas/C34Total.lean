import C2paModel.Lemmas.C34
/-
C34 — totality (no index or slice out of range) of every modelled function, for every input.
-/
set_option linter.unusedSimpArgs false
namespace C2pa.C34


theorem norm_total (s : Str) : ∃ r, toNormalizedUri s = some r := by
  unfold toNormalizedUri
  cases hs : splitOnC '=' s with
  | nil => exact absurd hs (splitOnC_ne_nil _ _)
  | cons a t =>
    cases t with
    | nil => simp [idx]; split <;> simp
    | cons b t' => simp [idx]; split <;> simp

theorem abs_total (m s : Str) : ∃ r, toAbsoluteUri m s = some r := by
  obtain ⟨raw, hraw⟩ := norm_total s
  simp [toAbsoluteUri, hraw, lenGtAndEq, idx, sliceFrom]
  generalize splitOnC '/' raw = parts
  rcases parts with _ | ⟨a, _ | ⟨b, _ | ⟨c, t⟩⟩⟩ <;> simp [lenGtAndEq, idx]
  split <;> simp

theorem rel_total (s : Str) : ∃ r, toRelativeUri s = some r := by
  obtain ⟨raw, hraw⟩ := norm_total s
  simp [toRelativeUri, hraw, lenGtAndEq, idx, sliceFrom]
  generalize splitOnC '/' raw = parts
  rcases parts with _ | ⟨a, _ | ⟨b, _ | ⟨c, _ | ⟨d, _ | ⟨e, t⟩⟩⟩⟩⟩ <;> simp [lenGtAndEq, idx, sliceFrom]
  split <;> simp

theorem mlabel_total (s : Str) : ∃ r, manifestLabelFromUri s = some r := by
  obtain ⟨raw, hraw⟩ := norm_total s
  simp [manifestLabelFromUri, hraw, lenGtAndEq, idx, sliceFrom]
  generalize splitOnC '/' raw = parts
  rcases parts with _ | ⟨a, _ | ⟨b, _ | ⟨c, t⟩⟩⟩ <;> simp [lenGtAndEq, idx]
  split <;> simp

theorem alabel_total (s : Str) : ∃ r, assertionLabelFromUri s = some r := by
  obtain ⟨raw, hraw⟩ := norm_total s
  simp [assertionLabelFromUri, hraw, lenGtAndEq, idx, sliceFrom]
  generalize splitOnC '/' raw = parts
  rcases parts with _ | ⟨a, _ | ⟨b, _ | ⟨c, _ | ⟨d, _ | ⟨e, t⟩⟩⟩⟩⟩ <;> simp [lenGtAndEq, idx]
  all_goals (repeat' (first | exact ⟨_, rfl⟩ | split | (simp only [Option.bind_some])))

theorem box_total (s : Str) : ∃ r, boxNameFromUri s = some r := by
  obtain ⟨raw, hraw⟩ := norm_total s
  simp [boxNameFromUri, hraw]


theorem idx_split_zero (sep : Char) (s : Str) : ∃ x, idx (splitOnC sep s) 0 = some x := by
  cases hs : splitOnC sep s with
  | nil => exact absurd hs (splitOnC_ne_nil _ _)
  | cons a t => exact ⟨a, by simp [idx]⟩

theorem parseVendor_total (parts : List Str) : ∃ r, parseVendor parts = some r := by
  unfold parseVendor
  rcases parts with _ | ⟨a, _ | ⟨b, _ | ⟨c, _ | ⟨d, t⟩⟩⟩⟩ <;> simp [idx]
  repeat' (first | exact ⟨_, rfl⟩ | split)

theorem parseVersion_total (parts : List Str) : ∃ r, parseVersion parts = some r := by
  unfold parseVersion
  rcases parts with _ | ⟨a, _ | ⟨b, _ | ⟨c, _ | ⟨d, _ | ⟨e, t⟩⟩⟩⟩⟩ <;> simp [idx]
  obtain ⟨x, hx⟩ := idx_split_zero '_' e
  simp only [idx] at hx
  split
  · exact ⟨_, rfl⟩
  · simp [hx]
    repeat' (first | exact ⟨_, rfl⟩ | split)

theorem parts_total (s : Str) : ∃ r, manifestLabelToParts s = some r := by
  obtain ⟨ml, h⟩ := mlabel_total s
  simp [manifestLabelToParts, h]
  generalize splitOnC ':' (ml.getD s) = parts
  obtain ⟨v, hv⟩ := parseVendor_total parts
  obtain ⟨w, hw⟩ := parseVersion_total parts
  rcases parts with _ | ⟨a, _ | ⟨b, _ | ⟨c, _ | ⟨d, t⟩⟩⟩⟩ <;> simp [idx, hv, hw]
  all_goals (repeat' (first | exact ⟨_, rfl⟩ | split | (simp only [Option.bind_some])))


theorem imageType_total (l : Str) : ∃ r, thumbnailImageType l = some r := by
  unfold thumbnailImageType
  generalize splitOnC '.' l = comps
  rcases comps with _ | ⟨a, _ | ⟨b, _ | ⟨c, _ | ⟨d, t⟩⟩⟩⟩ <;> simp [idx]
  obtain ⟨x, hx⟩ := idx_split_zero '_' d
  simp only [idx] at hx
  split
  · simp [hx]
  · exact ⟨_, rfl⟩

theorem instance_total (l : Str) : ∃ r, thumbnailInstance l = some r := by
  unfold thumbnailInstance
  generalize splitDU l = comps
  split
  · rcases comps with _ | ⟨a, _ | ⟨b, _ | ⟨c, t⟩⟩⟩ <;> simp [idx]
    obtain ⟨x, hx⟩ := idx_split_zero '.' b
    simp only [idx] at hx
    simp [hx]
  · exact ⟨_, rfl⟩

theorem lwi_total (l : Str) (n : Nat) : ∃ r, labelWithInstance l n = some r := by
  obtain ⟨x, hx⟩ := imageType_total l
  unfold labelWithInstance
  split
  · exact ⟨_, rfl⟩
  · split
    · simp [hx]; split <;> exact ⟨_, rfl⟩
    · exact ⟨_, rfl⟩

theorem splitDU_ne_nil : ∀ (s : Str), splitDU s ≠ []
  | [] => by simp [splitDU]
  | [a] => by simp [splitDU]
  | a :: b :: rest => by
    simp only [splitDU]
    split
    · simp
    · cases h : splitDU (b :: rest) <;> simp [headCons]

theorem labelAndInstance_total (s : Str) : ∃ r, labelAndInstance s = some r := by
  obtain ⟨x, hx⟩ := imageType_total s
  obtain ⟨y, hy⟩ := instance_total s
  unfold labelAndInstance
  split
  · simp [hx, hy]; split <;> exact ⟨_, _, rfl⟩
  · cases hs : splitDU s with
    | nil => exact absurd hs (splitDU_ne_nil s)
    | cons a t =>
      rcases t with _ | ⟨b, _ | ⟨c, t'⟩⟩ <;> simp [idx]

theorem link_total (s : Str) : ∃ r, assertionLabelFromLink s = some r := by
  obtain ⟨raw, hraw⟩ := norm_total s
  simp only [assertionLabelFromLink, hraw, Option.bind_eq_bind, Option.bind_some]
  cases hs : splitOnC '/' raw with
  | nil => exact absurd hs (splitOnC_ne_nil _ _)
  | cons a t =>
    have : ∃ z, (a :: t).getLast? = some z := ⟨(a :: t).getLast (by simp), List.getLast?_eq_some_getLast (by simp)⟩
    obtain ⟨z, hz⟩ := this
    rw [hz]
    exact labelAndInstance_total z

end C2pa.C34
