import C2paModel.Lemmas.C13Markers
/-
C13 — the position-wise specification of exclusion hashing (`exclSpec`) and the proof that
the piece list built by the exclusion branch reads, position by position, as that
specification.
-/
namespace C2pa.C13

/-! ### specification (statement side) -/

/-- byte `x` of a stream of length `n` is hashed: it exists and no exclusion range covers it -/
def included (n : Nat) (hr : List HashRange) (x : Nat) : Bool := decide (x < n) && !excluded hr x

/-- some hashed byte lies strictly before `x` -/
def includedBelow (n : Nat) (hr : List HashRange) (x : Nat) : Bool :=
  (List.range x).any (included n hr)

/-- some hashed byte lies strictly after `x` -/
def includedAbove (n : Nat) (hr : List HashRange) (x : Nat) : Bool :=
  (List.range' (x + 1) (n - (x + 1))).any (included n hr)

/-- `x` lies strictly inside the hashed span: strictly between the first and the last hashed
byte; when no byte at all is hashed the span is the whole stream (strictly inside). -/
def between (n : Nat) (hr : List HashRange) (x : Nat) : Bool :=
  if (List.range n).any (included n hr) then includedBelow n hr x && includedAbove n hr x
  else decide (0 < x) && decide (x + 1 < n)

/-- how many times the offset `x` is hashed (immediately before position `x`): every marker
entry with offset `x` when byte `x` is hashed; once when `x` is an excluded position strictly
inside the hashed span and some marker entry has offset `x`; otherwise not at all. -/
def markerCopies (n : Nat) (hr : List HashRange) (x : Nat) : Nat :=
  if included n hr x then (markersOf hr).count x
  else if (markersOf hr).contains x && between n hr x then 1 else 0

/-- **Specification of exclusion hashing**: walk the positions 0,1,…; at `x` emit the 8-byte
big-endian offset `markerCopies` times, then the data byte if it is not excluded. -/
def exclSpec (data : List UInt8) (hr : List HashRange) : List UInt8 :=
  (List.range data.length).flatMap fun x =>
    (List.replicate (markerCopies data.length hr x) (be64 x)).flatten ++
      (if included data.length hr x then byteAt data x else [])

/-! ### first / last remaining range -/

def firstLo : List (Nat × Nat) → Nat
  | [] => 0
  | r :: _ => r.1

def lastHi : List (Nat × Nat) → Nat → Nat
  | [], d => d
  | r :: rs, _ => lastHi rs r.2

theorem splitAll_head (starts : List Nat) (rs : List (Nat × Nat)) :
    (match (splitAll starts rs).head? with | some p => p.lo | none => 0) = firstLo rs := by
  cases rs with
  | nil => rfl
  | cons r rs =>
    obtain ⟨p, tl, hp, hlo⟩ := splitRun_head starts r.1 r.2
    show (match (splitRun starts r ++ splitAll starts rs).head? with | some p => p.lo | none => 0) = r.1
    have : splitRun starts r = p :: tl := hp
    rw [this]; simp [hlo]

theorem splitAll_last (starts : List Nat) : ∀ (rs : List (Nat × Nat)) (d : Nat),
    (match (splitAll starts rs).getLast? with | some p => p.hi | none => d) = lastHi rs d := by
  intro rs
  induction rs with
  | nil => intro d; rfl
  | cons r rs ih =>
    intro d
    obtain ⟨p, hp, hhi⟩ := splitRun_last starts r.1 r.2
    have hp' : (splitRun starts r).getLast? = some p := hp
    show (match (splitRun starts r ++ splitAll starts rs).getLast? with | some p => p.hi | none => d) =
      lastHi rs r.2
    rw [List.getLast?_append, ← ih r.2]
    cases hl : (splitAll starts rs).getLast? with
    | none => simp [hp', hhi]
    | some q => simp

theorem firstLo_spec {N : Nat} (rs : List (Nat × Nat)) (k : Nat) (h : WFR N k rs) (hne : rs ≠ []) :
    runCover rs (firstLo rs) = true ∧ ∀ q, runCover rs q = true → firstLo rs ≤ q := by
  cases rs with
  | nil => exact absurd rfl hne
  | cons r rs =>
    obtain ⟨h1, h2, h3, h4⟩ := h
    refine ⟨by simp [runCover, firstLo, h2], ?_⟩
    intro q hq
    simp only [runCover, List.any_cons, Bool.or_eq_true, Bool.and_eq_true] at hq
    show r.1 ≤ q
    rcases hq with hq | hq
    · exact of_decide_eq_true hq.1
    · have := WFR_cover rs (r.2 + 1) q h4 (by simpa [runCover] using hq); omega

theorem lastHi_spec {N : Nat} : ∀ (rs : List (Nat × Nat)) (k d : Nat), WFR N k rs → rs ≠ [] →
    runCover rs (lastHi rs d) = true ∧ ∀ q, runCover rs q = true → q ≤ lastHi rs d := by
  intro rs
  induction rs with
  | nil => intro k d _ hne; exact absurd rfl hne
  | cons r rs ih =>
    intro k d h _
    obtain ⟨h1, h2, h3, h4⟩ := h
    cases hrs : rs with
    | nil =>
      subst hrs
      refine ⟨by simp [runCover, lastHi, h2], ?_⟩
      intro q hq
      simp only [runCover, List.any_cons, List.any_nil, Bool.or_false, Bool.and_eq_true] at hq
      exact of_decide_eq_true hq.2
    | cons r2 rs2 =>
      have hne : rs ≠ [] := by rw [hrs]; exact List.cons_ne_nil _ _
      obtain ⟨a, b⟩ := ih (r.2 + 1) r.2 h4 hne
      rw [← hrs]
      refine ⟨?_, ?_⟩
      · show runCover (r :: rs) (lastHi rs r.2) = true
        simp only [runCover, List.any_cons, Bool.or_eq_true]
        right; simpa [runCover] using a
      · intro q hq
        show q ≤ lastHi rs r.2
        simp only [runCover, List.any_cons, Bool.or_eq_true, Bool.and_eq_true] at hq
        rcases hq with hq | hq
        · have hq2 := of_decide_eq_true hq.2
          have := WFR_cover rs (r.2 + 1) _ h4 a
          omega
        · exact b q (by simpa [runCover] using hq)

/-! ### `between` against the code's `before_any_range` / `after_any_range` -/

theorem any_range_iff (n : Nat) (p : Nat → Bool) :
    (List.range n).any p = true ↔ ∃ q, q < n ∧ p q = true := by
  simp [List.any_eq_true, List.mem_range]

theorem any_range'_iff (a n : Nat) (p : Nat → Bool) :
    (List.range' a n).any p = true ↔ ∃ q, a ≤ q ∧ q < a + n ∧ p q = true := by
  simp only [List.any_eq_true, List.mem_range'_1]
  constructor
  · rintro ⟨q, ⟨h1, h2⟩, h3⟩; exact ⟨q, h1, h2, h3⟩
  · rintro ⟨q, h1, h2, h3⟩; exact ⟨q, ⟨h1, h2⟩, h3⟩

theorem between_eq {N : Nat} (hr : List HashRange) (rs : List (Nat × Nat)) (hN : 1 ≤ N)
    (hw : WFR N 0 rs) (hc : ∀ x, runCover rs x = included N hr x) (x : Nat) :
    between N hr x = (decide (firstLo rs < x) && decide (x < lastHi rs (N - 1))) := by
  unfold between
  cases hrs : rs with
  | nil =>
    have hnone : (List.range N).any (included N hr) = false := by
      rw [Bool.eq_false_iff]
      intro h
      obtain ⟨q, _, hq⟩ := (any_range_iff N _).1 h
      rw [← hc q, hrs] at hq
      simp [runCover] at hq
    rw [hnone]
    show (if false = true then _ else decide (0 < x) && decide (x + 1 < N)) =
      (decide (0 < x) && decide (x < N - 1))
    rw [if_neg (by simp), Bool.eq_iff_iff]
    simp only [Bool.and_eq_true, decide_eq_true_eq]
    omega
  | cons r rs2 =>
    have hne : rs ≠ [] := by rw [hrs]; exact List.cons_ne_nil _ _
    obtain ⟨f1, f2⟩ := firstLo_spec rs 0 hw hne
    obtain ⟨l1, l2⟩ := lastHi_spec rs 0 (N - 1) hw hne
    have fN := (WFR_cover rs 0 _ hw f1).2
    have lN := (WFR_cover rs 0 _ hw l1).2
    have hsome : (List.range N).any (included N hr) = true := by
      rw [any_range_iff]
      exact ⟨firstLo rs, fN, by rw [← hc]; exact f1⟩
    rw [hsome, if_pos rfl, ← hrs]
    rw [Bool.eq_iff_iff]
    simp only [Bool.and_eq_true, decide_eq_true_eq, includedBelow, includedAbove, any_range_iff,
      any_range'_iff]
    constructor
    · rintro ⟨⟨q, hq1, hq2⟩, ⟨q', hq3, hq4, hq5⟩⟩
      rw [← hc] at hq2 hq5
      have := f2 q hq2
      have := l2 q' hq5
      omega
    · rintro ⟨h1, h2⟩
      refine ⟨⟨firstLo rs, h1, by rw [← hc]; exact f1⟩, ⟨lastHi rs (N - 1), by omega, by omega, by rw [← hc]; exact l1⟩⟩

/-! ### the exclusion branch reads as the specification -/

theorem excluded_perm {a b : List HashRange} (h : a.Perm b) (x : Nat) : excluded a x = excluded b x :=
  h.any_eq

theorem atPos_perm (data : List UInt8) {a b : List Piece} (h : a.Perm b) (x : Nat) :
    atPos data a x = atPos data b x := by
  unfold atPos markerCount dataCover
  rw [h.countP_eq, h.any_eq]

theorem dataCover_gap (before after : Nat) (starts : List Nat) (vec : List Piece) (x : Nat) :
    dataCover (gapList before after starts vec) x = false := by
  rw [Bool.eq_false_iff]
  intro h
  obtain ⟨g, hg, hc⟩ := List.any_eq_true.1 h
  obtain ⟨hm, _⟩ := gapList_mem before after starts vec g hg
  rw [hm] at hc
  simp [mk, Piece.covers] at hc

theorem splitAll_nil (rs : List (Nat × Nat)) :
    splitAll [] rs = rs.map fun r => (⟨r.1, r.2, false⟩ : Piece) := by
  induction rs with
  | nil => rfl
  | cons r rs ih =>
    show splitRun [] r ++ splitAll [] rs = _
    rw [ih]; rfl

/-- **Exclusion pieces = specification**, for the already sorted entry list `hr'`. -/
theorem exclPieces_spec (data : List UInt8) (hr hr' : List HashRange) (hp : hr'.Perm hr)
    (hN : 1 ≤ data.length) (rs : List (Nat × Nat)) (ms : List Nat)
    (h : exclLoop hr' [(0, data.length - 1)] [] = .ok (rs, ms)) :
    (exclPieces (data.length - 1) rs ms).flatMap (pieceBytes data) = exclSpec data hr ∧
      WF data.length 0 (exclPieces (data.length - 1) rs ms) := by
  have hw0 : WFR data.length 0 [(0, data.length - 1)] := by
    refine ⟨Nat.le_refl _, Nat.zero_le _, by simp; omega, trivial⟩
  obtain ⟨hw, hms, hcov⟩ := exclLoop_spec hr' _ _ _ _ h hw0
  simp only [List.nil_append] at hms
  have hc : ∀ x, runCover rs x = included data.length hr x := by
    intro x
    rw [hcov x, excluded_perm hp x]
    unfold included
    congr 1
    rw [Bool.eq_iff_iff]
    simp [runCover]; omega
  have hmperm : ms.Perm (markersOf hr) := by
    rw [hms]; exact hp.filterMap _
  -- the specification is the position-wise reading with these two facts
  have key : ∀ (L : List Piece), WF data.length 0 L →
      (∀ x, dataCover L x = included data.length hr x) →
      (∀ x, markerCount L x = markerCopies data.length hr x) →
      L.flatMap (pieceBytes data) = exclSpec data hr := by
    intro L hwf hd hm
    rw [flatMap_pieceBytes_eq data L 0 hwf, Nat.sub_zero, ← List.range_eq_range']
    unfold exclSpec
    apply flatMap_congr'
    intro x _
    simp only [atPos, hd x, hm x]
  unfold exclPieces
  by_cases hme : ms.isEmpty = true
  · rw [if_pos hme]
    have hnil : ms = [] := List.isEmpty_iff.1 hme
    have hmo : markersOf hr = [] := by
      have := hmperm; rw [hnil] at this; exact (List.nil_perm.1 this)
    rw [← splitAll_nil]
    have hwf := splitAll_WF (N := data.length) [] rs 0 hw
    refine ⟨key _ hwf ?_ ?_, hwf⟩
    · intro x; rw [splitAll_dataCover [] rs 0 x hw, hc]
    · intro x
      rw [splitAll_markerCount [] List.Pairwise.nil rs 0 x hw]
      simp [markerCopies, hmo]
  · rw [if_neg hme]
    -- names for the intermediate values
    have hsorted : (stableSort id ms).Pairwise (· ≤ ·) := by
      have := stableSort_sorted id ms; simpa using this
    have hsperm : (stableSort id ms).Perm (markersOf hr) := (stableSort_perm id ms).trans hmperm
    show (stableSort Piece.lo (remaining
        (match (splitAll (stableSort id ms) rs).head? with | some p => p.lo | none => 0)
        (match (splitAll (stableSort id ms) rs).getLast? with | some p => p.hi | none => data.length - 1)
        (stableSort id ms) (splitAll (stableSort id ms) rs))).flatMap (pieceBytes data) = _ ∧
      WF data.length 0 (stableSort Piece.lo (remaining
        (match (splitAll (stableSort id ms) rs).head? with | some p => p.lo | none => 0)
        (match (splitAll (stableSort id ms) rs).getLast? with | some p => p.hi | none => data.length - 1)
        (stableSort id ms) (splitAll (stableSort id ms) rs)))
    rw [splitAll_head, splitAll_last, remaining_eq]
    have hvwf := splitAll_WF (N := data.length) (stableSort id ms) rs 0 hw
    have hlast : lastHi rs (data.length - 1) < data.length := by
      cases hrs : rs with
      | nil => simp [lastHi]; omega
      | cons r rs2 =>
        have hne : rs ≠ [] := by rw [hrs]; exact List.cons_ne_nil _ _
        rw [← hrs]
        exact (WFR_cover rs 0 _ hw (lastHi_spec rs 0 _ hw hne).1).2
    have hfwf := stableSort_append_WF (N := data.length) _
      (gapList (firstLo rs) (lastHi rs (data.length - 1)) (stableSort id ms) (splitAll (stableSort id ms) rs))
      hvwf
      (fun g hg => by
        obtain ⟨a, b, c, d⟩ := gapList_mem _ _ _ _ g hg
        exact ⟨a, by omega, d⟩)
      (gapList_distinct _ _ _ _)
    refine ⟨key _ hfwf ?_ ?_, hfwf⟩
    · intro x
      have hperm := stableSort_perm Piece.lo (splitAll (stableSort id ms) rs ++
        gapList (firstLo rs) (lastHi rs (data.length - 1)) (stableSort id ms) (splitAll (stableSort id ms) rs))
      show dataCover _ x = _
      unfold dataCover
      rw [hperm.any_eq]
      show dataCover (_ ++ _) x = _
      rw [dataCover_append, dataCover_gap, Bool.or_false, splitAll_dataCover _ rs 0 x hw, hc]
    · intro x
      have hperm := stableSort_perm Piece.lo (splitAll (stableSort id ms) rs ++
        gapList (firstLo rs) (lastHi rs (data.length - 1)) (stableSort id ms) (splitAll (stableSort id ms) rs))
      show markerCount _ x = _
      unfold markerCount
      rw [hperm.countP_eq]
      show markerCount (_ ++ _) x = _
      rw [markerCount_append, splitAll_markerCount _ hsorted rs 0 x hw, gapList_markerCount,
        splitAll_anyContains _ rs 0 x hw, hc x]
      unfold markerCopies
      rw [between_eq hr rs hN hw hc x, hsperm.count_eq x]
      have hmem : x ∈ stableSort id ms ↔ x ∈ markersOf hr := hsperm.mem_iff
      by_cases hi : included data.length hr x = true
      · simp [hi]
      · have hi' : included data.length hr x = false := by simpa using hi
        simp only [hi', Bool.false_eq_true, if_false, Nat.zero_add, true_and]
        by_cases hm : x ∈ markersOf hr
        · have : (markersOf hr).contains x = true := by simpa using hm
          simp [hmem, hm, this]
        · have : (markersOf hr).contains x = false := by simpa using hm
          simp [hmem, hm, this]

end C2pa.C13
